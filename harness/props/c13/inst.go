package c13

import (
	"fmt"
	"io"
	"sort"
	"strconv"
	"strings"

	"github.com/ohler55/slip"

	"verif/lisp"
)

// instance is one fresh set of uniquely named slip packages.
type instance struct {
	cfg    *config
	scope  *slip.Scope
	orig   []string        // the names the packages were created with
	names  []string        // the names they have now (rename-package), the last one for a deleted package
	nick   []string        // the nickname each has now ("" none): rename-package gives one
	pkgs   []*slip.Package // nil: deleted
	ghosts []*slip.Package // package objects that were deleted (must not be referenced any more)
	ghostOf []int          // the slot each ghost belonged to
	saved  *slip.Package   // the home package (cl-user)
	feats  slip.Object
	errOut slip.Object
	errors []string
	// hidden: (package, kind, name) triples for which the history contains a
	// makunbound / fmakunbound / unintern of an INHERITED name: slip's documented
	// way of hiding an inherited name locally (differential oracle, S2)
	hidden map[string]bool
}

var instCounter int

// basePackages are used by every fresh package: cl, and cl-user because slip
// registers its condition classes in cl-user at start-up (a package that does
// not see them faults in ErrorNew on any error, which is not this property).
const baseUse = "(:use :cl-user"

// pkgOpts are additional defpackage options of one package: names of packages
// to use (@a style) and further option text.
type pkgOpts struct {
	use  string
	rest string
}

func newInstance(cfg *config, extraOpts map[string]pkgOpts) (in *instance, err *lisp.Err) {
	instCounter++
	in = &instance{cfg: cfg, scope: slip.NewScope(), saved: slip.CurrentPackage, hidden: map[string]bool{}, errOut: slip.ErrorOutput}
	slip.ErrorOutput = &slip.OutputStream{Writer: io.Discard} // Package.Define warns about redefinitions there
	in.scope.Let(slip.Symbol("*error-output*"), &slip.OutputStream{Writer: io.Discard})
	in.feats, _ = slip.CLPkg.Get("*features*")
	if l, ok := in.feats.(slip.List); ok {
		in.feats = append(slip.List(nil), l...)
	}
	for _, letter := range cfg.pk {
		name := fmt.Sprintf("c13x%d%s", instCounter, letter)
		in.names = append(in.names, name)
		in.orig = append(in.orig, name)
		in.nick = append(in.nick, "")
	}
	for i, name := range in.names {
		xo := extraOpts[cfg.pk[i]]
		src := fmt.Sprintf("(defpackage '%s %s%s)%s)", name, baseUse, in.subst(xo.use), in.subst(xo.rest))
		obj, e := lisp.EvalIn(in.scope, src)
		if e != nil {
			return in, e
		}
		p, ok := obj.(*slip.Package)
		if !ok {
			return in, &lisp.Err{Class: "harness", Message: "defpackage did not return a package"}
		}
		in.pkgs = append(in.pkgs, p)
	}
	return in, nil
}

// subst replaces @a @b @c by the real package names.
func (in *instance) subst(s string) string {
	for i, letter := range in.cfg.pk {
		s = strings.ReplaceAll(s, "@"+letter, in.names[i])
	}
	return s
}

// close removes the packages again and restores the globals.
func (in *instance) close() {
	defer func() { _ = recover() }()
	slip.ErrorOutput = in.errOut
	slip.CLPkg.Set("*package*", in.saved)
	all := append([]*slip.Package(nil), in.ghosts...)
	for _, p := range in.pkgs {
		if p != nil {
			all = append(all, p)
		}
	}
	for _, p := range all {
		p.Locked = false
		for _, u := range append([]*slip.Package(nil), p.Uses...) {
			func() {
				defer func() { _ = recover() }()
				p.Unuse(u)
			}()
		}
	}
	for _, p := range all {
		if p.Name != "" {
			slip.RemovePackage(p)
		}
	}
	if in.feats != nil {
		slip.CLPkg.Set("*features*", in.feats)
	}
}

func (in *instance) inPackage(i int) *lisp.Err {
	if in.pkgs[i] == nil {
		return &lisp.Err{Class: "deleted", Message: "the package was deleted"}
	}
	name := in.names[i]
	if in.nick[i] != "" {
		name = in.nick[i] // a renamed package is entered by its nickname
	}
	_, err := lisp.EvalIn(in.scope, "(in-package '"+name+")")
	if err == nil && slip.CurrentPackage != in.pkgs[i] {
		return &lisp.Err{Class: "harness", Message: "in-package did not switch *package*"}
	}
	return err
}

func (in *instance) goHome() { slip.CLPkg.Set("*package*", in.saved) }

// refresh brings the instance's view of its packages up to date after an
// operation: a deleted package becomes a ghost, a renamed one is addressed by
// its new name, a package created under the name of a deleted one takes its slot.
func (in *instance) refresh() {
	for i, p := range in.pkgs {
		if p != nil && p.Name == "" {
			in.ghosts = append(in.ghosts, p)
			in.ghostOf = append(in.ghostOf, i)
			in.pkgs[i] = nil
			in.names[i] = in.orig[i]
			in.nick[i] = ""
			p = nil
		}
		if p != nil {
			in.names[i] = p.Name
			in.nick[i] = ""
			if 0 < len(p.Nicknames) {
				in.nick[i] = p.Nicknames[0]
			}
			continue
		}
		if np := slip.FindPackage(in.orig[i]); np != nil && in.pkgIndex(np) == -2 {
			in.pkgs[i] = np
			in.names[i] = np.Name
		}
	}
}

// otherName is the name rename-package gives package i: the original name
// with an "r" appended, or the original name again.
func (in *instance) otherName(i int) string {
	if in.names[i] == in.orig[i] {
		return in.orig[i] + "r"
	}
	return in.orig[i]
}

// opSource is the Lisp text of an operation (evaluated after in-package).
func (in *instance) opSource(o op) string {
	switch o.kind {
	case "use":
		return "(use-package '" + in.names[o.argPk] + ")"
	case "unuse":
		return "(unuse-package '" + in.names[o.argPk] + ")"
	case "export":
		return "(export '" + o.arg + ")"
	case "unexport":
		return "(unexport '" + o.arg + ")"
	case "defvar":
		return fmt.Sprintf("(defvar %s %d)", o.arg, defvarVal(o.actor))
	case "setq":
		return fmt.Sprintf("(setq %s %d)", o.arg, setqVal(o.actor))
	case "defun":
		return fmt.Sprintf("(defun %s (x) %d)", o.arg, defunVal(o.actor))
	case "makunbound":
		return "(makunbound '" + o.arg + ")"
	case "fmakunbound":
		return "(fmakunbound '" + o.arg + ")"
	// further Lisp operations, evaluated in the package
	case "intern":
		return "(intern \"" + o.name + "\")"
	case "unintern":
		return "(unintern '" + o.name + ")"
	// evaluated in the home package, naming the package
	case "delpkg":
		return "(delete-package '" + in.names[o.actor] + ")"
	case "mkpkg":
		return "(defpackage '" + in.names[o.actor] + " " + baseUse + "))"
	case "makepkg":
		return "(make-package \"" + in.names[o.actor] + "\" :use '(cl-user))"
	case "mkpkgu":
		return "(defpackage '" + in.names[o.actor] + " " + baseUse + " " + in.names[o.argPk] + "))"
	case "mkpkgx":
		return "(defpackage '" + in.names[o.actor] + " " + baseUse + ") (:export " + o.name + "))"
	case "rename":
		// the new name and a nickname (the new name + "n")
		return "(rename-package '" + in.names[o.actor] + " '" + in.otherName(o.actor) + " '(" + in.otherName(o.actor) + "n))"
	case "lock":
		return "(lock-package '" + in.names[o.actor] + ")"
	case "unlock":
		return "(unlock-package '" + in.names[o.actor] + ")"
	case "xexport":
		return "(export '" + o.name + " '" + in.names[o.actor] + ")"
	case "xunexport":
		return "(unexport '" + o.name + " '" + in.names[o.actor] + ")"
	case "xuse":
		return "(use-package '" + in.names[o.argPk] + " '" + in.names[o.actor] + ")"
	case "xunuse":
		return "(unuse-package '" + in.names[o.argPk] + " '" + in.names[o.actor] + ")"
	case "xdefun":
		return fmt.Sprintf("(defun %s::%s (x) %d)", in.names[o.actor], o.name, o.val())
	case "xsetq":
		return fmt.Sprintf("(setq %s::%s %d)", in.names[o.actor], o.name, o.val())
	}
	return "(error \"bad op\")"
}

// goFn is a function defined through the Go extension interface.
type goFn struct {
	slip.Function
	val int
}

// Call returns the value that identifies the definition.
func (f *goFn) Call(s *slip.Scope, args slip.List, depth int) slip.Object { return slip.Fixnum(f.val) }

// applyGo performs an operation of the Go extension interface the way the
// init function of a plugin does it at run time.
func (in *instance) applyGo(o op) (err *lisp.Err) {
	defer func() {
		if rec := recover(); rec != nil {
			err = lisp.ErrFromRecovered(rec)
		}
	}()
	p := in.pkgs[o.actor]
	switch o.kind {
	case "godef", "godefp":
		name, val := o.name, o.val()
		creator := func(args slip.List) slip.Object {
			f := &goFn{Function: slip.Function{Name: name, Args: args}, val: val}
			f.Self = f
			return f
		}
		p.Define(creator, &slip.FuncDoc{
			Name:     name,
			Args:     []*slip.DocArg{{Name: "x", Type: "object"}},
			Return:   "fixnum",
			Kind:     slip.FunctionSymbol,
			NoExport: o.kind == "godefp",
		})
	case "goset":
		p.Set(o.name, slip.Fixnum(o.val()))
	case "goimport":
		if in.pkgs[o.argPk] == nil {
			return &lisp.Err{Class: "deleted", Message: "the package to import from was deleted"}
		}
		p.Import(in.pkgs[o.argPk], o.name)
	}
	return nil
}

// notePotentialHiding records, before an unbinding operation, that the name
// is at that moment an inherited one in the package (see instance.hidden).
func (in *instance) notePotentialHiding(o op) {
	var kinds []byte
	switch o.kind {
	case "makunbound":
		kinds = []byte{'v'}
	case "fmakunbound":
		kinds = []byte{'f'}
	case "unintern":
		kinds = []byte{'v', 'f'}
	default:
		return
	}
	p := in.pkgs[o.actor]
	if p == nil {
		return
	}
	for _, k := range kinds {
		foreign := false
		if k == 'v' {
			if vv := p.GetVarVal(o.name); vv != nil && vv.Pkg != p {
				foreign = true
			}
		} else if fi := p.GetFunc(o.name); fi != nil && fi.Pkg != p {
			foreign = true
		}
		if foreign {
			in.hidden[fmt.Sprintf("%d%c%s", o.actor, k, o.name)] = true
		}
	}
}

// errInapplicable: the operation cannot be attempted in this state (its
// package was deleted and it is not one that names the package).
var errInapplicable = &lisp.Err{Class: "inapplicable"}

// apply performs (in-package actor) + the operation, or the operation from
// the home package when it names the package it acts on.
func (in *instance) apply(o op) (err *lisp.Err) {
	defer in.refresh()
	defer in.goHome()
	if o.fromHome() {
		in.goHome()
		_, err = lisp.EvalIn(in.scope, in.opSource(o))
		return err
	}
	if in.pkgs[o.actor] == nil {
		return errInapplicable
	}
	if err = in.inPackage(o.actor); err != nil {
		return err
	}
	in.notePotentialHiding(o)
	if o.viaGo() {
		return in.applyGo(o)
	}
	_, err = lisp.EvalIn(in.scope, in.opSource(o))
	return err
}

// ---------------------------------------------------------------------------
// dump of the implementation state (public API: GetVarVal / GetFunc read the
// package tables directly; Uses / Users / Exports are public fields)
// ---------------------------------------------------------------------------

type entry struct {
	present bool
	cell    int
	home    int // index of the package the cell says it belongs to; -1 nil; -2 foreign
	exp     bool
	val     int // unboundVal, a value, or -9 for anything else
	extra   string
}

type pdump struct {
	vars, funcs map[string]entry
	uses, users []int // indexes; ghostRef+i: the deleted package object that had slot i
	foreignUses int
	exports     []string
	imports     map[string]int // name -> index of the package it was imported from (ghostRef+i, -2 foreign)
	deleted     bool
	locked      bool
	renamed     bool
}

const ghostRef = 100

type dump struct {
	cfg *config
	p   []pdump
}

func (in *instance) pkgIndex(p *slip.Package) int {
	if p == nil {
		return -1
	}
	for i, x := range in.pkgs {
		if x == p {
			return i
		}
	}
	for k, x := range in.ghosts {
		if x == p {
			return ghostRef + in.ghostOf[k]
		}
	}
	return -2
}

// homeIndex: the package a cell names as its home: an index, -1 none, -2 a
// package that is not one of the instance's, -3 a deleted package object.
func (in *instance) homeIndex(p *slip.Package) int {
	k := in.pkgIndex(p)
	if ghostRef <= k {
		return -3
	}
	return k
}

func (in *instance) dump() *dump {
	d := &dump{cfg: in.cfg, p: make([]pdump, len(in.pkgs))}
	vcells := map[*slip.VarVal]int{}
	fcells := map[*slip.FuncInfo]int{}
	names := in.cfg.names()
	for i, p := range in.pkgs {
		pd := pdump{vars: map[string]entry{}, funcs: map[string]entry{}, imports: map[string]int{}}
		if p == nil {
			pd.deleted = true
			d.p[i] = pd
			continue
		}
		pd.locked = p.Locked
		pd.renamed = in.names[i] != in.orig[i]
		for _, n := range names {
			if im := p.Imports[n]; im != nil {
				pd.imports[n] = in.pkgIndex(im.Pkg)
			}
		}
		for _, n := range names {
			if vv := p.GetVarVal(n); vv != nil {
				id, ok := vcells[vv]
				if !ok {
					id = len(vcells)
					vcells[vv] = id
				}
				e := entry{present: true, cell: id, home: in.homeIndex(vv.Pkg), exp: vv.Export, val: -9}
				switch tv := vv.Val.(type) {
				case slip.Fixnum:
					e.val = int(tv)
				default:
					if vv.Val == slip.Unbound {
						e.val = unboundVal
					} else {
						e.extra = lisp.Show(vv.Val)
					}
				}
				if vv.Const {
					e.extra += "/const"
				}
				if vv.Get != nil || vv.Set != nil {
					e.extra += "/accessor"
				}
				pd.vars[n] = e
			}
			if fi := p.GetFunc(n); fi != nil {
				id, ok := fcells[fi]
				if !ok {
					id = len(fcells)
					fcells[fi] = id
				}
				e := entry{present: true, cell: id, home: in.homeIndex(fi.Pkg), exp: fi.Export, val: -9}
				e.val = callInfo(in.scope, fi)
				e.extra = string(fi.Kind)
				pd.funcs[n] = e
			}
		}
		for _, u := range p.Uses {
			if k := in.pkgIndex(u); 0 <= k {
				pd.uses = append(pd.uses, k) // also a reference to a deleted package object
			} else {
				pd.foreignUses++
			}
		}
		for _, u := range p.Users {
			if k := in.pkgIndex(u); 0 <= k {
				pd.users = append(pd.users, k)
			} else {
				pd.users = append(pd.users, -2)
			}
		}
		// Exports: the names in the order of their first occurrence; a name that
		// is listed more than once is marked (the list is a multiset in slip: the
		// multiplicity is capped at "more than once" so that the state space of
		// an append-only list stays finite)
		cnt := map[string]int{}
		for _, x := range p.Exports {
			if cnt[x] == 0 {
				pd.exports = append(pd.exports, x)
			}
			cnt[x]++
		}
		for i, x := range pd.exports {
			if 1 < cnt[x] {
				pd.exports[i] = x + "+"
			}
		}
		d.p[i] = pd
	}
	return d
}

// callInfo calls the function cell directly (no name resolution involved).
func callInfo(scope *slip.Scope, fi *slip.FuncInfo) (val int) {
	val = -9
	defer func() {
		if rec := recover(); rec != nil {
			val = -8
		}
	}()
	if fi.Create == nil {
		return -7
	}
	obj := fi.Create(slip.List{slip.Fixnum(0)})
	if obj == nil {
		return -7
	}
	if n, ok := obj.Eval(scope, 0).(slip.Fixnum); ok {
		val = int(n)
	}
	return
}

// key is the canonical text of the dump: the BFS state key.
func (d *dump) key() string {
	var b strings.Builder
	b.WriteByte(d.cfg.tag)
	for i, p := range d.p {
		// Exports is hidden state (no lookup reads it, describe / load-form /
		// snapshot do, and an operation may): two states that differ only there
		// are different states and both are expanded
		if p.deleted {
			fmt.Fprintf(&b, "|%s deleted", d.cfg.pk[i])
			continue
		}
		fmt.Fprintf(&b, "|%s uses=%v+%d users=%v exports=%v", d.cfg.pk[i], p.uses, p.foreignUses, p.users, p.exports)
		if p.locked {
			b.WriteString(" locked")
		}
		if p.renamed {
			b.WriteString(" renamed")
		}
		for _, n := range d.cfg.names() {
			if q, ok := p.imports[n]; ok {
				fmt.Fprintf(&b, " import:%s<-%d", n, q)
			}
		}
		for _, n := range d.cfg.names() {
			if e, ok := p.vars[n]; ok {
				fmt.Fprintf(&b, " v:%s=#%d@%d/%v/%d%s", n, e.cell, e.home, e.exp, e.val, e.extra)
			}
			if e, ok := p.funcs[n]; ok {
				fmt.Fprintf(&b, " f:%s=#%d@%d/%v/%d%s", n, e.cell, e.home, e.exp, e.val, e.extra)
			}
		}
	}
	return b.String()
}

// abstract maps the implementation's tables to the graph. A table entry of
// package X is an *inherited copy* when a directly used package holds the same
// exported cell under the same name and that entry is itself grounded (a
// definition, or inherited from one); every other entry is a definition X has.
// Grounding is computed as a least fixpoint so that mutual use is handled:
//  1. entries that no used package could explain are definitions;
//  2. entries explained by a grounded entry are inherited copies (repeat);
//  3. among the remaining ones (cycles) the entry whose cell names X as its
//     home package is the definition, then 2 again; what still remains are
//     definitions.
//
// A cell held by its home package H and, unexplained, by another package Y is
// ambiguous: either Y had the definition and H redefined it through inheritance
// (slip then renames the cell's home), or H has it and Y kept a copy that no
// use edge explains any more. abstract(false) reads it the first way,
// abstract(true) the second way (Y then has no definition and Y's own slots,
// returned in leftover, are not judged); the oracle reports only what is wrong
// under both readings.
// Function entries that slip's own lookup rule hides from X (not exported and
// belonging elsewhere) are kept as hidden: only X::n reaches them.
// aliased lists (package, kind, name) triples whose cell is a "definition" of
// more than one package, is hidden, or is an orphaned copy of a cell its home
// package no longer holds (all possible only after an earlier defect): the
// oracle does not judge those slots (degraded mode, S9).
func (d *dump) abstract(homeWins bool) (g *graph, aliased, leftover map[string]bool) {
	g = newGraph(d.cfg)
	aliased = map[string]bool{}
	leftover = map[string]bool{}
	owners := map[string][]int{}
	var ambiguous []string
	for x, p := range d.p {
		g.p[x].deleted, g.p[x].locked = p.deleted, p.locked
		for _, u := range p.uses {
			if u < len(d.p) && !d.p[u].deleted { // a reference to a deleted package object is judged by noGhostRefs
				g.p[x].uses = append(g.p[x].uses, u)
			}
		}
	}
	for _, kind := range []byte{'v', 'f'} {
		tabOf := func(x int) map[string]entry {
			if kind == 'f' {
				return d.p[x].funcs
			}
			return d.p[x].vars
		}
		for _, n := range d.cfg.names() {
			const (
				unknown = iota
				own
				inherited
			)
			state := make([]int, len(d.p))
			present := make([]bool, len(d.p))
			var ents []entry
			for x := range d.p {
				e, ok := tabOf(x)[n]
				ents = append(ents, e)
				present[x] = ok
			}
			explainers := func(x int) (out []int) {
				for _, y := range d.p[x].uses {
					if present[y] && ents[y].cell == ents[x].cell && ents[x].exp {
						out = append(out, y)
					}
				}
				return
			}
			propagate := func() {
				for changed := true; changed; {
					changed = false
					for x := range d.p {
						if !present[x] || state[x] != unknown {
							continue
						}
						for _, y := range explainers(x) {
							if state[y] != unknown {
								state[x] = inherited
								changed = true
								break
							}
						}
					}
				}
			}
			// an entry that is not the package's own, for which the package has
			// an import record and which the package it was imported from still
			// holds, is the imported name. When the source has dropped or replaced
			// the definition since, the importer is left with what it imported:
			// the definition object is then its own (Common Lisp: an imported
			// symbol stays present in the importer when its home package uninterns it)
			const imported = 3
			orphan := make([]bool, len(d.p))
			for x := range d.p {
				q, rec := d.p[x].imports[n]
				if rec && present[x] && ents[x].home != x && 0 <= q && q < len(d.p) {
					if present[q] && ents[q].cell == ents[x].cell {
						state[x] = imported
						g.p[x].imports[n] = &imp{from: q, kind: kind}
					} else {
						state[x] = own
						orphan[x] = true
					}
				}
			}
			if homeWins {
				// second reading of an ambiguous table: the package a cell
				// names as its home has the definition whatever else explains it
				for x := range d.p {
					if present[x] && ents[x].home == x {
						state[x] = own
					}
				}
				propagate()
			}
			for x := range d.p {
				if present[x] && state[x] == unknown && len(explainers(x)) == 0 {
					state[x] = own
				}
			}
			propagate()
			for x := range d.p {
				if present[x] && state[x] == unknown && ents[x].home == x {
					state[x] = own
				}
			}
			propagate()
			for x := range d.p {
				if present[x] && state[x] == unknown {
					state[x] = own
				}
			}
			for x := range d.p {
				if !present[x] || state[x] != own {
					continue
				}
				e := ents[x]
				if h := e.home; homeWins && 0 <= h && h != x && present[h] && ents[h].cell == e.cell {
					// second reading: the home package has the definition, this
					// is a left-over copy: x has no definition, its slots are not judged
					leftover[fmt.Sprintf("%d%c%s", x, kind, n)] = true
					continue
				}
				df := &def{val: e.val, exp: e.exp, cell: e.cell}
				if kind == 'f' && !e.exp && e.home != x && !orphan[x] {
					df.hidden = true
				}
				if orphan[x] && 0 <= e.home {
					df.orphanOf = e.home + 1
				}
				if h := e.home; 0 <= h && h != x && !orphan[x] {
					if !present[h] || ents[h].cell != e.cell {
						df.stale = true
					} else if reaches(d, x, h) {
						// x holds, as a definition, a cell whose home package h
						// still holds it, and x (indirectly) uses h: a copy that
						// travelled along a use chain which no longer explains
						// it. Whether x or h "has" the definition is not
						// decidable from the tables: not judged.
						df.stale = true
						ambiguous = append(ambiguous, fmt.Sprintf("%d%c%s", h, kind, n))
					}
				}
				g.tab(x, kind)[n] = df
				ck := fmt.Sprintf("%c%d", kind, e.cell)
				owners[ck] = append(owners[ck], x)
			}
		}
	}
	// import records the tables hold nothing for
	for x := range d.p {
		for n, q := range d.p[x].imports {
			if g.p[x].imports[n] == nil && 0 <= q && q < len(d.p) {
				g.p[x].imports[n] = &imp{from: q}
			}
		}
	}
	for _, k := range ambiguous {
		aliased[k] = true
	}
	for x := range d.p {
		for _, kind := range []byte{'v', 'f'} {
			for n, df := range g.tab(x, kind) {
				if 1 < len(owners[fmt.Sprintf("%c%d", kind, df.cell)]) || df.hidden || df.stale {
					aliased[fmt.Sprintf("%d%c%s", x, kind, n)] = true
				}
			}
		}
	}
	return
}

// reaches: does package x use package h, directly or through other packages?
func reaches(d *dump, x, h int) bool {
	seen := map[int]bool{x: true}
	queue := []int{x}
	for 0 < len(queue) {
		q := queue[0]
		queue = queue[1:]
		for _, u := range d.p[q].uses {
			if u == h {
				return true
			}
			if len(d.p) <= u {
				continue
			}
			if !seen[u] {
				seen[u] = true
				queue = append(queue, u)
			}
		}
	}
	return false
}

// ---------------------------------------------------------------------------
// probes
// ---------------------------------------------------------------------------

// probeSource returns the Lisp text of one slot's probe.
func (in *instance) probeSource(sl slot) string {
	n := sl.name
	switch sl.form {
	case "ext":
		n = in.names[sl.q] + ":" + n
	case "int":
		if in.nick[sl.q] != "" {
			n = in.nick[sl.q] + "::" + n // p::n through the nickname of a renamed package
		} else {
			n = in.names[sl.q] + "::" + n
		}
	case "uses":
		return "(package-use-list (find-package '" + in.names[sl.c] + "))"
	case "users":
		return "(package-used-by-list (find-package '" + in.names[sl.c] + "))"
	}
	if sl.form != "unq" {
		if sl.kind == 'v' {
			return n
		}
		return "(" + n + " 0)"
	}
	switch sl.probe {
	case "boundp":
		return "(boundp '" + n + ")"
	case "eval":
		return n
	case "symval":
		return "(symbol-value '" + n + ")"
	case "fboundp":
		return "(fboundp '" + n + ")"
	case "call":
		return "(" + n + " 0)"
	case "funcall":
		return "(funcall '" + n + " 0)"
	}
	return "(error \"bad probe\")"
}

// observation of one slot: a value ("10"), "U" (unbound / undefined / any
// Lisp-level error), "T"/"N" (predicates), "(ab)" (package lists), or
// "F:<message>" for a Go runtime fault, "?<text>" for anything else.
type observation struct {
	val   string
	class string // error class when val is "U" or "F:"
}

func (in *instance) classify(obj slip.Object, err *lisp.Err, sl slot) observation {
	if err != nil {
		if err.GoFault && in.pkgs[sl.q] == nil && strings.HasSuffix(err.Message, "is not defined.") {
			// a qualified name whose package does not exist: slip panics with a Go
			// string instead of a condition (scope.go UnpackName) - how an error
			// is raised is C09's subject, here it is "does not resolve"
			return observation{val: "U", class: "go-panic-string"}
		}
		if err.GoFault {
			return observation{val: "F:" + err.Message, class: err.Class}
		}
		return observation{val: "U", class: err.Class}
	}
	switch sl.form {
	case "uses", "users":
		var idx []string
		if l, ok := obj.(slip.List); ok {
			for _, e := range l {
				if p, ok := e.(*slip.Package); ok {
					if k := in.pkgIndex(p); ghostRef <= k {
						idx = append(idx, "!"+in.cfg.pk[k-ghostRef]) // a deleted package object
					} else if 0 <= k {
						idx = append(idx, in.cfg.pk[k])
					}
				}
			}
		} else if obj != nil {
			return observation{val: "?" + lisp.Show(obj)}
		}
		sort.Strings(idx)
		return observation{val: "(" + strings.Join(idx, "") + ")"}
	}
	switch tv := obj.(type) {
	case nil:
		return observation{val: "N"}
	case slip.Fixnum:
		return observation{val: strconv.Itoa(int(tv))}
	case slip.List:
		if len(tv) == 0 {
			return observation{val: "N"}
		}
	}
	if obj == slip.True {
		return observation{val: "T"}
	}
	if obj == slip.Unbound {
		return observation{val: "U", class: "unbound-marker"}
	}
	return observation{val: "?" + lisp.Show(obj)}
}

// probeAll evaluates every probe of the configuration: for each current
// package one read of all the forms, then one evaluation per form.
func (in *instance) probeAll(slots []slot) []observation {
	obs := make([]observation, len(slots))
	for ci := range in.pkgs {
		var idx []int
		var src strings.Builder
		for i, sl := range slots {
			if sl.c == ci {
				idx = append(idx, i)
				src.WriteString(in.probeSource(sl))
				src.WriteByte('\n')
			}
		}
		if in.pkgs[ci] == nil {
			for _, i := range idx {
				obs[i] = observation{val: "D"} // deleted: there is no such current package
			}
			continue
		}
		if err := in.inPackage(ci); err != nil {
			for _, i := range idx {
				obs[i] = observation{val: "F:in-package failed: " + err.Message}
			}
			continue
		}
		code, rerr := readAll(src.String(), in.scope)
		if rerr != nil || len(code) != len(idx) {
			// fall back to one read per form
			for _, i := range idx {
				obj, err := lisp.EvalIn(in.scope, in.probeSource(slots[i]))
				obs[i] = in.classify(obj, err, slots[i])
			}
			continue
		}
		for k, i := range idx {
			obj, err := evalOne(in.scope, code[k])
			obs[i] = in.classify(obj, err, slots[i])
		}
	}
	in.goHome()
	return obs
}

func readAll(src string, scope *slip.Scope) (code slip.Code, err *lisp.Err) {
	defer func() {
		if rec := recover(); rec != nil {
			err = lisp.ErrFromRecovered(rec)
		}
	}()
	code = slip.ReadString(src, scope)
	return
}

func evalOne(scope *slip.Scope, form slip.Object) (result slip.Object, err *lisp.Err) {
	defer func() {
		if rec := recover(); rec != nil {
			err = lisp.ErrFromRecovered(rec)
			result = nil
		}
	}()
	if form != nil {
		result = form.Eval(scope, 0)
	}
	return
}
