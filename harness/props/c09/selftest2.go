package c09

// selftest2.go: mutated references for the families added in the sixth round (appended to stMutants).

import (
	"strings"

	"github.com/ohler55/slip"

	"verif/engine"
)

func stringArg(s *slip.Scope, depth int, args slip.List, i int, use string) string {
	str, ok := args[i].(slip.String)
	if !ok {
		slip.TypePanic(s, depth, use, args[i], "string")
	}
	return string(str)
}

// miniMake: (m n) makes a list of n elements; guarded says whether n is bounded.
func miniMake(guarded bool) func(f *stFunc) func(*slip.Scope, slip.List, int) slip.Object {
	return func(f *stFunc) func(*slip.Scope, slip.List, int) slip.Object {
		return func(s *slip.Scope, args slip.List, depth int) slip.Object {
			slip.CheckArgCount(s, depth, f, args, 1, 1)
			n := fixnumArg(s, depth, args, 0, "n")
			if n < 0 || guarded && slip.ArrayMaxDimension < n {
				slip.TypePanic(s, depth, "n", args[0], "size")
			}
			return make(slip.List, n)
		}
	}
}

// miniSub: (m string start end); guarded says whether start <= end is checked.
func miniSub(guarded bool) func(f *stFunc) func(*slip.Scope, slip.List, int) slip.Object {
	return func(f *stFunc) func(*slip.Scope, slip.List, int) slip.Object {
		return func(s *slip.Scope, args slip.List, depth int) slip.Object {
			slip.CheckArgCount(s, depth, f, args, 3, 3)
			str := stringArg(s, depth, args, 0, "string")
			start, end := 0, len(str)
			if args[1] != nil {
				start = fixnumArg(s, depth, args, 1, "start")
			}
			if args[2] != nil {
				end = fixnumArg(s, depth, args, 2, "end")
			}
			if start < 0 || len(str) < start || end < 0 || len(str) < end || guarded && end < start {
				slip.ErrorPanic(s, depth, "bad range")
			}
			return slip.String(str[start:end])
		}
	}
}

// miniSharp: reads #<digits>A as an array rank; guarded says whether the digits are kept from overflowing.
func miniSharp(guarded bool) func(f *stFunc) func(*slip.Scope, slip.List, int) slip.Object {
	return func(f *stFunc) func(*slip.Scope, slip.List, int) slip.Object {
		return func(s *slip.Scope, args slip.List, depth int) slip.Object {
			slip.CheckArgCount(s, depth, f, args, 1, 1)
			src := stringArg(s, depth, args, 0, "text")
			n := 0
			for i := 0; i < len(src); i++ {
				c := src[i]
				switch {
				case i == 0 && c == '#':
				case 0 < i && '0' <= c && c <= '9':
					if !guarded || n <= 1024 {
						n = n*10 + int(c-'0')
					}
				case 0 < i && (c == 'A' || c == 'a'):
					if 1024 < n {
						slip.ErrorPanic(s, depth, "rank too large")
					}
					return slip.Fixnum(len(make([]int, n)))
				default:
					slip.ErrorPanic(s, depth, "not an array")
				}
			}
			return nil
		}
	}
}

// miniWalk: counts the atoms of a tree; guarded says whether the depth is bounded.
func miniWalk(guarded bool) func(f *stFunc) func(*slip.Scope, slip.List, int) slip.Object {
	return func(f *stFunc) func(*slip.Scope, slip.List, int) slip.Object {
		return func(s *slip.Scope, args slip.List, depth int) slip.Object {
			slip.CheckArgCount(s, depth, f, args, 1, 1)
			var walk func(o slip.Object, level int) int
			walk = func(o slip.Object, level int) (n int) {
				if guarded && 100000 < level {
					slip.ErrorPanic(s, depth, "nested too deep")
				}
				list, ok := o.(slip.List)
				if !ok {
					return 1
				}
				for _, e := range list {
					n += walk(e, level+1)
				}
				return
			}
			return slip.Fixnum(walk(args[0], 0))
		}
	}
}

func init() {
	stMutants = append(stMutants,
		stMutant{"m-hashkey-narrow", "f", "unhashable", "hashability guard that knows only some of the unhashable kinds", func(f *stFunc) func(*slip.Scope, slip.List, int) slip.Object {
			return func(s *slip.Scope, args slip.List, depth int) slip.Object {
				slip.CheckArgCount(s, depth, f, args, 1, 2)
				switch args[0].(type) {
				case slip.List, slip.Octets, *slip.HashTable, slip.Values:
					slip.TypePanic(s, depth, "key", args[0], "hashable object")
				}
				m := map[slip.Object]int{}
				m[args[0]]++
				return slip.Fixnum(len(m))
			}
		}},
		stMutant{"m-size-ok", "z", "", "reference: a size argument is bounded by array-dimension-limit", miniMake(true)},
		stMutant{"m-size", "z", "unbounded|makeslice", "size argument handed to make() without an upper bound", miniMake(false)},
		stMutant{"m-range-ok", "g", "", "reference: start <= end is checked", miniSub(true)},
		stMutant{"m-range", "g", "slice-bounds", "start and end are checked one by one but not against each other", miniSub(false)},
		stMutant{"m-sharp-ok", "d", "", "reference: the digits after # can not overflow", miniSharp(true)},
		stMutant{"m-sharp", "d", "makeslice", "the number after # is accumulated without an overflow guard", miniSharp(false)},
		stMutant{"m-walk-ok", "e", "", "reference: a recursive walk gives up beyond a depth", miniWalk(true)},
		stMutant{"m-walk", "e", "unbounded", "a recursive walk without a depth guard", miniWalk(false)},
	)
}

// selftestFamily runs the mutant through the generator and executor of its (new) family.
func selftestFamily(m *stMutant, faults map[string]int) (ncases int) {
	fn := selftestPkgName + ":" + m.name
	run := func(r engine.Result) {
		ncases++
		collectFaults(&r, faults)
	}
	switch m.family {
	case "z":
		for _, v := range sizeValues {
			if v.name != "2" && v.name != "2^31" && v.name != "2^62" {
				continue
			}
			run(execSize("z|" + m.name + "|n|" + v.name + "|(length (" + fn + " $))"))
		}
	case "g":
		for _, s := range rangeValues {
			for _, e := range rangeValues {
				run(execRange("g|" + m.name + "|-|" + s + "|" + e + "|(" + fn + ` "abcab" $s $e)`))
			}
		}
	case "d":
		for _, n := range tokenSizes(engine.Quick) {
			if 40 < n {
				continue
			}
			text, _ := deepText("sharp-n-A", n, "token")
			run(selftestRead(m.name, []byte(text)))
		}
	case "e":
		for _, d := range []string{"self-car", "nested-list:3000"} {
			run(execDeepEval("e|" + d + "|selftest:" + m.name))
		}
	case "pl", "sf", "st":
		ncases = selftestNewFamily(m, faults)
	}
	return
}

// selftestDeepOp: the hidden operations `selftest:<mutant>` of family e.
func selftestDeepOp(name string) *deepOp {
	if !strings.HasPrefix(name, "selftest:") {
		return nil
	}
	return &deepOp{name, "(" + selftestPkgName + ":" + strings.TrimPrefix(name, "selftest:") + " x)"}
}
