package c15

import (
	"math/big"
	"strings"
)

// English cardinal / ordinal speller and Roman writer, written from the
// usual definitions (short scale), independent of slip's tables.

var smallWords = []string{"zero", "one", "two", "three", "four", "five", "six", "seven", "eight", "nine", "ten",
	"eleven", "twelve", "thirteen", "fourteen", "fifteen", "sixteen", "seventeen", "eighteen", "nineteen"}

var tensWords = []string{"", "", "twenty", "thirty", "forty", "fifty", "sixty", "seventy", "eighty", "ninety"}

// scaleWords[k] names 10^(3k).
var scaleWords = []string{"", "thousand", "million", "billion", "trillion", "quadrillion", "quintillion",
	"sextillion", "septillion", "octillion", "nonillion", "decillion", "undecillion", "duodecillion",
	"tredecillion", "quattuordecillion", "quindecillion", "sexdecillion", "septendecillion", "octodecillion",
	"novemdecillion", "vigintillion"}

// englishMutation lets the self-test plant a bug in the reference speller.
type englishMutation int

const (
	mutNone         englishMutation = iota
	mutTeensShifted                 // teens table shifted by one
	mutOrdinalTens                  // "twenty" not turned into "twentieth"
)

// below1000 appends the words of 1..999.
func below1000(n int, hyphen bool, mut englishMutation) []string {
	var w []string
	if 100 <= n {
		w = append(w, smallWords[n/100], "hundred")
		n %= 100
	}
	switch {
	case n == 0:
	case n < 20:
		if mut == mutTeensShifted && 10 <= n {
			w = append(w, smallWords[10+(n-10+1)%10])
		} else {
			w = append(w, smallWords[n])
		}
	default:
		t := tensWords[n/10]
		if n%10 == 0 {
			w = append(w, t)
		} else if hyphen {
			w = append(w, t+"-"+smallWords[n%10])
		} else {
			w = append(w, t, smallWords[n%10])
		}
	}
	return w
}

// cardinalWords spells |n| (n != 0). ok is false when the number is too large.
func cardinalWords(n *big.Int, hyphen bool, mut englishMutation) (words []string, ok bool) {
	abs := new(big.Int).Abs(n)
	thousand := big.NewInt(1000)
	var groups []int
	for abs.Sign() != 0 {
		var rem big.Int
		abs.QuoRem(abs, thousand, &rem)
		groups = append(groups, int(rem.Int64()))
	}
	if len(scaleWords) < len(groups) {
		return nil, false
	}
	for k := len(groups) - 1; 0 <= k; k-- {
		if groups[k] == 0 {
			continue
		}
		words = append(words, below1000(groups[k], hyphen, mut)...)
		if 0 < k {
			words = append(words, scaleWords[k])
		}
	}
	return words, true
}

var irregularOrdinals = map[string]string{
	"one": "first", "two": "second", "three": "third", "five": "fifth", "eight": "eighth", "nine": "ninth", "twelve": "twelfth",
}

func ordinalOf(word string, mut englishMutation) string {
	if i := strings.LastIndexByte(word, '-'); 0 <= i {
		return word[:i+1] + ordinalOf(word[i+1:], mut)
	}
	if o, has := irregularOrdinals[word]; has {
		return o
	}
	if strings.HasSuffix(word, "y") {
		if mut == mutOrdinalTens {
			return word
		}
		return word[:len(word)-1] + "ieth"
	}
	return word + "th"
}

// spellEnglish renders ~R (ordinal false) or ~:R (ordinal true).
func spellEnglish(n *big.Int, ordinal, hyphen bool, negWord string, mut englishMutation) (string, bool) {
	if n.Sign() == 0 {
		if ordinal {
			return "zeroth", true
		}
		return "zero", true
	}
	words, ok := cardinalWords(n, hyphen, mut)
	if !ok {
		return "", false
	}
	if ordinal {
		words[len(words)-1] = ordinalOf(words[len(words)-1], mut)
	}
	if n.Sign() < 0 {
		words = append([]string{negWord}, words...)
	}
	return strings.Join(words, " "), true
}

// roman renders 1..3999 (new style) or 1..4999 (old style, additive).
func roman(n int, old bool) string {
	type rv struct {
		v int
		s string
	}
	var table []rv
	if old {
		table = []rv{{1000, "M"}, {500, "D"}, {100, "C"}, {50, "L"}, {10, "X"}, {5, "V"}, {1, "I"}}
	} else {
		table = []rv{{1000, "M"}, {900, "CM"}, {500, "D"}, {400, "CD"}, {100, "C"}, {90, "XC"}, {50, "L"}, {40, "XL"},
			{10, "X"}, {9, "IX"}, {5, "V"}, {4, "IV"}, {1, "I"}}
	}
	var b strings.Builder
	for _, e := range table {
		for e.v <= n {
			b.WriteString(e.s)
			n -= e.v
		}
	}
	return b.String()
}
