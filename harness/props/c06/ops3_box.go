package c06

// box group: a list kept in a container ACROSS steps - h: the value of key 1 of a hash table, o: the slot s of a
// standard-object, k: a variable closed over by a lambda - and the place operations on it. The containers are extra
// locations of the pool: every operation of the alphabet is judged against them too (a list stored in a hash table
// must not change when the variable it came from is extended, unless it is the same list by the language rules).
//
// site group: the same call site evaluated more than once. A producer sits in the body of a function (defun) or of a
// lambda held in a variable, defined ONCE per history and called into different pool variables; the results must be
// independent of each other, and a call made after one result was modified in place must still return the original
// value. Builders whose result would share a quoted constant by the language rules ((cons 1 '(2 3)): the tail IS the
// constant) are only used inside single-step compound forms that modify the freshly built part alone.

func init() {
	same := func(s, _ []int64, _ int64) []int64 { return s }
	push := func(s, _ []int64, n int64) []int64 { return cat(sl(n), s) }
	pop := func(s, _ []int64, _ int64) []int64 { return from(s, 1) }
	t1 := func([]int64) int { return 1 }
	type box struct {
		loc                              string
		store, load, push, pop, cdr, set string
		extra                            map[string]string
	}
	for _, b := range []box{
		{"h", "(setf (gethash 1 h) {S})", "(values (gethash 1 h))", "(setf (gethash 1 h) (cons {N} (gethash 1 h)))", "", "(setf (gethash 1 h) (cdr (gethash 1 h)))",
			"(setf (car (values (gethash 1 h))) {N})", nil},
		{"o", "(setf (slot-value o 's) {S})", "(slot-value o 's)", "(push {N} (slot-value o 's))", "(pop (slot-value o 's))", "(with-slots (s) o (setq s (cdr s)))",
			"(with-slots (s) o (setf (car s) {N}))", map[string]string{"push-with-slots": "(with-slots (s) o (push {N} s))", "pushnew-slot": "(pushnew {N} (slot-value o 's))"}},
		{"k", "(funcall k 1 {S})", "(funcall k 0 nil)", "(funcall k 2 {N})", "(funcall k 3 nil)", "(funcall k 4 nil)", "", nil},
	} {
		l := b.loc
		addFam(&fam{name: "store-" + l, fn: "store-" + l, group: "box", form: b.store, bare: true, share: shareS, minS: 1, pats: l + "a " + l + "b " + l + "c", want: same, tail: all0})
		addFam(&fam{name: "load-" + l, fn: "load-" + l, group: "box", form: b.load, share: shareS, minS: 1, pats: "a" + l + " b" + l + " c" + l, want: same, tail: all0})
		addFam(&fam{name: "push-" + l, fn: "push", group: "box", form: b.push, bare: true, dstS: true, share: shareS, ext: true, minS: 1, pats: l + l, want: push, tail: all0})
		if b.pop != "" {
			addFam(&fam{name: "pop-" + l, fn: "pop", group: "box", form: b.pop, bare: true, dstS: true, share: shareS, minS: 1, pats: l + l, want: pop, tail: t1})
		}
		addFam(&fam{name: "cdr-" + l, fn: "cdr", group: "box", form: b.cdr, bare: true, dstS: true, share: shareS, minS: 1, pats: l + l, want: pop, tail: t1})
		if b.set != "" {
			addFam(&fam{name: "setf-car-" + l, fn: "setf-car", group: "box", form: b.set, bare: true, share: shareKeep, destr: true, minS: 1, pats: "-" + l,
				wantS: func(s []int64, n int64) []int64 { return replaced(s, 0, n) }})
		}
		for name, form := range b.extra {
			addFam(&fam{name: name, fn: "push", group: "box", form: form, bare: true, dstS: true, share: shareS, ext: true, minS: 1, pats: l + l, want: push, tail: all0})
		}
	}
	// a flavors instance variable (single step: set, push through the send place, read back)
	addFam(&fam{name: "via-flavor", fn: "send", group: "box", site: &siteDef{name: "c06-flavor", isFn: true, once: true,
		def: "(defflavor c06-flavor ((s nil)) () :gettable-instance-variables :settable-instance-variables)"},
		form: "(let ((f (make-instance 'c06-flavor))) (send f :set-s {S}) (send f :s))", share: shareS, minS: 1, pats: patProd4, want: same, tail: all0})
	addFam(&fam{name: "push-flavor", fn: "push", group: "box", site: &siteDef{name: "c06-flavor", isFn: true, once: true,
		def: "(defflavor c06-flavor ((s nil)) () :gettable-instance-variables :settable-instance-variables)"},
		form: "(let ((f (make-instance 'c06-flavor))) (send f :set-s {S}) (push {N} (send f :s)) (send f :s))", share: shareS, minS: 1, pats: patProd4, want: push, tail: all0})
	addFam(&fam{name: "initarg-slot", fn: "make-instance", group: "box", form: "(slot-value (make-instance 'c06-box :s {S}) 's)", share: shareS, minS: 1, pats: patProd4, want: same, tail: all0,
		site: &siteDef{name: "c06-box-class", isFn: true, once: true, def: "(c06-define-box-class)"}})

	// ------------------------------------------------------------------------------------------------ site group
	k123 := func(_, _ []int64, _ int64) []int64 { return sl(1, 2, 3) }
	type prod struct{ name, body string }
	for _, p := range []prod{
		{"list", "(list 1 2 3)"},
		{"list*", "(list* 1 2 3 nil)"},
		{"cons", "(cons 1 (cons 2 (cons 3 nil)))"},
		{"append", "(append '(1 2) '(3) nil)"},
		{"copy-list", "(copy-list '(1 2 3))"},
		{"reverse", "(reverse '(3 2 1))"},
		{"mapcar", "(mapcar #'1+ '(0 1 2))"},
		{"remove", "(remove 0 '(1 2 3 0))"},
		{"subseq", "(subseq '(0 1 2 3) 1)"},
		{"list-nested-arg", "(car (list (list 1 2 3) 0))"},
		{"backquote", "`(1 ,(+ 1 1) 3)"},
	} {
		for _, kind := range []string{"defun", "lambda"} {
			name := "k-" + p.name + "-" + kind
			sd := &siteDef{name: "c06-" + name}
			if kind == "defun" {
				sd.isFn = true
				sd.def = "(defun {F} () " + p.body + ")"
			} else {
				sd.def = "(setq {F} (lambda () " + p.body + "))"
			}
			addFam(&fam{name: name, fn: "site-" + p.name, group: "site", site: sd, form: "({F})", share: shareNone, pats: patDst, want: k123})
		}
	}
	// the producer nested in an evaluated argument inside a function body, and in a function that keeps what it built
	addFam(&fam{name: "k-push-arg-defun", fn: "site-list", group: "site", site: &siteDef{name: "c06-k-push-arg", isFn: true,
		def: "(defun {F} (acc) (push (list 1 2 3) acc) (car acc))"}, form: "({F} nil)", share: shareNone, pats: patDst, want: k123})
	addFam(&fam{name: "k-setq-arg-lambda", fn: "site-list", group: "site", site: &siteDef{name: "c06-k-setq-arg",
		def: "(setq {F} (lambda (x) (setq x (append '(1 2) '(3) nil)) x))"}, form: "({F} nil)", share: shareNone, pats: patDst, want: k123})
	// a slot :initform is a call site evaluated once per make-instance (the class is defined once per process)
	addFam(&fam{name: "k-initform", fn: "site-list", group: "site", site: &siteDef{name: "c06-init-class", isFn: true, once: true,
		def: "(defclass c06-init () ((s :initform (list 1 2 3))))"}, form: "(slot-value (make-instance 'c06-init) 's)", share: shareNone, pats: patDst, want: k123})
	// variable arguments: the same compiled call site receives different lists
	type vprod struct {
		name, kind, params, body string
		share                    shareMode
		want                     lf
		tail                     func([]int64) int
	}
	for _, p := range []vprod{
		{"copy-list", "defun", "(x n)", "(copy-list x)", shareNone, same, nil},
		{"reverse", "lambda", "(x n)", "(reverse x)", shareNone, func(s, _ []int64, _ int64) []int64 { return rev(s) }, nil},
		{"subseq", "defun", "(x n)", "(subseq x 1)", shareNone, func(s, _ []int64, _ int64) []int64 { return s[1:] }, nil},
		{"mapcar", "lambda", "(x n)", "(mapcar #'1+ x)", shareNone, func(s, _ []int64, _ int64) []int64 {
			out := make([]int64, len(s))
			for i, v := range s {
				out[i] = v + 1
			}
			return out
		}, nil},
		{"remove", "defun", "(x n)", "(remove (car x) x)", shareS, func(s, _ []int64, _ int64) []int64 { return filter(s, func(y int64) bool { return y != s[0] }) }, nil},
		{"append", "lambda", "(x n)", "(append x (list n))", shareNone, func(s, _ []int64, n int64) []int64 { return cat(s, sl(n)) }, nil},
		{"cons", "defun", "(x n)", "(cons n x)", shareS, push, all0},
		{"list*", "lambda", "(x n)", "(list* n (car x) (cdr x))", shareS, func(s, _ []int64, n int64) []int64 { return cat(sl(n), s) }, t1},
		{"list", "defun", "(x n)", "(list (car x) n)", shareNone, func(s, _ []int64, n int64) []int64 { return sl(s[0], n) }, nil},
		{"rest", "lambda", "(n &rest r)", "r", shareNone, func(s, _ []int64, n int64) []int64 { return s[:1] }, nil},
	} {
		name := "v-" + p.name + "-" + p.kind
		sd := &siteDef{name: "c06-" + name}
		if p.kind == "defun" {
			sd.isFn = true
			sd.def = "(defun {F} " + p.params + " " + p.body + ")"
		} else {
			sd.def = "(setq {F} (lambda " + p.params + " " + p.body + "))"
		}
		form := "({F} {S} {N})"
		if p.name == "rest" {
			form = "({F} {N} (car {S}))"
		}
		addFam(&fam{name: name, fn: "site-" + p.name, group: "site", site: sd, form: form, share: p.share, minS: 1, pats: patProd, want: p.want, tail: p.tail})
	}
	// single-step compound forms: a loop body evaluated on several iterations, several calls of one lambda, a builder whose
	// tail is a quoted constant (only the freshly built first cons is modified)
	cmp := func(name, fn, form string, minS int, want lf) {
		addFam(&fam{name: name, fn: fn, group: "site", form: form, share: shareNone, minS: minS, pats: patProd4, want: want})
	}
	cmp("loop-dotimes-list", "site-list", "(let ((acc nil)) (dotimes (i 3) (push (list 1 2 (car {S})) acc)) (setf (car (car acc)) 0) (nreverse (cadr acc)) (caddr acc))", 1,
		func(s, _ []int64, _ int64) []int64 { return sl(1, 2, s[0]) })
	cmp("loop-dolist-cons", "site-cons", "(let ((acc nil)) (dolist (i {S}) (push (cons i nil) acc)) (rplaca (car acc) 0) (car (last acc)))", 2,
		func(s, _ []int64, _ int64) []int64 { return sl(s[0]) })
	cmp("loop-dotimes-const", "site-list", "(let ((acc nil)) (dotimes (i 3) (push (list 1 2 3) acc)) (setf (car (car acc)) (car {S})) (sort (cadr acc) #'>) (caddr acc))", 1, k123)
	cmp("loop-copy-list", "site-copy-list", "(let ((acc nil)) (dotimes (i 2) (push (copy-list {S}) acc)) (setf (car (car acc)) 0) (cadr acc))", 1, same)
	cmp("loop-do-append", "site-append", "(let ((acc nil)) (do ((i 0 (1+ i))) ((= i 2)) (push (append {S} nil) acc)) (nreverse (car acc)) (cadr acc))", 1, same)
	cmp("lambda-twice-const-tail", "site-cons", "(let* ((f (lambda () (cons (car {S}) '(2 3)))) (x (funcall f)) (y (funcall f))) (setf (car x) 0) (list (car y) (car (funcall f)) (cadr y)))", 1,
		func(s, _ []int64, _ int64) []int64 { return sl(s[0], s[0], 2) })
	cmp("lambda-twice-list*", "site-list*", "(let* ((f (lambda () (list* 1 (car {S}) '(3)))) (x (funcall f)) (y (funcall f))) (setf (cadr x) 0) (rplaca x 0) (list (car y) (cadr y) (cadr (funcall f))))", 1,
		func(s, _ []int64, _ int64) []int64 { return sl(1, s[0], s[0]) })
	cmp("lambda-twice-append-const", "site-append", "(let* ((f (lambda () (append '(1 2) '(3)))) (x (funcall f)) (y (funcall f))) (setf (car x) (car {S})) (setf (cadr x) 0) (list (car y) (cadr y) (car (funcall f))))", 1,
		func(s, _ []int64, _ int64) []int64 { return sl(1, 2, 1) })
	cmp("mapcar-site-list", "site-list", "(let ((rows (mapcar (lambda (i) (list 1 2 3)) {S}))) (setf (car (car rows)) 0) (car (last rows)))", 2, k123)
}
