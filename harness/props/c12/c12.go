// Package c12: CLOS classes — precedence, slot initialisation, accessors,
// redefinition and typep/class-of/dispatch agreement, decided by exhaustive
// enumeration of class DAGs x slot option sets x every order of the defclass
// forms (forward references included) x every initarg subset x one optional
// redefinition, each history executed on the real slip and judged by an
// oracle written from the property statement.
package c12

import (
	"fmt"
	"hash/fnv"
	"sort"
	"strings"

	"verif/engine"
	"verif/lisp"
)

func init() {
	engine.Register(&engine.Prop{
		ID:    "C12",
		Level: "model_checking",
		Rule: "a case = (class DAG on n classes with ordered direct superclasses, per-class options for slots s and u, optional redefinition of one class, " +
			"warm flag); Exec runs EVERY order of the n (+1) defclass forms (redefinition after the original; superclasses may be defined after their " +
			"subclasses) on fresh class/function names, checks class-precedence after every step for the classes whose ancestors are all defined, and at " +
			"the end, for every class: class-precedence, make-instance with every subset of the valid initargs + state of both slots, slot-value of an " +
			"unbound slot, typep against every class, class-of, a generic function with one :before and one primary method per class, and " +
			"reader/accessor/(setf accessor)/writer on two instances; observations are judged by the oracle and compared across orders; " +
			"histories of a redefinition with indirect subclasses are run 3x (Go map order in classChanged, S4); " +
			"a case is non-trivial when it has at least one superclass edge or a redefinition. " +
			"Sixth round: a class' option string may carry :default-initargs (third field: the initargs that get a default FORM, which logs its evaluation) and " +
			":allocation :class (slot letter c); the redefinition kinds include adding / dropping :default-initargs and repeating the definition unchanged; " +
			"a case with flag x runs the EXTENDED probes in every order: g gets an :around (calling the next method), :before, primary and :after method per class, " +
			"initialize-instance and shared-initialize get an :after method per class (order + the slots they see), subtypep between all classes, " +
			"slot-makunbound / reader on the unbound slot / (setf slot-value) / with-slots read and setq on one of two instances per class and slot, " +
			"a class slot written through one instance and read through another and through instances of the other classes, " +
			"change-class of an instance of every class to every other class (class-of, typep, dispatch, slots kept / gained / lost); " +
			"with flags wx the instance of every usable class made BEFORE the redefinition is kept and probed afterwards: class-of, the precedence list of its class, " +
			"typep, and the generic call both after and before a new instance of that class name was called (a case with flag x is run once per order; its twin without x carries the repetitions); " +
			"family misc: 14 hand-written situations (accessor names shared between classes or with a user's generic function, writer of a superclass on an instance of a " +
			"shadowing subclass, find-class / class-name around a redefinition, standard-object / a built-in class as superclass), every order of their defclass forms",
		Assumptions: []string{
			"writers are called slip's documented way, (writer object value)",
			"typep against t is not asked (slip reads 't as the true object, which typep rejects); t is checked in the precedence list only",
			"when two supplied initargs name the same slot either value or a Lisp error is accepted (statement silent)",
			"slot-value of an unbound slot must signal some Lisp error (the statement only says the slot stays unbound)",
			"the relative order of two indirect ancestors is not prescribed; only equality across definition orders is demanded there",
			":default-initargs are read as Common Lisp defines them (CLHS 7.1.3): a default is a supplied initarg for the class and every subclass, the most specific class wins; " +
				"the form must be evaluated during the make-instance call that uses it (FuncDoc of defclass: 'evaluated on each call'); extra evaluations are not counted; " +
				"two defaults (or a default and nothing else) naming one slot through different initargs: either value; a default for an initarg no slot declares is not enumerated",
			"a slot is located where its MOST SPECIFIC declaration says (:allocation :class = one value for all instances of that class); whether that value is shared with " +
				"sub- or superclasses, and whether a further make-instance re-evaluates the initform into it (slip) or leaves it (Common Lisp), is not prescribed",
			"a reader applied to an unbound slot may signal or return slip's unbound marker, but not a value",
			"instances made before a redefinition: only consistency is demanded - typep and dispatch follow (class-precedence (class-of x)); for an instance of a SUBCLASS of the " +
				"redefined class that list must be the class' current one (defclass documents that instances of the redefined class itself keep the original class); their slots are not judged",
			"change-class (slip's own test pins Common Lisp's rule on flat classes): slots of the new class exist, common slots keep their value, new slots get the initform or stay unbound, other slots are gone",
			":after methods on initialize-instance / shared-initialize take (x &rest args): slip passes the initargs as ONE list, so &key there is not usable (reported, not judged)",
		},
		Enumerate: enumerate,
		Exec:      exec,
		Required: []string{"forward-ref-history", "forward-ref-indirect-ancestor", "diamond", "redundant-direct", "shadowed-slot", "inherited-initform",
			"shared-initarg", "two-initargs-one-slot", "redef-direct-subclass", "redef-indirect-subclass", "redef-before-superclass-defined",
			"warm-dispatch", "accessor-checked", "unbound-slot-checked", "mid-history-precedence", "explicit-nil-initarg",
			// sixth round
			"default-initarg-inherited", "default-initarg-at-two-levels", "default-beats-more-specific-initform", "default-initargs-redefined",
			"class-slot-inherited", "class-slot-shadows-less-specific-declaration", "class-slot-shadowed-by-instance-slot",
			"several-initargs-one-slot", "initarg-for-slots-at-different-levels-of-a-diamond",
			"slot-ops-on-shadowed-slot", "slot-ops-on-inherited-slot", "init-after-methods-at-several-levels", "around-and-after-methods-at-several-levels",
			"subtypep-checked", "change-class-checked", "identical-redefinition", "middle-class-redefined", "diamond-leg-redefined",
			"old-instance-of-redefined-class-probed", "old-instance-of-subclass-whose-precedence-list-changes", "misc-checked"},
		Bound:    bound,
		Selftest: selftest,
	})
}

func bound(tier string) string {
	if tier == engine.Thorough {
		return sixthBound(true) + " OLDER FAMILIES: no redefinition: 1 class and both 2-class DAGs x full slot alphabet (32 option pairs for slots s,u); all 10 3-class DAGs x 13-pair curated alphabet; " +
			"all 160 4-class DAGs x 3-pair alphabet; initform nil: 1-3 classes x 5-pair alphabet; 10 five-class chain/diamond shapes x 2-pair alphabet; " +
			"every permutation of the defclass forms each (up to 120). " +
			"Redefinition of any one class (slot s given a new initform, all slots removed, initarg instead of initform, slot u added, superclasses reversed / first dropped / one added) " +
			"at every later point of every order: 2-class DAGs x 5-pair alphabet and 3-class DAGs x 3-pair alphabet, warm and cold dispatch cache; 3-class DAGs x {none, initform, shared initarg k on both slots} cold; " +
			"4-class DAGs with <= 2 direct superclasses, slot s with initform in every class (cold); the quick tier's top-class redefinition family on 4 four-class shapes. " +
			"All subsets of valid initargs (a, b, shared k). CUT relative to the design (time, measured on a machine shared with 10 other harness builds): 4 classes x 3-pair instead of richer alphabets; " +
			"5 classes restricted to 10 shapes x 2-pair alphabet; 4-class redefinition restricted to one slot alphabet entry and <= 2 superclasses."
	}
	return sixthBound(false) + " OLDER FAMILIES: no redefinition: 1 class x full slot alphabet (32 option pairs for slots s,u); both 2-class DAGs x 13-pair curated alphabet; all 10 3-class DAGs x 8-pair alphabet; " +
		"all 160 4-class DAGs with slot s :initform in every class; initform nil: 1-2 classes x 5-pair, 3 classes x 3-pair alphabet; every permutation of the defclass forms each. " +
		"Redefinition of any one class (7 kinds) at every later point of every order: 2-class DAGs x 3-pair alphabet, 3-class DAGs x 2-pair alphabet, warm and cold dispatch cache; " +
		"redefinition of the TOP class of 4 four-class shapes (diamond in both middle orders, diamond + direct top, chain + direct top) x 2-pair alphabet x every applicable kind x all 60 orders (cold; warm for one slot assignment). " +
		"All subsets of valid initargs. CUT relative to the design: slot alphabets smaller than in thorough; 4 classes without slot variation except in the top-redefinition family; no 5-class cases; 4-class redefinition only of the top class of 4 shapes."
}

// ---------------------------------------------------------------- running one history

type histRun struct {
	mid   []finding
	final obsMap
}

func runHistory(w world, c *caseSpec, hist []int) histRun {
	var hr histRun
	defs := make([]classDef, c.n)
	defined := make([]bool, c.n)
	for step, f := range hist {
		var e, e2 string
		cls := f
		if f == c.n {
			cls = c.redef.r
			if c.warm {
				for i := 0; i < c.n; i++ {
					if _, ok := ancestors(defs, defined, i); ok {
						w.warm(i)
					}
				}
			}
			defs[cls] = c.redef.def
			e = w.defclass(cls, c.redef.def)
		} else {
			defs[f] = c.defs[f]
			defined[f] = true
			e = w.defclass(f, c.defs[f])
			e2 = w.defmethods(f)
		}
		if e != "" {
			kind := "error"
			if isGoFault(e) {
				kind = "go-fault"
			}
			hr.mid = append(hr.mid, finding{key: fmt.Sprintf("F|%d", cls), cls: cls, aspect: "defclass", kind: kind,
				detail: fmt.Sprintf("defclass of %s %s => %s", cname(cls), supNames(defs[cls].supers), e)})
		}
		if e2 != "" {
			hr.mid = append(hr.mid, finding{key: fmt.Sprintf("G|%d", cls), cls: cls, aspect: "defmethod", kind: "error",
				detail: fmt.Sprintf("defmethod specialised on %s => %s", cname(cls), e2)})
		}
		if step == len(hist)-1 {
			break
		}
		for i := 0; i < c.n; i++ {
			if _, ok := ancestors(defs, defined, i); !ok {
				continue
			}
			obs := w.precedence(i)
			if k := checkPrec(defs, i, obs); k != "" {
				hr.mid = append(hr.mid, finding{key: fmt.Sprintf("Pm|%d", i), cls: i, aspect: "precedence-mid-history", kind: k,
					detail: fmt.Sprintf("after %d of %d forms, all ancestors of %s defined: class-precedence = %s; canonical reading %s",
						step+1, len(hist), cname(i), obs, precText(canonPrec(defs, i)))})
			}
		}
	}
	hr.final = observeFinal(w, c.finalDefs(), c.ext)
	return hr
}

// ---------------------------------------------------------------- verdict over all histories of a case

type sigAgg struct {
	fixed  bool // the signature carries no order class
	core   string
	aspect string
	key    string
	cls    int
	fails  map[int]int // history index -> bit set of failing repetitions
	detail string
}

func histText(c *caseSpec, h []int) string {
	var out []string
	for _, f := range h {
		if f == c.n {
			out = append(out, "redefine-"+cname(c.redef.r))
		} else {
			out = append(out, cname(f))
		}
	}
	return strings.Join(out, " ")
}

// tagOf: the order class of history h as seen from class i.
func tagOf(c *caseSpec, fin []classDef, h []int, i int) string {
	pos := map[int]int{}
	for p, f := range h {
		pos[f] = p
	}
	if c.redef != nil {
		if pos[i] < pos[c.n] {
			return "class-before-redefinition"
		}
		return "class-after-redefinition"
	}
	anc, _ := ancestors(fin, nil, i)
	for a := range anc {
		if pos[i] < pos[a] {
			return "forward-reference"
		}
	}
	return "supers-first"
}

var instanceAspects = map[string]bool{"make-instance": true, "slot-init": true, "accessor": true, "slot-unbound": true}
var shapeAspects = map[string]bool{"subtypep": true, "precedence": true, "precedence-mid-history": true, "typep": true, "dispatch": true, "class-of": true}

func judgeCase(c *caseSpec, mk func() world, reps int, res *engine.Result) (firstObs obsMap) {
	hists := c.histories()
	fin := c.finalDefs()
	jc := judgeCtx{ext: c.ext, redef: -1}
	if c.redef != nil {
		jc.redef = c.redef.r
		jc.redefKind = redefKind(c.defs[c.redef.r], c.redef.def)
	}
	aggs := map[string]*sigAgg{}
	aspectFails := map[string]map[int]bool{}
	failedKeys := map[string]bool{}
	failedClass := map[int]bool{}
	var order []string
	redef := "none"
	if c.redef != nil {
		redef = redefKind(c.defs[c.redef.r], c.redef.def)
	}
	record := func(hi, rep int, h []int, f finding, stale bool) {
		rel := ""
		if c.redef != nil {
			r := c.redef.r
			via := false // r is reached through another class (under the old or the new definitions)
			direct := false
			for _, defs := range [][]classDef{fin, c.defs} {
				anc, _ := ancestors(defs, nil, f.cls)
				for _, s := range defs[f.cls].supers {
					if s == r {
						direct = true
					}
				}
				for a := range anc {
					if a != r {
						if aa, _ := ancestors(defs, nil, a); aa[r] {
							via = true
						}
					}
				}
			}
			switch {
			case f.cls == r:
				rel = "/redefined-class"
			case via:
				rel = "/indirect-subclass"
			case direct:
				rel = "/direct-subclass"
			default:
				rel = "/unrelated-class"
			}
		}
		aspect, kind, extra := f.aspect, f.kind, f.extra
		fixed := false
		var core string
		switch {
		case f.short != "":
			core = f.short
			fixed = true
		case f.shared:
			// the case contains the trigger "one supplied initarg names two slots" and the slot named by it was not filled
			core = "aspect=slot-init kind=shared-initarg-slot-not-filled got=" + f.got
			fixed = true
		case aspect == "dispatch" && c.redef != nil && c.warm && f.obs != "" && f.obs == dispatchUnder(c.defs, f.cls, c.ext):
			// the effective method is the one computed before the redefinition
			aspect, kind, extra = "dispatch-after-redefinition", "effective-method-as-before-redefinition", ""
		case stale && instanceAspects[aspect]:
			aspect, kind, extra = "instance-state", "as-before-redefinition", ""
		case stale:
			extra = ""
		}
		if !fixed {
			core = "aspect=" + aspect + " kind=" + kind
			if extra != "" {
				core += " " + extra
			}
			if shapeAspects[aspect] {
				core += " shape=" + shape(fin, f.cls)
			}
			core += " redef=" + redef + rel
			if c.redef != nil {
				if aspect == "dispatch-after-redefinition" {
				} else if stale {
					core += " matches-old-definition=yes"
				} else {
					core += " matches-old-definition=no"
				}
				if c.warm && strings.HasPrefix(aspect, "dispatch") {
					core += " called-before-redefinition=yes"
				}
			}
		}
		id := fmt.Sprintf("%s\x00%d", core, f.cls)
		ak := fmt.Sprintf("%s\x00%d", f.aspect, f.cls)
		if aspectFails[ak] == nil {
			aspectFails[ak] = map[int]bool{}
		}
		aspectFails[ak][hi] = true
		failedKeys[f.key] = true
		if f.kind != "differs-between-definition-orders" {
			failedClass[f.cls] = true
		}
		a := aggs[id]
		if a == nil {
			a = &sigAgg{fixed: fixed, core: core, key: f.key, cls: f.cls, aspect: f.aspect, fails: map[int]int{}, detail: "order [" + histText(c, h) + "]: " + f.detail}
			aggs[id] = a
			order = append(order, id)
		}
		a.fails[hi] |= 1 << rep
	}
	finals := make([][]obsMap, len(hists))
	for hi, h := range hists {
		for rep := 0; rep < reps; rep++ {
			w := mk()
			if c.ext {
				w.setExt()
			}
			hr := runHistory(w, c, h)
			w.close()
			finals[hi] = append(finals[hi], hr.final)
			if firstObs == nil {
				firstObs = hr.final
			}
			fs := judgeFinal(fin, hr.final, jc)
			var oldFail map[string]bool
			if c.redef != nil && 0 < len(fs) {
				oldFail = map[string]bool{}
				for _, of := range judgeFinal(c.defs, hr.final, jc) {
					if !of.shared { // the old definitions seen through the shared-initarg behaviour still count as "old"
						oldFail[of.key] = true
					}
				}
			}
			for _, f := range hr.mid {
				record(hi, rep, h, f, false)
			}
			for _, f := range fs {
				record(hi, rep, h, f, oldFail != nil && !oldFail[f.key])
			}
		}
	}
	// differential: the same definitions in another order must give the same observations
	var keysSorted []string
	for k := range finals[0][0] {
		keysSorted = append(keysSorted, k)
	}
	sort.Strings(keysSorted)
	aspectOf := map[byte]string{'B': "subtypep", 'I': "init-methods", 'O': "slot-ops", 'K': "class-slot", 'X': "change-class", 'W': "old-instance",
		'E': "default-initargs", 'P': "precedence", 'M': "make-instance", 'S': "slot-init", 'U': "slot-unbound", 'T': "typep", 'C': "class-of", 'D': "dispatch", 'A': "accessor"}
	for _, k := range keysSorted {
		var kc int
		fmt.Sscanf(k[2:], "%d", &kc)
		if failedKeys[k] || failedClass[kc] {
			continue // already reported against the statement (S3)
		}
		if (k[0] == 'M' || k[0] == 'S' || k[0] == 'E') && multiKey(fin, kc, k) {
			continue // two supplied initargs name one slot: a set of outcomes is accepted, so orders may differ (S2)
		}
		if strings.ContainsRune("SUAIOKXW", rune(k[0])) && (classSlotClass(c.defs, kc) || classSlotClass(fin, kc)) {
			continue // a class slot keeps what earlier instances (made before the redefinition, or by earlier probes) stored in it: its value may depend on the history
		}
		if strings.ContainsRune("AIOKXW", rune(k[0])) && multiClass(fin, kc) {
			continue // the instances these probes start from are made with two default initargs naming one slot: either may win (S2)
		}
		ref := finals[0][0][k]
		for hi := range hists {
			for rep, o := range finals[hi] {
				if o[k] != ref && o[k] != "" && ref != "" && !failedKeys[k] {
					failedKeys[k] = true
					var cls int
					fmt.Sscanf(k[2:], "%d", &cls)
					record(hi, rep, hists[hi], finding{key: k, cls: cls, aspect: aspectOf[k[0]], kind: "differs-between-definition-orders",
						detail: fmt.Sprintf("observation %s is %q here but %q after order [%s]", k, o[k], ref, histText(c, hists[0]))}, false)
				}
			}
		}
	}
	// order class per (signature core, observation key)
	seen := map[string]bool{}
	for _, id := range order {
		a := aggs[id]
		fails := aspectFails[fmt.Sprintf("%s\x00%d", a.aspect, a.cls)]
		tags := map[string]bool{}
		for hi, h := range hists {
			if fails[hi] {
				tags[tagOf(c, fin, h, a.cls)] = true
			}
		}
		ord := "mixed"
		switch {
		case len(hists) == 1:
			ord = "all"
		case c.redef != nil && len(tags) == 1:
			for t := range tags {
				ord = t
			}
		case c.redef != nil:
			ord = "both-sides-of-redefinition"
		case len(fails) == len(hists):
			ord = "all"
		case len(tags) == 1:
			for t := range tags {
				ord = t
			}
		}
		if strings.Contains(a.core, "kind=differs-between-definition-orders") {
			ord = "n/a"
		}
		flaky := false
		for _, n := range a.fails {
			if n != 1<<reps-1 {
				flaky = true
			}
		}
		sig := a.core + " orders=" + ord
		if a.fixed {
			sig = a.core
		}
		if seen[sig] {
			continue
		}
		seen[sig] = true
		d := a.detail + fmt.Sprintf(" [fails in %d of %d definition orders", len(a.fails), len(hists))
		if flaky {
			d += "; not in every repetition of the same order (Go map iteration order)"
		}
		d += "]"
		res.Fail(sig, d)
	}
	return
}

// multiKey: the observation key belongs to a make-instance call in which two
// supplied initargs name the same slot.
func multiKey(defs []classDef, i int, key string) bool {
	p := strings.Split(key, "|")
	if len(p) < 3 {
		return false
	}
	var sigma []string
	if p[2] != "-" {
		sigma = strings.Split(p[2], "+")
	}
	order := canonPrec(defs, i)
	for _, sl := range slotNames {
		if src := expectSlot(defs, order, sl, sigma).src; src == "initarg-multi" || src == "default-multi" {
			return true
		}
	}
	return false
}

// classSlotClass: some declaration of some slot of class i, own or inherited, says :allocation :class.
func classSlotClass(defs []classDef, i int) bool {
	order := canonPrec(defs, i)
	for _, sl := range slotNames {
		if classAlloc(defs, order, sl) {
			return true
		}
	}
	return false
}

// multiClass: an instance of class i made without initargs, or with the initargs of the accessor probes, has a slot that two
// default initargs name.
func multiClass(defs []classDef, i int) bool {
	if !usesDefaults(defs) {
		return false
	}
	order := canonPrec(defs, i)
	for _, sigma := range [][]string{nil, accSigma(defs, i)} {
		for _, sl := range slotNames {
			if expectSlot(defs, order, sl, sigma).src == "default-multi" {
				return true
			}
		}
	}
	return false
}

// dispatchUnder: the dispatch observation the canonical reading of defs gives for class i.
func dispatchUnder(defs []classDef, i int, ext bool) string {
	var tr []string
	for _, x := range canonPrec(defs, i) {
		tr = append(tr, cname(x))
	}
	return expectedDispatch(tr, ext)
}

// ---------------------------------------------------------------- Exec

func hasIndirectDescendant(c *caseSpec) bool {
	if c.redef == nil {
		return false
	}
	r := c.redef.r
	for _, defs := range [][]classDef{c.defs, c.finalDefs()} {
		for i := 0; i < c.n; i++ {
			anc, _ := ancestors(defs, nil, i)
			if !anc[r] {
				continue
			}
			direct := false
			for _, s := range defs[i].supers {
				if s == r {
					direct = true
				}
			}
			if !direct || 1 < len(anc) {
				// r reached through another class, or i has further ancestors whose lists may be stale
				for a := range anc {
					if a != r {
						aa, _ := ancestors(defs, nil, a)
						if aa[r] {
							return true
						}
					}
				}
			}
		}
	}
	return false
}

func exec(spec string) (res engine.Result) {
	if strings.HasPrefix(spec, "lisp:") { // development probe
		val, tr, err := lisp.Run(spec[5:])
		res.Outcome = val + " trace=" + strings.Join(tr, ",") + " err=" + err.String()
		return
	}
	if strings.HasPrefix(spec, "lispf:") { // development probe: every top-level form of a file, one scope
		res.Outcome = probeFile(spec[6:])
		return
	}
	if strings.HasPrefix(spec, "nilarg|") {
		return execNilarg(spec)
	}
	if strings.HasPrefix(spec, "misc|") {
		return execMisc(spec)
	}
	c, err := parseCase(spec)
	if err != nil {
		res.Fail("harness:bad-spec", spec+": "+err.Error())
		return
	}
	reps := 1
	if hasIndirectDescendant(c) && !c.ext {
		reps = 3 // (a case with the extended probes is run once per order: its plain twin carries the repetitions)
	}
	first := judgeCase(c, func() world { return newRealWorld(c.n) }, reps, &res)
	counters(c, &res)
	h := fnv.New64a()
	var ks []string
	for k, v := range first {
		ks = append(ks, k+"="+v)
	}
	sort.Strings(ks)
	for _, k := range ks {
		h.Write([]byte(k))
		h.Write([]byte{0})
	}
	res.Outcome = fmt.Sprintf("%s #%x", first[fmt.Sprintf("P|%d", c.n-1)], h.Sum64())
	return
}

func counters(c *caseSpec, res *engine.Result) {
	fin := c.finalDefs()
	edges := 0
	for _, sets := range [][]classDef{c.defs, fin} {
		for i := 0; i < c.n; i++ {
			edges += len(sets[i].supers)
			switch shape(sets, i) {
			case "diamond":
				res.Hit("diamond")
			case "redundant-direct":
				res.Hit("redundant-direct")
			case "fork":
				res.Hit("fork")
			}
			for _, sl := range slotNames {
				if declRel(sets, i, sl) == "shadowed" {
					res.Hit("shadowed-slot")
				}
				if _, own := sets[i].slot(i, sl); !own || func() bool { sd, _ := sets[i].slot(i, sl); return sd.form == 0 }() {
					if w := expectSlot(sets, canonPrec(sets, i), sl, nil); w.src == "initform" {
						res.Hit("inherited-initform")
					}
				}
				if slotExists(sets, i, sl) {
					res.Hit("accessor-checked")
					if w := expectSlot(sets, canonPrec(sets, i), sl, nil); w.src == "unbound" {
						res.Hit("unbound-slot-checked")
					}
				}
			}
			va := validArgs(sets, i)
			for _, a := range va {
				if 1 < len(argSlots(sets, i, a)) {
					res.Hit("shared-initarg")
				}
			}
			for _, sl := range slotNames {
				if w := expectSlot(sets, canonPrec(sets, i), sl, va); w.src == "initarg-multi" {
					res.Hit("two-initargs-one-slot")
				}
			}
		}
	}
	if 0 < edges || c.redef != nil {
		res.Nontrivial = true
	}
	countersSixth(c, res)
	for _, h := range c.histories() {
		pos := map[int]int{}
		for p, f := range h {
			pos[f] = p
		}
		fwd, fwdInd := false, false
		for i := 0; i < c.n; i++ {
			anc, _ := ancestors(fin, nil, i)
			for a := range anc {
				if pos[i] < pos[a] {
					fwd = true
					direct := false
					for _, s := range fin[i].supers {
						if s == a {
							direct = true
						}
					}
					if !direct {
						fwdInd = true
					}
				}
			}
		}
		if fwd {
			res.Hit("forward-ref-history")
		}
		if fwdInd {
			res.Hit("forward-ref-indirect-ancestor")
		}
		if 2 < len(h) {
			res.Hit("mid-history-precedence")
		}
		if c.redef != nil {
			r := c.redef.r
			for _, s := range c.redef.def.supers {
				if pos[c.n] < pos[s] {
					res.Hit("redef-before-superclass-defined")
				}
			}
			for i := 0; i < c.n; i++ {
				if i == r || pos[c.n] < pos[i] {
					continue
				}
				anc, _ := ancestors(fin, nil, i)
				if !anc[r] {
					continue
				}
				direct := false
				for _, s := range fin[i].supers {
					if s == r {
						direct = true
					}
				}
				if direct {
					res.Hit("redef-direct-subclass")
				} else {
					res.Hit("redef-indirect-subclass")
				}
			}
			if c.warm {
				res.Hit("warm-dispatch")
			}
		}
	}
}

// countersSixth: the interactions the families of the sixth round are about.
func countersSixth(c *caseSpec, res *engine.Result) {
	fin := c.finalDefs()
	for _, sets := range [][]classDef{c.defs, fin} {
		for i := 0; i < c.n; i++ {
			order := canonPrec(sets, i)
			anc, _ := ancestors(sets, nil, i)
			for _, sl := range slotNames {
				w := expectSlot(sets, order, sl, nil)
				if !w.exists {
					continue
				}
				if strings.HasPrefix(w.src, "default") {
					res.Hit("default-initarg-used")
					if w.defFrom == "inherited" {
						res.Hit("default-initarg-inherited")
					}
					res.Hit("default-overridden-by-explicit-initarg") // every initarg subset is passed
					// the most specific initform sits in a class more specific than the one that gives the default
					fpos, dpos := -1, -1
					for k, x := range order {
						if sd, ok := sets[x].slot(x, sl); ok && sd.form != 0 && fpos < 0 {
							fpos = k
						}
						if sets[x].dopt != "" && dpos < 0 {
							for _, a := range argSlotsKeys(sets, i, sl) {
								if _, has := sets[x].defaults(x)[a]; has {
									dpos = k
								}
							}
						}
					}
					if 0 <= fpos && fpos < dpos {
						res.Hit("default-beats-more-specific-initform")
					}
				}
				for _, a := range argSlotsKeys(sets, i, sl) {
					givers := 0
					for _, x := range order {
						if _, has := sets[x].defaults(x)[a]; has {
							givers++
						}
					}
					if 1 < givers {
						res.Hit("default-initarg-at-two-levels")
					}
				}
				if w.src == "default-multi" {
					res.Hit("two-defaults-one-slot")
				}
				if classAlloc(sets, order, sl) {
					switch {
					case w.shared && declRel(sets, i, sl) == "inherited":
						res.Hit("class-slot-inherited")
					case w.shared && declRel(sets, i, sl) == "shadowed":
						res.Hit("class-slot-shadows-less-specific-declaration")
					case w.shared:
						res.Hit("class-slot-own")
					default:
						res.Hit("class-slot-shadowed-by-instance-slot")
					}
				}
				if c.ext && declRel(sets, i, sl) == "shadowed" {
					res.Hit("slot-ops-on-shadowed-slot")
				}
				if c.ext && declRel(sets, i, sl) == "inherited" {
					res.Hit("slot-ops-on-inherited-slot")
				}
				if len(argSlotsKeys(sets, i, sl)) > 1 {
					res.Hit("several-initargs-one-slot")
				}
			}
			if shape(sets, i) == "diamond" {
				for _, a := range validArgs(sets, i) {
					if 1 < len(argSlots(sets, i, a)) {
						res.Hit("initarg-for-slots-at-different-levels-of-a-diamond")
					}
				}
			}
			if c.ext && 0 < len(anc) {
				res.Hit("init-after-methods-at-several-levels")
				res.Hit("around-and-after-methods-at-several-levels")
				res.Hit("subtypep-checked")
			}
			if c.ext && 1 < c.n {
				res.Hit("change-class-checked")
			}
		}
	}
	if c.redef == nil {
		return
	}
	r := c.redef.r
	kind := redefKind(c.defs[r], c.redef.def)
	if kind == "unchanged" {
		res.Hit("identical-redefinition")
	}
	if strings.HasPrefix(kind, "default-initargs") {
		res.Hit("default-initargs-redefined")
	}
	ancR, _ := ancestors(c.defs, nil, r)
	if 0 < len(ancR) && hasDescendant(c.defs, r) {
		res.Hit("middle-class-redefined")
	}
	for i := 0; i < c.n; i++ {
		if shape(c.defs, i) == "diamond" && inInts(r, c.defs[i].supers) && 0 < len(ancR) {
			res.Hit("diamond-leg-redefined")
		}
	}
	if c.ext && c.warm {
		res.Hit("old-instance-of-redefined-class-probed")
		if hasDescendant(c.defs, r) {
			res.Hit("old-instance-of-subclass-probed")
			if strings.HasPrefix(kind, "super") {
				res.Hit("old-instance-of-subclass-whose-precedence-list-changes")
			}
		}
	}
}

// argSlotsKeys: the initargs declared for the slot at any level.
func argSlotsKeys(defs []classDef, i int, slot string) []string {
	var out []string
	for _, a := range validArgs(defs, i) {
		if inList(slot, argSlots(defs, i, a)) {
			out = append(out, a)
		}
	}
	return out
}

// ---------------------------------------------------------------- oracle-sensitivity self-test (S6)

func hasDescendant(defs []classDef, r int) bool {
	for i := range defs {
		if anc, _ := ancestors(defs, nil, i); anc[r] {
			return true
		}
	}
	return false
}

func selftest(tier string) (killed, total int, notes []string) {
	var specs []string
	enumerate(tier, func(s string) {
		if !strings.HasPrefix(s, "nilarg|") && !strings.HasPrefix(s, "misc|") {
			specs = append(specs, s)
		}
	})
	stride := len(specs)/500 + 1
	var sample []*caseSpec
	var sampleSpec []string
	wx, same := 0, 0
	for k := range specs {
		c, err := parseCase(specs[k])
		if err != nil {
			continue
		}
		take := k%stride == 0
		if c.ext && c.warm && c.redef != nil && strings.HasPrefix(redefKind(c.defs[c.redef.r], c.redef.def), "super") && hasDescendant(c.defs, c.redef.r) {
			// the rarest kind of case (instances of a subclass kept across a redefinition that changes its precedence list): every 2nd as well
			wx++
			take = take || wx%2 == 0
		}
		if c.redef != nil && !c.redef.def.bump && hasDescendant(c.defs, c.redef.r) {
			same++ // the unchanged redefinition of a class with subclasses: every 3rd as well
			take = take || same%3 == 0
		}
		if take {
			sample = append(sample, c)
			sampleSpec = append(sampleSpec, specs[k])
		}
	}
	alive := map[string]bool{}
	for _, m := range mutants {
		alive[m] = true
	}
	total = len(mutants)
	// the unmutated reference must pass the oracle on every sampled case
	refBad := ""
	for k, c := range sample {
		var r engine.Result
		judgeCase(c, func() world { return newSim(c.n, "") }, 1, &r)
		if 0 < len(r.Failures) && refBad == "" {
			refBad = fmt.Sprintf("the oracle rejects the unmutated reference on %s: %s (%s)", sampleSpec[k], r.Failures[0].Sig, r.Failures[0].Detail)
		}
	}
	// every mutated reference must be rejected on some sampled case (the cases with the extended probes first: time)
	nAlive := len(mutants)
	for _, extFirst := range []bool{true, false} {
		for k, c := range sample {
			if c.ext != extFirst || nAlive == 0 {
				continue
			}
			for _, m := range mutants {
				if !alive[m] {
					continue
				}
				var mr engine.Result
				mm := m
				judgeCase(c, func() world { return newSim(c.n, mm) }, 1, &mr)
				if 0 < len(mr.Failures) {
					alive[m] = false
					nAlive--
					notes = append(notes, fmt.Sprintf("%s: killed by %s (%s)", m, sampleSpec[k], mr.Failures[0].Sig))
				}
			}
		}
	}
	for _, m := range mutants {
		if alive[m] {
			notes = append(notes, m+": NOT distinguished")
		} else {
			killed++
		}
	}
	notes = append(notes, fmt.Sprintf("unmutated reference judged on %d cases (every %d-th of %d, and every 2nd case with instances of a subclass kept across a redefinition of its superclass list)", len(sample), stride, len(specs)))
	if refBad != "" {
		notes = append(notes, refBad)
		killed = -1
	}
	return
}
