package c06

// Observers: functions that take a list and return an element, an index, a count or a boolean (find position count
// member-if every some reduce length ...). They are not documented as destructive: the frame rule applies to their
// argument. The value (wrapped into a one-element list, nil when the function returns nil) is compared too.
//
// Source reading (r8): find/find-if/position/position-if share one shape - local re-slice seq[start:end], a forward
// loop, a reverse loop, :key call, :test call; count/count-if have forward and from-end loops; reduce re-slices
// list[:end][start:], has a :key branch, a :from-end loop and an :initial-value branch; member/member-if one loop
// returning list[i:].

func init() {
	wrap := func(expr string) string { return "(let ((r " + expr + ")) (and r (list r)))" }
	first := func(s []int64, start, end int, fromEnd bool, hit func(int64) bool) (int, bool) {
		if end < 0 || len(s) < end {
			end = len(s)
		}
		if fromEnd {
			for i := end - 1; start <= i; i-- {
				if hit(s[i]) {
					return i, true
				}
			}
			return 0, false
		}
		for i := start; i < end; i++ {
			if hit(s[i]) {
				return i, true
			}
		}
		return 0, false
	}
	type ov struct {
		suffix, args string
		start, end   int
		fromEnd      bool
		hit          func(s []int64) func(int64) bool
	}
	item := func(s []int64) func(int64) bool { x := s[1]; return func(y int64) bool { return y == x } }
	lt := func(s []int64) func(int64) bool { x := s[1]; return func(y int64) bool { return x < y } }
	keyp := func(s []int64) func(int64) bool { x := s[1]; return func(y int64) bool { return y+1 == x } }
	evn := func([]int64) func(int64) bool { return even }
	od := func([]int64) func(int64) bool { return odd }
	itemV := []ov{
		{"", "", 0, -1, false, item},
		{"-from-end", ":test #'< :from-end t", 0, -1, true, lt},
		{"-test", ":test #'<", 0, -1, false, lt},
		{"-start", ":start 2", 2, -1, false, item},
		{"-end", ":end 1", 0, 1, false, item},
		{"-key", ":key #'1+", 0, -1, false, keyp},
	}
	ifV := []ov{
		{"", "", 0, -1, false, evn},
		{"-from-end", ":from-end t", 0, -1, true, evn},
		{"-start", ":start 2", 2, -1, false, evn},
		{"-end", ":end 1", 0, 1, false, evn},
		{"-key", ":key #'1+", 0, -1, false, od},
	}
	for _, fn := range []string{"find", "position"} {
		for i, set := range [][]ov{itemV, ifV} {
			for _, v := range set {
				v, fn, i := v, fn, i
				name, call := fn+v.suffix, "("+fn+" (nth 1 {S}) {S} "+v.args+")"
				if i == 1 {
					name, call = fn+"-if"+v.suffix, "("+fn+"-if #'evenp {S} "+v.args+")"
				}
				want := func(s, _ []int64, _ int64) []int64 {
					k, ok := first(s, v.start, v.end, v.fromEnd, v.hit(s))
					if !ok {
						return nil
					}
					if fn == "position" {
						return one(int64(k))
					}
					return one(s[k])
				}
				group := "kw"
				var base lf
				if v.suffix == "" {
					group = "fn"
				} else {
					h0 := item
					if i == 1 {
						h0 = evn
					}
					if v.suffix == "-from-end" && i == 0 {
						h0 = lt
					}
					base = func(s, _ []int64, _ int64) []int64 {
						k, ok := first(s, 0, -1, false, h0(s))
						if !ok {
							return nil
						}
						if fn == "position" {
							return one(int64(k))
						}
						return one(s[k])
					}
				}
				f := name
				if i == 1 {
					f = fn + "-if"
				} else {
					f = fn
				}
				addFam(&fam{name: name, fn: f, group: group, pats: "ba ca bc cb", minS: 2, share: shareNone, form: wrap(call), want: want, base: base})
			}
		}
	}
	// ---- count / count-if
	cnt := func(s []int64, start, end int, hit func(int64) bool) []int64 {
		if end < 0 || len(s) < end {
			end = len(s)
		}
		var k int64
		for i := start; i < end; i++ {
			if hit(s[i]) {
				k++
			}
		}
		return one(k)
	}
	type cv struct {
		name, fn, call string
		start, end     int
		hit            func(s []int64) func(int64) bool
		base           func(s []int64) func(int64) bool
	}
	for _, v := range []cv{
		{"count", "count", "(count (nth 1 {S}) {S})", 0, -1, item, nil},
		{"count-test", "count", "(count (nth 1 {S}) {S} :test #'<)", 0, -1, lt, item},
		{"count-start", "count", "(count (nth 1 {S}) {S} :start 2)", 2, -1, item, item},
		{"count-from-end-key", "count", "(count (nth 1 {S}) {S} :from-end t :key #'1+)", 0, -1, keyp, item},
		{"count-if", "count-if", "(count-if #'evenp {S})", 0, -1, evn, nil},
		{"count-if-end", "count-if", "(count-if #'evenp {S} :end 2)", 0, 2, evn, evn},
		{"count-if-from-end-start", "count-if", "(count-if #'evenp {S} :from-end t :start 2)", 2, -1, evn, evn},
		{"count-if-key", "count-if", "(count-if #'evenp {S} :key #'1+)", 0, -1, od, evn},
	} {
		v := v
		group := "kw"
		var base lf
		if v.base == nil {
			group = "fn"
		} else {
			base = func(s, _ []int64, _ int64) []int64 { return cnt(s, 0, -1, v.base(s)) }
		}
		addFam(&fam{name: v.name, fn: v.fn, group: group, pats: "ba ca bc cb", minS: 2, share: shareNone, form: "(list " + v.call + ")",
			want: func(s, _ []int64, _ int64) []int64 { return cnt(s, v.start, v.end, v.hit(s)) }, base: base})
	}
	// ---- member with :key / :test, member-if (the result is a tail of the argument)
	type mv struct {
		name, fn, call string
		hit            func(s []int64) func(int64) bool
		base           func(s []int64) func(int64) bool
	}
	for _, v := range []mv{
		{"member-key", "member", "(member (nth 1 {S}) {S} :key #'1+)", keyp, item},
		{"member-test", "member", "(member (nth 1 {S}) {S} :test #'<)", lt, item},
		{"member-if", "member-if", "(member-if #'evenp {S})", evn, nil},
		{"member-if-key", "member-if", "(member-if #'evenp {S} :key #'1+)", od, evn},
	} {
		v := v
		tailAt := func(s []int64, hit func(int64) bool) int {
			if k, ok := first(s, 0, -1, false, hit); ok {
				return k
			}
			return len(s)
		}
		group := "kw"
		var base lf
		if v.base == nil {
			group = "fn"
		} else {
			base = func(s, _ []int64, _ int64) []int64 { return from(s, tailAt(s, v.base(s))) }
		}
		addFam(&fam{name: v.name, fn: v.fn, group: group, pats: patProd, minS: 2, share: shareS, form: v.call,
			want: func(s, _ []int64, _ int64) []int64 { return from(s, tailAt(s, v.hit(s))) },
			tail: func(s []int64) int { return tailAt(s, v.hit(s)) }, base: base})
	}
	// ---- reduce: every branch of reduce.go
	sum := func(s []int64, f func(int64) int64) int64 {
		var t int64
		for _, x := range s {
			t += f(x)
		}
		return t
	}
	id := func(x int64) int64 { return x }
	type rdv struct {
		name, call string
		want       func(s []int64, n int64) int64
		kw         bool
	}
	for _, v := range []rdv{
		{"reduce", "(reduce #'+ {S})", func(s []int64, _ int64) int64 { return sum(s, id) }, false},
		{"reduce-key", "(reduce #'+ {S} :key #'1+)", func(s []int64, _ int64) int64 { return sum(s, func(x int64) int64 { return x + 1 }) }, true},
		{"reduce-start", "(reduce #'+ {S} :start 1)", func(s []int64, _ int64) int64 { return sum(s[1:], id) }, true},
		{"reduce-end", "(reduce #'+ {S} :end 2)", func(s []int64, _ int64) int64 { return sum(s[:2], id) }, true},
		{"reduce-key-start-end", "(reduce #'+ {S} :key #'1+ :start 1 :end 2)", func(s []int64, _ int64) int64 { return s[1] + 1 }, true},
		{"reduce-initial", "(reduce #'+ {S} :initial-value {N})", func(s []int64, n int64) int64 { return sum(s, id) + n }, true},
		{"reduce-from-end", "(reduce #'- {S} :from-end t)", func(s []int64, _ int64) int64 {
			acc := s[len(s)-1]
			for i := len(s) - 2; 0 <= i; i-- {
				acc = s[i] - acc
			}
			return acc
		}, false},
		{"reduce-from-end-key-initial", "(reduce #'- {S} :from-end t :key #'1+ :initial-value 0)", func(s []int64, _ int64) int64 {
			var acc int64
			for i := len(s) - 1; 0 <= i; i-- {
				acc = s[i] + 1 - acc
			}
			return acc
		}, false},
	} {
		v := v
		group := "fn"
		var base lf
		if v.kw {
			group = "kw"
			base = func(s, _ []int64, _ int64) []int64 { return one(sum(s, id)) }
		}
		addFam(&fam{name: v.name, fn: "reduce", group: group, pats: "ba ca bc cb", minS: 2, share: shareNone, form: "(list " + v.call + ")",
			want: func(s, _ []int64, n int64) []int64 { return one(v.want(s, n)) }, base: base})
	}
	// ---- quantifiers, length, search, mismatch: plain observers
	b2i := func(b bool) []int64 {
		if b {
			return one(1)
		}
		return one(0)
	}
	all := func(s []int64, p func(int64) bool) bool {
		for _, x := range s {
			if !p(x) {
				return false
			}
		}
		return true
	}
	any := func(s []int64, p func(int64) bool) bool { return !all(s, func(x int64) bool { return !p(x) }) }
	type qv struct {
		name, call string
		want       func(s []int64) []int64
	}
	for _, v := range []qv{
		{"every", "(if (every #'evenp {S}) 1 0)", func(s []int64) []int64 { return b2i(all(s, even)) }},
		{"some", "(if (some #'evenp {S}) 1 0)", func(s []int64) []int64 { return b2i(any(s, even)) }},
		{"notany", "(if (notany #'evenp {S}) 1 0)", func(s []int64) []int64 { return b2i(!any(s, even)) }},
		{"notevery", "(if (notevery #'evenp {S}) 1 0)", func(s []int64) []int64 { return b2i(!all(s, even)) }},
		{"every2", "(if (every #'<= {S} (cdr {S})) 1 0)", func(s []int64) []int64 {
			ok := true
			for i := 0; i+1 < len(s); i++ {
				ok = ok && s[i] <= s[i+1]
			}
			return b2i(ok)
		}},
		{"length", "(length {S})", func(s []int64) []int64 { return one(int64(len(s))) }},
		{"list-length", "(list-length {S})", func(s []int64) []int64 { return one(int64(len(s))) }},
		{"search-self", "(search (cdr {S}) {S})", func(s []int64) []int64 {
			// first position where the cdr occurs in the list
			sub := s[1:]
			for i := 0; i+len(sub) <= len(s); i++ {
				if sameElems(s[i:i+len(sub)], sub) {
					return one(int64(i))
				}
			}
			return one(-1)
		}},
		{"search-from-end-key", "(search (list (1+ (nth 1 {S}))) {S} :from-end t :key #'1+ :start2 1)", func(s []int64) []int64 {
			// elements x with x+1 == s[1]+1+... : key applied to both sequences: (s[1]+1)+1 == x+1  <=>  x == s[1]+1
			for i := len(s) - 1; 1 <= i; i-- {
				if s[i] == s[1]+1 {
					return one(int64(i))
				}
			}
			return one(-1)
		}},
		{"mismatch-self", "(mismatch {S} (reverse {S}))", func(s []int64) []int64 {
			r := rev(s)
			for i := range s {
				if s[i] != r[i] {
					return one(int64(i))
				}
			}
			return one(-1)
		}},
		{"elt-nth", "(+ (elt {S} 1) (nth 1 {S}) (second {S}) (cadr {S}) (car (nthcdr 1 {S})))", func(s []int64) []int64 { return one(5 * s[1]) }},
		{"endp-listp", "(if (or (endp {S}) (not (listp {S})) (not (consp {S}))) 1 0)", func(s []int64) []int64 { return one(0) }},
		{"dolist-sum", "(let ((k 0)) (dolist (x {S} k) (setq k (+ k x))))", func(s []int64) []int64 { return one(sum(s, id)) }},
	} {
		v := v
		form := "(list (or " + v.call + " -1))"
		addFam(&fam{name: v.name, group: "fn", pats: "ba ca bc cb", minS: 2, share: shareNone, form: form,
			want: func(s, _ []int64, _ int64) []int64 { return v.want(s) }})
	}
}
