package c02

import (
	"fmt"
	"io"
	"strings"

	"github.com/ohler55/slip"

	"verif/lisp"
)

// cutReader hands its data over in the pieces given by cuts (ascending byte
// offsets). eofWithData: the last piece is returned together with io.EOF
// (both behaviours are legal for an io.Reader). emptyAt: additionally return
// a (0, nil) read before the piece that starts at that offset.
type cutReader struct {
	data        []byte
	cuts        []int
	pos         int
	eofWithData bool
	emptyAt     int
	emptyDone   bool
}

func (c *cutReader) Read(p []byte) (int, error) {
	if len(c.data) <= c.pos {
		return 0, io.EOF
	}
	if 0 < c.emptyAt && c.pos == c.emptyAt && !c.emptyDone {
		c.emptyDone = true
		return 0, nil
	}
	end := len(c.data)
	for _, k := range c.cuts {
		if c.pos < k {
			end = k
			break
		}
	}
	n := copy(p, c.data[c.pos:end])
	c.pos += n
	if c.eofWithData && len(c.data) <= c.pos {
		return n, io.EOF
	}
	return n, nil
}

// outcome of one delivery: the objects obtained (in order), then possibly an error.
type outcome struct {
	objs   []*cv
	pos    []int // position reported after each object (form-at-a-time deliveries)
	err    *lisp.Err
	endPos int // final position reported, -1 if none
}

func (o *outcome) errClass() string {
	switch {
	case o.err == nil:
		return ""
	case o.err.GoFault:
		return "go-fault"
	case o.err.Class == "partial":
		return "partial"
	case o.err.IsA("parse-error") || o.err.IsA("reader-error"):
		return "parse-error"
	case o.err.IsA("end-of-file"):
		return "end-of-file"
	}
	if o.err.Class == "" {
		return "other"
	}
	return o.err.Class
}

func (o *outcome) String() string {
	s := seqString(o.objs)
	if o.err != nil {
		s += " then " + o.errClass() + ": " + o.err.Message
	}
	return s
}

func guard(o *outcome, f func()) {
	defer func() {
		if rec := recover(); rec != nil {
			o.err = lisp.ErrFromRecovered(rec)
		}
	}()
	f()
}

func canonCode(code slip.Code) []*cv {
	out := make([]*cv, 0, len(code))
	for _, obj := range code {
		out = append(out, canon(obj, 0))
	}
	return out
}

func newScope(c cfg) *slip.Scope {
	s := slip.NewScope()
	if c.base != 10 {
		s.Let(slip.Symbol("*read-base*"), slip.Fixnum(c.base))
	}
	if c.ff != "double-float" {
		s.Let(slip.Symbol("*read-default-float-format*"), slip.Symbol(c.ff))
	}
	return s
}

func readString(src string, c cfg) (o outcome) {
	o.endPos = -1
	guard(&o, func() { o.objs = canonCode(slip.ReadString(src, newScope(c))) })
	return
}

func readBytes(src string, c cfg) (o outcome) {
	o.endPos = -1
	guard(&o, func() { o.objs = canonCode(slip.Read([]byte(src), newScope(c))) })
	return
}

// readOneAt: one ReadOne call on src[off:].
func readOneAt(src string, off int, c cfg) (obj *cv, pos int, got bool, err *lisp.Err) {
	var o outcome
	guard(&o, func() {
		code, p := slip.ReadOne([]byte(src[off:]), newScope(c))
		pos = off + p
		if 0 < len(code) {
			obj = canon(code[0], 0)
			got = true
		}
	})
	return obj, pos, got, o.err
}

func readStream(src string, c cfg, r *cutReader) (o outcome) {
	guard(&o, func() {
		code, pos := slip.ReadStream(r, newScope(c))
		o.objs = canonCode(code)
		o.endPos = pos
	})
	return
}

func readStreamOne(src string, c cfg, r *cutReader) (o outcome) {
	guard(&o, func() {
		code, pos := slip.ReadStream(r, newScope(c), true)
		o.objs = canonCode(code)
		o.endPos = pos
	})
	return
}

func readStreamPush(src string, c cfg, r *cutReader) (o outcome) {
	o.endPos = -1
	ch := make(chan slip.Object, 256)
	guard(&o, func() { slip.ReadStreamPush(r, newScope(c), ch) })
	close(ch)
	for obj := range ch {
		o.objs = append(o.objs, canon(obj, 0))
	}
	return
}

type collector struct {
	objs []*cv
}

func (cc *collector) Call(s *slip.Scope, args slip.List, depth int) slip.Object {
	for _, a := range args {
		cc.objs = append(cc.objs, canon(a, 0))
	}
	return nil
}

func readStreamEach(src string, c cfg, r *cutReader) (o outcome) {
	o.endPos = -1
	var cc collector
	guard(&o, func() { slip.ReadStreamEach(r, newScope(c), &cc) })
	o.objs = cc.objs
	return
}

// evalIn evaluates a harness-written form in the configured scope. The form
// itself is read with the default reader configuration (under *read-base* 36
// the word "read" would be a number).
func evalIn(s *slip.Scope, form string) (result slip.Object, err *lisp.Err) {
	defer func() {
		if rec := recover(); rec != nil {
			err = lisp.ErrFromRecovered(rec)
			result = nil
		}
	}()
	code := slip.ReadString(form, slip.NewScope())
	result = code.Eval(s, nil)
	return
}

// lispRead: (read <stream>) once, on a string stream (seekable) or on an
// input stream wrapping a plain io.Reader.
func lispRead(src string, c cfg, seekable bool, r *cutReader) (o outcome) {
	o.endPos = -1
	s := newScope(c)
	if seekable {
		s.Let(slip.Symbol("c02-in"), slip.NewStringStream([]byte(src)))
	} else {
		s.Let(slip.Symbol("c02-in"), slip.NewInputStream(r))
	}
	val, err := evalIn(s, "(read c02-in)")
	if err != nil {
		o.err = err
		return
	}
	o.objs = []*cv{canon(val, 0)}
	return
}

// readFromString: (read-from-string s) on src[off:], with or without :preserve-whitespace.
func readFromString(src string, off int, c cfg, preserve bool) (obj *cv, pos int, err *lisp.Err) {
	s := newScope(c)
	s.Let(slip.Symbol("c02-s"), slip.String(src[off:]))
	form := "(multiple-value-list (read-from-string c02-s t nil))"
	if preserve {
		form = "(multiple-value-list (read-from-string c02-s t nil :preserve-whitespace t))"
	}
	val, e := evalIn(s, form)
	if e != nil {
		return nil, 0, e
	}
	l, ok := val.(slip.List)
	if !ok || len(l) != 2 {
		return nil, 0, &lisp.Err{Class: "harness", Message: "read-from-string did not return two values: " + lisp.Show(val)}
	}
	p, ok := l[1].(slip.Fixnum)
	if !ok {
		return nil, 0, &lisp.Err{Class: "harness", Message: "read-from-string position is not a fixnum: " + lisp.Show(val)}
	}
	return canon(l[0], 0), int(p), nil
}

// compareSeq classifies how got differs from want ("" = same). Both erroring
// counts as agreement (the statement allows "incomplete or parse error").
func compareSeq(want, got *outcome) (kind, detail string) {
	switch {
	case want.err != nil && got.err != nil:
		// objects delivered before the error must still be a prefix of nothing
		// we know; nothing is demanded here.
		return "", ""
	case want.err == nil && got.err != nil:
		return "error:" + got.errClass(), "got " + got.String() + " ; want " + want.String()
	case want.err != nil && got.err == nil:
		return "silent", "got " + got.String() + " ; want an error (" + want.errClass() + ")"
	}
	return compareObjs(want.objs, got.objs)
}

func compareObjs(want, got []*cv) (kind, detail string) {
	n := len(want)
	if len(got) < n {
		n = len(got)
	}
	for i := 0; i < n; i++ {
		if shape, w, g := diff(want[i], got[i]); shape != "" {
			return "value:" + shape, fmt.Sprintf("form %d: got %s where %s is wanted; got %s ; want %s", i, g, w, seqString(got), seqString(want))
		}
	}
	switch {
	case len(got) < len(want):
		return "count:fewer", "got " + seqString(got) + " ; want " + seqString(want)
	case len(want) < len(got):
		return "count:more", "got " + seqString(got) + " ; want " + seqString(want)
	}
	return "", ""
}

func showCuts(src string, cuts []int) string {
	var parts []string
	prev := 0
	for _, k := range cuts {
		parts = append(parts, fmt.Sprintf("%q", src[prev:k]))
		prev = k
	}
	parts = append(parts, fmt.Sprintf("%q", src[prev:]))
	return strings.Join(parts, "|")
}
