package c13

import (
	"fmt"
	"strings"

	"verif/engine"
	"verif/lisp"
)

// Static phase (engine E1): cases that the BFS does not cover.
//
//	q|<history>            qualified symbols handed to boundp / symbol-value /
//	                       fboundp / funcall / #' after every history of the
//	                       small configuration up to staticDepth
//	h|<history>            a plain history judged at its last step (seed prefixes)
//	d|<options of b>|<history>   package b created with defpackage :use / :export
//	                       options, then every history up to staticDepth with the
//	                       full oracle on the last step (the empty history checks
//	                       the created state against the options)

func staticDepth(tier string) int {
	if tier == engine.Thorough {
		return 3
	}
	return 2
}

var defpackageVariants = []string{"u=a;x=", "u=;x=v", "u=;x=f", "u=;x=v,f", "u=a;x=v", "u=a;x=f", "u=a;x=v,f"}

func enumerate(tier string, emit func(string)) {
	ops := smallCfg.ops(0)
	var hists []string
	var rec func(prefix []string, depth int)
	for d := 0; d <= staticDepth(tier); d++ {
		rec = func(prefix []string, depth int) {
			if depth == 0 {
				hists = append(hists, strings.Join(prefix, ","))
				return
			}
			for _, o := range ops {
				rec(append(prefix, o), depth-1)
			}
		}
		rec(nil, d)
	}
	for _, h := range hists {
		emit("q|" + h)
	}
	for _, h := range hists {
		for _, v := range defpackageVariants {
			emit("d|" + v + "|" + h)
		}
	}
	// every proper prefix of every seed, judged at its last step (the complete
	// seed is judged as the first BFS transition of the seeded exploration)
	for _, seed := range seeds {
		for k := 1; k < len(seed); k++ {
			var l []string
			for _, o := range seed[:k] {
				l = append(l, "G0"+o)
			}
			emit("h|" + strings.Join(l, ","))
		}
	}
}

func parseHist(s string) (ops []op, ok bool) {
	if s == "" {
		return nil, true
	}
	for _, x := range strings.Split(s, ",") {
		o, k := parseOp(x)
		if !k {
			return nil, false
		}
		ops = append(ops, o)
	}
	return ops, true
}

func execStatic(spec string) (res engine.Result) {
	parts := strings.Split(spec, "|")
	switch {
	case parts[0] == "q" && len(parts) == 2:
		ops, ok := parseHist(parts[1])
		if !ok {
			res.Fail("harness:bad-spec", spec)
			return
		}
		execQualified(ops, &res)
	case parts[0] == "h" && len(parts) == 2:
		ops, ok := parseHist(parts[1])
		if !ok || len(ops) == 0 {
			res.Fail("harness:bad-spec", spec)
			return
		}
		runTransition(ops[0].cfg, nil, ops, &res)
	case parts[0] == "d" && len(parts) == 3:
		ops, ok := parseHist(parts[2])
		if !ok {
			res.Fail("harness:bad-spec", spec)
			return
		}
		execDefpackage(parts[1], ops, &res)
	default:
		res.Fail("harness:bad-spec", spec)
	}
	return
}

// ---------------------------------------------------------------------------

type dpOpts struct {
	use    []string
	export []string
}

func parseDpOpts(s string) (o dpOpts) {
	for _, f := range strings.Split(s, ";") {
		kv := strings.SplitN(f, "=", 2)
		if len(kv) != 2 || kv[1] == "" {
			continue
		}
		switch kv[0] {
		case "u":
			o.use = strings.Split(kv[1], ",")
		case "x":
			o.export = strings.Split(kv[1], ",")
		}
	}
	return
}

func execDefpackage(optText string, ops []op, res *engine.Result) {
	o := parseDpOpts(optText)
	var b, ub strings.Builder
	for _, u := range o.use {
		ub.WriteString(" @" + u)
	}
	if 0 < len(o.export) {
		b.WriteString(" (:export")
		for _, x := range o.export {
			b.WriteString(" " + x)
		}
		b.WriteString(")")
	}
	opts := map[string]pkgOpts{"b": {use: ub.String(), rest: b.String()}}
	var created []*graph
	if len(ops) == 0 {
		// the state defpackage must create: use edges, and exported names that
		// are either remembered as unbound placeholders or not at all
		base := newGraph(smallCfg)
		for _, u := range o.use {
			base.p[1].uses = append(base.p[1].uses, indexOf(smallCfg.pk, u))
		}
		n := len(o.export)
		for mask := 0; mask < 1<<n; mask++ {
			g := base.clone()
			for i, x := range o.export {
				if mask&(1<<i) != 0 {
					g.p[1].vars[x] = &def{val: unboundVal, exp: true}
				}
			}
			created = append(created, g)
		}
	}
	tr := runTransitionOpts(smallCfg, opts, ops, res, created)
	if tr != nil {
		res.Hit("static-defpackage-options")
	}
}

// ---------------------------------------------------------------------------

type qprobe struct {
	c, q  int
	kind  byte
	name  string
	form  string // ext | int
	probe string
}

func execQualified(ops []op, res *engine.Result) {
	cfg := smallCfg
	in, err := newInstance(cfg, nil)
	defer in.close()
	if err != nil {
		res.Fail("harness:defpackage-failed", err.String())
		return
	}
	for _, o := range ops {
		_ = in.apply(o)
	}
	d := in.dump()
	key := d.key()
	g, aliased, _ := d.abstract(false)
	slots := cfg.slots()
	std := in.probeAll(slots)
	bad := map[string]bool{} // qualified slots the standard probes already disagree on
	for _, i := range mismatchesIdx(g, slots, std) {
		sl := slots[i]
		bad[fmt.Sprintf("%s|%d|%d|%c|%s", sl.form, sl.c, sl.q, sl.kind, sl.name)] = true
	}
	var digest strings.Builder
	for ci := range cfg.pk {
		if e := in.inPackage(ci); e != nil {
			res.Fail("harness:in-package-failed", e.String())
			return
		}
		for qi := range cfg.pk {
			for _, form := range []string{"ext", "int"} {
				sep := ":"
				if form == "int" {
					sep = "::"
				}
				for _, kind := range []byte{'v', 'f'} {
					// read-in-body / call-in-body: the qualified name written inside a function body (a body is compiled
					// when the function is made, a top level form when it is evaluated: two lookups in slip)
					names, probes := cfg.vars, []string{"boundp", "symval", "read-in-body"}
					if kind == 'f' {
						names, probes = cfg.funcs, []string{"fboundp", "funcall", "function", "call-in-body"}
					}
					for _, n := range names {
						sl := slot{form: form, c: ci, q: qi, kind: kind, name: n}
						if bad[fmt.Sprintf("%s|%d|%d|%c|%s", form, ci, qi, kind, n)] || slotAliased(sl, aliased) {
							continue
						}
						want := g.expected(rules{}, sl)
						qn := in.names[qi] + sep + n
						for _, pr := range probes {
							var src string
							switch pr {
							case "boundp":
								src = "(boundp '" + qn + ")"
							case "symval":
								src = "(symbol-value '" + qn + ")"
							case "fboundp":
								src = "(fboundp '" + qn + ")"
							case "funcall":
								src = "(funcall '" + qn + " 0)"
							case "function":
								src = "(funcall #'" + qn + " 0)"
							case "call-in-body":
								src = "(funcall (lambda (z) (" + qn + " z)) 0)"
							case "read-in-body":
								src = "(funcall (lambda (z) " + qn + ") 0)"
							}
							obj, e := lisp.EvalIn(in.scope, src)
							ob := in.classify(obj, e, sl)
							w := want
							if pr == "boundp" || pr == "fboundp" {
								w = set{}
								if want.hasValue() {
									w.add("T")
								}
								if want.has("U") {
									w.add("N")
								}
							}
							digest.WriteString(norm(ob.val) + ",")
							res.Hit("static-qualified-introspection")
							if strings.HasPrefix(ob.val, "F:") {
								res.Fail(fmt.Sprintf("static=qualified probe=%s form=%s kind=go-fault", pr, form),
									fmt.Sprintf("after [%s]: %s in package %s => %s", histText(ops), strings.ReplaceAll(src, in.names[qi], cfg.pk[qi]), cfg.pk[ci], ob.val))
								continue
							}
							if !w.has(ob.val) {
								from := "other"
								if ci == qi {
									from = "same"
								}
								kindName := "unexpected"
								switch {
								case (w.hasValue() || w.has("T")) && !(w.has("U") || w.has("N")):
									kindName = "definition-not-reached"
								case !(w.hasValue() || w.has("T")):
									kindName = "reaches-what-it-must-not"
								}
								res.Fail(fmt.Sprintf("static=qualified probe=%s form=%s from=%s kind=%s got=%s", pr, form, from, kindName, valClass(nil, norm(ob.val))),
									fmt.Sprintf("after [%s] (state %s): %s evaluated in package %s => %s, acceptable %s",
										histText(ops), g, strings.ReplaceAll(src, in.names[qi], cfg.pk[qi]), cfg.pk[ci], ob.val, w))
							}
						}
					}
				}
			}
		}
	}
	if k2 := in.dump().key(); k2 != key {
		res.Fail("harness:probe-mutated-state", "before: "+key+"\nafter:  "+k2)
	}
	res.Nontrivial = 0 < len(ops)
	res.Outcome = "q:" + digest.String()
}

func histText(ops []op) string {
	var l []string
	for _, o := range ops {
		l = append(l, o.String())
	}
	return strings.Join(l, " ")
}
