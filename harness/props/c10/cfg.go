//go:build verif

package c10

// cfg.go: the configurations (alphabets) of the sequential BFS and the Lisp
// text of every operation.

import (
	"fmt"
	"os"
	"strconv"
	"strings"
	"sync"
	"sync/atomic"

	"github.com/ohler55/slip"

	"verif/engine"
	"verif/lisp"
)

// ------------------------------------------------------------------ configurations

type argKind struct {
	src  string   // Lisp source of an argument of this kind
	typ  string   // the name slip keys its cache with (most specific class)
	cpl  []string // class precedence list, most specific first (Common Lisp)
	user bool
}

var argKinds = map[string]argKind{
	"f": {src: "1", typ: "fixnum", cpl: []string{"fixnum", "integer", "rational", "real", "number", "t"}},
	"B": {src: "12345678901234567890123", typ: "bignum", cpl: []string{"bignum", "integer", "rational", "real", "number", "t"}},
	"r": {src: "1/2", typ: "ratio", cpl: []string{"ratio", "rational", "real", "number", "t"}},
	"d": {src: "1.5", typ: "double-float", cpl: []string{"double-float", "float", "real", "number", "t"}},
	"s": {src: "'q", typ: "symbol", cpl: []string{"symbol", "t"}},
	"1": {src: "(make-instance 'vc1)", typ: "vc1", cpl: []string{"vc1", "vc2", "vc3", "vc4", "standard-object", "t"}, user: true},
	"2": {src: "(make-instance 'vc2)", typ: "vc2", cpl: []string{"vc2", "vc3", "vc4", "standard-object", "t"}, user: true},
	"3": {src: "(make-instance 'vc3)", typ: "vc3", cpl: []string{"vc3", "vc4", "standard-object", "t"}, user: true},
	"4": {src: "(make-instance 'vc4)", typ: "vc4", cpl: []string{"vc4", "standard-object", "t"}, user: true},
	// the built-in generic function slot-unbound (class instance slot-name): only the instance is specialised on
	"k": {src: "", typ: "standard-class", cpl: []string{"standard-class", "t"}, user: true},
	"S": {src: "(make-instance 'sc1)", typ: "sc1", cpl: []string{"sc1", "sc2", "standard-object", "t"}, user: true},
	"T": {src: "(make-instance 'sc2)", typ: "sc2", cpl: []string{"sc2", "standard-object", "t"}, user: true},
}

// config fixes the alphabet that follows a cfg: operation.
type config struct {
	id       string
	arity    int
	specs    []string // specialiser tuples offered to defmethod / remove-method
	variants string   // body variants offered to defmethod (see seqref.go)
	calls    []string // argument kind tuples offered to call (and used as probes); a trailing + = the extra arguments are given
	user     bool
	// round 8
	tail        string          // "", "opt", "key", "rest": what follows the required parameter in every lambda list
	argsInTrace bool            // primary and daemons also trace their arguments and the primary returns them
	sink        string          // argument kinds of the nested call made by g / h bodies; g / h are offered only on tuples that do not cover it
	regen       bool            // defgeneric evaluated again is offered: G (plain), M:<tuple> (with a (:method ...) option)
	builtin     string          // name of a BUILT-IN generic function the history works on (no defgeneric, methods removed at the end)
	preset      map[string]byte // methods the generic function has before the history starts (built-in default methods)
	presetErr   string          // condition class the built-in default method signals
	fnForms     bool            // remove-method / find-method are given #'g and errorp t instead of the symbol
	noRoutes    bool            // the other call routes are not probed
	only        map[byte][]string
}

func (c *config) refCfg() *refCfg {
	return &refCfg{
		cpl:         func(kind string) []string { return argKinds[kind].cpl },
		tail:        c.tail,
		argsInTrace: c.argsInTrace,
		sink:        c.sink,
		depthLimit:  depthLimit,
	}
}

// depthLimit: the guard inside x / y / z bodies. A body that is entered more
// often than this during ONE call of the generic function returns
// <tag>-runaway instead of calling call-next-method again, so an endless
// recursion shows as a wrong outcome, not as a hung worker.
const depthLimit = 4

func (c *config) cpls(args string) [][]string {
	parts := strings.Split(strings.TrimSuffix(args, "+"), ",")
	out := make([][]string, len(parts))
	for i, p := range parts {
		out[i] = argKinds[p].cpl
	}
	return out
}

func tuples(per ...[]string) []string {
	out := []string{""}
	for i, list := range per {
		var next []string
		for _, pre := range out {
			for _, x := range list {
				if i == 0 {
					next = append(next, x)
				} else {
					next = append(next, pre+","+x)
				}
			}
		}
		out = next
	}
	return out
}

var allConfigs = func() map[string]*config {
	l := func(s ...string) []string { return s }
	list := []*config{
		// 1 argument, built-in numeric chain (+ t; a symbol argument reaches only t), small and full
		{id: "b1s", arity: 1, specs: l("fixnum", "rational", "u"), variants: "pbaw", calls: l("f", "r", "s")},
		{id: "b1", arity: 1, specs: l("fixnum", "integer", "rational", "real", "t"), variants: "pbaw", calls: l("f", "B", "r", "d", "s"), noRoutes: true},
		// 1 argument, user defclass chain vc1 < vc2 < vc3 < vc4
		{id: "u1", arity: 1, specs: l("vc1", "vc2", "vc3", "vc4"), variants: "pbaw", calls: l("1", "2", "3", "4"), user: true},
		// 1 argument, the three kinds of :around body (calls next / does not / asks next-method-p first)
		{id: "s1", arity: 1, specs: l("fixnum", "integer", "real"), variants: "pwsn", calls: l("f", "B", "d")},
		// 2 arguments, built-in classes, small and full
		{id: "b2s", arity: 2, specs: l("fixnum,fixnum", "fixnum,real", "real,fixnum", "u,u"), variants: "paw", calls: l("f,f", "f,d", "d,f")},
		// the two ways to write a parameter of class t: (x t) and a bare x ("u")
		{id: "n1", arity: 1, specs: l("fixnum", "t", "u"), variants: "pb", calls: l("f", "s")},
		{id: "n2", arity: 2, specs: l("fixnum,u", "fixnum,t", "u,u"), variants: "pa", calls: l("f,f", "d,f")},
		{id: "b2", arity: 2, specs: append(tuples(l("fixnum", "real"), l("fixnum", "real")), "t,t"), variants: "pbaw", calls: l("f,f", "f,d", "d,f", "d,d"), noRoutes: true},
		// 2 arguments, user classes
		{id: "u2", arity: 2, specs: tuples(l("vc1", "vc2"), l("vc1", "vc2")), variants: "paw", calls: l("1,1", "1,2", "2,1", "2,2"), user: true},

		// ---- round 8: more kinds of method body, each in a small configuration of its own
		// :around that calls call-next-method twice / inside a loop after next-method-p
		{id: "k1", arity: 1, specs: l("fixnum", "integer", "real"), variants: "pwdl", calls: l("f", "B", "d"), fnForms: true},
		// :around that calls call-next-method with other arguments of the same classes / a bare (call-next-method); arguments seen by every body
		{id: "k2", arity: 1, specs: l("fixnum", "integer", "real"), variants: "pbmo", calls: l("f", "B", "d"), argsInTrace: true},
		// re-entrancy: an :around (g) / a primary (h) calls the generic function itself with a double-float before continuing
		{id: "g1", arity: 1, specs: l("fixnum", "integer", "real"), variants: "pwghx", calls: l("f", "B", "d"), sink: "d"},
		// primary / :before / :after that call call-next-method, with and without an :around method above them
		{id: "x1", arity: 1, specs: l("fixnum", "integer"), variants: "pxyzw", calls: l("f", "B")},
		// the same kinds on two required arguments
		{id: "k22", arity: 2, specs: l("fixnum,fixnum", "fixnum,real", "real,fixnum"), variants: "pwdx", calls: l("f,f", "f,d", "d,f")},
		{id: "g2", arity: 2, specs: l("fixnum,fixnum", "fixnum,real", "real,real"), variants: "pmg", calls: l("f,f", "f,d", "d,d"), sink: "d,d", argsInTrace: true},

		// ---- round 8: more of the specification
		// t / unspecialised parameters mixed with classes where the left-to-right rule decides: (integer t) vs (real fixnum)
		{id: "m2", arity: 2, specs: l("integer,t", "real,fixnum", "integer,u", "t,fixnum"), variants: "paw", calls: l("f,f", "d,f", "f,d", "s,f")},
		// 3 required arguments
		{id: "t3", arity: 3, specs: l("integer,t,fixnum", "real,fixnum,t", "integer,u,real", "t,t,t"), variants: "pw", calls: l("f,f,f", "d,f,f", "f,f,d", "f,d,d")},
		// &optional / &key / &rest after the required parameter: dispatch on the required argument only
		{id: "o1", arity: 1, specs: l("fixnum", "real", "u"), variants: "paw", calls: l("f", "f+", "d+", "s+"), tail: "opt"},
		{id: "y1", arity: 1, specs: l("fixnum", "real", "u"), variants: "paw", calls: l("f", "f+", "d+", "s+"), tail: "key"},
		{id: "e1", arity: 1, specs: l("fixnum", "real", "u"), variants: "paw", calls: l("f", "f+", "d+", "s+"), tail: "rest"},
		// defgeneric evaluated again between calls, with and without a (:method ...) option
		{id: "rg1", arity: 1, specs: l("fixnum", "real"), variants: "pw", calls: l("f", "d"), regen: true},
		// a BUILT-IN generic function with user methods added and removed: slot-unbound (class instance slot-name), called by slot-value
		{id: "bi", arity: 3, specs: l("t,sc1,t", "t,sc2,t", "u,sc2,u"), variants: "pbw", calls: l("k,S,s", "k,T,s"), user: true,
			builtin: "slot-unbound", preset: map[string]byte{"t,t,t": 'E'}, presetErr: "unbound-slot", noRoutes: true},
	}
	m := map[string]*config{}
	for _, c := range list {
		m[c.id] = c
	}
	return m
}()

// tierCfg: a configuration and the history length explored for it in a tier.
type tierCfg struct {
	*config
	maxLen int
}

const (
	quickCfgs    = "b1s@5,u1@5,s1@5,b2s@5,u2@5,n1@5,n2@5,k1@5,k2@4,g1@5,x1@5,k22@4,g2@5,m2@4,t3@5,o1@4,y1@4,e1@4,rg1@6,bi@5"
	thoroughCfgs = "b1s@7,u1@7,s1@7,b2s@7,u2@7,n1@7,n2@7,b1@6,b2@6,k1@7,k2@6,g1@6,x1@7,k22@6,g2@6,m2@6,t3@6,o1@6,y1@6,e1@6,rg1@7,bi@6"
)

// tierConfigs lists "id@len". C10_CFGS overrides it (development aid).
func tierConfigs(tier string) []tierCfg {
	spec := quickCfgs
	if tier == engine.Thorough {
		spec = thoroughCfgs
	}
	if v := os.Getenv("C10_CFGS"); v != "" {
		spec = v
	}
	var out []tierCfg
	for _, item := range strings.Split(spec, ",") {
		id, ls, _ := strings.Cut(item, "@")
		n, _ := strconv.Atoi(ls)
		if c := allConfigs[id]; c != nil && 0 < n {
			out = append(out, tierCfg{c, n})
		}
	}
	return out
}

func histLen(tier string) (n int) {
	for _, tc := range tierConfigs(tier) {
		if n < tc.maxLen {
			n = tc.maxLen
		}
	}
	return
}

// slotLetters: the slots (p b a w) that can hold a method in this configuration.
func (c *config) slotLetters() string {
	has := [4]bool{}
	for i := 0; i < len(c.variants); i++ {
		has[slotOf(c.variants[i])] = true
	}
	out := ""
	for s, l := range "pbaw" {
		if has[s] {
			out += string(l)
		}
	}
	return out
}

// covers: is a method with this specialiser tuple applicable to the argument kinds?
func (c *config) covers(spec, kinds string) bool {
	parts := strings.Split(normSpec(spec), ",")
	cpls := c.cpls(kinds)
	if len(parts) != len(cpls) {
		return false
	}
	for i, p := range parts {
		found := false
		for _, cl := range cpls[i] {
			found = found || cl == p
		}
		if !found {
			return false
		}
	}
	return true
}

// offered: is the body variant offered on the tuple? A body that calls the
// generic function with the sink tuple must not be applicable to it itself.
func (c *config) offered(v byte, spec string) bool {
	if (v == 'g' || v == 'h') && c.covers(spec, c.sink) {
		return false
	}
	return true
}

// ops lists the full alphabet of the configuration, simplest first.
func (c *config) ops() []string {
	var out []string
	for _, a := range c.calls {
		out = append(out, "c:"+a)
	}
	for _, v := range c.variants {
		for _, s := range c.specs {
			if c.offered(byte(v), s) {
				out = append(out, fmt.Sprintf("d:%c:%s", v, s))
			}
		}
	}
	for _, v := range c.slotLetters() {
		seen := map[string]bool{}
		for _, s := range c.specs {
			if n := normSpec(s); !seen[n] {
				seen[n] = true
				out = append(out, fmt.Sprintf("r:%c:%s", v, n))
			}
		}
	}
	if c.regen {
		out = append(out, "G")
		for _, s := range c.specs {
			out = append(out, "M:"+s)
		}
	}
	return out
}

// enabled lists the operations that make sense in the model state
// (remove-method only of present methods).
func (c *config) enabled(m *model) []string {
	var out []string
	for _, o := range c.ops() {
		if o[0] == 'r' {
			po, _ := parseOp(o)
			if !m.removable(slotOf(po.variant), po.spec) {
				continue
			}
		}
		out = append(out, o)
	}
	return out
}

func bound(tier string) string {
	var parts []string
	for _, c := range tierConfigs(tier) {
		extra := ""
		if c.tail != "" {
			extra += " lambda lists end in &" + map[string]string{"opt": "optional o", "key": "key k", "rest": "rest r"}[c.tail] + ";"
		}
		if c.regen {
			extra += " + defgeneric evaluated again (G plain, M:<tuple> with a :method option);"
		}
		if c.builtin != "" {
			extra += " on the built-in generic function " + c.builtin + ";"
		}
		if c.sink != "" {
			extra += " nested calls with (" + c.sink + ");"
		}
		parts = append(parts, fmt.Sprintf("%s: histories of length <= %d over a %d-arg generic function, defmethod/remove-method on specialiser tuples {%s} "+
			"with bodies {%s}, call/probe tuples {%s}%s (%d operations)",
			c.id, c.maxLen, c.arity, strings.Join(c.specs, " "), c.variants, strings.Join(c.calls, " "), extra, len(c.ops())))
	}
	capNote := ""
	if sc := stateCap(tier); 0 < sc {
		capNote = fmt.Sprintf("; state cap %d (if hit, the run is reported as not exhaustive: see notes and bfs_depth_completed)", sc)
	}
	return fmt.Sprintf("every history up to the stated length per configuration (BFS depth = 1 configuration choice + history), up to equality of the "+
		"real generic.Aux state, no deduplication up to length %d; every reached state additionally probed with every call tuple, and - for histories of "+
		"length <= 6, i.e. all of the quick tier, and except in b1 / b2 / bi - through every call route "+
		"(direct, funcall, apply, mapcar, compiled before / after the defgeneric, FuncInfo.Apply, Caller.Call). Body kinds: p b a w s n as before; d = :around "+
		"calling call-next-method twice, l = in a loop after next-method-p, m = with other arguments, o = bare, g = after a nested call of the generic "+
		"function, h = primary with a nested call, x y z = primary / :before / :after calling call-next-method. %s%s",
		noDedupLen(tier), strings.Join(parts, " | "), capNote)
}

// ------------------------------------------------------------------ Lisp text

var paramNames = []string{"x", "y", "z"}

func (c *config) tailLL() string {
	switch c.tail {
	case "opt":
		return " &optional o"
	case "key":
		return " &key k"
	case "rest":
		return " &rest r"
	}
	return ""
}

func (c *config) specLambdaList(spec string) string {
	var b strings.Builder
	b.WriteByte('(')
	for i, s := range strings.Split(spec, ",") {
		if 0 < i {
			b.WriteByte(' ')
		}
		if s == "u" {
			b.WriteString(paramNames[i]) // unspecialised parameter
		} else {
			fmt.Fprintf(&b, "(%s %s)", paramNames[i], s)
		}
	}
	b.WriteString(c.tailLL())
	b.WriteByte(')')
	return b.String()
}

func argNames(arity int) string {
	return strings.Join(paramNames[:arity], " ")
}

func (c *config) gfLambdaList() string {
	return "(" + argNames(c.arity) + c.tailLL() + ")"
}

// cnm: the call-next-method form that hands every argument on.
func (c *config) cnm() string {
	switch c.tail {
	case "opt":
		return "(call-next-method " + argNames(c.arity) + " o)"
	case "key":
		return "(call-next-method " + argNames(c.arity) + " :k k)"
	case "rest":
		return "(call-next-method)" // the arguments of the call are passed on
	}
	return "(call-next-method " + argNames(c.arity) + ")"
}

func (c *config) methodBody(name string, variant byte, tag string) (qual, body string) {
	an := argNames(c.arity)
	cnm := c.cnm()
	ann := ""
	if c.argsInTrace {
		ann = fmt.Sprintf(" (tr (list %s))", an)
	}
	pval := "'" + tag
	switch {
	case c.argsInTrace:
		pval = fmt.Sprintf("(list '%s %s)", tag, an)
	case c.tail != "":
		pval = fmt.Sprintf("(list '%s %s)", tag, map[string]string{"opt": "o", "key": "k", "rest": "r"}[c.tail])
	}
	sink := ""
	if c.sink != "" {
		sink = callSrc(c, name, c.sink)
	}
	guard := fmt.Sprintf("(< %d (c10-depth))", depthLimit)
	switch variant {
	case 'p':
		return "", fmt.Sprintf("(tr '%s)%s %s", tag, ann, pval)
	case 'b':
		return ":before", fmt.Sprintf("(tr '%s)%s 'ignored", tag, ann)
	case 'a':
		return ":after", fmt.Sprintf("(tr '%s)%s 'ignored", tag, ann)
	case 'w':
		return ":around", fmt.Sprintf("(tr '%s-in) (let ((v %s)) (tr '%s-out) (list '%s v))", tag, cnm, tag, tag)
	case 's':
		return ":around", fmt.Sprintf("(tr '%s-in) '%s", tag, tag)
	case 'n':
		return ":around", fmt.Sprintf("(tr '%s-in) (if (next-method-p) (let ((v %s)) (tr '%s-out) (list '%s v)) '%s-none)", tag, cnm, tag, tag, tag)
	case 'd':
		return ":around", fmt.Sprintf("(tr '%s-in) (let* ((v1 %s) (v2 %s)) (tr '%s-out) (list '%s v1 v2))", tag, cnm, cnm, tag, tag)
	case 'l':
		return ":around", fmt.Sprintf("(tr '%s-in) (let ((acc nil)) (if (next-method-p) (dotimes (i 2) (setq acc (cons %s acc)))) (tr '%s-out) (list '%s acc))",
			tag, cnm, tag, tag)
	case 'm':
		var bumped []string
		for _, p := range paramNames[:c.arity] {
			bumped = append(bumped, "(+ "+p+" 1)")
		}
		return ":around", fmt.Sprintf("(tr '%s-in) (let ((v (call-next-method %s))) (tr '%s-out) (list '%s %s v))",
			tag, strings.Join(bumped, " "), tag, tag, an)
	case 'o':
		return ":around", fmt.Sprintf("(tr '%s-in) (let ((v (call-next-method))) (tr '%s-out) (list '%s v))", tag, tag, tag)
	case 'g':
		return ":around", fmt.Sprintf("(tr '%s-in) (let* ((r %s) (v %s)) (tr '%s-out) (list '%s r v))", tag, sink, cnm, tag, tag)
	case 'h':
		return "", fmt.Sprintf("(tr '%s)%s (list '%s %s)", tag, ann, tag, sink)
	case 'x':
		return "", fmt.Sprintf("(tr '%s)%s (if %s '%s-runaway (list '%s %s))", tag, ann, guard, tag, tag, cnm)
	case 'y':
		return ":before", fmt.Sprintf("(tr '%s)%s (if %s '%s-runaway %s)", tag, ann, guard, tag, cnm)
	case 'z':
		return ":after", fmt.Sprintf("(tr '%s)%s (if %s '%s-runaway %s)", tag, ann, guard, tag, cnm)
	}
	panic("bad variant")
}

func defmethodSrc(c *config, name string, variant byte, spec, tag string) string {
	qual, body := c.methodBody(name, variant, tag)
	if qual != "" {
		qual += " "
	}
	return fmt.Sprintf("(defmethod %s %s%s %s)", name, qual, c.specLambdaList(spec), body)
}

// regenSrc: defgeneric evaluated again, plain or with one (:method ...) option (a primary).
func regenSrc(c *config, name string, o op, tag string) string {
	if o.kind == 'G' {
		return fmt.Sprintf("(defgeneric %s %s)", name, c.gfLambdaList())
	}
	_, body := c.methodBody(name, 'p', tag)
	return fmt.Sprintf("(defgeneric %s %s (:method %s %s))", name, c.gfLambdaList(), c.specLambdaList(o.spec), body)
}

func removeSrc(c *config, name string, slot byte, spec string) string {
	q := "'()"
	switch slot {
	case 'b':
		q = "'(:before)"
	case 'a':
		q = "'(:after)"
	case 'w':
		q = "'(:around)"
	}
	if c.fnForms {
		// the generic function given as a function object, the specialisers as class objects, errorp true
		var classes []string
		for _, s := range strings.Split(spec, ",") {
			classes = append(classes, "(find-class '"+s+")")
		}
		return fmt.Sprintf("(remove-method #'%s (find-method #'%s %s (list %s) t))", name, name, q, strings.Join(classes, " "))
	}
	return fmt.Sprintf("(remove-method '%s (find-method '%s %s '(%s)))", name, name, q, strings.ReplaceAll(spec, ",", " "))
}

// callArgSrcs: the Lisp source of every argument of a call (the extras included).
func callArgSrcs(c *config, args string) []string {
	extra := strings.HasSuffix(args, "+")
	var out []string
	for _, a := range strings.Split(strings.TrimSuffix(args, "+"), ",") {
		out = append(out, argKinds[a].src)
	}
	if extra {
		switch c.tail {
		case "opt":
			out = append(out, "7")
		case "key":
			out = append(out, ":k", "7")
		case "rest":
			out = append(out, "7", "8")
		}
	}
	return out
}

func callSrc(c *config, name, args string) string {
	if c.builtin == "slot-unbound" {
		// the built-in generic function is reached through slot-value of an unbound slot
		return fmt.Sprintf("(slot-value %s 's)", argKinds[strings.Split(args, ",")[1]].src)
	}
	return "(" + name + " " + strings.Join(callArgSrcs(c, args), " ") + ")"
}

func cacheKey(args string) string {
	parts := strings.Split(strings.TrimSuffix(args, "+"), ",")
	for i, p := range parts {
		parts[i] = argKinds[p].typ
	}
	return strings.Join(parts, "|")
}

var (
	nameCounter int
	userOnce    sync.Once
	userErr     *lisp.Err
)

func ensureUserClasses() *lisp.Err {
	userOnce.Do(func() {
		for _, src := range []string{
			"(defclass vc4 () ())", "(defclass vc3 (vc4) ())", "(defclass vc2 (vc3) ())", "(defclass vc1 (vc2) ())",
			"(defclass sc2 () ((s)))", "(defclass sc1 (sc2) ())", "(defclass c10scratch () ())",
		} {
			if _, err := lisp.Eval(src); err != nil {
				userErr = err
				return
			}
		}
	})
	return userErr
}

// ------------------------------------------------------------------ (c10-depth): the depth guard of x / y / z bodies

var depthCounter int64

type depthFunc struct {
	slip.Function
}

// Call (c10-depth): counts the entries into guarded bodies since the last reset and returns the count.
func (f *depthFunc) Call(s *slip.Scope, args slip.List, depth int) slip.Object {
	return slip.Fixnum(atomic.AddInt64(&depthCounter, 1))
}

func resetDepth() { atomic.StoreInt64(&depthCounter, 0) }

func init() {
	slip.Define(
		func(args slip.List) slip.Object {
			f := depthFunc{Function: slip.Function{Name: "c10-depth", Args: args}}
			f.Self = &f
			return &f
		},
		&slip.FuncDoc{
			Name:   "c10-depth",
			Args:   []*slip.DocArg{},
			Return: "fixnum",
			Text:   "harness depth guard: counts entries since the last reset",
		}, &slip.UserPkg)
}
