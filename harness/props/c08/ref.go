package c08

// ref.go: an independent reference evaluator for the small Lisp subset the
// C08 programs are written in. Functions are looked up in a global table at
// call time (late binding), so the meaning of a program is independent of the
// order of its definitions, of compilation and of re-evaluation by
// construction. It executes the same histories (R/C/E/L steps) as the real
// machine. The mut* switches turn it into the mutated references of the
// oracle-sensitivity self-test (S6); they are all false for the oracle.

import (
	"fmt"
	"strconv"
	"strings"

	"verif/lisp"
)

type sym string

// lst is a non-empty list (code and data); the empty list is Go nil.
type lst struct{ items []val }

type val interface{}

type tval struct{}

var refT = tval{}

type lambda struct {
	name   string
	params []param
	body   []val
	env    *env
	macro  bool
	generic  bool // made by defgeneric / defmethod
	noMethod bool // a generic function that has no method yet
}

type param struct {
	name     sym
	optional bool
	key      bool
	def      val
}

type refErr struct{ class, msg string }

// refAbsent marks a parameter for which no argument was passed (binding of &key parameters).
type refAbsent struct{}

// refReturn is a (return-from name value) in flight; a defun establishes the block `name`.
type refReturn struct {
	tag sym
	v   val
}

type env struct {
	vars   map[sym]*val
	parent *env
}

func (e *env) find(s sym) *val {
	for ; e != nil; e = e.parent {
		if c, has := e.vars[s]; has {
			return c
		}
	}
	return nil
}

type mutation int

const (
	mutNone             mutation = iota
	mutFwdDropArgs               // a call site defined/compiled before its callee existed passes no arguments
	mutFwdDropClosure            // a function first referenced before it existed loses its closure when defined
	mutEarlyBind                 // a call site keeps the definition that existed when the caller was defined (redefinition ignored)
	mutCacheArgValue             // the update loop stores the VALUE of an evaluated sub-form: later evaluations reuse it
	mutDefvarTwice               // Compile evaluates a defvar initial form twice
	mutEvalMutatesData           // eval compiles the sub-forms of its (data) argument in place
	mutPatchKeepsForms           // defun after a forward reference does not patch the placeholder: old call sites stay undefined
	mutCompileDropsMain          // compiled code, evaluated again, skips the non-definition forms
	mutSplitLambda               // a function that was forward-referenced has two lambda objects: callers created after its first definition never see a redefinition
	mutNestedOrphan              // a forward call compiled while the arguments of a forward call of the SAME function are compiled keeps a placeholder that the definition never fills in
	mutDefaultFormOrphan         // a forward call inside the default form of an &optional / &key parameter is never connected to the definition
	mutMapcarFirstListOnly       // mapcar over several lists passes the elements of the first list only
)

var allMutations = []mutation{mutFwdDropArgs, mutFwdDropClosure, mutEarlyBind, mutCacheArgValue, mutDefvarTwice, mutEvalMutatesData,
	mutPatchKeepsForms, mutCompileDropsMain, mutSplitLambda, mutNestedOrphan, mutDefaultFormOrphan, mutMapcarFirstListOnly}

var mutNames = map[mutation]string{
	mutFwdDropArgs:      "forward-referenced call drops its arguments",
	mutFwdDropClosure:   "forward-referenced function defined inside let loses the closure",
	mutEarlyBind:        "redefinition not seen by callers defined earlier",
	mutCacheArgValue:    "evaluated sub-form replaced by its value (second evaluation reuses it)",
	mutDefvarTwice:      "Compile evaluates the defvar initial form twice",
	mutEvalMutatesData:  "eval rewrites quoted data in place",
	mutPatchKeepsForms:  "defun does not patch the forward-reference placeholder",
	mutCompileDropsMain: "compiled code skips re-evaluation of non-definition forms after the first run",
	mutSplitLambda:      "redefinition of a once-forward-referenced function is not seen by callers created after its first definition",
	mutNestedOrphan:        "a forward call nested in the arguments of a forward call of the same function stays undefined",
	mutDefaultFormOrphan:   "a forward call in the default form of an &optional / &key parameter stays undefined",
	mutMapcarFirstListOnly: "mapcar over two lists calls the function with the element of the first list only",
}

// fwdEdge is a call site that was defined / compiled before its callee existed.
type fwdEdge struct {
	pos   string // plain | special | ref
	nargs int
}

type refMachine struct {
	funcs   map[sym]*lambda
	globals map[sym]*val
	slots   map[int][]val
	trace   []string
	outs    []string
	fuel    int
	mut     mutation

	// instrumentation (classification of the case; mutants use it too)
	fwdSites    map[*lst]bool    // call sites created before the callee existed
	boundAt     map[*lst]*lambda // mutEarlyBind: definition seen when the caller was defined
	fwdNames    map[sym]bool     // functions referenced before they existed
	fwdVars     map[sym]bool     // global variables referenced before they existed
	cache       map[*lst]val     // mutCacheArgValue
	edges       []fwdEdge        // forward edges in order of discovery
	redefSeen   bool             // a call reached a function whose definition was replaced after the caller was defined
	definedGen  map[sym]int      // how many times each function was defined
	siteGen     map[*lst]int     // generation of the callee when the site was created
	evalCount   map[int]int      // E steps per slot
	ranCompiled map[int]bool
	hits        map[string]int // vacuity counters discovered while classifying
	fwdStack    []sym          // forward call sites whose arguments are being walked (noteSites)
	orphans     map[*lst]bool  // mutNestedOrphan / mutDefaultFormOrphan
	inDefault   bool
	flavors     map[sym]map[sym]*lambda
	special     map[sym]bool // variables proclaimed special by defvar / defparameter / defconstant: let binds them dynamically
}

// instance of a flavor (the programs make one per flavor and send it messages).
type instance struct{ flavor sym }

func newRefMachine(m mutation) *refMachine {
	return &refMachine{funcs: map[sym]*lambda{}, globals: map[sym]*val{}, slots: map[int][]val{}, mut: m,
		fwdSites: map[*lst]bool{}, boundAt: map[*lst]*lambda{}, fwdNames: map[sym]bool{}, fwdVars: map[sym]bool{}, cache: map[*lst]val{},
		definedGen: map[sym]int{}, siteGen: map[*lst]int{}, evalCount: map[int]int{}, ranCompiled: map[int]bool{},
		hits: map[string]int{}, orphans: map[*lst]bool{}, flavors: map[sym]map[sym]*lambda{}, special: map[sym]bool{}}
}

// ---------------------------------------------------------------- reader

func refRead(src string) (forms []val) {
	p := &rparser{s: src}
	for {
		p.ws()
		if p.i >= len(p.s) {
			return
		}
		forms = append(forms, p.form())
	}
}

type rparser struct {
	s string
	i int
}

func (p *rparser) ws() {
	for p.i < len(p.s) && (p.s[p.i] == ' ' || p.s[p.i] == '\n' || p.s[p.i] == '\t') {
		p.i++
	}
}

func wrap(head string, v val) val { return &lst{items: []val{sym(head), v}} }

func (p *rparser) form() val {
	p.ws()
	if p.i >= len(p.s) {
		panic("harness: ref reader: unexpected end in " + p.s)
	}
	switch c := p.s[p.i]; c {
	case '(':
		p.i++
		var items []val
		for {
			p.ws()
			if p.i >= len(p.s) {
				panic("harness: ref reader: unbalanced " + p.s)
			}
			if p.s[p.i] == ')' {
				p.i++
				break
			}
			items = append(items, p.form())
		}
		if len(items) == 0 {
			return nil
		}
		return &lst{items: items}
	case ')':
		panic("harness: ref reader: stray ) in " + p.s)
	case '\'':
		p.i++
		return wrap("quote", p.form())
	case '`':
		p.i++
		return wrap("backquote", p.form())
	case ',':
		p.i++
		return wrap("unquote", p.form())
	case '#':
		if p.i+1 < len(p.s) && p.s[p.i+1] == '\'' {
			p.i += 2
			return wrap("function", p.form())
		}
	}
	j := p.i
	for j < len(p.s) && !strings.ContainsRune(" \n\t()'`,", rune(p.s[j])) {
		j++
	}
	tok := strings.ToLower(p.s[p.i:j])
	p.i = j
	if n, err := strconv.Atoi(tok); err == nil {
		return n
	}
	if tok == "nil" {
		return nil
	}
	if tok == "t" {
		return refT
	}
	return sym(tok)
}

// refShow renders like lisp.Show.
func refShow(v val) string {
	switch t := v.(type) {
	case nil:
		return "nil"
	case int:
		return strconv.Itoa(t)
	case sym:
		return string(t)
	case tval:
		return "t"
	case *lst:
		var b strings.Builder
		b.WriteByte('(')
		for i, e := range t.items {
			if 0 < i {
				b.WriteByte(' ')
			}
			b.WriteString(refShow(e))
		}
		b.WriteByte(')')
		return b.String()
	case *lambda:
		return "#<function>"
	case compiledMark:
		return "#<built-in>"
	case *instance:
		return "#<instance>"
	}
	return fmt.Sprintf("#<%T>", v)
}

// compiledMark stands for a compiled function object left inside data (mutEvalMutatesData).
type compiledMark struct{ form *lst }

// ---------------------------------------------------------------- history steps

var defHeads = map[sym]bool{"defun": true, "defmacro": true, "defvar": true, "defparameter": true, "defconstant": true}

func (m *refMachine) run(f func() val) (o obs) {
	m.trace = nil
	m.outs = nil
	m.fuel = 20000
	defer func() {
		if rec := recover(); rec != nil {
			re, ok := rec.(refErr)
			if rr, isRet := rec.(refReturn); isRet {
				re, ok = refErr{class: "control-error", msg: "return-from " + string(rr.tag) + " outside its block"}, true
			}
			if !ok {
				panic(rec)
			}
			o = obs{err: errOf(re), trace: m.trace, outs: m.outs}
		}
	}()
	v := f()
	return obs{val: refShow(v), trace: m.trace, outs: m.outs}
}

func (m *refMachine) do(st step) (o obs, observed bool) {
	switch st.op {
	case 'R':
		m.slots[st.slot] = refRead(st.src)
		delete(m.evalCount, st.slot)
		delete(m.ranCompiled, st.slot)
		return obs{}, false
	case 'C':
		o = m.run(func() val { m.compile(st.slot); return sym("compiled") })
		return o, true
	case 'E':
		return m.run(func() val { return m.evalSlot(st.slot) }), true
	case 'L':
		// load = Read + Compile + Eval; load returns t
		const loadSlot = -1
		m.slots[loadSlot] = refRead(st.src)
		return m.run(func() val {
			m.compile(loadSlot)
			m.evalSlot(loadSlot)
			return refT
		}), true
	}
	panic("harness: bad step")
}

func (m *refMachine) compile(slot int) {
	forms := m.slots[slot]
	top := &env{}
	for i, f := range forms {
		if l, ok := f.(*lst); ok {
			if h, ok := l.items[0].(sym); ok && defHeads[h] {
				name := m.eval(f, top)
				if m.mut == mutDefvarTwice && (h == "defvar" || h == "defparameter") && 2 < len(l.items) {
					m.eval(l.items[2], top)
				}
				forms[i] = wrap("quote", name)
			}
		}
	}
	// phase two: the remaining forms become function objects now: call sites
	// to functions that do not exist yet are forward references.
	for _, f := range forms {
		m.noteSites(f, "plain")
	}
	m.ranCompiled[slot] = true
}

func (m *refMachine) evalSlot(slot int) (result val) {
	forms, has := m.slots[slot]
	if !has {
		panic(fmt.Sprintf("harness: ref slot %d empty", slot))
	}
	m.evalCount[slot]++
	top := &env{}
	for _, f := range forms {
		if m.mut == mutCompileDropsMain && m.ranCompiled[slot] && 1 < m.evalCount[slot] {
			if l, ok := f.(*lst); ok {
				if h, _ := l.items[0].(sym); h != "quote" {
					continue
				}
			}
		}
		result = m.eval(f, top)
	}
	return
}

// ---------------------------------------------------------------- evaluator

func errOf(re refErr) *lisp.Err { return &lisp.Err{Class: re.class, Message: re.msg} }

func (m *refMachine) fail(class, format string, args ...any) {
	panic(refErr{class: class, msg: fmt.Sprintf(format, args...)})
}

func truthy(v val) bool { return v != nil }

func boolVal(b bool) val {
	if b {
		return refT
	}
	return nil
}

func (m *refMachine) intArg(v val, op string) int {
	n, ok := v.(int)
	if !ok {
		m.fail("type-error", "%s: %s is not a number", op, refShow(v))
	}
	return n
}

var specialForms = map[sym]bool{"quote": true, "function": true, "if": true, "let": true, "let*": true, "progn": true,
	"setq": true, "cond": true, "when": true, "unless": true, "and": true, "or": true, "defun": true, "defmacro": true,
	"defvar": true, "defparameter": true, "defconstant": true, "backquote": true, "lambda": true, "return-from": true,
	"defgeneric": true, "defmethod": true, "defflavor": true, "defstruct": true}

var builtins = map[sym]bool{"+": true, "-": true, "*": true, "<": true, ">": true, "=": true, "list": true, "first": true,
	"second": true, "third": true, "car": true, "cdr": true, "listp": true, "not": true, "null": true, "tr": true, "eval": true,
	"funcall": true, "apply": true, "c08-out": true, "mapcar": true, "1+": true, "1-": true, "length": true, "cons": true, "eq": true,
	"fmakunbound": true, "make-instance": true, "send": true, "fboundp": true}

func (m *refMachine) eval(v val, e *env) val {
	m.fuel--
	if m.fuel < 0 {
		m.fail("fuel", "evaluation does not terminate")
	}
	switch t := v.(type) {
	case nil, int, tval, *lambda, *instance:
		return v
	case compiledMark:
		return m.eval(t.form, e)
	case sym:
		if strings.HasPrefix(string(t), ":") {
			return t // a keyword evaluates to itself
		}
		if c := e.find(t); c != nil {
			return *c
		}
		if c, has := m.globals[t]; has {
			return *c
		}
		m.fail("unbound-variable", "Variable %s is unbound.", t)
	case *lst:
		return m.evalList(t, e)
	}
	panic(fmt.Sprintf("harness: ref cannot evaluate %T", v))
}

func (m *refMachine) evalBody(body []val, e *env) (r val) {
	for _, f := range body {
		r = m.eval(f, e)
	}
	return
}

func (m *refMachine) evalList(l *lst, e *env) val {
	head, ok := l.items[0].(sym)
	if !ok {
		if hl, ok := l.items[0].(*lst); ok {
			if hs, _ := hl.items[0].(sym); hs == "lambda" {
				fn := m.makeLambda("", hl.items[1], hl.items[2:], e, false)
				return m.apply(fn, m.evalArgs(l, e))
			}
		}
		m.fail("error", "%s is not a function", refShow(l.items[0]))
	}
	args := l.items[1:]
	switch head {
	case "quote":
		return args[0]
	case "function":
		if hl, ok := args[0].(*lst); ok {
			for _, f := range hl.items[2:] {
				m.noteSites(f, "plain")
			}
			return m.makeLambda("", hl.items[1], hl.items[2:], e, false)
		}
		name := args[0].(sym)
		if builtins[name] {
			return &lambda{name: string(name)}
		}
		fn := m.funcs[name]
		if fn == nil {
			m.fail("undefined-function", "Function %s is not defined.", name)
		}
		return fn
	case "lambda":
		for _, f := range args[1:] {
			m.noteSites(f, "plain")
		}
		return m.makeLambda("", args[0], args[1:], e, false)
	case "if":
		if truthy(m.eval(args[0], e)) {
			return m.eval(args[1], e)
		}
		if 2 < len(args) {
			return m.eval(args[2], e)
		}
		return nil
	case "when", "unless":
		c := truthy(m.eval(args[0], e))
		if c == (head == "when") {
			return m.evalBody(args[1:], e)
		}
		return nil
	case "and":
		var r val = refT
		for _, a := range args {
			if r = m.eval(a, e); !truthy(r) {
				return nil
			}
		}
		return r
	case "or":
		for _, a := range args {
			if r := m.eval(a, e); truthy(r) {
				return r
			}
		}
		return nil
	case "progn":
		return m.evalBody(args, e)
	case "cond":
		for _, cl := range args {
			c := cl.(*lst)
			if r := m.eval(c.items[0], e); truthy(r) {
				if len(c.items) == 1 {
					return r
				}
				return m.evalBody(c.items[1:], e)
			}
		}
		return nil
	case "let", "let*":
		ne := &env{vars: map[sym]*val{}, parent: e}
		type saved struct {
			cell *val
			old  val
		}
		var dyn []saved
		var pending []func() // let binds after every initial form is evaluated
		if bl, ok := args[0].(*lst); ok {
			for _, b := range bl.items {
				var name sym
				var init val
				switch tb := b.(type) {
				case sym:
					name = tb
				case *lst:
					name = tb.items[0].(sym)
					if 1 < len(tb.items) {
						if head == "let" {
							init = m.eval(tb.items[1], e)
						} else {
							init = m.eval(tb.items[1], ne)
						}
					}
				}
				if cellp, isGlobal := m.globals[name]; isGlobal && m.special[name] {
					// a special variable: the binding is dynamic, functions called from the body see it
					v := init
					bind := func() {
						dyn = append(dyn, saved{cell: cellp, old: *cellp})
						*cellp = v
						m.hits["special-variable-rebound-by-let"]++
					}
					if head == "let" {
						pending = append(pending, bind)
					} else {
						bind()
					}
					// .. and a closure made inside the let keeps the binding (slip's scopes: a function defined inside
					// a let captures the let's scope whether or not the variable is also a global one; Common Lisp
					// itself depends on whether the defvar came before that let, so the statement cannot decide)
				}
				cell := init
				ne.vars[name] = &cell
			}
		}
		for _, bind := range pending {
			bind()
		}
		defer func() {
			for i := len(dyn) - 1; 0 <= i; i-- {
				*dyn[i].cell = dyn[i].old
			}
		}()
		return m.evalBody(args[1:], ne)
	case "setq":
		var r val
		for i := 0; i+1 < len(args); i += 2 {
			name := args[i].(sym)
			r = m.eval(args[i+1], e)
			if c := e.find(name); c != nil {
				*c = r
			} else if c, has := m.globals[name]; has {
				*c = r
			} else {
				cell := r
				m.globals[name] = &cell
			}
		}
		return r
	case "defstruct":
		// (defstruct name slot..) with up to three slots: a keyword constructor and one reader per slot, written as
		// ordinary functions over a list (the programs only pass the instances around and read them)
		name, _ := args[0].(sym)
		if nl, ok := args[0].(*lst); ok {
			name = nl.items[0].(sym)
		}
		var slots []string
		for _, sl := range args[1:] {
			if ss, ok := sl.(sym); ok {
				slots = append(slots, string(ss))
			}
		}
		src := "(defun make-" + string(name) + " (&key " + strings.Join(slots, " ") + ") (list " + strings.Join(slots, " ") + "))"
		for i, sl := range slots {
			src += " (defun " + string(name) + "-" + sl + " (obj) (" + []string{"first", "second", "third"}[i] + " obj))"
		}
		for _, f := range refRead(src) {
			m.eval(f, e)
		}
		return name
	case "defvar", "defparameter", "defconstant":
		name := args[0].(sym)
		m.special[name] = true
		if _, has := m.globals[name]; has && head == "defvar" {
			return name
		}
		var init val
		if 1 < len(args) {
			init = m.eval(args[1], e)
		}
		if c, has := m.globals[name]; has {
			*c = init
		} else {
			cell := init
			m.globals[name] = &cell
		}
		return name
	case "defun", "defmacro":
		name := args[0].(sym)
		var closure *env
		if e != nil && (e.parent != nil || 0 < len(e.vars)) {
			closure = e
		}
		if m.mut == mutFwdDropClosure && m.fwdNames[name] {
			closure = nil
		}
		fn := m.makeLambda(string(name), args[1], args[2:], closure, head == "defmacro")
		// the body is turned into function objects now: note the call sites
		for _, f := range fn.body {
			m.noteSites(f, "plain")
		}
		// default forms are evaluated when the parameter is missing: a lazily compiled position
		m.inDefault = true
		for _, p := range fn.params {
			if p.def != nil {
				m.noteSites(p.def, "special")
			}
		}
		m.inDefault = false
		m.funcs[name] = fn
		m.definedGen[name]++
		return name
	case "defgeneric":
		// a generic function without methods: every call fails until a method is defined
		name := args[0].(sym)
		if m.funcs[name] == nil || !m.funcs[name].generic {
			m.funcs[name] = &lambda{name: string(name), generic: true, noMethod: true}
			m.definedGen[name]++
		}
		return name
	case "defflavor":
		name := args[0].(sym)
		if m.flavors[name] == nil {
			m.flavors[name] = map[sym]*lambda{}
		}
		return name
	case "defmethod":
		if fm, ok := args[0].(*lst); ok {
			// (defmethod (flavor :message) (params) body): a flavors method
			fl, msg := fm.items[0].(sym), fm.items[1].(sym)
			if m.flavors[fl] == nil {
				m.fail("error", "%s is not a defined flavor.", fl)
			}
			fn := m.makeLambda("", args[1], args[2:], nil, false)
			for _, f := range fn.body {
				m.noteSites(f, "plain")
			}
			m.flavors[fl][msg] = fn
			m.definedGen[fl+msg]++
			return msg
		}
		// one method, specialised on classes every argument of the programs belongs to: the generic function
		// behaves like an ordinary function with that body (defmethod makes the generic function when it is missing)
		name := args[0].(sym)
		ll := &lst{}
		if pl, ok := args[1].(*lst); ok {
			for _, p := range pl.items {
				if sp, isList := p.(*lst); isList {
					ll.items = append(ll.items, sp.items[0])
				} else {
					ll.items = append(ll.items, p)
				}
			}
		}
		fn := m.makeLambda(string(name), ll, args[2:], nil, false)
		fn.generic = true
		for _, f := range fn.body {
			m.noteSites(f, "plain")
		}
		m.funcs[name] = fn
		m.definedGen[name]++
		return name
	case "return-from":
		var v val
		if 1 < len(args) {
			v = m.eval(args[1], e)
		}
		panic(refReturn{tag: args[0].(sym), v: v})
	case "backquote":
		return m.backquote(args[0], e)
	case "unquote":
		m.fail("error", "comma outside a backquote")
	}
	if builtins[head] {
		return m.builtin(head, l, e)
	}
	// user function or macro: late binding
	fn := m.funcs[head]
	if m.mut == mutEarlyBind {
		if b, has := m.boundAt[l]; has && b != nil {
			fn = b
		}
	}
	if m.mut == mutPatchKeepsForms && m.fwdSites[l] {
		fn = nil
	}
	if (m.mut == mutNestedOrphan || m.mut == mutDefaultFormOrphan) && m.orphans[l] {
		fn = nil
	}
	if m.mut == mutSplitLambda && m.fwdNames[head] && !m.fwdSites[l] {
		if b, has := m.boundAt[l]; has && b != nil {
			fn = b
		}
	}
	if fn == nil {
		m.fail("undefined-function", "Function %s is not defined.", head)
	}
	if g, has := m.siteGen[l]; has && 0 < g && g < m.definedGen[head] {
		m.redefSeen = true
	}
	if fn.macro {
		me := &env{vars: map[sym]*val{}, parent: fn.env}
		m.bind(fn, me, args)
		exp := m.evalBody(fn.body, me)
		return m.eval(exp, e)
	}
	var argv []val
	if m.mut == mutFwdDropArgs && m.fwdSites[l] {
		argv = nil
	} else {
		argv = m.evalArgs(l, e)
	}
	return m.apply(fn, argv)
}

func (m *refMachine) evalArgs(l *lst, e *env) []val {
	argv := make([]val, 0, len(l.items)-1)
	for _, a := range l.items[1:] {
		if m.mut == mutCacheArgValue {
			if al, ok := a.(*lst); ok {
				if cv, has := m.cache[al]; has {
					argv = append(argv, cv)
					continue
				}
				v := m.eval(a, e)
				if hs, _ := al.items[0].(sym); hs != "quote" && hs != "tr" {
					m.cache[al] = v
				}
				argv = append(argv, v)
				continue
			}
		}
		argv = append(argv, m.eval(a, e))
	}
	return argv
}

func (m *refMachine) makeLambda(name string, ll val, body []val, closure *env, macro bool) *lambda {
	fn := &lambda{name: name, body: body, env: closure, macro: macro}
	if pl, ok := ll.(*lst); ok {
		opt, key := false, false
		for _, p := range pl.items {
			switch tp := p.(type) {
			case sym:
				if tp == "&optional" {
					opt = true
					continue
				}
				if tp == "&key" {
					opt, key = false, true
					continue
				}
				fn.params = append(fn.params, param{name: tp, optional: opt, key: key})
			case *lst:
				fn.params = append(fn.params, param{name: tp.items[0].(sym), optional: opt, key: key, def: tp.items[1]})
			}
		}
	}
	return fn
}

func (m *refMachine) bind(fn *lambda, ne *env, argv []val) {
	npos := 0
	for _, p := range fn.params {
		if !p.key {
			npos++
		}
	}
	if npos < len(fn.params) {
		// &key: the arguments after the positional ones are keyword/value pairs (CLHS 3.4.1.4); the programs pass
		// declared keywords only, each at most once
		pos := argv
		if npos < len(argv) {
			pos = argv[:npos]
		}
		rest := argv[len(pos):]
		if len(rest)%2 != 0 {
			m.fail("error", "Odd number of keyword arguments to %s.", fn.name)
		}
		keyed := map[sym]val{}
		for i := 0; i < len(rest); i += 2 {
			k, ok := rest[i].(sym)
			declared := false
			for _, p := range fn.params {
				if p.key && ok && ":"+p.name == k {
					declared = true
				}
			}
			if !declared {
				m.fail("error", "%s is not a keyword of %s.", refShow(rest[i]), fn.name)
			}
			if _, dup := keyed[k]; !dup {
				keyed[k] = rest[i+1]
			}
		}
		argv = append([]val(nil), pos...)
		for len(argv) < npos {
			argv = append(argv, refAbsent{})
		}
		for _, p := range fn.params {
			if !p.key {
				continue
			}
			if v, has := keyed[":"+p.name]; has {
				argv = append(argv, v)
			} else {
				argv = append(argv, refAbsent{})
			}
		}
	}
	if len(fn.params) < len(argv) {
		m.fail("error", "Too many arguments to %s.", fn.name)
	}
	for i, p := range fn.params {
		var cell val
		if i < len(argv) {
			if _, absent := argv[i].(refAbsent); absent {
				if p.optional || p.key {
					c := m.eval(p.def, ne)
					ne.vars[p.name] = &c
				}
				continue
			}
		}
		switch {
		case i < len(argv):
			cell = argv[i]
		case p.optional || p.key:
			cell = m.eval(p.def, ne) // evaluated in the scope of the call: earlier parameters are visible
		default:
			// C04's finding (missing required arguments are accepted and left unbound) is not
			// this property's business: leave the parameter unbound like slip does.
			continue
		}
		c := cell
		ne.vars[p.name] = &c
	}
}

func (m *refMachine) apply(fn *lambda, argv []val) val {
	if fn.noMethod {
		m.fail("no-applicable-method", "no method of %s is applicable", fn.name)
	}
	if fn.body == nil && fn.params == nil && builtins[sym(fn.name)] {
		items := []val{sym(fn.name)}
		for _, a := range argv {
			items = append(items, wrap("quote", a))
		}
		return m.builtin(sym(fn.name), &lst{items: items}, nil)
	}
	ne := &env{vars: map[sym]*val{}, parent: fn.env}
	m.bind(fn, ne, argv)
	if fn.name == "" {
		return m.evalBody(fn.body, ne)
	}
	return m.callBlock(fn, ne)
}

// callBlock evaluates the body of a named function inside the block of that name.
func (m *refMachine) callBlock(fn *lambda, ne *env) (result val) {
	defer func() {
		if rec := recover(); rec != nil {
			if rr, ok := rec.(refReturn); ok && rr.tag == sym(fn.name) {
				result = rr.v
				return
			}
			panic(rec)
		}
	}()
	return m.evalBody(fn.body, ne)
}

func (m *refMachine) backquote(v val, e *env) val {
	l, ok := v.(*lst)
	if !ok {
		return v
	}
	if hs, _ := l.items[0].(sym); hs == "unquote" {
		return m.eval(l.items[1], e)
	}
	out := &lst{}
	for _, it := range l.items {
		out.items = append(out.items, m.backquote(it, e))
	}
	return out
}

func listItems(v val) []val {
	if l, ok := v.(*lst); ok {
		return l.items
	}
	return nil
}

func mkList(items []val) val {
	if len(items) == 0 {
		return nil
	}
	return &lst{items: items}
}

func (m *refMachine) builtin(head sym, l *lst, e *env) val {
	if head == "tr" {
		// (tr 'k v): slip evaluates both arguments, logs k, returns v
		k := m.eval(l.items[1], e)
		var v val
		if 2 < len(l.items) {
			v = m.eval(l.items[2], e)
		}
		m.trace = append(m.trace, refShow(k))
		return v
	}
	argv := m.evalArgs(l, e)
	switch head {
	case "c08-out":
		m.outs = append(m.outs, refShow(argv[0]))
		return argv[0]
	case "+":
		s := 0
		for _, a := range argv {
			s += m.intArg(a, "+")
		}
		return s
	case "*":
		s := 1
		for _, a := range argv {
			s *= m.intArg(a, "*")
		}
		return s
	case "-":
		if len(argv) == 1 {
			return -m.intArg(argv[0], "-")
		}
		s := m.intArg(argv[0], "-")
		for _, a := range argv[1:] {
			s -= m.intArg(a, "-")
		}
		return s
	case "1+":
		return m.intArg(argv[0], "1+") + 1
	case "1-":
		return m.intArg(argv[0], "1-") - 1
	case "<":
		return boolVal(m.intArg(argv[0], "<") < m.intArg(argv[1], "<"))
	case ">":
		return boolVal(m.intArg(argv[0], ">") > m.intArg(argv[1], ">"))
	case "=":
		return boolVal(m.intArg(argv[0], "=") == m.intArg(argv[1], "="))
	case "eq":
		return boolVal(argv[0] == argv[1])
	case "not", "null":
		return boolVal(argv[0] == nil)
	case "list":
		return mkList(append([]val(nil), argv...))
	case "cons":
		return mkList(append([]val{argv[0]}, listItems(argv[1])...))
	case "length":
		return len(listItems(argv[0]))
	case "listp":
		_, ok := argv[0].(*lst)
		return boolVal(ok || argv[0] == nil)
	case "first", "car", "second", "third":
		idx := map[sym]int{"first": 0, "car": 0, "second": 1, "third": 2}[head]
		if argv[0] != nil {
			if _, ok := argv[0].(*lst); !ok {
				m.fail("type-error", "%s: %s is not a list", head, refShow(argv[0]))
			}
		}
		items := listItems(argv[0])
		if idx < len(items) {
			return items[idx]
		}
		return nil
	case "cdr":
		items := listItems(argv[0])
		if len(items) < 2 {
			return nil
		}
		return mkList(append([]val(nil), items[1:]...))
	case "fboundp":
		name, _ := argv[0].(sym)
		return boolVal(m.funcs[name] != nil || builtins[name] || specialForms[name])
	case "fmakunbound":
		name, _ := argv[0].(sym)
		delete(m.funcs, name)
		return name
	case "make-instance":
		name, _ := argv[0].(sym)
		if m.flavors[name] == nil {
			m.fail("error", "%s is not a defined flavor.", refShow(argv[0]))
		}
		return &instance{flavor: name}
	case "send":
		inst, ok := argv[0].(*instance)
		if !ok || len(argv) < 2 {
			m.fail("type-error", "send: %s is not an instance", refShow(argv[0]))
		}
		msg, _ := argv[1].(sym)
		fn := m.flavors[inst.flavor][msg]
		if fn == nil {
			m.fail("invalid-method-error", "%s does not include the %s method.", inst.flavor, refShow(argv[1]))
		}
		if g, has := m.siteGen[l]; has && 0 < g && g < m.definedGen[inst.flavor+msg] {
			m.redefSeen = true
		}
		return m.apply(fn, argv[2:])
	case "eval":
		form := argv[0]
		r := m.eval(form, &env{})
		if m.mut == mutEvalMutatesData {
			if fl, ok := form.(*lst); ok {
				for i, it := range fl.items[1:] {
					if il, ok := it.(*lst); ok {
						fl.items[i+1] = compiledMark{form: il}
					}
				}
			}
		}
		return r
	case "funcall", "apply", "mapcar":
		var fn *lambda
		switch tf := argv[0].(type) {
		case *lambda:
			fn = tf
		case sym:
			if builtins[tf] {
				fn = &lambda{name: string(tf)}
			} else if fn = m.funcs[tf]; fn == nil {
				m.fail("undefined-function", "Function %s is not defined.", tf)
			}
		default:
			m.fail("type-error", "%s is not a function designator", refShow(argv[0]))
		}
		switch head {
		case "funcall":
			return m.apply(fn, argv[1:])
		case "apply":
			rest := append([]val(nil), argv[1:len(argv)-1]...)
			rest = append(rest, listItems(argv[len(argv)-1])...)
			return m.apply(fn, rest)
		default:
			var out []val
			for i := 0; ; i++ {
				var call []val
				for _, l := range argv[1:] {
					if items := listItems(l); i < len(items) {
						call = append(call, items[i])
					}
				}
				if len(call) < len(argv)-1 {
					break // the shortest list ends the mapping
				}
				if m.mut == mutMapcarFirstListOnly {
					call = call[:1]
				}
				out = append(out, m.apply(fn, call))
			}
			return mkList(out)
		}
	}
	panic("harness: ref builtin " + string(head))
}

// noteSites walks code that is being turned into function objects (a defun
// body, or a top-level form at Compile time) and records every call site or
// function designator whose target does not exist yet. pos says whether the
// path from the root runs only through function-argument positions ("plain")
// or through a special form / macro ("special"). Purely syntactic.
func (m *refMachine) noteSites(v val, pos string) {
	l, ok := v.(*lst)
	if !ok {
		// a global variable (*name*) read by code that is created before the variable exists
		if s, ok := v.(sym); ok && 2 < len(s) && s[0] == '*' && s[len(s)-1] == '*' {
			if _, has := m.globals[s]; !has && !m.fwdVars[s] {
				m.fwdVars[s] = true
				m.edges = append(m.edges, fwdEdge{pos: "var"})
			}
		}
		return
	}
	head, ok := l.items[0].(sym)
	if !ok {
		// ((lambda (..) body) args): the body is always evaluated, a strict position
		if hl, ok := l.items[0].(*lst); ok && 2 < len(hl.items) {
			if hs, _ := hl.items[0].(sym); hs == "lambda" {
				for _, it := range hl.items[2:] {
					m.noteSites(it, pos)
				}
			}
		}
		for _, it := range l.items[1:] {
			m.noteSites(it, pos)
		}
		return
	}
	switch head {
	case "quote", "backquote":
		return
	case "function":
		if name, ok := l.items[1].(sym); ok && !builtins[name] && m.funcs[name] == nil {
			m.edges = append(m.edges, fwdEdge{pos: "ref"})
			m.fwdNames[name] = true
		}
		return
	case "defun", "defmacro", "lambda", "defgeneric", "defmethod":
		return // its body becomes function objects when the definition / lambda form is evaluated
	case "let", "let*":
		if bl, ok := l.items[1].(*lst); ok {
			for _, b := range bl.items {
				if tb, ok := b.(*lst); ok && 1 < len(tb.items) {
					m.noteSites(tb.items[1], "special")
				}
			}
		}
		for _, it := range l.items[2:] {
			m.noteSites(it, "special")
		}
		return
	case "cond":
		for _, cl := range l.items[1:] {
			for _, it := range listItems(cl) {
				m.noteSites(it, "special")
			}
		}
		return
	}
	if head == "progn" {
		// progn evaluates all its arguments in order, like a function: transparent for the position
		for _, it := range l.items[1:] {
			m.noteSites(it, pos)
		}
		return
	}
	if specialForms[head] {
		for _, it := range l.items[1:] {
			m.noteSites(it, "special")
		}
		return
	}
	if head == "send" && 2 < len(l.items) {
		// a message whose method does not exist yet: a forward reference by designator
		if msg, ok := l.items[2].(sym); ok {
			known, gen := false, 0
			for fl, ms := range m.flavors {
				if ms[msg] != nil {
					known, gen = true, m.definedGen[fl+msg]
				}
			}
			if _, seen := m.siteGen[l]; !seen {
				m.siteGen[l] = gen
			}
			if !known && !m.fwdSites[l] {
				m.fwdSites[l] = true
				m.edges = append(m.edges, fwdEdge{pos: "ref"})
				m.hits["fwd-send-method-missing"]++
			}
		}
	}
	if !builtins[head] {
		fn := m.funcs[head]
		if _, seen := m.siteGen[l]; !seen {
			m.siteGen[l] = m.definedGen[head]
			m.boundAt[l] = fn
		}
		if fn == nil {
			if !m.fwdSites[l] {
				m.fwdSites[l] = true
				m.fwdNames[head] = true
				m.edges = append(m.edges, fwdEdge{pos: pos, nargs: len(l.items) - 1})
				if 0 < len(m.fwdStack) {
					m.hits["fwd-nested-in-fwd-arg"]++
				}
				for _, outer := range m.fwdStack {
					if outer == head {
						if pos == "plain" {
							m.hits["fwd-nested-same-function-eager"]++
							if m.mut == mutNestedOrphan {
								m.orphans[l] = true
							}
						} else {
							m.hits["fwd-nested-same-function-lazy"]++
						}
						break
					}
				}
				if m.inDefault {
					m.hits["fwd-in-default-form"]++
					if m.mut == mutDefaultFormOrphan {
						m.orphans[l] = true
					}
				}
				m.fwdStack = append(m.fwdStack, head)
				for _, it := range l.items[1:] {
					m.noteSites(it, pos)
				}
				m.fwdStack = m.fwdStack[:len(m.fwdStack)-1]
				return
			}
		} else if fn.macro {
			// a macro call: its arguments are not function-argument positions
			for _, it := range l.items[1:] {
				m.noteSites(it, "special")
			}
			return
		}
	}
	for _, it := range l.items[1:] {
		m.noteSites(it, pos)
	}
}
