// instrument generates a `go build -overlay` description from /repo's CURRENT working tree.
//
//	--add <dir>      every file under <dir> (path relative to the slip module root) is added to the build
//	--engines a,b    source rewrites: "sched" (sync->vsync import, go/chan statements -> vsched) and
//	                 "vfs" (os->vfs import in pkg/repl) — implemented in rewrite.go
//
// Nothing is written into /repo: rewritten copies live under --out and are mapped by overlay.json.
package main

import (
	"encoding/json"
	"flag"
	"fmt"
	"os"
	"path/filepath"
	"strings"
)

func main() {
	repo := flag.String("repo", "/repo", "slip module root")
	out := flag.String("out", "", "output directory")
	add := flag.String("add", "", "directory of files to add")
	engines := flag.String("engines", "", "comma separated engines")
	flag.Parse()
	if *out == "" {
		fmt.Fprintln(os.Stderr, "--out required")
		os.Exit(2)
	}
	replace := map[string]string{}
	var report []string
	if *add != "" {
		root, _ := filepath.Abs(*add)
		_ = filepath.Walk(root, func(path string, info os.FileInfo, err error) error {
			if err != nil || info.IsDir() {
				return nil
			}
			rel, _ := filepath.Rel(root, path)
			target := filepath.Join(*repo, rel)
			if _, serr := os.Stat(target); serr == nil {
				fmt.Fprintf(os.Stderr, "instrument: --add would replace existing %s (add-only)\n", target)
				os.Exit(2)
			}
			replace[target] = path
			report = append(report, "add "+rel)
			return nil
		})
	}
	for _, e := range strings.Split(*engines, ",") {
		e = strings.TrimSpace(e)
		if e == "" {
			continue
		}
		rep, err := rewrite(e, *repo, *out, replace)
		if err != nil {
			fmt.Fprintf(os.Stderr, "instrument %s: %s\n", e, err)
			os.Exit(2)
		}
		report = append(report, rep...)
	}
	b, _ := json.MarshalIndent(map[string]any{"Replace": replace}, "", " ")
	if err := os.WriteFile(filepath.Join(*out, "overlay.json"), b, 0o644); err != nil {
		fmt.Fprintln(os.Stderr, err)
		os.Exit(2)
	}
	_ = os.WriteFile(filepath.Join(*out, "report.txt"), []byte(strings.Join(report, "\n")+"\n"), 0o644)
}
