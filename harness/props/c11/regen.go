package c11

// regen.go: family "g" - a flavor is defined AGAIN while flavors built on it and instances of it exist.
//
// slip has no undefmethod for flavors and refuses a second defflavor of an existing name ("Flavor f already defined");
// the route it offers is (undefflavor 'f) - which removes f and every flavor built on f, "instances of the removed
// flavors are still valid" - followed by new defflavor forms. A history of this family:
//
//   generation 1   the DAG and its definitions for :m in textual order; flavor k may declare x (gettable, settable)
//   probe 1        (warm variant) an instance of every flavor is made and sent :m, x is read
//   removal        (undefflavor 'fk)                       | variant in-place: (defflavor fk ...) evaluated again
//   probe 2        new instances of the flavors that were NOT removed, the old instances of all flavors
//   generation 2   fk with CHANGED components / variable / options, every removed flavor again, and for each removed
//                  flavor's definition either the definition again (trace tag ...g) or nothing - in EVERY admissible order
//   probe 3        new instances of every flavor and the old instances again
//
// Oracle: new instances at probe 3 follow the specification for the FINAL definitions (generation 1 of the kept
// flavors, generation 2 of the rebuilt ones: a method of generation 1 that was not defined again is gone, the
// components of fk are the new ones for everything built on it), the same for every order of generation 2 and the
// same as a world that never saw generation 1; kept flavors are not affected at any stage. Model-free only (the
// statement is silent): an instance of a removed flavor answers after generation 2 what it answered before the
// removal; a refused in-place redefinition leaves every flavor as it was.
//
// spec: g|<dag>|<defs>|<k>|<new components of k, or ->|<redo: one of 0/1 per definition of a removed flavor>|<vtok1>><vtok2>|<undef|inplace>|<c|h>

import (
	"fmt"
	"strconv"
	"strings"

	"github.com/ohler55/slip"

	"verif/engine"
	"verif/lisp"
)

type gcase struct {
	comps    [][]int
	defs     []mdef
	k        int
	newComps []int
	redo     string
	vt1, vt2 string
	inplace  bool
	warm     bool
	// derived
	removed []bool
	comps2  [][]int
}

var gTokens = map[string]fopt{
	"-":  {},
	"xg": {x: true, g: true, s: true},
	"xG": {x: true, g: true, s: true, xd: 50},
}

func parseGcase(parts []string) (c *gcase, ok bool) {
	if len(parts) != 9 {
		return nil, false
	}
	c = &gcase{comps: parseDag(parts[1]), defs: parseMdefs(parts[2]), redo: parts[5], inplace: parts[7] == "inplace", warm: parts[8] == "h"}
	var err error
	if c.k, err = strconv.Atoi(parts[3]); err != nil || c.k < 0 || len(c.comps) <= c.k {
		return nil, false
	}
	if parts[4] != "-" {
		for _, ch := range parts[4] {
			c.newComps = append(c.newComps, int(ch-'0'))
		}
	}
	vt := strings.Split(parts[6], ">")
	if len(vt) != 2 {
		return nil, false
	}
	c.vt1, c.vt2 = vt[0], vt[1]
	if _, has := gTokens[c.vt1]; !has {
		return nil, false
	}
	if _, has := gTokens[c.vt2]; !has {
		return nil, false
	}
	n := len(c.comps)
	c.removed = make([]bool, n)
	for f := 0; f < n; f++ {
		for _, g := range realRef.precedence(c.comps, f) {
			if g == c.k {
				c.removed[f] = true
			}
		}
	}
	c.comps2 = make([][]int, n)
	copy(c.comps2, c.comps)
	c.comps2[c.k] = c.newComps
	nr := 0
	for _, d := range c.defs {
		if c.removed[d.f] {
			nr++
		}
	}
	if c.redo == "-" {
		c.redo = ""
	}
	if len(c.redo) != nr {
		return nil, false
	}
	return c, true
}

func (c *gcase) gFlavorSrc(names []string, f int, gen2 bool) string {
	comps, tok := c.comps, "-"
	if gen2 {
		comps = c.comps2
	}
	if f == c.k {
		tok = c.vt1
		if gen2 {
			tok = c.vt2
		}
	}
	return flavorSrc(names, comps, f, gTokens[tok])
}

// gen2Defs: the definitions evaluated in generation 2 (tag suffix g).
func (c *gcase) gen2Defs() (ds []mdef) {
	i := 0
	for _, d := range c.defs {
		if c.removed[d.f] {
			if c.redo[i] == '1' {
				d.gen = 1
				ds = append(ds, d)
			}
			i++
		}
	}
	return
}

// finalLive: the definitions that exist after generation 2.
func (c *gcase) finalLive() (live []mdef) {
	if c.inplace {
		return c.defs
	}
	for _, d := range c.defs {
		if !c.removed[d.f] {
			live = append(live, d)
		}
	}
	return append(live, c.gen2Defs()...)
}

type gobs struct {
	mkErr string
	send  sendObs
	x0    string
	getx  string
}

func (o gobs) key() string {
	return fmt.Sprintf("%s|%s|x=%s getx=%s", o.mkErr, sendKey(o.send), o.x0, o.getx)
}

type ghist struct {
	order   []int
	defErr  string
	rmErr   string // error of the removal form ("" = accepted)
	p2new   []gobs // probe 2, new instances (kept flavors; for removed flavors only mkErr is recorded)
	p2old   []gobs
	p3new   []gobs
	p3old   []gobs
	p1      []gobs
	hasOld  []bool
	p3again []sendObs
}

func gProbe(scope *slip.Scope) (o gobs) {
	o.send = sendMsg(scope, ":m")
	o.x0 = slotOf(scope.Get(slip.Symbol("inst")), "x")
	if v, err := lisp.EvalIn(scope, "(send inst :x)"); err != nil {
		o.getx = errText(err)
	} else {
		o.getx = lisp.Show(v)
	}
	return
}

func gNew(name string, names []string) (scope *slip.Scope, o gobs) {
	scope = slip.NewScope()
	inst, err := lisp.EvalIn(scope, "(make-instance '"+name+")")
	if err != nil {
		return nil, gobs{mkErr: "make-instance: " + err.Class}
	}
	scope.Let(slip.Symbol("inst"), inst)
	return scope, gProbe(scope)
}

// runG: one history. fs/order describe generation 2 (nil for the in-place variant and for the cold world).
func runG(c *gcase, fs []wform, g2 []mdef, order []int, coldWorld bool) (h ghist) {
	n := len(c.comps)
	names := freshNames(n)
	defer cleanup(names)
	h.order = order
	note := func(what string, err *lisp.Err) {
		if err != nil && h.defErr == "" {
			h.defErr = what + ": " + rename(err.String(), names)
			if err.GoFault {
				h.defErr = "go-fault in " + h.defErr
			}
		}
	}
	olds := make([]*slip.Scope, n)
	h.hasOld = make([]bool, n)
	h.p1 = make([]gobs, n)
	h.p2new, h.p2old = make([]gobs, n), make([]gobs, n)
	h.p3new, h.p3old = make([]gobs, n), make([]gobs, n)
	h.p3again = make([]sendObs, n)
	if coldWorld {
		// only the final definitions, on flavors that never had a first generation
		live := c.finalLive()
		for f := 0; f < n; f++ {
			_, err := lisp.Eval(c.gFlavorSrc(names, f, true))
			note("defflavor", err)
			for _, d := range live {
				if d.f == f {
					_, err := lisp.Eval(mdefSrc(names, d, false))
					note("defmethod", err)
				}
			}
		}
	} else {
		for f := 0; f < n; f++ {
			_, err := lisp.Eval(c.gFlavorSrc(names, f, false))
			note("defflavor", err)
			for _, d := range c.defs {
				if d.f == f {
					_, err := lisp.Eval(mdefSrc(names, d, false))
					note("defmethod", err)
				}
			}
		}
		if c.warm {
			for f := 0; f < n; f++ {
				olds[f], h.p1[f] = gNew(names[f], names)
				h.hasOld[f] = olds[f] != nil
			}
		}
		if c.inplace {
			if _, err := lisp.Eval(c.gFlavorSrc(names, c.k, true)); err != nil {
				h.rmErr = err.Class
				if err.GoFault {
					h.rmErr = "go-fault " + err.String()
				}
			}
		} else {
			if _, err := lisp.Eval("(undefflavor '" + names[c.k] + ")"); err != nil {
				h.rmErr = err.Class
				note("undefflavor", err)
			}
		}
		for f := 0; f < n; f++ {
			if olds[f] != nil {
				h.p2old[f] = gProbe(olds[f])
			}
			_, h.p2new[f] = gNew(names[f], names)
		}
		for _, k := range order {
			fm := fs[k]
			if fm.isMeth {
				_, err := lisp.Eval(mdefSrc(names, g2[fm.idx], false))
				note("defmethod", err)
			} else {
				_, err := lisp.Eval(c.gFlavorSrc(names, fm.idx, true))
				note("defflavor", err)
			}
		}
	}
	for f := 0; f < n; f++ {
		var scope *slip.Scope
		scope, h.p3new[f] = gNew(names[f], names)
		if scope != nil {
			h.p3again[f] = sendMsg(scope, ":m")
		}
		if olds[f] != nil {
			h.p3old[f] = gProbe(olds[f])
		}
	}
	return
}

func execRegen(spec string, parts []string) (res engine.Result) {
	c, ok := parseGcase(parts)
	if !ok {
		res.Fail("harness:bad-spec", spec)
		return
	}
	n := len(c.comps)
	// generation 2 forms
	g2 := c.gen2Defs()
	var fs []wform
	if !c.inplace {
		dAt := map[int]int{}
		for f := 0; f < n; f++ {
			if !c.removed[f] {
				continue
			}
			dAt[f] = len(fs)
			fs = append(fs, wform{idx: f})
			for j, d := range g2 {
				if d.f == f {
					fs = append(fs, wform{isMeth: true, idx: j, preds: []int{dAt[f]}})
				}
			}
		}
		for i := range fs {
			if !fs[i].isMeth {
				for _, g := range c.comps2[fs[i].idx] {
					if at, has := dAt[g]; has {
						fs[i].preds = append(fs[i].preds, at)
					}
				}
			}
		}
	}
	var hs []ghist
	if c.inplace {
		hs = append(hs, runG(c, nil, nil, nil, false))
	} else {
		genWOrders(&wcase{mode: "all"}, fs, func(order []int) {
			hs = append(hs, runG(c, fs, g2, order, false))
		})
	}
	var cold ghist
	if !c.inplace {
		cold = runG(c, nil, nil, nil, true)
	}
	if res.Counters == nil {
		res.Counters = map[string]int{}
	}
	res.Counters["histories"] += len(hs) + 1
	variant := "undefflavor"
	if c.inplace {
		variant = "in-place"
		res.Hit("defflavor-again-for-an-existing-flavor")
	} else {
		res.Hit("undefflavor-then-defined-again")
	}
	hist := "cold"
	if c.warm {
		hist = "warm"
		res.Hit("redefinition-with-instances-alive")
	}
	reported := map[string]bool{}
	fail := func(sig, detail string) {
		sig += " regen=" + variant + " hist=" + hist
		if !reported[sig] {
			reported[sig] = true
			res.Fail(sig, detail)
		}
	}
	orderS := func(order []int) string {
		var p []string
		for _, k := range order {
			if fs[k].isMeth {
				p = append(p, "M"+g2[fs[k].idx].String())
			} else {
				p = append(p, "D"+strconv.Itoa(fs[k].idx)+"'")
			}
		}
		return strings.Join(p, " ")
	}
	// the worlds the three probes are judged against
	w1 := &wcase{comps: c.comps}
	opts1 := make([]fopt, n)
	opts1[c.k] = gTokens[c.vt1]
	w3, opts3, live3 := w1, opts1, c.defs
	accepted := false
	if c.inplace {
		if hs[0].rmErr == "" {
			// slip accepted the second defflavor: nothing is demanded of the result (S2), it is recorded
			accepted = true
			res.Hit("in-place-redefinition-accepted")
		} else {
			res.Hit("in-place-redefinition-refused")
		}
	} else {
		w3 = &wcase{comps: c.comps2}
		opts3 = make([]fopt, n)
		opts3[c.k] = gTokens[c.vt2]
		live3 = c.finalLive()
	}
	judgeVars := func(o gobs, comps [][]int, opts []fopt, f int, sh, suffix, where string) {
		e := realRef.expectVars(comps, opts, f)
		if e.xDefault != nil && o.x0 != strconv.Itoa(*e.xDefault) {
			fail(fmt.Sprintf("vars shape=%s aspect=default kind=wrong-value %s", sh, suffix), fmt.Sprintf("%s: x is %s, required %d", where, o.x0, *e.xDefault))
		}
		if e.xDefault == nil && o.x0 != "unset" {
			res.Hit("variable-of-the-first-generation-gone")
			fail(fmt.Sprintf("vars shape=%s aspect=variable-of-a-removed-definition kind=still-there %s", sh, suffix), fmt.Sprintf("%s: x is %s, no flavor in the precedence list declares x", where, o.x0))
		}
		if e.xGettable && e.xDefault != nil && o.getx != o.x0 {
			fail(fmt.Sprintf("vars shape=%s aspect=getter kind=%s %s", sh, demandKind(o.getx), suffix), fmt.Sprintf("%s: (send inst :x) gives %s, x holds %s", where, o.getx, o.x0))
		}
	}
	var outcome []string
	for _, h := range hs {
		if h.defErr != "" {
			what := strings.SplitN(h.defErr, ":", 2)[0]
			fail("define form="+strings.ReplaceAll(what, " ", "-")+" kind=error", fmt.Sprintf("%s generation 2 [%s]: %s", spec, orderS(h.order), h.defErr))
		}
	}
	for f := 0; f < n; f++ {
		sh1, sh3 := shape(c.comps, f), shape(w3.comps, f)
		who := "kept"
		if c.removed[f] && !c.inplace {
			who = "rebuilt"
			res.Hit("flavor-built-on-the-redefined-flavor")
		}
		t1, r1, handled1, _ := w1.expectW(realRef, c.defs, 0, f)
		t3, r3, handled3, _ := w3.expectW(realRef, live3, 0, f)
		if who == "rebuilt" && strings.Join(t1, " ") != strings.Join(t3, " ") {
			res.Hit("redefinition-changes-the-answer")
		}
		if who == "rebuilt" && f != c.k && fmt.Sprint(realRef.precedence(c.comps, f)) != fmt.Sprint(realRef.precedence(c.comps2, f)) {
			res.Hit("redefinition-changes-the-precedence-of-a-flavor-built-on-it")
		}
		classes := map[string]int{}
		for _, h := range hs {
			classes[h.p3new[f].key()]++
		}
		outcome = append(outcome, fmt.Sprintf("f%d{%s}x%d p2{%s}", f, hs[0].p3new[f].key(), len(classes), hs[0].p2new[f].mkErr))
		if 1 < len(classes) && !accepted {
			for _, h := range hs[1:] {
				if h.p3new[f].key() != hs[0].p3new[f].key() {
					fail(fmt.Sprintf("differential shape=%s flavor=%s differs=by-order-of-generation-2", sh3, who),
						fmt.Sprintf("%s: new instance of f%d: generation 2 [%s] observes {%s}, [%s] observes {%s}", spec, f, orderS(hs[0].order), hs[0].p3new[f].key(), orderS(h.order), h.p3new[f].key()))
					break
				}
			}
		}
		if !c.inplace && cold.p3new[f].key() != hs[0].p3new[f].key() && cold.p3new[f].send.err == "" {
			fail(fmt.Sprintf("differential shape=%s flavor=%s differs=from-a-world-without-generation-1", sh3, who),
				fmt.Sprintf("%s: new instance of f%d: after generation 1, the removal and generation 2 [%s] {%s}; the final definitions alone {%s}", spec, f, orderS(hs[0].order), hs[0].p3new[f].key(), cold.p3new[f].key()))
		}
		for _, h := range hs {
			where := fmt.Sprintf("%s: f%d, generation 2 [%s]", spec, f, orderS(h.order))
			// probe 2
			if !c.removed[f] || (c.inplace && !accepted) {
				// kept flavors are what they were
				o := h.p2new[f]
				if o.mkErr != "" {
					fail(fmt.Sprintf("make-instance shape=%s kind=error at=after-removal flavor=%s", sh1, who), where+": "+o.mkErr)
				} else {
					if handled1 {
						judgeSend(fail, sh1, o.send, t1, r1, "at=after-removal flavor="+who+" inst=new", where+" new instance after the removal form", "")
					}
					judgeVars(o, c.comps, opts1, f, sh1, "at=after-removal flavor="+who, where+" new instance after the removal form")
				}
				if h.hasOld[f] && handled1 {
					judgeSend(fail, sh1, h.p2old[f].send, t1, r1, "at=after-removal flavor="+who+" inst=old", where+" old instance after the removal form", "")
				}
			} else if !c.inplace {
				res.Hit("make-instance-of-a-removed-flavor:" + map[bool]string{true: "refused", false: "accepted"}[h.p2new[f].mkErr != ""])
				// the instance of a removed flavor stays valid (model-free: it answers what it answered before)
				if h.hasOld[f] && h.p1[f].send.err == "" && sendKey(h.p2old[f].send) != sendKey(h.p1[f].send) {
					fail(fmt.Sprintf("send shape=%s kind=instance-of-a-removed-flavor-changed at=after-removal", sh1),
						fmt.Sprintf("%s: before the removal {%s}, after {%s}", where, sendKey(h.p1[f].send), sendKey(h.p2old[f].send)))
				}
			}
			if accepted {
				continue
			}
			// probe 3, new instances: the final definitions
			o := h.p3new[f]
			if o.mkErr != "" {
				fail(fmt.Sprintf("make-instance shape=%s kind=error at=final flavor=%s", sh3, who), where+": "+o.mkErr)
				continue
			}
			if handled3 {
				judgeSend(fail, sh3, o.send, t3, r3, "at=final flavor="+who+" inst=new", where+" new instance at the end", "")
				if sendKey(h.p3again[f]) != sendKey(o.send) {
					fail(fmt.Sprintf("send shape=%s kind=second-send-differs at=final flavor=%s", sh3, who), fmt.Sprintf("%s: {%s} then {%s}", where, sendKey(o.send), sendKey(h.p3again[f])))
				}
			} else if handled1 && who == "rebuilt" && o.send.err == "" {
				res.Hit("method-of-the-first-generation-gone")
				fail(fmt.Sprintf("send shape=%s kind=method-of-a-removed-definition-still-runs at=final flavor=%s", sh3, who),
					fmt.Sprintf("%s: new instance at the end: trace [%s] => %s; no flavor in the precedence list defines :m any more", where, strings.Join(o.send.trace, " "), o.send.ret))
			}
			if handled1 && !handled3 {
				res.Hit("method-of-the-first-generation-gone")
			}
			judgeVars(o, w3.comps, opts3, f, sh3, "at=final flavor="+who, where+" new instance at the end")
			if !h.hasOld[f] {
				continue
			}
			if who == "kept" || c.inplace {
				if handled3 {
					judgeSend(fail, sh3, h.p3old[f].send, t3, r3, "at=final flavor="+who+" inst=old", where+" old instance at the end", "")
				}
			} else if h.p1[f].send.err == "" && sendKey(h.p3old[f].send) != sendKey(h.p1[f].send) {
				fail(fmt.Sprintf("send shape=%s kind=instance-of-a-removed-flavor-changed at=final", sh1),
					fmt.Sprintf("%s: before the removal {%s}, after generation 2 {%s}", where, sendKey(h.p1[f].send), sendKey(h.p3old[f].send)))
			}
		}
	}
	res.Nontrivial = true
	res.Outcome = variant + ":" + hs[0].rmErr + ";" + strings.Join(outcome, ";")
	return
}

func enumRegen(tier string, emit func(string)) {
	thorough := tier == engine.Thorough
	dags := append(append([][][]int{}, allDags(2, 3, false)...), allDags(3, 3, false)...)
	if thorough {
		dags = append(dags, allDags(4, 3, true)...)
	}
	for _, d := range dags {
		n := len(d)
		kmax := 2
		if n == 4 {
			kmax = 1
		}
		for _, ds := range mdefSubsets(n, kmax, allKinds, 1, false) {
			for k := 0; k < n; k++ {
				removed := make([]bool, n)
				for f := 0; f < n; f++ {
					for _, g := range realRef.precedence(d, f) {
						if g == k {
							removed[f] = true
						}
					}
				}
				nr := 0
				for _, m := range ds {
					if removed[m.f] {
						nr++
					}
				}
				for _, nc := range orderedSubsets(k, 2) {
					ncs := "-"
					if 0 < len(nc) {
						ncs = ""
						for _, g := range nc {
							ncs += strconv.Itoa(g)
						}
					}
					for mask := 0; mask < 1<<nr; mask++ {
						redo := ""
						for i := 0; i < nr; i++ {
							redo += string('0' + byte(mask>>i&1))
						}
						if redo == "" {
							redo = "-"
						}
						head := fmt.Sprintf("g|%s|%s|%d|%s|%s|", dagString(d), mdefsString(ds), k, ncs, redo)
						emit(head + "xg>xG|undef|h")
						if n <= 3 && (len(ds) <= 1 || thorough) {
							emit(head + "xg>-|undef|h")
							emit(head + "->xg|undef|h")
							emit(head + "->-|undef|c")
						}
					}
					// the second defflavor without a removal
					if n <= 3 && (len(ds) <= 1 || thorough) {
						redo := strings.Repeat("0", nr)
						if redo == "" {
							redo = "-"
						}
						emit(fmt.Sprintf("g|%s|%s|%d|%s|%s|xg>xG|inplace|h", dagString(d), mdefsString(ds), k, ncs, redo))
					}
				}
			}
		}
	}
}
