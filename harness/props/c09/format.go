package c09

import (
	"fmt"
	"os"
	"strconv"
	"strings"

	"github.com/ohler55/slip"

	"verif/engine"
)

// The Common Lisp directive characters (CLHS 22.3), upper case.
var directiveChars = []byte("ASDBOXRPCFEG$%&|~\nT*?_WI/()[];{}<>^")

var fmtMods = []string{"", ":", "@", ":@"}

// prefix-parameter shapes
var fmtParams = []string{"", "3", "v", "#", "-1", "'x", "3,4"}

// the huge literal parameter (its own small family)
const hugeParam = "1000000000000000000"

// argument lists (Lisp source of each argument)
var fmtArgLists = [][]string{
	{},
	{"nil", "nil"},
	{"5", "3"},
	{"-1", "0"},
	{`"abc"`, `#\a`},
	{"(list 1 2)", "(list 3)"},
	{"1000000000000000000", "18446744073709551616"},
	{"1.5d0", "'foo"},
	{`""`, `""`},
	{`"abcdefgh"`, "(code-char 0)"},
	{"(coerce (list (code-char 233) (code-char 120171)) 'string)", "(code-char 233)"},
	{"(vector)", "(list)"},
	{"-9223372036854775808", "-18446744073709551617"},
	{"1/3", "#C(1 2)"},
}

const hugeArgList = 6

func directive(params, mods string, c byte) string {
	return "~" + params + mods + string(c)
}

// singles: every directive character x modifier x parameter shape.
func singles(chars []byte) []string {
	var out []string
	for _, c := range chars {
		for _, m := range fmtMods {
			for _, p := range fmtParams {
				out = append(out, directive(p, m, c))
			}
		}
	}
	return out
}

// core66: the plain form and the `3`-parameter form of every directive.
func core66() []string {
	var out []string
	for _, c := range directiveChars {
		out = append(out, directive("", "", c))
	}
	for _, c := range directiveChars {
		out = append(out, directive("3", "", c))
	}
	return out
}

var wrappers = [][2]string{{"~(", "~)"}, {"~[", "~]"}, {"~:[", "~]"}, {"~@[", "~]"}, {"~{", "~}"}, {"~:{", "~}"}, {"~@{", "~}"}, {"~:@{", "~}"}, {"~<", "~>"}}

func enumFormat(tier string, emit func(string)) {
	put := func(ctrl string, args int) {
		emit("m|" + strconv.Itoa(args) + "|" + strconv.QuoteToASCII(ctrl))
	}
	each := func(ctrl string) {
		dirs := splitDirectives(ctrl)
		if endlessIteration(dirs) {
			return // iterates forever BY CONTRACT (body consumes no argument): says nothing about the property
		}
		hasV := false
		for _, d := range dirs {
			hasV = hasV || strings.ContainsAny(dirParams(d), "vV")
		}
		for a := range fmtArgLists {
			if hasV && a == hugeArgList {
				continue // a huge number as a v parameter is family 2 below
			}
			put(ctrl, a)
		}
	}
	// 1. every byte as a directive character (the real directives first: simplest failing input first)
	for _, s := range singles(directiveChars) {
		each(s)
	}
	var others []byte
	for _, b := range allBytes() {
		if strings.IndexByte(string(directiveChars), b) < 0 {
			others = append(others, b)
		}
	}
	for _, s := range singles(others) {
		each(s)
	}
	// 2. a huge prefix parameter (literal, and through v) on every real directive
	mods := []string{""}
	if tier == engine.Thorough {
		mods = fmtMods
	}
	for _, c := range directiveChars {
		for _, m := range mods {
			put(directive(hugeParam, m, c), 2)
			put(directive("v", m, c), hugeArgList)
		}
	}
	// 3. ordered pairs, 4. wrapped singles
	var pairSet, inner []string
	if tier == engine.Thorough {
		pairSet = singles(directiveChars)
		inner = pairSet
	} else {
		pairSet = core66()
		for _, c := range directiveChars {
			for _, m := range fmtMods {
				inner = append(inner, directive("", m, c))
			}
		}
	}
	for _, a := range pairSet {
		for _, b := range pairSet {
			each(a + b)
		}
	}
	for _, w := range wrappers {
		for _, in := range inner {
			each(w[0] + in + w[1])
		}
	}
}

// dirParams returns the prefix parameters + modifiers of a directive.
func dirParams(d string) string {
	if len(d) < 2 {
		return ""
	}
	return d[1 : len(d)-1]
}

// simpleConsumer: a directive that takes (at least) one argument every time it
// runs and never moves backwards in the argument list.
func simpleConsumer(d string) bool {
	if len(d) < 2 {
		return false
	}
	c := d[len(d)-1]
	if 'a' <= c && c <= 'z' {
		c -= 'a' - 'A'
	}
	switch c {
	case 'A', 'S', 'D', 'B', 'O', 'X', 'R', 'C', 'F', 'E', 'G', '$', 'W':
		return true
	}
	return false
}

// endlessIteration: the control string holds an iteration directive without
// an iteration limit (~{ or ~@{, no leading numeric parameter) that is not
// IMMEDIATELY followed by a directive that consumes an argument on every pass.
// Common Lisp defines such an iteration to go on until the arguments are used
// up, i.e. possibly forever - like (loop). Those strings are not enumerated;
// what is kept terminates by contract, so a hang there is a finding.
func endlessIteration(dirs []string) bool {
	for i, d := range dirs {
		if len(d) < 2 || d[len(d)-1] != '{' {
			continue
		}
		p := dirParams(d)
		if strings.Contains(p, ":") || 0 < len(p) && '0' <= p[0] && p[0] <= '9' {
			continue // one sublist per pass / at most n passes
		}
		if i+1 < len(dirs) && !simpleConsumer(dirs[i+1]) {
			return true
		}
	}
	return false
}

// splitDirectives cuts a control string into its directives (harness-side
// tokenizer for OUR OWN generated strings only: ~ params mods char).
func splitDirectives(ctrl string) (dirs []string) {
	for i := 0; i < len(ctrl); {
		if ctrl[i] != '~' {
			i++
			continue
		}
		j := i + 1
		for j < len(ctrl) {
			c := ctrl[j]
			if c == '\'' && j+1 < len(ctrl) {
				j += 2
				continue
			}
			if c == ',' || c == '#' || c == 'v' || c == 'V' || c == '-' || c == '+' || '0' <= c && c <= '9' || c == ':' || c == '@' {
				j++
				continue
			}
			break
		}
		if j < len(ctrl) {
			j++
		}
		dirs = append(dirs, ctrl[i:j])
		i = j
	}
	return
}

func dirName(d string) string {
	if len(d) < 2 {
		return "~"
	}
	c := d[len(d)-1]
	if 'a' <= c && c <= 'z' {
		c -= 'a' - 'A'
	}
	switch {
	case c == '\n':
		return "~newline"
	case c == '|':
		return "~page"
	case c < 0x21 || 0x7e < c:
		return fmt.Sprintf("~\\x%02x", c)
	}
	return "~" + string(c)
}

func runFormat(ctrl string, args int) *obs {
	scope := slip.NewScope()
	scope.Let(slip.Symbol("c09c"), slip.String(ctrl))
	src := "(format nil c09c"
	for i, a := range fmtArgLists[args] {
		v := fmt.Sprintf("c09a%d", i)
		scope.Let(slip.Symbol(v), mustEval(slip.NewScope(), a))
		src += " " + v
	}
	src += ")"
	return observe(func() slip.Object {
		return slip.ReadString(src, scope).Eval(scope, nil)
	})
}

func isolateFormat(ctrl string, args int) bool {
	if os.Getenv("C09_CHILD") != "" {
		return false
	}
	for _, d := range splitDirectives(ctrl) {
		huge := strings.Contains(d, hugeParam) || args == hugeArgList && strings.ContainsAny(dirParams(d), "vV")
		if huge && isolateDirective(d) {
			return true
		}
	}
	return false
}

func execFormat(spec string) (res engine.Result) {
	parts := strings.SplitN(spec, "|", 3)
	if len(parts) != 3 {
		res.Fail("harness:bad-spec", spec)
		return
	}
	args, err := strconv.Atoi(parts[1])
	ctrl, err2 := strconv.Unquote(parts[2])
	if err != nil || err2 != nil || args < 0 || len(fmtArgLists) <= args {
		res.Fail("harness:bad-spec", spec)
		return
	}
	dirs := splitDirectives(ctrl)
	names := make([]string, len(dirs))
	for i, d := range dirs {
		names[i] = dirName(d)
	}
	res.Hit("format-cases")
	if isolateFormat(ctrl, args) {
		return runChild(spec, "format "+strings.Join(names, "")+" param=huge",
			fmt.Sprintf("(format nil %s %s)", strconv.QuoteToASCII(ctrl), strings.Join(fmtArgLists[args], " ")))
	}
	leave := enter(false)
	defer leave()
	o := runFormat(ctrl, args)
	res.Outcome = o.outcome()
	switch o.kind {
	case "value":
		res.Hit("format-value")
	case "condition":
		res.Hit("format-condition")
	}
	res.Nontrivial = o.kind == "value" || !strings.Contains(o.msg, "directive") // got past directive lookup
	what := fmt.Sprintf("(format nil %s %s)", strconv.QuoteToASCII(ctrl), strings.Join(fmtArgLists[args], " "))
	fc := realClassifier.classify(o)
	if fc == "" {
		if o.catchAll {
			res.Hit("catch-all-accepted")
			logAccepted("format "+strings.Join(names, ""), o)
		}
		return
	}
	res.Hit("faults")
	// the Go function that faulted names the directive handler: no directive names in the signature
	res.Fail(fmt.Sprintf("format fault=%s at=%s", fc, o.site), what+" => "+o.describe())
	return
}
