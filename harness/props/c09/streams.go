package c09

// streams.go: family st - STREAMS AND STATE. Every function that takes a stream (the case st|inventory derives the
// list from slip itself: every exported function with a parameter documented as a stream / input / output /
// destination, or whose name says stream, read, write, print, close, file-, terpri ...; each needs an operation
// template here or a stated excuse, else the run is a harness error) x every kind of stream slip can make in every
// start state (open; at end of file; empty; written to; a file stream whose file was deleted after it was opened;
// composite streams whose members are closed; synonym streams to an open / unbound / non-stream variable and to another
// synonym stream; the dead stream of with-output-to-string) x EVERY sequence of one and of two operations on that same
// stream (close twice, read after close, unread-char twice, file-position beyond the end, write to an input stream,
// get-output-stream-string after close ... are all members). One case = (start state, first operation): the
// single operation and then every (first, second) pair, each on a freshly made stream. Runs in the helper process: a
// read that never returns is a failure of that case (kind=unbounded), not a dead worker.
//
// spec: st|<state>|<index of the first operation>|<text of the first operation>

import (
	"fmt"
	"os"
	"sort"
	"strconv"
	"strings"

	"github.com/ohler55/slip"

	"verif/engine"
)

type streamOp struct {
	fn   string // the function the operation is about (<package>:<name>)
	form string // {S} = the stream
}

// streamOps: the operation alphabet.
var streamOps = buildStreamOps()

func buildStreamOps() (out []streamOp) {
	add := func(fn string, forms ...string) {
		for _, f := range forms {
			out = append(out, streamOp{fn, f})
		}
	}
	cl := "common-lisp:"
	// ---- reading
	add(cl+"read-char", "(read-char {S})", "(read-char {S} nil :eof)")
	add(cl+"read-line", "(read-line {S})", "(read-line {S} nil :eof)")
	add(cl+"read-byte", "(read-byte {S})", "(read-byte {S} nil :eof)")
	add(cl+"read", "(read {S})", "(read {S} nil :eof)")
	add(cl+"peek-char", "(peek-char nil {S})", "(peek-char t {S} nil :eof)", `(peek-char #\c {S} nil :eof)`)
	add(cl+"unread-char", `(unread-char #\a {S})`)
	add("gi:read-all", "(read-all {S})")
	add("gi:read-each", "(read-each {S} (lambda (x) x))")
	add("gi:read-push", "(read-push {S} (make-channel 100))")
	add("bag:bag-read", `(bag-read (make-bag "{}") {S})`)
	add("bag:json-parse", "(json-parse (lambda (x) x) {S})")
	add("bag:discover-json", "(discover-json (lambda (x) x) {S})")
	add("bag:each-bag", "(each-bag {S} (lambda (b) b))")
	add("csv:csv-read", "(csv-read {S})")
	add("csv:csv-iterate", "(csv-iterate (lambda (r) r) {S})")
	add("xml:xml-read", "(xml-read {S})")
	add(cl+"load", "(load {S})")
	// ---- writing
	add(cl+"write-char", `(write-char #\a {S})`)
	add(cl+"write-string", `(write-string "abc" {S})`, `(write-string "abc" {S} :start 1 :end 2)`)
	add(cl+"write-line", `(write-line "abc" {S})`)
	add(cl+"write-byte", "(write-byte 65 {S})")
	add(cl+"write-sequence", `(write-sequence "abc" {S})`, "(write-sequence (make-octets 2 65) {S})", "(write-sequence (list 1 #\\a) {S})")
	add(cl+"terpri", "(terpri {S})")
	add(cl+"fresh-line", "(fresh-line {S})")
	add(cl+"format", `(format {S} "~A~%" 1)`)
	add(cl+"print", "(print 1 {S})")
	add(cl+"prin1", `(prin1 "s" {S})`)
	add(cl+"princ", `(princ "s" {S})`)
	add(cl+"pprint", "(pprint (list 1 2) {S})")
	add(cl+"write", "(write 1 :stream {S})", "(write (list 1 2) :stream {S} :pretty t)")
	add(cl+"print-object", "(print-object 1 {S})")
	add(cl+"print-unreadable-object", "(print-unreadable-object 1 {S})")
	add(cl+"describe", "(describe 1 {S})")
	add("flavors:describe-flavor", "(describe-flavor 'c09flavor {S})")
	add("flavors:describe-method", "(describe-method 'c09flavor :a {S})")
	add("bag:bag-write", `(bag-write (make-bag "{a:1}") {S})`)
	add("csv:csv-write", "(csv-write (list (list 1 2)) {S})")
	add("csv:csv-write-row", "(csv-write-row (list 1 2) {S})")
	add("xml:xml-write", `(xml-write (list 'a nil "x") {S})`)
	add("gi:pretty-print", "(pretty-print (a b) {S})")
	add("gi:save", "(save 1 {S})")
	// ---- state
	add(cl+"close", "(close {S})", "(close {S} :abort t)")
	add(cl+"open-stream-p", "(open-stream-p {S})")
	add(cl+"input-stream-p", "(input-stream-p {S})")
	add(cl+"output-stream-p", "(output-stream-p {S})")
	add(cl+"streamp", "(streamp {S})")
	add(cl+"interactive-stream-p", "(interactive-stream-p {S})")
	add(cl+"stream-element-type", "(stream-element-type {S})")
	add(cl+"stream-external-format", "(stream-external-format {S})")
	add(cl+"file-length", "(file-length {S})")
	add(cl+"file-position", "(file-position {S})", "(file-position {S} 0)", "(file-position {S} 3)", "(file-position {S} 100000)", "(file-position {S} -1)",
		"(file-position {S} :start)", "(file-position {S} :end)", "(file-position {S} 18446744073709551616)")
	add(cl+"file-string-length", `(file-string-length {S} "abc")`)
	add(cl+"truename", "(truename {S})")
	add(cl+"get-output-stream-string", "(get-output-stream-string {S})")
	add(cl+"broadcast-stream-streams", "(broadcast-stream-streams {S})")
	add(cl+"concatenated-stream-streams", "(concatenated-stream-streams {S})")
	add(cl+"echo-stream-input-stream", "(echo-stream-input-stream {S})")
	add(cl+"echo-stream-output-stream", "(echo-stream-output-stream {S})")
	add(cl+"two-way-stream-input-stream", "(two-way-stream-input-stream {S})")
	add(cl+"two-way-stream-output-stream", "(two-way-stream-output-stream {S})")
	add(cl+"synonym-stream-symbol", "(synonym-stream-symbol {S})")
	add(cl+"make-broadcast-stream", `(write-char #\a (make-broadcast-stream {S}))`, "(close (make-broadcast-stream {S} {S}))")
	add(cl+"make-concatenated-stream", "(read-char (make-concatenated-stream {S}) nil :eof)", "(read-line (make-concatenated-stream {S} {S}) nil :eof)")
	add(cl+"make-echo-stream", "(read-char (make-echo-stream {S} (make-string-output-stream)) nil :eof)",
		`(read-char (make-echo-stream (make-string-input-stream "x") {S}) nil :eof)`, "(read-line (make-echo-stream {S} {S}) nil :eof)")
	add(cl+"make-two-way-stream", "(read-char (make-two-way-stream {S} (make-string-output-stream)) nil :eof)",
		`(write-char #\a (make-two-way-stream (make-string-input-stream "x") {S}))`)
	add(cl+"with-open-stream", "(with-open-stream (s {S}) (read-char s nil :eof))", `(with-open-stream (s {S}) (write-char #\a s))`)
	add("gi:with-zip-reader", "(with-zip-reader (z {S}) (read-all z))")
	add("gi:with-zip-writer", `(with-zip-writer (z {S} 5) (format z "x"))`)
	add("generic:make-load-form", "(make-load-form {S})")
	return
}

// streamExcused: functions the discovery rule lists that take no stream, or cannot be given one here.
var streamExcused = map[string]string{
	"common-lisp:dolist": "the parameter called input is a binding list", "common-lisp:dotimes": "the parameter called input is a binding list",
	"gi:dovector":                           "the parameter called input is a binding list",
	"common-lisp:stream-error-stream":       "takes a condition",
	"common-lisp:print-not-readable-object": "takes a condition",
	"common-lisp:file-error-pathname":       "takes a condition",
	"gi:decrypt-file":                       "input-file / output-file are file names", "gi:encrypt-file": "input-file / output-file are file names",
	"gi:snapshot":            "writes the whole session (every package): output proportional to the image, covered by C19; its destination check is reached by family f",
	"net:socket-make-stream": "needs a connected socket (reaches outside the process)",
	"net:socket-stream":      "needs a connected socket", "net:socket-close": "takes a socket", "net:socket-listen": "takes a socket",
	"net:wait-for-input": "takes sockets (waits by contract)",
	"bag:load-bag":       "takes a file name", "common-lisp:file-author": "takes a file name", "common-lisp:file-namestring": "takes a path name",
	"common-lisp:file-write-date": "takes a file name", "gi:file-info": "takes a file name",
	"common-lisp:make-string-input-stream":  "takes a string (the start states are made with it)",
	"common-lisp:make-string-output-stream": "takes nothing (the start states are made with it)",
	"common-lisp:make-synonym-stream":       "takes a symbol (the start states are made with it)",
	"common-lisp:prin1-to-string":           "takes no stream", "common-lisp:princ-to-string": "takes no stream", "common-lisp:write-to-string": "takes no stream",
	"common-lisp:read-from-string":       "takes a string (family r)",
	"common-lisp:with-input-from-string": "makes its own stream from a string (family sf)",
	"common-lisp:with-output-to-string":  "makes its own stream (its dead stream is the start state oss)",
	"gi:with-input-from-octets":          "makes its own stream from octets (the start state ois)",
	"gi:channel-close":                   "takes a channel",
}

type streamState struct{ name, what string }

var streamStates = []streamState{
	{"sin", "string input stream"}, {"sin-eof", "string input stream read to the end"}, {"sin-empty", "string input stream over the empty string"},
	{"sout", "string output stream"}, {"sout-used", "string output stream that was written to"},
	{"fin", "file input stream"}, {"fin-eof", "file input stream read to the end"}, {"fin-empty", "file input stream over an empty file"},
	{"fin-deleted", "file input stream whose file was deleted after it was opened"},
	{"fout", "file output stream"}, {"fout-deleted", "file output stream whose file was deleted after it was opened"}, {"fappend", "file output stream opened with :if-exists :append"},
	{"fio", "file io stream"}, {"fio-deleted", "file io stream whose file was deleted after it was opened"}, {"fprobe", "the stream of (open ... :direction :probe)"},
	{"bso", "broadcast stream with two members"}, {"bse", "broadcast stream without members"}, {"bsm", "broadcast stream whose member is closed"},
	{"cso", "concatenated stream of two"}, {"cso-eof", "concatenated stream read to the end"}, {"cse", "concatenated stream without members"}, {"csm", "concatenated stream whose member is closed"},
	{"eso", "echo stream"}, {"eso-eof", "echo stream read to the end"}, {"esm", "echo stream whose output member is closed"},
	{"two", "two-way stream"}, {"twm", "two-way stream whose members are closed"},
	{"syo", "synonym stream to an open string input stream"}, {"syout", "synonym stream to an open string output stream"}, {"syu", "synonym stream to an unbound variable"},
	{"syn", "synonym stream to a variable that holds 5"}, {"sy2", "synonym stream to a synonym stream to an input stream"},
	{"ois", "input stream over octets"}, {"ois-eof", "input stream over octets read to the end"}, {"oss", "the stream of with-output-to-string after the form"},
	{"stdin", "*standard-input* of the case (an empty string stream)"}, {"stdout", "*standard-output* of the case (a string stream)"},
}

const streamText = "ab (1 2) c\nline two\n"

func (w *world) buildStream(name string) slip.Object {
	id := nextID()
	ev := func(format string, args ...any) slip.Object {
		return mustEval(slip.NewScope(), fmt.Sprintf(format, args...))
	}
	closeLater := func(o slip.Object) slip.Object {
		w.cleanups = append(w.cleanups, func() {
			if c, ok := o.(interface{ Close() error }); ok {
				_ = c.Close()
			}
		})
		return o
	}
	file := fmt.Sprintf("c09f%d.txt", id)
	mkfile := func(content string) { _ = os.WriteFile(file, []byte(content), 0o644) }
	w.cleanups = append(w.cleanups, func() { _ = os.Remove(file) })
	sin := fmt.Sprintf("(make-string-input-stream %q)", streamText)
	switch name {
	case "sin":
		return ev(sin)
	case "sin-eof":
		return ev("(let ((s %s)) (read-all s) s)", sin)
	case "sin-empty":
		return ev(`(make-string-input-stream "")`)
	case "sout":
		return ev("(make-string-output-stream)")
	case "sout-used":
		return ev(`(let ((s (make-string-output-stream))) (write-string "xyz" s) s)`)
	case "fin", "fin-eof", "fin-deleted", "fin-empty":
		if name == "fin-empty" {
			mkfile("")
		} else {
			mkfile(streamText)
		}
		s := closeLater(ev(`(open %q :direction :input)`, file))
		switch name {
		case "fin-eof":
			w.scope.Let(slip.Symbol("c09tmp"), s)
			_, _ = lispEvalIn(w.scope, "(read-all c09tmp)")
		case "fin-deleted":
			_ = os.Remove(file)
		}
		return s
	case "fout", "fout-deleted":
		s := closeLater(ev(`(open %q :direction :output :if-exists :supersede :if-does-not-exist :create)`, file))
		if name == "fout-deleted" {
			_ = os.Remove(file)
		}
		return s
	case "fappend":
		mkfile(streamText)
		return closeLater(ev(`(open %q :direction :output :if-exists :append)`, file))
	case "fio", "fio-deleted":
		mkfile(streamText)
		s := closeLater(ev(`(open %q :direction :io)`, file))
		if name == "fio-deleted" {
			_ = os.Remove(file)
		}
		return s
	case "fprobe":
		mkfile(streamText)
		return closeLater(ev(`(open %q :direction :probe)`, file))
	case "bso":
		return ev("(make-broadcast-stream (make-string-output-stream) (make-string-output-stream))")
	case "bse":
		return ev("(make-broadcast-stream)")
	case "bsm":
		return ev("(let* ((o (make-string-output-stream)) (s (make-broadcast-stream o))) (close o) s)")
	case "cso":
		return ev(`(make-concatenated-stream (make-string-input-stream "ab (1") (make-string-input-stream " 2) c"))`)
	case "cso-eof":
		return ev(`(let ((s (make-concatenated-stream (make-string-input-stream "ab") (make-string-input-stream "c")))) (read-all s) s)`)
	case "cse":
		return ev("(make-concatenated-stream)")
	case "csm":
		return ev(`(let* ((i (make-string-input-stream "ab")) (s (make-concatenated-stream i))) (close i) s)`)
	case "eso":
		return ev("(make-echo-stream %s (make-string-output-stream))", sin)
	case "eso-eof":
		return ev("(let ((s (make-echo-stream %s (make-string-output-stream)))) (read-all s) s)", sin)
	case "esm":
		return ev("(let* ((o (make-string-output-stream)) (s (make-echo-stream %s o))) (close o) s)", sin)
	case "two":
		return ev("(make-two-way-stream %s (make-string-output-stream))", sin)
	case "twm":
		return ev("(let* ((i %s) (o (make-string-output-stream)) (s (make-two-way-stream i o))) (close i) (close o) s)", sin)
	case "syo", "syout", "syu", "syn", "sy2":
		v := fmt.Sprintf("c09s%dv", id)
		switch name {
		case "syo":
			ev("(defvar %s %s)", v, sin)
		case "syout":
			ev("(defvar %s (make-string-output-stream))", v)
		case "syn":
			ev("(defvar %s 5)", v)
		case "sy2":
			ev("(defvar %sb %s)", v, sin)
			ev("(defvar %s (make-synonym-stream '%sb))", v, v)
			w.cleanups = append(w.cleanups, func() { slip.UserPkg.Remove(v + "b") })
		}
		if name != "syu" {
			w.cleanups = append(w.cleanups, func() { slip.UserPkg.Remove(v) })
		}
		return ev("(make-synonym-stream '%s)", v)
	case "ois":
		return ev("(with-input-from-octets (s (make-octets 3 65)) s)")
	case "ois-eof":
		return ev("(with-input-from-octets (s (make-octets 3 65)) (read-all s) s)")
	case "oss":
		return ev("(let ((o nil)) (with-output-to-string (s) (setq o s)) o)")
	case "stdin":
		return ev("*standard-input*")
	case "stdout":
		return ev("*standard-output*")
	}
	panic("harness: unknown stream state " + name)
}

func streamStateKnown(n string) bool {
	for _, s := range streamStates {
		if s.name == n {
			return true
		}
	}
	return false
}

func enumStreams(tier string, emit func(string)) {
	emit("st|inventory")
	for _, st := range streamStates {
		for i, op := range streamOps {
			emit("st|" + st.name + "|" + strconv.Itoa(i) + "|" + op.form)
		}
	}
}

// streamFunctions: the discovery rule (see the head of the file).
func streamFunctions() (out []string) {
	words := []string{"stream", "read", "write", "print", "close", "listen", "output", "input", "file-", "terpri", "fresh-line", "peek", "prin", "load", "save", "flush", "clear-"}
	for _, f := range allFunctions() {
		i := strings.IndexByte(f.name, ':')
		p := slip.FindPackage(f.name[:i])
		if p == nil {
			continue
		}
		fi := p.GetFunc(f.name[i+1:])
		if fi == nil {
			continue
		}
		hit := false
		if fi.Doc != nil {
			for _, a := range fi.Doc.Args {
				ty := strings.ToLower(a.Type + " " + a.Name)
				hit = hit || strings.Contains(ty, "stream") || a.Name == "destination" || strings.Contains(ty, "output") || strings.Contains(ty, "input")
			}
		}
		for _, w := range words {
			hit = hit || strings.Contains(f.name[i+1:], w)
		}
		if hit {
			out = append(out, f.name)
		}
	}
	return
}

func execStream(spec string) (res engine.Result) {
	if spec == "st|inventory" {
		return execStreamInventory()
	}
	parts := strings.SplitN(spec, "|", 4)
	if len(parts) != 4 {
		res.Fail("harness:bad-spec", spec)
		return
	}
	state := parts[1]
	k, err := strconv.Atoi(parts[2])
	if err != nil || k < 0 || len(streamOps) <= k || streamOps[k].form != parts[3] || !streamStateKnown(state) {
		res.Fail("harness:bad-spec", spec)
		return
	}
	first := &streamOps[k]
	if os.Getenv("C09_CHILD") == "" {
		return isolatedCase(spec, "stream state="+state+" first="+first.fn, "on a "+state+" stream: "+first.form+" and then every second operation", "stream-cases", false)
	}
	res.Hit("stream-cases")
	leave := enter(false)
	defer leave()
	ensureFixtures()
	outcomes := map[string]int{}
	seen := map[string]bool{}
	failed := false
	// run evaluates the operations one after the other on one fresh stream; every outcome is judged
	run := func(ops ...*streamOp) {
		if failed {
			return
		}
		w := &world{scope: slip.NewScope()}
		defer w.done()
		slip.CurrentPackage = &slip.UserPkg
		if !setup(func() { w.scope.Let(slip.Symbol("c09s"), w.buildStream(state)) }) {
			failed = true
			tainted = true
			res.Hit("setup-failed")
			res.Fail("harness:setup-failed", spec+": the stream could not be made")
			return
		}
		history := ""
		for _, op := range ops {
			src := strings.ReplaceAll(op.form, "{S}", "c09s")
			announce(state + ": " + history + src)
			o := observe(func() slip.Object { return slip.ReadString(src, w.scope).Eval(w.scope, nil) })
			res.Hit("stream-evals")
			{
				switch o.kind {
				case "value":
					res.Hit("stream-value")
					outcomes["v"]++
				case "condition":
					res.Hit("stream-condition")
					outcomes["c:"+o.class]++
				default:
					outcomes[o.kind]++
				}
			}
			if o.catchAll {
				res.Hit("catch-all-conversions")
			}
			if fc := realClassifier.classify(o); fc != "" {
				res.Hit("faults")
				sig := fmt.Sprintf("stream fn=%s fault=%s at=%s", op.fn, fc, o.site)
				if !seen[sig] {
					seen[sig] = true
					res.Fail(sig, fmt.Sprintf("%s (%s): %s%s => %s", state, stateWhat(state), history, src, o.describe()))
				}
			} else if o.catchAll {
				res.Hit("catch-all-accepted")
				logAccepted("stream fn="+op.fn, o)
			}
			history += src + " => " + digest(o.outcome(), 40) + " ; then "
		}
	}
	run(first)
	for i := range streamOps {
		run(first, &streamOps[i])
	}
	res.Nontrivial = true
	res.Outcome = digestCounts(outcomes)
	checkPoison(&res, "stream state="+state+" first="+first.fn, spec)
	return
}

func stateWhat(name string) string {
	for _, s := range streamStates {
		if s.name == name {
			return s.what
		}
	}
	return "?"
}

func execStreamInventory() (res engine.Result) {
	leave := enter(false)
	defer leave()
	have := map[string]bool{}
	for _, op := range streamOps {
		have[op.fn] = true
	}
	found := map[string]bool{}
	var missing, stale []string
	for _, f := range streamFunctions() {
		found[f] = true
		res.Hit("stream-functions")
		switch {
		case have[f]:
			res.Hit("stream-functions-covered")
		case streamExcused[f] != "":
			res.Hit("stream-functions-excused")
		default:
			missing = append(missing, f)
		}
	}
	for f := range have {
		if !fnDefined(f) {
			stale = append(stale, f)
		}
	}
	sort.Strings(missing)
	sort.Strings(stale)
	// every start state must be buildable and be a stream
	var bad []string
	for _, st := range streamStates {
		w := &world{scope: slip.NewScope()}
		var o slip.Object
		ok := setup(func() { o = w.buildStream(st.name) })
		if !ok || o == nil {
			bad = append(bad, st.name)
		} else {
			res.Hit("stream-states")
		}
		w.done()
	}
	res.Nontrivial = true
	res.Outcome = fmt.Sprintf("functions=%d operations=%d states=%d missing=%v stale=%v bad-states=%v", len(found), len(streamOps), len(streamStates), missing, stale, bad)
	if 0 < len(missing) {
		res.Fail("harness:stream-function-without-operation", "functions that take a stream (by the discovery rule) without an operation or an excuse in streams.go: "+strings.Join(missing, " "))
	}
	if 0 < len(stale) {
		res.Fail("harness:stream-operation-stale", "operations about functions that do not exist: "+strings.Join(stale, " "))
	}
	if 0 < len(bad) {
		res.Fail("harness:stream-state-invalid", "start states that could not be made: "+strings.Join(bad, " "))
	}
	return
}

func streamFnCount() int {
	fns := map[string]bool{}
	for _, op := range streamOps {
		fns[op.fn] = true
	}
	return len(fns)
}
