package c06

// Two-list functions that were not in the alphabet: set functions (the result is a set: compared without order; the
// language lets it share with either argument, so the sharing classes of both operands are merged - permissive),
// merge, revappend / nreconc, append / nconc / concatenate with three arguments, tree-equal.

func init() {
	uni := func(s, t []int64) []int64 {
		out := append([]int64(nil), s...)
		for _, x := range t {
			if !has(out, x) {
				out = append(out, x)
			}
		}
		return out
	}
	inter := func(s, t []int64) []int64 { return filter(s, func(x int64) bool { return has(t, x) }) }
	diff := func(s, t []int64) []int64 { return filter(s, func(x int64) bool { return !has(t, x) }) }
	xor := func(s, t []int64) []int64 { return cat(diff(s, t), diff(t, s)) }
	par := func(f func(s, t []int64) []int64) func(s, t []int64) []int64 { // the same with :key parity
		return func(s, t []int64) []int64 {
			ps := func(l []int64) []int64 {
				out := make([]int64, len(l))
				for i, x := range l {
					out[i] = mod2(x)
				}
				return out
			}
			return f(ps(s), ps(t))
		}
	}
	_ = par
	type sv struct {
		name, fn, form string
		f              func(s, t []int64) []int64
		base           func(s, t []int64) []int64
		destr          bool
	}
	var sets []sv
	for _, x := range []struct {
		fn string
		f  func(s, t []int64) []int64
	}{{"union", uni}, {"intersection", inter}, {"set-difference", diff}, {"set-exclusive-or", xor}} {
		sets = append(sets,
			sv{x.fn, x.fn, "(" + x.fn + " {S} {T})", x.f, nil, false},
			sv{x.fn + "-test", x.fn, "(" + x.fn + " {S} {T} :test #'eql)", x.f, nil, false},
			sv{"n" + x.fn, "n" + x.fn, "(n" + x.fn + " {S} {T})", x.f, nil, true})
	}
	for _, v := range sets {
		v := v
		pats := patBin + " " + patBin2
		if v.destr {
			pats = patSelfT + " bac cab"
		}
		addFam(&fam{name: v.name, fn: v.fn, group: "fn", form: v.form, share: shareMerge, destr: v.destr, setEq: true, minS: 1, needT: true, pats: pats,
			want: func(s, t []int64, _ int64) []int64 { return v.f(s, t) }})
	}
	// :key on a set function: elements are compared by (mod x 4) - the result holds one representative per class, which
	// one is not specified: only the frame rule is checked (no want for the value: a model-only want is given)
	addFam(&fam{name: "union-key", fn: "union", group: "kw", form: "(mapcar (lambda (x) (mod x 2)) (union {S} {T} :key (lambda (x) (mod x 2))))", share: shareNone, setEq: true,
		minS: 1, needT: true, pats: patBin, want: func(s, t []int64, _ int64) []int64 { return par(uni)(s, t) },
		base: func(s, t []int64, _ int64) []int64 { return uni(s, t) }})
	addFam(&fam{name: "intersection-key", fn: "intersection", group: "kw", form: "(mapcar (lambda (x) (mod x 2)) (intersection {S} {T} :key (lambda (x) (mod x 2))))", share: shareNone, setEq: true,
		minS: 1, needT: true, pats: patBin, want: func(s, t []int64, _ int64) []int64 { return par(inter)(s, t) },
		base: func(s, t []int64, _ int64) []int64 { return inter(s, t) }})
	addFam(&fam{name: "set-difference-key", fn: "set-difference", group: "kw", form: "(mapcar (lambda (x) (mod x 2)) (set-difference {S} {T} :key (lambda (x) (mod x 2))))", share: shareNone, setEq: true,
		minS: 1, needT: true, pats: patBin, want: func(s, t []int64, _ int64) []int64 { return par(diff)(s, t) },
		base: func(s, t []int64, _ int64) []int64 { return diff(s, t) }})
	addFam(&fam{name: "subsetp", fn: "subsetp", group: "fn", form: "(list (if (subsetp {S} {T}) 1 0) (if (subsetp (cdr {S}) {S} :key #'1+ :test #'=) 1 0))", share: shareNone,
		minS: 1, needT: true, pats: patBin, want: func(s, t []int64, _ int64) []int64 {
			r := int64(0)
			if len(diff(s, t)) == 0 {
				r = 1
			}
			return sl(r, 1)
		}})
	addFam(&fam{name: "tree-equal2", fn: "tree-equal", group: "fn", form: "(list (if (tree-equal {S} {T}) 1 0) (if (equal {S} {T}) 1 0))", share: shareNone,
		minS: 1, needT: true, pats: patBin, want: func(s, t []int64, _ int64) []int64 {
			r := int64(0)
			if sameElems(s, t) {
				r = 1
			}
			return sl(r, r)
		}})
	addFam(&fam{name: "mismatch2", fn: "mismatch", group: "fn", form: "(list (or (mismatch {S} {T}) -1) (or (search {T} {S}) -1))", share: shareNone,
		minS: 1, needT: true, pats: patBin, want: func(s, t []int64, _ int64) []int64 {
			m := int64(-1)
			for i := 0; i < len(s) || i < len(t); i++ {
				if len(s) <= i || len(t) <= i || s[i] != t[i] {
					m = int64(i)
					break
				}
			}
			p := int64(-1)
			for i := 0; i+len(t) <= len(s); i++ {
				if sameElems(s[i:i+len(t)], t) {
					p = int64(i)
					break
				}
			}
			return sl(m, p)
		}})
	// ---- merge (destructive in the language; both operands may be consumed)
	less := func(a, b int64) bool { return a < b }
	addFam(&fam{name: "merge", fn: "merge", group: "fn", form: "(merge 'list {S} {T} #'<)", share: shareMerge, destr: true, dist: true, minS: 1, needT: true,
		pats: patBin + " " + patSelfT, want: func(s, t []int64, _ int64) []int64 { return mergeBy(s, t, less) }})
	addFam(&fam{name: "merge-key", fn: "merge", group: "kw", form: "(merge 'list {S} {T} #'> :key #'-)", share: shareMerge, destr: true, dist: true, minS: 1, needT: true,
		pats: patBin, want: func(s, t []int64, _ int64) []int64 { return mergeBy(s, t, less) },
		base: func(s, t []int64, _ int64) []int64 { return mergeBy(s, t, func(a, b int64) bool { return a > b }) }})
	// ---- revappend / nreconc with a tail, append and nconc chains, concatenate
	addFam(&fam{name: "revappend2", fn: "revappend", group: "fn", form: "(revappend {S} {T})", share: shareT, minS: 1, needT: true, pats: patBin + " " + patBin2,
		want: func(s, t []int64, _ int64) []int64 { return cat(rev(s), t) }, tailT: func([]int64) int { return 0 }})
	addFam(&fam{name: "nreconc", fn: "nreconc", group: "fn", form: "(nreconc {S} {T})", share: shareMerge, destr: true, dist: true, minS: 1, needT: true,
		pats: patSelfT + " bac cab", want: func(s, t []int64, _ int64) []int64 { return cat(rev(s), t) }})
	addFam(&fam{name: "nreconc-nil", fn: "nreconc", group: "fn", form: "(nreconc {S} nil)", share: shareS, destr: true, minS: 1, pats: patSelf,
		want: func(s, _ []int64, _ int64) []int64 { return rev(s) }})
	addFam(&fam{name: "append3", fn: "append", group: "fn", form: "(append {S} (list {N}) {T})", share: shareT, ext: true, minS: 1, needT: true, pats: patBin + " " + patBin2,
		want: func(s, t []int64, n int64) []int64 { return cat(s, sl(n), t) }, tailT: func([]int64) int { return 0 }})
	addFam(&fam{name: "append-copy-last", fn: "append", group: "fn", form: "(append {S} {T} nil)", share: shareNone, ext: true, minS: 1, needT: true, pats: patBin,
		want: func(s, t []int64, _ int64) []int64 { return cat(s, t) }})
	addFam(&fam{name: "append-nil-first", fn: "append", group: "fn", form: "(append nil {S})", share: shareS, minS: 1, pats: patProd4,
		want: func(s, _ []int64, _ int64) []int64 { return s }, tail: all0})
	addFam(&fam{name: "append-self", fn: "append", group: "fn", form: "(append {S} {S} {S})", share: shareS, ext: true, minS: 1, pats: patProd4 + " aa",
		want: func(s, _ []int64, _ int64) []int64 { return cat(s, s, s) }, tail: func(s []int64) int { return 0 }})
	addFam(&fam{name: "concatenate2", fn: "concatenate", group: "fn", form: "(concatenate 'list {S} {T})", share: shareNone, minS: 1, needT: true, pats: patBin + " " + patBin2,
		want: func(s, t []int64, _ int64) []int64 { return cat(s, t) }})
	addFam(&fam{name: "nconc3", fn: "nconc", group: "fn", form: "(nconc {S} (list {N}) {T})", share: shareMerge, destr: true, ext: true, dist: true, minS: 1, needT: true,
		pats: patSelfT + " bac cab", want: func(s, t []int64, n int64) []int64 { return cat(s, sl(n), t) }})
	addFam(&fam{name: "nconc-nil-mid", fn: "nconc", group: "fn", form: "(nconc {S} nil {T})", share: shareMerge, destr: true, ext: true, dist: true, minS: 1, needT: true,
		pats: patSelfT, want: func(s, t []int64, _ int64) []int64 { return cat(s, t) }})
	addFam(&fam{name: "nconc-nil-first", fn: "nconc", group: "fn", form: "(nconc nil {S})", share: shareS, destr: true, minS: 1, pats: patProd4,
		want: func(s, _ []int64, _ int64) []int64 { return s }})
	addFam(&fam{name: "nconc-fresh", fn: "nconc", group: "fn", form: "(nconc (list {N}) {S})", share: shareS, destr: true, ext: true, minS: 1, pats: patProd4 + " aa bb cc",
		want: func(s, _ []int64, n int64) []int64 { return cat(sl(n), s) }})
	addFam(&fam{name: "nconc-one", fn: "nconc", group: "fn", form: "(nconc {S})", share: shareS, destr: true, minS: 1, pats: patProd4,
		want: func(s, _ []int64, _ int64) []int64 { return s }})
	// alists built from the operand inside the step: the functions get conses whose cars / cdrs are the elements
	alist := "(mapcar (lambda (x) (cons x x)) {S})"
	un := func(name, fn, form string, minS int, want func(s []int64, n int64) []int64) {
		addFam(&fam{name: name, fn: fn, group: "fn", form: form, share: shareNone, minS: minS, pats: patProd4,
			want: func(s, _ []int64, n int64) []int64 { return want(s, n) }})
	}
	same := func(s []int64, _ int64) []int64 { return s }
	un("copy-alist", "copy-alist", "(let* ((al "+alist+") (cp (copy-alist al))) (rplacd (car cp) 0) (rplaca (car cp) 0) (setf (car cp) nil) (mapcar #'cdr al))", 1, same)
	un("copy-alist-value", "copy-alist", "(mapcar #'car (copy-alist "+alist+"))", 1, same)
	un("acons", "acons", "(let* ((al "+alist+") (r (acons {N} {N} al))) (setf (car r) (cons 0 0)) (mapcar #'car al))", 1, same)
	un("acons-value", "acons", "(mapcar #'cdr (acons {N} {N} "+alist+"))", 1, func(s []int64, n int64) []int64 { return cat(sl(n), s) })
	un("pairlis", "pairlis", "(sort (mapcar #'car (pairlis {S} {S})) #'<)", 1, func(s []int64, _ int64) []int64 { return sorted(s, false) })
	un("pairlis-alist", "pairlis", "(let* ((al "+alist+") (r (pairlis (list {N}) (list {N}) al))) (setf (car r) (cons 0 0)) (mapcar #'car al))", 1, same)
	un("assoc", "assoc", "(let ((al "+alist+")) (list (cdr (assoc (nth 1 {S}) al)) (car (rassoc (nth 1 {S}) al)) (cdr (assoc-if #'evenp al)) (car (rassoc-if #'evenp al))))", 2,
		func(s []int64, _ int64) []int64 {
			e := int64(-1)
			for _, x := range s {
				if x%2 == 0 {
					e = x
					break
				}
			}
			return sl(s[1], s[1], e, e)
		})
	un("assoc-key-test", "assoc", "(let ((al "+alist+")) (list (cdr (assoc (1+ (nth 1 {S})) al :key #'1+)) (cdr (assoc (nth 1 {S}) al :test #'<))))", 2,
		func(s []int64, _ int64) []int64 {
			g := int64(-1)
			for _, x := range s {
				if s[1] < x {
					g = x
					break
				}
			}
			return sl(s[1], g)
		})
	famIndex["assoc"].okS = func(s []int64) bool { return indexOf(s, s[1]) == 1 && has2(s) }
	famIndex["assoc-key-test"].okS = func(s []int64) bool {
		for _, x := range s {
			if s[1] < x {
				return true
			}
		}
		return false
	}
	fixOkS()
}

func has2(s []int64) bool {
	for _, x := range s {
		if x%2 == 0 {
			return true
		}
	}
	return false
}

// fixOkS copies applicability conditions set on a family after its instantiation to its operations.
func fixOkS() {
	for _, o := range allOps {
		if o.famRec != nil && o.famRec.okS != nil && o.okS == nil {
			o.okS = o.famRec.okS
		}
	}
}
