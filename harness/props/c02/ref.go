package c02

import (
	"math/big"
	"strconv"
	"strings"
	"unicode/utf8"
)

// A small reference reader for the grammar the generator produces, written
// independently of slip's table-driven lexer (plain recursive descent over
// the joined text). It is used for the oracle-sensitivity self-test: the
// real reference ignores how the text was cut into pieces; each mutant
// encodes one realistic reader bug that depends on the pieces or on a cursor,
// and the enumerated case set has to tell every mutant from the reference.
// It also cross-checks the generator: its reading of every generated text
// must equal the generator's denotation and end offsets.

type refMutant struct {
	name               string
	dropCarry          bool // a token that straddles a piece boundary loses the part before the boundary
	stringLosesPrefix  bool // a string that straddles a piece boundary loses the part before the boundary
	leakCarry          bool // the completed token before a boundary is prepended to the first token after it
	posBeforeClose     bool // the position after a list is the offset of its ")" instead of the one after it
	posAfterDelimiter  bool // the position after a token includes the delimiter that ended it
	ratioIgnoresBase   bool // ratios are read in base 10 whatever *read-base* is
	escapeAtCutLiteral bool // an escape whose backslash is the last byte of a piece is taken literally
	silentTruncation   bool // a list that is still open at the end of the text is returned as if closed
	dropsLastAtom      bool // an atom that ends exactly at the end of the text is dropped
}

var refMutants = []refMutant{
	{name: "token split by a piece boundary loses its first part", dropCarry: true},
	{name: "string split by a piece boundary loses its first part", stringLosesPrefix: true},
	{name: "bytes of the completed token before a boundary leak into the next token", leakCarry: true},
	{name: "position after a list points at its closing parenthesis", posBeforeClose: true},
	{name: "position after a token includes the delimiter", posAfterDelimiter: true},
	{name: "ratio read in base 10 whatever *read-base* is", ratioIgnoresBase: true},
	{name: "escape whose backslash ends a piece is taken literally", escapeAtCutLiteral: true},
	{name: "list still open at the end of the text is returned silently", silentTruncation: true},
	{name: "atom ending exactly at the end of the text is dropped", dropsLastAtom: true},
}

type refResult struct {
	forms       []*cv
	ends        []int
	err         string // "" or "incomplete" / "syntax"
	unspecified bool   // some token has no decided denotation
}

func (a *refResult) same(b *refResult) bool {
	if a.err != b.err || len(a.forms) != len(b.forms) {
		return false
	}
	for i := range a.forms {
		if a.forms[i].String() != b.forms[i].String() || a.ends[i] != b.ends[i] {
			return false
		}
	}
	return true
}

type refReader struct {
	src  string
	cuts []int
	c    cfg
	m    refMutant
	i    int
	res  *refResult
}

type refErr string

func refRead(src string, cuts []int, c cfg, m refMutant) (res refResult) {
	r := &refReader{src: src, cuts: cuts, c: c, m: m, res: &res}
	defer func() {
		if rec := recover(); rec != nil {
			if e, ok := rec.(refErr); ok {
				res.err = string(e)
				return
			}
			panic(rec)
		}
	}()
	for {
		r.skip()
		if len(r.src) <= r.i {
			return
		}
		f := r.form()
		if f != nil {
			res.forms = append(res.forms, f.v)
			res.ends = append(res.ends, f.end)
		}
	}
}

func (r *refReader) skip() {
	for r.i < len(r.src) {
		switch ch := r.src[r.i]; {
		case ch == ' ' || ch == '\t' || ch == '\n' || ch == '\r' || ch == '\f':
			r.i++
		case ch == ';':
			for r.i < len(r.src) && r.src[r.i] != '\n' {
				r.i++
			}
		case ch == '#' && r.i+1 < len(r.src) && r.src[r.i+1] == '|':
			end := strings.Index(r.src[r.i+2:], "|#")
			if end < 0 {
				r.i = len(r.src) // an unterminated block comment swallows the rest; not an error at top level
				return
			}
			r.i += 2 + end + 2
		default:
			return
		}
	}
}

type refForm struct {
	v   *cv
	end int
}

// cutInside: the last piece boundary k with a < k < b, or -1.
func (r *refReader) cutInside(a, b int) int {
	k := -1
	for _, c := range r.cuts {
		if a < c && c < b {
			k = c
		}
	}
	return k
}

func isDelim(ch byte) bool {
	switch ch {
	case ' ', '\t', '\n', '\r', '\f', '(', ')', '"', ';', '\'', '`', ',':
		return true
	}
	return false
}

func (r *refReader) form() *refForm {
	if len(r.src) <= r.i {
		panic(refErr("incomplete"))
	}
	start := r.i
	switch ch := r.src[r.i]; ch {
	case '(':
		r.i++
		return r.listBody(start, "list", "")
	case ')':
		panic(refErr("syntax"))
	case '\'', '`', ',':
		r.i++
		fn := map[byte]string{'\'': "quote", '`': "backquote", ',': "comma"}[ch]
		if ch == ',' && r.i < len(r.src) && r.src[r.i] == '@' {
			r.i++
			fn = "commaat"
		}
		return r.quoted(fn)
	case '"':
		return r.delimited('"', "str")
	case '|':
		return r.delimited('|', "sym")
	case '#':
		return r.sharp(start)
	}
	// plain token
	for r.i < len(r.src) && !isDelim(r.src[r.i]) {
		r.i++
	}
	return r.atomForm(start, r.i)
}

func (r *refReader) atomForm(a, b int) *refForm {
	text := r.src[a:b]
	if r.m.dropCarry {
		if k := r.cutInside(a, b); 0 <= k {
			text = r.src[k:b]
		}
	}
	if r.m.leakCarry {
		// a boundary in the white space directly before this token, directly after a completed token
		for _, k := range r.cuts {
			if k <= a && 0 < k && k <= len(r.src) && strings.TrimLeft(r.src[k:a], " \n\t\r") == "" && !isDelim(r.src[k-1]) {
				j := k
				for 0 < j && !isDelim(r.src[j-1]) {
					j--
				}
				text = r.src[j:k] + text
			}
		}
	}
	end := b
	if r.m.posAfterDelimiter && b < len(r.src) {
		end = b + 1
	}
	if r.m.dropsLastAtom && b == len(r.src) {
		return nil
	}
	c := r.c
	if r.m.ratioIgnoresBase && strings.Contains(text, "/") {
		c.base = 10
	}
	d := atomDen(text, c)
	if text == "." {
		d = leaf("sym", ".")
	}
	if d == nil {
		r.res.unspecified = true
		d = leaf("unspecified", text)
	}
	return &refForm{v: d, end: end}
}

func (r *refReader) quoted(fn string) *refForm {
	r.skip()
	if len(r.src) <= r.i {
		panic(refErr("incomplete"))
	}
	f := r.form()
	if f == nil {
		panic(refErr("incomplete"))
	}
	return &refForm{v: &cv{k: "fn", s: fn, kids: []*cv{f.v}}, end: f.end}
}

func (r *refReader) listBody(start int, kind, arrDims string) *refForm {
	var kids []*cv
	for {
		r.skip()
		if len(r.src) <= r.i {
			if r.m.silentTruncation {
				return &refForm{v: r.mkSeq(kind, kids), end: r.i}
			}
			panic(refErr("incomplete"))
		}
		if r.src[r.i] == ')' {
			r.i++
			end := r.i
			if r.m.posBeforeClose {
				end--
			}
			return &refForm{v: r.mkSeq(kind, kids), end: end}
		}
		f := r.form()
		if f != nil {
			kids = append(kids, f.v)
		}
	}
}

func (r *refReader) mkSeq(kind string, kids []*cv) *cv {
	switch kind {
	case "cpx":
		for _, k := range kids {
			if k.k == "unspecified" {
				return k
			}
		}
		v := cvComplex(kids)
		if v == nil {
			panic(refErr("syntax"))
		}
		return v
	case "vec":
		return &cv{k: "vec", kids: kids}
	case "arr2":
		cols := 0
		for _, k := range kids {
			cols = len(k.kids)
		}
		return &cv{k: "arr", s: "[" + strconv.Itoa(len(kids)) + " " + strconv.Itoa(cols) + "]", kids: kids}
	}
	// dotted pair
	if n := len(kids); 3 <= n && kids[n-2].k == "sym" && kids[n-2].s == "." {
		out := append([]*cv{}, kids[:n-2]...)
		out = append(out, &cv{k: "tail", kids: []*cv{kids[n-1]}})
		return &cv{k: "list", kids: out}
	}
	return cvList(kids...)
}

func (r *refReader) delimited(close byte, kind string) *refForm {
	a := r.i
	r.i++
	var b []byte
	contentStart := -1
	for {
		if len(r.src) <= r.i {
			panic(refErr("incomplete"))
		}
		ch := r.src[r.i]
		if ch == close {
			break
		}
		if contentStart < 0 {
			contentStart = len(b)
		}
		// a piece boundary right here?
		if r.m.stringLosesPrefix {
			for _, k := range r.cuts {
				if k == r.i && a+1 < k {
					b = b[:0]
				}
			}
		}
		if ch != '\\' {
			b = append(b, ch)
			r.i++
			continue
		}
		if len(r.src) <= r.i+1 {
			panic(refErr("incomplete"))
		}
		literal := false
		if r.m.escapeAtCutLiteral {
			for _, k := range r.cuts {
				if k == r.i+1 {
					literal = true
				}
			}
		}
		e := r.src[r.i+1]
		r.i += 2
		if literal {
			b = append(b, e)
			continue
		}
		switch e {
		case 'n':
			b = append(b, '\n')
		case 't':
			b = append(b, '\t')
		case 'r':
			b = append(b, '\r')
		case 'b':
			b = append(b, '\b')
		case 'f':
			b = append(b, '\f')
		case '"', '\\':
			b = append(b, e)
		case 'u':
			if len(r.src) < r.i+4 {
				panic(refErr("incomplete"))
			}
			n, err := strconv.ParseUint(r.src[r.i:r.i+4], 16, 32)
			if err != nil {
				panic(refErr("syntax"))
			}
			b = utf8.AppendRune(b, rune(n))
			r.i += 4
		default:
			panic(refErr("syntax"))
		}
	}
	r.i++ // closing delimiter
	return &refForm{v: leaf(kind, string(b)), end: r.i}
}

func (r *refReader) sharp(start int) *refForm {
	r.i++ // '#'
	if len(r.src) <= r.i {
		panic(refErr("incomplete"))
	}
	num := -1
	for r.i < len(r.src) && '0' <= r.src[r.i] && r.src[r.i] <= '9' {
		if num < 0 {
			num = 0
		}
		num = num*10 + int(r.src[r.i]-'0')
		r.i++
	}
	if len(r.src) <= r.i {
		panic(refErr("incomplete"))
	}
	ch := r.src[r.i]
	r.i++
	switch ch {
	case '(':
		return r.listBody(start, "vec", "")
	case '\'':
		return r.quoted("function")
	case '\\':
		a := r.i
		if len(r.src) <= r.i {
			panic(refErr("incomplete"))
		}
		// at least one character (which may be multi-byte), then up to a delimiter
		_, n := utf8.DecodeRuneInString(r.src[r.i:])
		r.i += n
		for r.i < len(r.src) && !isDelim(r.src[r.i]) {
			r.i++
		}
		name := r.src[a:r.i]
		var rn rune
		switch {
		case utf8.RuneCountInString(name) == 1:
			rn, _ = utf8.DecodeRuneInString(name)
		case strings.EqualFold(name, "space"):
			rn = ' '
		case strings.EqualFold(name, "newline"):
			rn = '\n'
		case strings.EqualFold(name, "tab"):
			rn = '\t'
		case name[0] == 'u' || name[0] == 'U':
			n, err := strconv.ParseUint(name[1:], 16, 32)
			if err != nil {
				panic(refErr("syntax"))
			}
			rn = rune(n)
		default:
			panic(refErr("syntax"))
		}
		end := r.i
		if r.m.posAfterDelimiter && r.i < len(r.src) {
			end++
		}
		return &refForm{v: canonRune(rn), end: end}
	case '*':
		a := r.i
		for r.i < len(r.src) && (r.src[r.i] == '0' || r.src[r.i] == '1') {
			r.i++
		}
		if r.m.dropsLastAtom && r.i == len(r.src) {
			return nil
		}
		return &refForm{v: leaf("bits", r.src[a:r.i]), end: r.i}
	case 'b', 'B', 'o', 'O', 'x', 'X', 'r', 'R':
		base := map[byte]int{'b': 2, 'o': 8, 'x': 16}[ch|0x20]
		if ch|0x20 == 'r' {
			base = num
		}
		a := r.i
		for r.i < len(r.src) && !isDelim(r.src[r.i]) {
			r.i++
		}
		text := r.src[a:r.i]
		if r.m.dropCarry {
			if k := r.cutInside(a, r.i); 0 <= k {
				text = r.src[k:r.i]
			}
		}
		neg, body := splitSign(text)
		if base < 2 || 36 < base || !allDigits(body, base) {
			panic(refErr("syntax"))
		}
		n, _ := new(big.Int).SetString(strings.ToLower(body), base)
		if neg {
			n.Neg(n)
		}
		return &refForm{v: cvInt(n), end: r.i}
	case 'c', 'C':
		if 0 <= num || len(r.src) <= r.i || r.src[r.i] != '(' {
			panic(refErr("syntax"))
		}
		r.i++
		return r.listBody(start, "cpx", "")
	case 'a', 'A':
		if num != 2 || len(r.src) <= r.i || r.src[r.i] != '(' {
			panic(refErr("syntax"))
		}
		r.i++
		return r.listBody(start, "arr2", "")
	}
	panic(refErr("syntax"))
}
