// Package c15: format directives (skeleton).
package c15

import (
	"strings"

	"verif/engine"
	"verif/lisp"
)

func init() {
	engine.Register(&engine.Prop{
		ID:        "C15",
		Level:     "exploration",
		Rule:      "skeleton",
		Enumerate: func(tier string, emit func(string)) { emit("raw:(+ 1 2)") },
		Exec:      exec,
		Bound:     func(tier string) string { return "skeleton" },
	})
}

func exec(spec string) (res engine.Result) {
	if strings.HasPrefix(spec, "raw:") {
		v, err := lisp.Eval(spec[4:])
		if err != nil {
			res.Outcome = "err:" + err.String()
		} else {
			res.Outcome = lisp.Show(v)
		}
		return
	}
	return
}
