//go:build verif

package c01

import (
	"fmt"
)

// Oracle-sensitivity self-test (rule S6): each mutant is the reference
// evaluator with one realistic evaluator bug switched on. The enumerated case
// set must contain a program on which the mutant and the reference disagree
// in value or trace - otherwise the case set could not see that bug class.
var refMutants = []string{
	"let-sequential",     // let evaluates each init form with the earlier variables already bound
	"letstar-parallel",   // let* evaluates all init forms in the outer environment
	"args-right-to-left", // arguments of a call evaluated last to first
	"first-arg-twice",    // the first argument of a call evaluated twice
	"if-evaluates-both",  // if also evaluates the branch it does not select
	"or-continues",       // or keeps evaluating after a true value
	"cond-falls-through", // cond goes on to later clauses after one was selected
	"dynamic-closure",    // a called closure sees the caller's bindings instead of the ones it was created in
	"setq-makes-local",   // setq of an outer variable creates a new inner binding
	"dotimes-one-more",   // dotimes runs the body once too often
	// round 8
	"psetq-sequential",                          // psetq assigns each variable before the next value form is evaluated
	"mv-call-primary-values-only",               // multiple-value-call passes only the primary value of each form
	"special-binding-not-undone-by-return-from", // a dynamic binding left by return-from stays in force (scenario family)
	"do-step-values-kept-per-form",              // the step values of a do round are kept with the form, not with the activation (re-entrant family)
}

func selftest(tier string) (killed, total int, notes []string) {
	var terms []*term
	g := newGenerator(genOpts{})
	for _, d := range []int{1, 2} {
		g.roots(d, func(s string) {
			if t, err := parseTerm(s); err == nil {
				terms = append(terms, t)
			}
		})
	}
	_ = tier // the programs of every tier include all programs with D <= 2, which is enough to distinguish all mutants
	differs := func(m string, forms []*node) bool {
		good := newRef("", refBudgetSteps)
		gv, gerr := good.run(forms)
		if gerr != "" {
			return false
		}
		bad := newRef(m, refBudgetSteps)
		bv, berr := bad.run(forms)
		return berr != "" || showVal(gv) != showVal(bv) || !sameTrace(good.trace, bad.trace)
	}
	for _, m := range refMutants {
		total++
		found := ""
		for _, t := range terms {
			if differs(m, instantiate(t, "c01selftest").forms) {
				found = t.String()
				break
			}
		}
		if found == "" {
			// the scenario family, then the re-entrant family
			for i := range scenarios {
				for _, b := range scenarioVariants(&scenarios[i]) {
					if forms, _, _ := buildScenario(&scenarios[i], b, "c01selftest"); found == "" && differs(m, forms) {
						found = "s|" + scenarios[i].name + "|" + b
					}
				}
			}
		}
		if found == "" {
			enumerateReentrant(tier, func(spec string) {
				if found != "" {
					return
				}
				if c, err := parseRcase(spec); err == nil {
					if prog, _ := c.build("c01selftest"); differs(m, []*node{prog}) {
						found = spec
					}
				}
			})
		}
		if found != "" {
			killed++
			notes = append(notes, fmt.Sprintf("%s: distinguished by %s", m, found))
		} else {
			notes = append(notes, fmt.Sprintf("%s: NOT distinguished by any of %d programs", m, len(terms)))
		}
	}
	return
}
