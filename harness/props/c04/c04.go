// Package c04: arguments are bound per the lambda list (Part A: every lambda-list shape x every
// argument vector against a reference binder written from CLHS 3.4.1) and every built-in accepts
// exactly the argument counts its own documented lambda list allows (Part B).
package c04

import (
	"strings"

	"verif/engine"
	"verif/lisp"
)

func init() {
	engine.Register(&engine.Prop{
		ID:    "C04",
		Level: "exploration",
		Rule: "Part A: every lambda-list shape (required x &optional with/without default x &rest x &key with/without default x &aux) " +
			"x every argument vector of the bound, through defun+call, funcall of a lambda, apply of a lambda and apply of the named function; " +
			"the body is (tr 'in) (list <all parameters>); the observed list (or error, and whether the body had started) must be in the set " +
			"the reference binder (CLHS 3.4.1) allows. Part B: every function of every package x every argument count 0..max+2, arguments " +
			"chosen by documented type; error class vs the documented range. A case is non-trivial when the lambda list has a non-required " +
			"parameter or the argument count differs from the number of required parameters (A), or when the count lies outside the " +
			"documented range or the function documents &optional/&rest/&key (B)",
		Assumptions: []string{
			"the statement is silent on: unknown keys (error or ignored, slip documents :allow-other-keys t), duplicate keys (leftmost or rightmost), whether &rest also holds the keyword arguments (CL) or stops before the first declared keyword (slip) - each is accepted",
			"Part B: a non-arity error outside the documented range is inconclusive (the type check may precede the count check) and only counted",
			"Part B: functions with &key are not called with more than the documented pairs (unknown/duplicate keys are allowed by the assumption above)",
		},
		Enumerate:     enumerate,
		Exec:          exec,
		Required:      required,
		Bound:         bound,
		Selftest:      selftest,
		CaseDeadlineS: 10,
	})
}

func enumerate(tier string, emit func(string)) {
	allFuncs() // snapshot the function tables before any case defines anything
	enumerateA(tier, emit)
	enumerateB(tier, emit)
}

func exec(spec string) (res engine.Result) {
	switch {
	case strings.HasPrefix(spec, "A|"):
		return execA(spec)
	case strings.HasPrefix(spec, "D|"):
		return execD(spec)
	case strings.HasPrefix(spec, "B|"):
		return execB(spec)
	case strings.HasPrefix(spec, "lisp:"): // dev aid
		val, err := lisp.Eval(spec[5:])
		if err != nil {
			res.Outcome = "ERR " + err.String()
		} else {
			res.Outcome = lisp.Show(val)
		}
	case spec == "dump:funcs": // dev aid
		res.Outcome = dumpFuncs()
	default:
		res.Fail("harness:bad-spec", spec)
	}
	return
}

var required = []string{
	"A:valid-call", "A:too-few", "A:too-many", "A:odd-key-tail", "A:optional-default-used", "A:key-default-used",
	"A:rest-nonempty", "A:keys-out-of-order", "A:duplicate-key", "A:unknown-key", "A:aux", "A:default-form",
	"A:keyword-as-positional-value",
}

func bound(tier string) string {
	return "TODO"
}

func selftest(tier string) (killed, total int, notes []string) {
	return 0, 0, nil
}
