package c12

// enum6.go: the families of the sixth round. All of them run through the same machinery as the older ones: every order of the
// defclass forms (forward references included), optional redefinition at every later point, warm/cold.
//
//	DI  :default-initargs (third field of a class' option string: the initargs that get a default form)
//	AL  :allocation :class (slot option letter c)
//	MI  several initargs for one slot (ab), one initarg for slots at different levels of a diamond (k)
//	X   extended probes (flag x) on the older alphabets: slot-boundp / slot-makunbound / (setf slot-value) / with-slots, reader on an unbound slot,
//	    :after methods of initialize-instance and shared-initialize at every level, :around/:after methods of g, subtypep, change-class to every other class
//	MR  a MIDDLE class of a 4-chain, one leg of a diamond, the two-superclass middle of a join redefined; instances of every class made before
//	    the redefinition are probed afterwards (flags wx)

var (
	chain3   = [][]int{nil, {0}, {1}}
	vee3     = [][]int{nil, {0}, {0}}
	join3    = [][]int{nil, nil, {0, 1}}
	join3r   = [][]int{nil, nil, {1, 0}}
	redund3  = [][]int{nil, {0}, {1, 0}}
	chain4   = [][]int{nil, {0}, {1}, {2}}
	diamond4 = [][]int{nil, {0}, {0}, {1, 2}}
	diamondR = [][]int{nil, {0}, {0}, {2, 1}}
	joinTail = [][]int{nil, nil, {0, 1}, {2}}

	shapes3 = [][][]int{chain3, vee3, join3, join3r, redund3}

	alphaD1 = func() []string { // one class: every combination
		var out []string
		for _, d := range []string{"", "a", "b", "k"} {
			for _, u := range []string{"-", "k", "kf"} {
				for _, s := range []string{"a", "af", "k", "ab", "abf"} {
					o := s + "." + u
					if d != "" {
						o += "." + d
					}
					out = append(out, o)
				}
			}
		}
		return out
	}()
	alphaD2  = []string{"-.-", "a.-", "af.-", "-.-.a", "a.-.a", "af.-.a", "k.k.k", "ab.-.b", "-.kf.k"}
	alphaD3  = []string{"-.-", "af.-", "a.-.a", "-.-.a"}
	alphaD4  = []string{"-.-", "f.-", "-.-.a"}
	alphaDR  = []string{"af.-", "-.-.a", "a.-.a"}
	alphaA1  = []string{"c.-", "cf.-", "ac.-", "acf.-", "c.f", "cf.c", "acf.kf"}
	alphaA2  = []string{"-.-", "o.-", "f.-", "c.-", "cf.-", "acf.-"}
	alphaA3  = []string{"-.-", "f.-", "c.-", "cf.-"}
	alphaM2  = []string{"-.-", "ab.-", "abf.-", "a.-", "bf.-", "b.k"}
	alphaM4  = []string{"-.-", "k.-", "-.kf"}
	alphaX3  = []string{"-.-", "f.-", "af.-", "k.k"}
	alphaAll = []string{"f.-"}
)

func enumerateSixth(thorough bool, emit func(string)) {
	// ---- DI
	emitShapes(emit, dags(1, 0), alphaD1, true)
	emitShapes(emit, dags(2, 1), alphaD2, true)
	if thorough {
		emitShapes(emit, dags(3, 2), alphaD3, true)
		emitShapes(emit, dags(3, 2), []string{"-.-", "k.-", "-.kf", "-.-.k", "af.-.a"}, false)
		emitShapes(emit, shapesDiamond4, alphaD4, false)
	} else {
		emitShapes(emit, dags(3, 2), alphaD3, false)
		emitShapes(emit, shapes3, alphaD3, true)
		emitShapes(emit, [][][]int{diamond4, diamondR}, alphaD4, false)
	}
	emitRShapes(emit, dags(2, 1), nil, alphaDR, rOpts{cold: true, warm: true, ext: true, same: true})
	if thorough {
		emitRShapes(emit, dags(3, 2), nil, alphaDR, rOpts{cold: true, warm: true, ext: true})
	} else {
		emitRShapes(emit, [][][]int{chain3}, nil, []string{"af.-", "-.-.a"}, rOpts{cold: true, warm: true, ext: true})
	}
	// ---- AL
	emitShapes(emit, dags(1, 0), alphaA1, true)
	emitShapes(emit, dags(2, 1), alphaA2, true)
	if thorough {
		emitShapes(emit, dags(3, 2), alphaA3, true)
		emitRShapes(emit, dags(2, 1), nil, []string{"f.-", "c.-", "cf.-"}, rOpts{cold: true, coldExt: true, warm: true, ext: true})
	} else {
		emitShapes(emit, [][][]int{chain3, vee3, join3}, alphaA3, true)
		emitRShapes(emit, dags(2, 1), nil, []string{"f.-", "cf.-"}, rOpts{warm: true, ext: true})
	}
	// ---- MI
	emitShapes(emit, dags(1, 0), []string{"ab.-", "abf.-", "ab.k", "abk.k", "ab.kf"}, true)
	emitShapes(emit, dags(2, 1), alphaM2, true)
	if thorough {
		emitShapes(emit, shapesDiamond4, alphaM4, false)
		emitShapes(emit, dags(3, 2), alphaM2, false)
	} else {
		emitShapes(emit, [][][]int{diamond4}, alphaM4, false)
		emitShapes(emit, [][][]int{chain3, join3}, []string{"-.-", "ab.-", "abf.-", "b.k"}, false)
	}
	// ---- X
	emitShapes(emit, dags(1, 0), alphaFull, true)
	emitShapes(emit, dags(2, 1), alphaCurated, true)
	if thorough {
		emitShapes(emit, dags(3, 2), alphaX3, true)
		emitShapes(emit, shapesDiamond4, alphaTwo, true)
	} else {
		emitShapes(emit, dags(3, 2), alphaTiny, true)
		emitShapes(emit, [][][]int{diamond4, shapesDiamond4[3]}, alphaTwo, true)
	}
	if thorough {
		emitShapes(emit, dags(3, 2), alphaQuick3, true)
		emitShapes(emit, dags(4, 3), alphaAll, true)
	}
	// ---- RX: the instances made before the redefinition are kept and probed afterwards (flags wx), with the other extended probes
	emitRShapes(emit, dags(2, 1), nil, alphaTiny, rOpts{warm: true, ext: true, same: true})
	emitRShapes(emit, dags(3, 2), nil, alphaAll, rOpts{warm: true, ext: true, same: true})
	// ---- MR
	mr := []struct {
		g [][]int
		r []int
	}{{chain4, []int{1, 2}}, {diamond4, []int{1}}, {diamondR, []int{1}}, {joinTail, []int{2}}}
	for _, m := range mr {
		emitRShapes(emit, [][][]int{m.g}, m.r, alphaAll, rOpts{cold: true, warm: true, ext: true, same: true})
		if thorough {
			emitRShapes(emit, [][][]int{m.g}, m.r, alphaTwo, rOpts{warm: true, ext: true})
		}
	}
	if thorough {
		emitRShapes(emit, dags(3, 2), nil, alphaTiny, rOpts{warm: true, ext: true, same: true})
	}
}

func sixthBound(thorough bool) string {
	if thorough {
		return "SIXTH ROUND (every order of the forms, every initarg subset): DI default-initargs: 1 class x 44 valid option triples, both 2-class DAGs x 9-option alphabet, all 10 3-class DAGs x 4-option " +
			"alphabet (extended probes) and x 5-option shared-initarg alphabet, 4 four-class diamond/redundant shapes x 3-option alphabet; redefinition (incl. defaults added/dropped) 2-class and 3-class DAGs x 3 options warm+cold. " +
			"AL :allocation :class: 1 class x 7, 2 classes x 6-option, all 3-class DAGs x 4-option alphabet (extended probes), 2-class redefinition x 3 options. " +
			"MI several initargs for one slot / one initarg at different levels: 1-2 classes, all 3-class DAGs x 6 options, 4 diamond shapes x 3 options. " +
			"X extended probes: 1 class x 32, 2 classes x 13, 3-class DAGs x 8 and x 4 options, all 160 4-class DAGs x 1, 4 diamond shapes x 2 options. " +
			"RX/MR instances kept across a redefinition: 2-class DAGs x 3 options, 3-class DAGs x 3 options, every kind incl. the unchanged one; middle class of a 4-chain, one leg of a diamond (both orders), " +
			"two-superclass middle of a join with a tail x 2 options, all 60 orders; the older 2- and 3-class redefinition families gained the unchanged redefinition; misc: 14 hand-written situations."
	}
	return "SIXTH ROUND (every order of the forms, every initarg subset): DI default-initargs: 1 class x 44 valid option triples, both 2-class DAGs x 9-option alphabet (extended probes), all 10 3-class DAGs x 4-option alphabet " +
		"(plain; 5 three-class shapes with the extended probes), diamond in both middle orders x 3-option alphabet; redefinition (incl. defaults added/dropped/unchanged) 2-class DAGs x 3 options and the 3-chain x 2 options, warm+cold. " +
		"AL :allocation :class: 1 class x 7, 2 classes x 6-option alphabet, chain/vee/join x 4-option alphabet (extended probes), 2-class redefinition x 2 options. " +
		"MI several initargs for one slot / one initarg at different levels: 1-2 classes, chain and join x 4 options, one diamond x 3 options (81 assignments x 24 orders). " +
		"X extended probes: 1 class x 32, 2 classes x 13, all 3-class DAGs x 3 options, diamond and redundant-direct 4-class shape x 2 options. " +
		"RX/MR instances kept across a redefinition: 2-class DAGs x 3 options and 3-class DAGs x 1 option, every kind incl. the unchanged one; middle class of a 4-chain (both), one leg of a diamond (both middle orders), " +
		"the two-superclass middle of a join with a tail (superclasses reordered), all 60 orders, cold and with instances kept; the older 2- and 3-class redefinition families gained the unchanged redefinition; misc: 14 hand-written situations. " +
		"CUT: extended probes and kept instances run once per order (no repetitions), 4-class cases only on the named shapes."
}
