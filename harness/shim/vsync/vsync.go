//go:build verif

// Package vsync stands in for package sync in the interpreter packages when
// they are built for the schedule explorer (import rewritten by
// tools/instrument). Mutex has the method set of sync.Mutex, is a struct (so
// `type Mutex sync.Mutex`, `(*sync.Mutex)(m)`, `&sync.Mutex{}` and
// `.(*sync.Mutex)` keep compiling), wraps a real sync.Mutex, and announces
// Lock to the scheduler first: the thread is only released when the
// scheduler's model says the mutex is free, so the real Lock never blocks.
// Everything else is the real sync type (not modelled; the scenario alphabet
// does not reach them).
package vsync

import (
	"sync"

	"github.com/ohler55/slip/vsched"
)

type (
	Locker    = sync.Locker
	WaitGroup = sync.WaitGroup
	Once      = sync.Once
	Map       = sync.Map
	Pool      = sync.Pool
	Cond      = sync.Cond
)

// NewCond is sync.NewCond.
func NewCond(l Locker) *Cond { return sync.NewCond(l) }

// OnceFunc is sync.OnceFunc.
func OnceFunc(f func()) func() { return sync.OnceFunc(f) }

// Mutex is the scheduled mutex.
type Mutex struct {
	mu sync.Mutex
}

// Lock parks at a scheduling point until the model says the mutex is free.
func (m *Mutex) Lock() {
	vsched.BeforeLock(m)
	m.mu.Lock()
}

// Unlock releases the real mutex and tells the model.
func (m *Mutex) Unlock() {
	m.mu.Unlock()
	vsched.AfterUnlock(m)
}

// TryLock is a scheduling point followed by the real TryLock.
func (m *Mutex) TryLock() bool {
	vsched.Yield()
	ok := m.mu.TryLock()
	vsched.AfterTryLock(m, ok)
	return ok
}

// RWMutex is the scheduled reader/writer mutex: RLock is released when the
// model has no writer, Lock when it has neither writer nor readers.
type RWMutex struct {
	mu sync.RWMutex
}

// Lock parks until there is neither a writer nor a reader in the model.
func (m *RWMutex) Lock() {
	vsched.BeforeWLock(m)
	m.mu.Lock()
}

// Unlock releases the write lock.
func (m *RWMutex) Unlock() {
	m.mu.Unlock()
	vsched.AfterWUnlock(m)
}

// RLock parks until there is no writer in the model.
func (m *RWMutex) RLock() {
	vsched.BeforeRLock(m)
	m.mu.RLock()
}

// RUnlock releases a read lock.
func (m *RWMutex) RUnlock() {
	m.mu.RUnlock()
	vsched.AfterRUnlock(m)
}

// TryLock is a scheduling point followed by the real TryLock.
func (m *RWMutex) TryLock() bool {
	vsched.Yield()
	ok := m.mu.TryLock()
	vsched.AfterTryWLock(m, ok)
	return ok
}

// TryRLock is a scheduling point followed by the real TryRLock.
func (m *RWMutex) TryRLock() bool {
	vsched.Yield()
	ok := m.mu.TryRLock()
	vsched.AfterTryRLock(m, ok)
	return ok
}

// RLocker returns a Locker for the read side.
func (m *RWMutex) RLocker() Locker { return (*rlocker)(m) }

type rlocker RWMutex

func (r *rlocker) Lock()   { (*RWMutex)(r).RLock() }
func (r *rlocker) Unlock() { (*RWMutex)(r).RUnlock() }
