//go:build verif

package c17

import (
	"bytes"
	"encoding/json"
	"fmt"
	"os"
	"os/exec"
	"path/filepath"
	"regexp"
	"strconv"
	"strings"
	"time"

	"verif/engine"
	"verif/engine/sched"
)

// Fatal Go errors inside one execution. A schedule can drive the interpreter into a state the Go runtime answers
// with an UNRECOVERABLE error - "fatal error: sync: unlock of unlocked mutex" (an object whose mutex was replaced
// while a routine was between Lock and Unlock), "fatal error: concurrent map writes", "all goroutines are asleep".
// Such an error kills the whole process, not the execution. The engine would survive it (the worker's journal names
// the case in flight, the case is reported as `worker:fatal` and the worker is restarted behind it), but the report
// would name neither the scenario's oracle nor the schedule, and in the race pass the dead child used to read as a
// harness error. So every explore / replay case runs in a child process of its own:
//
//	worker (engine)  --exec-->  child  `vcheck exec <ID> --spec explore|...`  (C17_INNER=1: runs in-process)
//
// If the child dies, the death is a failure of the scenario (`oracle=fatal-go-error`, the runtime's message is part
// of the signature, the innermost interpreter frame of the dying goroutine is in the detail), and a second child
// (`C17_LOCATE`) repeats the depth-first search of the whole scenario at the same bound while writing the schedule
// prefix it is about to run into a journal file: the last entry is the schedule that kills the process. That
// schedule becomes the failing case (`replay|scenario|schedule`), which the engine re-executes five times in fresh
// processes - through this same isolation, so the re-executions report the same signature instead of dying.

const innerEnv = "C17_INNER"

func isInner() bool { return os.Getenv(innerEnv) != "" }

var (
	fatalLineRe = regexp.MustCompile(`(?m)^(fatal error: .*|panic: .*)$`)
	slipFrameRe = regexp.MustCompile(`(?m)^(github\.com/ohler55/slip[^\s(]*(?:\([^)]*\))?[^\s(]*)\(`)
)

// deathOf summarises the standard error of a dead child: the runtime's message and the innermost interpreter frame
// (not the shims) of the first goroutine listed, which is the one that died.
func deathOf(stderr string) (msg, frame string, ok bool) {
	m := fatalLineRe.FindStringIndex(stderr)
	if m == nil {
		return "", "", false
	}
	msg = strings.TrimSpace(stderr[m[0]:m[1]])
	rest := stderr[m[1]:]
	// first goroutine block only
	if i := strings.Index(rest, "\n\ngoroutine "); 0 <= i {
		if j := strings.Index(rest[i+2:], "\n\n"); 0 <= j {
			rest = rest[:i+2+j]
		}
	}
	for _, fm := range slipFrameRe.FindAllStringSubmatch(rest, -1) {
		f := fm[1]
		if strings.Contains(f, "/vsync.") || strings.Contains(f, "/vsched.") {
			continue
		}
		frame = strings.TrimPrefix(f, "github.com/ohler55/")
		break
	}
	return msg, frame, true
}

type childRun struct {
	res    engine.Result
	ok     bool // the child delivered a Result
	stderr string
	hang   bool
}

// runChild executes one spec in a child process of this binary (or of the race binary).
func runChild(bin, spec string, extraEnv []string, timeout time.Duration) (cr childRun) {
	cmd := exec.Command(bin, "exec", RaceBinary, "--spec", spec)
	cmd.Env = append(os.Environ(), extraEnv...)
	var out, errb bytes.Buffer
	cmd.Stdout, cmd.Stderr = &out, &errb
	if err := cmd.Start(); err != nil {
		cr.stderr = "start: " + err.Error()
		return
	}
	done := make(chan error, 1)
	go func() { done <- cmd.Wait() }()
	select {
	case <-done:
	case <-time.After(timeout):
		_ = cmd.Process.Kill()
		<-done
		cr.hang = true
	}
	cr.stderr = errb.String()
	if !cr.hang {
		cr.res, cr.ok = parseResult(out.Bytes())
	}
	return
}

// parseResult reads the Result a child wrote to its standard output; the code under test may have printed there too
// (a warning of the interpreter), so the last line that is a JSON object counts.
func parseResult(out []byte) (res engine.Result, ok bool) {
	if json.Unmarshal(out, &res) == nil {
		return res, true
	}
	lines := bytes.Split(bytes.TrimRight(out, "\n"), []byte("\n"))
	for i := len(lines) - 1; 0 <= i; i-- {
		l := bytes.TrimSpace(lines[i])
		if len(l) == 0 || l[0] != '{' {
			continue
		}
		var r engine.Result
		if json.Unmarshal(l, &r) == nil {
			return r, true
		}
	}
	return res, false
}

func tailStr(s string, n int) string {
	if len(s) <= n {
		return s
	}
	return "..." + s[len(s)-n:]
}

func headStr(s string, n int) string {
	if len(s) <= n {
		return s
	}
	return s[:n] + "..."
}

// fatalFailure turns the death of a child into a failure of the scenario.
func fatalFailure(sc *scenario, spec, stderr, where string) (f engine.Failure, isFatal bool) {
	msg, frame, ok := deathOf(stderr)
	if !ok {
		return f, false
	}
	kind := strings.TrimPrefix(msg, "fatal error: ")
	if i := strings.Index(kind, " [recovered]"); 0 < i {
		kind = kind[:i]
	}
	if 120 < len(kind) {
		kind = kind[:120]
	}
	f = engine.Failure{
		Sig: "scenario=" + sc.name + " oracle=fatal-go-error kind=" + kind,
		Detail: fmt.Sprintf("the process died inside one execution (%s): %s; innermost interpreter frame of the dying goroutine: %s\n%s",
			where, msg, frame, headStr(stderr, 2500)),
		Spec: spec,
	}
	return f, true
}

// execIsolated runs an explore / replay case in a child process and converts a death of the child.
func execIsolated(sc *scenario, spec string) (res engine.Result) {
	self, err := os.Executable()
	if err != nil {
		res.Fail("harness:no-executable", err.Error())
		return
	}
	cr := runChild(self, spec, []string{innerEnv + "=1"}, 390*time.Second)
	if cr.ok {
		return cr.res
	}
	if cr.hang {
		res.Fail("harness:case-timeout scenario="+sc.name, spec)
		return
	}
	f, isFatal := fatalFailure(sc, spec, cr.stderr, "plain build, "+spec)
	if !isFatal {
		res.Fail("harness:child-died scenario="+sc.name, tailStr(cr.stderr, 1500))
		return
	}
	res.Counters = map[string]int{"fatal-go-errors": 1}
	res.Nontrivial = true
	p := strings.Split(spec, "|")
	if p[0] == "explore" && !sc.negative {
		// which schedule? repeat the search in a child that journals every prefix before it runs it
		if prefix, ok := locateFatal(self, sc, p[2]); ok {
			f.Spec = "replay|" + sc.name + "|" + prefix
			f.Detail = "schedule " + prefix + " | " + f.Detail
		}
	}
	if sc.negative {
		res.Counters["negative-control-detected"] = 1
		res.Counters["negative-control-fatal-detected"] = 1
		res.Outcome = sc.name + ":fatal:" + f.Sig
		return
	}
	res.Failures = append(res.Failures, f)
	res.Outcome = sc.name + ":fatal:" + f.Sig
	return
}

const locateEnv = "C17_LOCATE"

// locateFatal: a child repeats the depth-first search (whole tree, same bound) and journals the prefix it is about
// to execute; the journal's last line is the schedule that killed it.
func locateFatal(self string, sc *scenario, bound string) (string, bool) {
	jf := filepath.Join(engine.ScratchDir, fmt.Sprintf("C17-locate-%d-%s.journal", os.Getpid(), sc.name))
	_ = os.MkdirAll(engine.ScratchDir, 0o755)
	defer os.Remove(jf)
	cr := runChild(self, "explore|"+sc.name+"|"+bound+"|0|1", []string{innerEnv + "=1", locateEnv + "=" + jf}, 390*time.Second)
	if cr.ok {
		return "", false // did not die this time
	}
	b, err := os.ReadFile(jf)
	if err != nil {
		return "", false
	}
	lines := strings.Split(strings.TrimRight(string(b), "\n"), "\n")
	last := lines[len(lines)-1]
	if !strings.HasPrefix(last, "s:") {
		return "", false
	}
	return strings.TrimPrefix(last, "s:"), true
}

// locateSearch is the child side: the DFS of sched.Explore without sharding, every prefix journalled first.
func locateSearch(sc *scenario, bound int, journal string) (res engine.Result) {
	jf, err := os.OpenFile(journal, os.O_CREATE|os.O_WRONLY|os.O_TRUNC, 0o644)
	if err != nil {
		res.Fail("harness:locate-journal", err.Error())
		return
	}
	defer jf.Close()
	n := 0
	var rec func(prefix []int)
	rec = func(prefix []int) {
		parts := make([]string, len(prefix))
		for i, c := range prefix {
			parts[i] = strconv.Itoa(c)
		}
		_, _ = jf.WriteString("s:" + strings.Join(parts, ".") + "\n")
		x := sched.RunOnce(sc.build(), prefix, false)
		n++
		if x.Diverged != "" {
			return
		}
		pre := 0
		for i := 0; i < len(x.Choices); i++ {
			if len(prefix) <= i {
				for alt := 1; alt < x.NEnabled[i]; alt++ {
					cost := pre
					if x.PrevEnabled[i] {
						cost++
					}
					if 0 <= bound && bound < cost {
						continue
					}
					rec(append(append(make([]int, 0, i+1), x.Choices[:i]...), alt))
				}
			}
			if x.Choices[i] != 0 && x.PrevEnabled[i] {
				pre++
			}
		}
	}
	rec(nil)
	res.Counters = map[string]int{"locate-executions": n}
	return
}
