//go:build verif

package c17

import (
	"bytes"
	"fmt"
	"os"
	"os/exec"
	"path/filepath"
	"regexp"
	"sort"
	"strings"
	"time"

	"verif/engine"
)

// The race pass: the same scenarios, the same exhaustive schedule exploration, but in a binary built
// with -race whose scheduler hands the turn over through plain words in //go:norace functions
// (GOMAXPROCS(1), runtime.Gosched spinning). The hand-off is invisible to the detector, so its vector
// clocks hold exactly the program's own synchronisation and it reports every pair of conflicting
// accesses of two routines that the program's mutexes/channels do not order — on every explored
// schedule, although the threads are in fact strictly serialised.

var frameRe = regexp.MustCompile(`^\s+(\S+)\(\)$`)

type raceReport struct {
	a, b string // innermost non-runtime frames
	text string
}

func innermost(stack string) (fn string, scheduled bool) {
	for _, l := range strings.Split(stack, "\n") {
		m := frameRe.FindStringSubmatch(l)
		if m == nil {
			continue
		}
		f := m[1]
		if strings.Contains(f, "vsched.(*Sched).threadMain") {
			scheduled = true
		}
		// the innermost frame that is interpreter or harness code: frames of the Go runtime and of the standard library
		// (strconv.AppendFloat, bytes.(*Buffer).Write, math/big ... called by the interpreter with its own shared data)
		// are skipped, the access is attributed to their caller
		if fn == "" && (strings.HasPrefix(f, "github.com/") || strings.HasPrefix(f, "verif/") || strings.HasPrefix(f, "main.")) {
			fn = f
		}
	}
	return
}

// parseRaceLog keeps the reports in which BOTH accesses were made by scheduled threads and the
// innermost non-runtime frame of both is interpreter code (not the shims, not the harness).
func parseRaceLog(txt string) (kept []raceReport, filtered int) {
	for _, rep := range strings.Split(txt, "WARNING: DATA RACE\n")[1:] {
		parts := strings.Split(rep, "\n\n")
		if len(parts) < 2 {
			filtered++
			continue
		}
		a, sa := innermost(parts[0])
		b, sb := innermost(parts[1])
		slipFrame := func(f string) bool {
			return strings.HasPrefix(f, "github.com/ohler55/slip") && !strings.Contains(f, "/vsched.") && !strings.Contains(f, "/vsync.")
		}
		if !sa || !sb || !slipFrame(a) || !slipFrame(b) {
			filtered++
			continue
		}
		a = strings.TrimPrefix(a, "github.com/ohler55/")
		b = strings.TrimPrefix(b, "github.com/ohler55/")
		if b < a {
			a, b = b, a
		}
		if len(rep) > 6000 {
			rep = rep[:6000]
		}
		kept = append(kept, raceReport{a: a, b: b, text: rep})
	}
	return
}

func execRace(spec string) (res engine.Result) {
	p := strings.Split(spec, "|")
	sc := findScenario(p[1])
	if sc == nil {
		res.Fail("harness:bad-spec", spec)
		return
	}
	bin := filepath.Join(engine.BuildDir, "vcheck-"+RaceBinary+"-race")
	if _, err := os.Stat(bin); err != nil {
		res.Fail("harness:race-binary-missing", bin+" (built by bin/build with VERIF_RACE=1)")
		return
	}
	dir := filepath.Join(engine.ScratchDir, fmt.Sprintf("C17-race-%d-%s", os.Getpid(), sc.name))
	_ = os.MkdirAll(dir, 0o755)
	defer os.RemoveAll(dir)
	inner := "explore|" + strings.Join(p[1:], "|")
	cmd := exec.Command(bin, "exec", RaceBinary, "--spec", inner)
	cmd.Env = append(os.Environ(), "GOMAXPROCS=1", "GORACE=halt_on_error=0 log_path="+filepath.Join(dir, "race"))
	var out, errb bytes.Buffer
	cmd.Stdout, cmd.Stderr = &out, &errb
	if err := cmd.Start(); err != nil {
		res.Fail("harness:race-binary-start", err.Error())
		return
	}
	done := make(chan error, 1)
	go func() { done <- cmd.Wait() }()
	select {
	case <-done:
	case <-time.After(15 * time.Minute):
		_ = cmd.Process.Kill()
		<-done
		res.Fail("harness:race-pass-timeout scenario="+sc.name, inner)
		return
	}
	in, ok := parseResult(out.Bytes())
	if !ok {
		// the race child died: a fatal Go error inside one execution is a failure of the scenario, not of the harness
		if f, isFatal := fatalFailure(sc, spec, errb.String(), "race build, "+inner); isFatal {
			res.Counters = map[string]int{"fatal-go-errors": 1, "race-executions": 1}
			res.Nontrivial = true
			if sc.negative {
				res.Counters["race-negative-control-detected"] = 1
				return
			}
			res.Failures = append(res.Failures, f)
			res.Outcome = "race:" + sc.name + ":fatal:" + f.Sig
			return
		}
		res.Fail("harness:race-binary-output scenario="+sc.name, "no result; stderr: "+tailStr(errb.String(), 1500))
		return
	}
	res.Counters = map[string]int{}
	for k, v := range in.Counters {
		res.Counters["race-"+k] = v
	}
	// oracle failures of the inner run (same signatures as the plain pass)
	res.Failures = append(res.Failures, in.Failures...)
	res.Outcome = "race:" + in.Outcome
	res.Nontrivial = in.Nontrivial
	logs, _ := filepath.Glob(filepath.Join(dir, "race.*"))
	seen := map[string]bool{}
	for _, lf := range logs {
		b, _ := os.ReadFile(lf)
		kept, filtered := parseRaceLog(string(b))
		res.Counters["race-reports-filtered-as-harness"] += filtered
		for _, r := range kept {
			res.Counters["race-reports-in-interpreter"]++
			key := r.a + "|" + r.b
			if seen[key] {
				continue
			}
			seen[key] = true
			if sc.negative {
				res.Counters["race-negative-control-detected"]++
				continue
			}
			res.Failures = append(res.Failures, engine.Failure{
				Sig:    "race@" + key,
				Detail: fmt.Sprintf("scenario %s: the race detector reports conflicting accesses by two routines that the program's own synchronisation does not order:\n%s", sc.name, r.text),
				Spec:   spec,
			})
		}
	}
	var keys []string
	for k := range seen {
		keys = append(keys, k)
	}
	sort.Strings(keys)
	res.Outcome += " races:" + strings.Join(keys, ",")
	return
}
