//go:build verif

// Package c18: JSON data survives the trip through bags and through the Go
// data bridge. Three exhaustive sweeps against the real slip code:
//
//	doc|<form>|<json>  every small JSON document, as JSON and as SEN text:
//	                   parse -> write (every option set) -> parse gives an equal
//	                   bag; JSON output is JSON; bag -> native -> bag is equal.
//	go|<value>         every small Go value: Simplify(SimpleObject(v)) == v.
//	bfs:[ops]          every history init, op, op, ... of bag-set / bag-remove /
//	                   bag-get / bag-has / bag-walk over a path menu, checked
//	                   against the reference path evaluator verif/ref/jsonpath
//	                   (get-after-set, frame, has/walk/remove agree with get).
package c18

import (
	"fmt"
	"strings"

	"verif/engine"
	"verif/ref/jsonpath"
)

func init() {
	engine.Register(&engine.Prop{
		ID:    "C18",
		Level: "model_checking",
		Rule: "static phase: every JSON document with at most N nodes over the scalar alphabet (as JSON text and as SEN text) x every " +
			"bag-write option set, plus bag-native/make-bag, plus every Go value with at most N nodes through SimpleObject/Simplify; " +
			"BFS phase: every history <initial document, op, op, ...> over set/remove/get/has/walk x path menu x value menu, states " +
			"deduplicated on a dump of the bag's own Go tree including its sharing structure. Trees are read from the bag instance " +
			"by a Go type switch. A document case is non-trivial when it has more than one node or a scalar other than a small " +
			"integer / plain word / true; a Go value when it is not nil, true, a small int64 or a string on its own; every BFS " +
			"transition that applies an operation is non-trivial",
		Assumptions: []string{
			"encoding/json (numbers kept as text) is the independent reader of the enumerated JSON and of slip's :json t output",
			"numbers are compared by value whatever their Go type (JSON has one number type); a number and a string are different",
			"bag -> native -> bag is compared with null, [] and {} identified: Lisp has one nil (S2)",
			"Simplify(SimpleObject(map)) may be the map or the association-list image slip documents (ObjectToBag comment in pkg/bag/set.go)",
			"an operation that signals a Lisp error is accepted (the statement is about operations that succeed); Go runtime faults are not",
			"for paths with a wildcard or descent the set law is: every outermost location the path addresses afterwards holds the value",
			"histories contain no boolean false (SimpleObject(false) => nil is reported by the static phase)",
		},
		Enumerate: enumerate,
		Exec:      execCase,
		BFS: &engine.BFS{
			Ops:          bfsOps,
			MaxDepth:     bfsDepth,
			NoDedupDepth: func(tier string) int { return 2 },
		},
		Required: []string{
			"large-integer", "non-ascii-string", "escaped-string", "lookalike-string", "empty-container", "depth>=3",
			"sen-input", "json-input", "json-output", "pretty-output", "native-roundtrip",
			"go-map", "go-time", "go-uint-high", "go-nested", "go-false", "go-float",
			"op-set", "op-get", "op-has", "op-walk", "op-remove", "negative-index", "wildcard", "descent",
			"null-member-matched", "set-took-effect", "frame-locations-checked", "remove-of-existing", "path-matches-many",
			"set-refused", "termination-case", "no-path-argument", "method-form-compared",
		},
		CaseDeadlineS: 8,
		Bound:         bound,
		Selftest:      selftest,
	})
}

func bfsDepth(tier string) int {
	if tier == engine.Thorough {
		return 7 // initial document + 6 operations
	}
	return 5 // initial document + 4 operations
}

func enumerate(tier string, emit func(string)) {
	enumerateGo(tier, emit)
	enumerateTerm(tier, emit)
	enumerateDocs(tier, emit)
}

func execCase(spec string) engine.Result {
	if hist, ok := engine.ParseBFSSpec(spec); ok {
		return execHist(hist, false)
	}
	switch {
	case strings.HasPrefix(spec, "raw:"):
		if hist, ok := engine.ParseBFSSpec("bfs:" + spec[4:]); ok {
			return execHist(hist, true)
		}
	case strings.HasPrefix(spec, "term|"):
		return execTerm(spec)
	case strings.HasPrefix(spec, "doc|"):
		return execDoc(spec)
	case strings.HasPrefix(spec, "go|"):
		return execGo(spec)
	}
	var r engine.Result
	r.Fail("harness:bad-spec", spec)
	return r
}

func bound(tier string) string {
	gb := 4
	if tier == engine.Thorough {
		gb = 5
	}
	ops := bfsOps(tier)
	nInit, paths := 0, map[string]bool{}
	for _, o := range ops {
		parts := strings.Split(o, "|")
		if parts[0] == "init" {
			nInit++
		} else {
			paths[parts[1]] = true
		}
	}
	docs := fmt.Sprintf("every tree with <= 4 nodes over %d scalars (+ [] and {}), %d single-member keys", len(scalarsQuick), len(singleKeysQuick))
	if tier == engine.Thorough {
		docs = fmt.Sprintf("every tree with <= 4 nodes over %d scalars (+ [] and {}), %d single-member keys, and every tree with exactly 5 nodes over %d scalars, %d single-member keys",
			len(scalarsQuick)+len(scalarsThoroughExtra), len(singleKeysQuick)+len(singleKeysThoroughExtra), len(scalarsCore), len(singleKeysQuick))
	}
	return fmt.Sprintf("documents: %s, each as JSON and as SEN text, x %d write option sets + 2 native round trips; "+
		"Go values: %d typed scalars alone / in a slice / in a map + every tree with <= %d nodes over %d scalars; "+
		"histories: %d initial documents then every sequence of up to %d operations out of %d (get/has/walk/remove x %d paths incl. 'no path', "+
		"set x paths x %d values), function form checked against the reference and against the method form; "+
		"the descent-set-of-a-container-on-a-shared-state operations are stepped around in the BFS (they do not return) and run in child processes instead",
		docs, len(writeOpts(true)), len(goScalarsAll), gb, len(goScalarsNested),
		nInit, bfsDepth(tier)-1, len(ops)-nInit, len(paths), len(setValuesFor(tier)))
}

func setValuesFor(tier string) []setValue {
	if tier == engine.Thorough {
		return setValues
	}
	return setValues[:3]
}

// ------------------------------------------------------------ self-test (S6)

// docMutation: a model of write->parse or native->bag with one realistic bug.
type docMutation struct {
	name     string
	modEmpty bool
	f        func(v any) any
}

func mapTree(v any, f func(v any) any) any {
	switch tv := v.(type) {
	case []any:
		out := make([]any, len(tv))
		for i, e := range tv {
			out[i] = mapTree(e, f)
		}
		return f(out)
	case map[string]any:
		out := make(map[string]any, len(tv))
		for k, e := range tv {
			out[k] = mapTree(e, f)
		}
		return f(out)
	}
	return f(v)
}

var docMutations = []docMutation{
	{name: "SEN writer leaves a string that reads as a keyword or number unquoted", f: func(v any) any {
		if s, ok := v.(string); ok {
			switch stringKind(s) {
			case "string-keywordlike":
				return map[string]any{"true": true, "false": false, "null": nil}[s]
			case "string-numberlike":
				if m, err := decodeJSON(s); err == nil {
					return m
				}
			}
		}
		return v
	}},
	{name: "writer quotes an integer that does not fit int64", f: func(v any) any {
		if kindOf(v) == "bigint" {
			return numText(v)
		}
		return v
	}},
	{name: "empty object written as empty array", f: func(v any) any {
		if m, ok := v.(map[string]any); ok && len(m) == 0 {
			return []any{}
		}
		return v
	}},
	{name: "non-ASCII characters replaced on output", f: func(v any) any {
		if s, ok := v.(string); ok {
			return strings.Map(func(r rune) rune {
				if 0x7f < r {
					return '?'
				}
				return r
			}, s)
		}
		return v
	}},
	{name: "backslash escapes doubled on output", f: func(v any) any {
		if s, ok := v.(string); ok {
			return strings.ReplaceAll(s, `\`, `\\`)
		}
		return v
	}},
	{name: "native conversion turns false into nil", modEmpty: true, f: func(v any) any {
		if b, ok := v.(bool); ok && !b {
			return nil
		}
		return v
	}},
	{name: "native conversion drops integers beyond int64", modEmpty: true, f: func(v any) any {
		if kindOf(v) == "bigint" {
			return nil
		}
		return v
	}},
	{name: "fraction truncated", f: func(v any) any {
		if kindOf(v) == "float" {
			n := toNum(v)
			if n.ok && n.rat != nil && !n.rat.IsInt() {
				return int64(0)
			}
		}
		return v
	}},
	{name: "last array element dropped when the array has 3 elements", f: func(v any) any {
		if a, ok := v.([]any); ok && len(a) == 3 {
			return a[:2]
		}
		return v
	}},
}

func selftest(tier string) (killed, total int, notes []string) {
	// 1. the reference path evaluator: its observations over the initial
	//    documents and the path menu must change under every mutation
	ops := bfsOps(tier)
	var docs []any
	paths := map[string]bool{}
	for _, o := range ops {
		parts := strings.Split(o, "|")
		switch parts[0] {
		case "init":
			if parts[1] == "" {
				docs = append(docs, nil)
			} else if d, ok := parseInitDoc(parts[1]); ok {
				docs = append(docs, d)
			}
		default:
			if parts[1] != "-" {
				paths[parts[1]] = true
			}
		}
	}
	observe := func(doc any, p jsonpath.Path, m jsonpath.Mutation) string {
		locs := jsonpath.Locate(doc, p, m)
		var vs []string
		for _, l := range locs {
			v, _ := jsonpath.At(doc, l)
			vs = append(vs, dump(v, true))
		}
		return fmt.Sprintf("has=%v walk=%v rm=%s", 0 < len(locs), vs, dump(jsonpath.Remove(doc, locs), false))
	}
	pathMuts := []struct {
		m    jsonpath.Mutation
		name string
	}{
		{jsonpath.NegIndexOffByOne, "negative index off by one"},
		{jsonpath.NullNotALocation, "a null member is not a location (has false)"},
		{jsonpath.WildcardMapsOnly, "wildcard skips array elements"},
		{jsonpath.DescentSkipsSelf, "descent skips the node it starts from"},
		{jsonpath.DescentOneLevel, "descent visits one level only"},
		{jsonpath.NthOnMap, "index applies to objects"},
	}
	for _, pm := range pathMuts {
		total++
		hit := ""
		for _, d := range docs {
			for ps := range paths {
				p := jsonpath.MustParse(ps)
				if observe(d, p, jsonpath.None) != observe(d, p, pm.m) {
					hit = fmt.Sprintf("%s on %s", ps, dump(d, false))
					break
				}
			}
			if hit != "" {
				break
			}
		}
		if hit != "" {
			killed++
			notes = append(notes, "path reference / "+pm.name+": distinguished by "+hit)
		} else {
			notes = append(notes, "path reference / "+pm.name+": NOT distinguished")
		}
	}
	// 2. the Go bridge: identity vs six buggy conversions over the enumerated values
	bridgeMuts := []struct {
		m    bridgeMutation
		name string
	}{
		{bmFalseIsNil, "false becomes nil"},
		{bmUint64Wraps, "uint64 converted by a plain int64 cast"},
		{bmFloat32ViaText, "float32 widened through its decimal text"},
		{bmMapDropsSecondKey, "second map member dropped"},
		{bmTimeToSeconds, "time truncated to seconds"},
		{bmEmptySliceIsNil, "empty slice becomes nil"},
	}
	bridgeHit := make([]string, len(bridgeMuts))
	refClean := true
	enumerateGo(tier, func(spec string) {
		raw, err := decodeJSON(strings.TrimPrefix(spec, "go|"))
		if err != nil {
			return
		}
		val, err := buildGo(raw)
		if err != nil {
			return
		}
		var ms []mismatch
		diffGo(val, bridgeModel(val, bmNone), "$", &ms)
		if 0 < len(ms) {
			refClean = false
		}
		for i, bm := range bridgeMuts {
			if bridgeHit[i] != "" {
				continue
			}
			ms = ms[:0]
			diffGo(val, bridgeModel(val, bm.m), "$", &ms)
			if 0 < len(ms) {
				bridgeHit[i] = spec
			}
		}
	})
	for i, bm := range bridgeMuts {
		total++
		if bridgeHit[i] != "" && refClean {
			killed++
			notes = append(notes, "go bridge / "+bm.name+": distinguished by "+trunc(bridgeHit[i], 80))
		} else {
			notes = append(notes, "go bridge / "+bm.name+": NOT distinguished")
		}
	}
	// 3. document round trips
	docHit := make([]string, len(docMutations))
	remaining := len(docMutations)
	enumerateDocTexts(tier, func(text string, nodes int) {
		if remaining == 0 {
			return
		}
		model, err := decodeJSON(text)
		if err != nil {
			return
		}
		for i, dm := range docMutations {
			if docHit[i] != "" {
				continue
			}
			if !equalTrees(model, mapTree(model, dm.f), dm.modEmpty) {
				docHit[i] = text
				remaining--
			}
		}
	})
	for i, dm := range docMutations {
		total++
		if docHit[i] != "" {
			killed++
			notes = append(notes, "documents / "+dm.name+": distinguished by "+trunc(docHit[i], 80))
		} else {
			notes = append(notes, "documents / "+dm.name+": NOT distinguished")
		}
	}
	return
}
