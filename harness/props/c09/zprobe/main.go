package main

import (
	"fmt"
	"os"
	"runtime/debug"
	"strings"

	"github.com/ohler55/slip"
	_ "github.com/ohler55/slip/pkg"
	"verif/lisp"
)

func site(stack string) string {
	lines := strings.Split(stack, "\n")
	last := -1
	for i, l := range lines {
		if strings.HasPrefix(l, "panic(") {
			last = i
		}
	}
	var out []string
	for i := last + 2; i+1 < len(lines) && len(out) < 3; i += 2 {
		if strings.HasPrefix(lines[i], "runtime.") {
			continue
		}
		fn := lines[i]
		if p := strings.LastIndexByte(fn, '('); 0 < p {
			fn = fn[:p]
		}
		loc := strings.TrimSpace(lines[i+1])
		if p := strings.IndexByte(loc, ' '); 0 < p {
			loc = loc[:p]
		}
		out = append(out, strings.TrimPrefix(fn, "github.com/ohler55/slip")+" "+loc)
	}
	return strings.Join(out, " <- ")
}

func main() {
	for _, src := range os.Args[1:] {
		func() {
			defer func() {
				if rec := recover(); rec != nil {
					e := lisp.ErrFromRecovered(rec)
					fmt.Printf("%s\n   => %s: %s\n", src, e.Class, e.Message)
					if p, ok := rec.(*slip.Panic); ok && p.Value != nil || e.GoFault {
						fmt.Printf("   at %s\n", site(string(debug.Stack())))
					}
				}
			}()
			scope := slip.NewScope()
			code := slip.ReadString(src, scope)
			r := code.Eval(scope, nil)
			fmt.Printf("%s\n   => VALUE %s\n", src, lisp.Show(r))
		}()
	}
}
