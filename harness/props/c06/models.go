package c06

import (
	"fmt"
	"sort"
	"unsafe"

	"verif/engine"
)

// ---------------------------------------------------------------- cons-cell reference

// cell is a cons cell; a list is a *cell chain ending in nil.
type cell struct {
	car int64
	cdr *cell
}

// consModel is the reference: Common Lisp's cons-cell semantics, with every
// sharing the language allows actually taken (tails are shared, remove shares
// the longest possible tail, destructive functions relink cells in place).
// Running the oracle over it shows the oracle accepts the real semantics.
type consModel struct {
	v [nLoc]*cell
}

func mkList(e []int64, tail *cell) *cell {
	head := tail
	for i := len(e) - 1; 0 <= i; i-- {
		head = &cell{car: e[i], cdr: head}
	}
	return head
}

func elemsOf(c *cell) []int64 {
	var out []int64
	for n := 0; c != nil; c, n = c.cdr, n+1 {
		if 100000 < n {
			panic("c06: circular list in the cons-cell reference")
		}
		out = append(out, c.car)
	}
	return out
}

func nthCell(c *cell, k int) *cell {
	for ; 0 < k && c != nil; k-- {
		c = c.cdr
	}
	return c
}

func lastCell(c *cell) *cell {
	for c != nil && c.cdr != nil {
		c = c.cdr
	}
	return c
}

func cellLen(c *cell) (n int) {
	for ; c != nil; c = c.cdr {
		n++
	}
	return
}

func (m *consModel) reset([]*opDef) { m.v = [nLoc]*cell{mkList([]int64{1, 2, 3, 4}, nil)} }

func (m *consModel) observe() (st state) {
	for i, c := range m.v {
		st[i] = obsVar{elems: elemsOf(c), present: c != nil}
	}
	return
}

// removeShare: fresh cells up to the last removed element, the rest shared.
func removeShare(s *cell, drop func(int64) bool) *cell {
	lastDrop := -1
	for i, c := 0, s; c != nil; i, c = i+1, c.cdr {
		if drop(c.car) {
			lastDrop = i
		}
	}
	if lastDrop < 0 {
		return s
	}
	var kept []int64
	c := s
	for i := 0; i <= lastDrop; i, c = i+1, c.cdr {
		if !drop(c.car) {
			kept = append(kept, c.car)
		}
	}
	return mkList(kept, c)
}

// deleteRelink removes cells by relinking cdrs in place.
func deleteRelink(s *cell, drop func(int64) bool) *cell {
	for s != nil && drop(s.car) {
		s = s.cdr
	}
	for c := s; c != nil && c.cdr != nil; {
		if drop(c.cdr.car) {
			c.cdr = c.cdr.cdr
		} else {
			c = c.cdr
		}
	}
	return s
}

func (m *consModel) exec(o *opDef, n int64) *execErr {
	var s, t *cell
	if 0 <= o.s {
		s = m.v[o.s]
	}
	if 0 <= o.t {
		t = m.v[o.t]
	}
	var r *cell
	even := func(x int64) bool { return x%2 == 0 }
	switch o.name {
	case "cdr", "rest", "pop":
		r = s.cdr
	case "nthcdr0":
		r = s
	case "nthcdr2":
		r = nthCell(s, 2)
	case "last":
		r = lastCell(s)
	case "last2":
		r = nthCell(s, max(0, cellLen(s)-2))
	case "butlast", "butlast2", "subseq-0-2", "subseq-1", "subseq-1-3", "subseq-0-0", "copy-list", "reverse", "mapcar",
		"maprow-list*", "maprow-list", "maprow-cons", "maprow-append",
		"via-vector", "via-vector-set", "via-values", "copy-seq", "concatenate", "map-list", "copy-tree", "revappend":
		r = mkList(o.want(elemsOf(s), nil, n), nil)
	case "append1":
		r = s
	case "remove-2nd":
		x := s.cdr.car
		r = removeShare(s, func(y int64) bool { return y == x })
	case "remove-absent":
		r = removeShare(s, func(y int64) bool { return y == 0 })
	case "remove-if":
		r = removeShare(s, even)
	case "member-2nd":
		x := s.cdr.car
		for r = s; r.car != x; r = r.cdr {
		}
	case "cons", "push":
		r = &cell{car: n, cdr: s}
	case "list*":
		r = &cell{car: n, cdr: &cell{car: n + 1, cdr: s}}
	case "append":
		r = mkList(elemsOf(s), t)
	case "add", "add-bare":
		if s == nil {
			r = &cell{car: n}
		} else {
			lastCell(s).cdr = &cell{car: n}
			r = s
		}
	case "setf-car", "setf-elt0", "rplaca":
		s.car = n
	case "setf-nth1", "setf-elt1":
		s.cdr.car = n
	case "setf-nth2":
		s.cdr.cdr.car = n
	case "nreverse", "nreverse-bare":
		var prev *cell
		for c := s; c != nil; {
			next := c.cdr
			c.cdr = prev
			prev, c = c, next
		}
		r = prev
	case "sort>", "sort<", "sort>-bare", "sort<-bare":
		var cells []*cell
		for c := s; c != nil; c = c.cdr {
			cells = append(cells, c)
		}
		desc := o.name[4] == '>'
		sort.SliceStable(cells, func(i, j int) bool {
			if desc {
				return cells[i].car > cells[j].car
			}
			return cells[i].car < cells[j].car
		})
		for i, c := range cells {
			c.cdr = nil
			if i+1 < len(cells) {
				c.cdr = cells[i+1]
			}
		}
		r = cells[0]
	case "delete-2nd", "delete-2nd-bare":
		x := s.cdr.car
		r = deleteRelink(s, func(y int64) bool { return y == x })
	case "delete-if", "delete-if-bare":
		r = deleteRelink(s, even)
	case "nconc", "nconc-bare":
		lastCell(s).cdr = t
		r = s
	case "rplacd", "rplacd-bare":
		s.cdr = t
		r = s
	case "rplacd-nil":
		s.cdr = nil
		r = s
	default:
		if o.group == "" {
			panic("c06: cons model does not know " + o.name)
		}
		r = consGeneric(o, s, t, n)
	}
	if 0 <= o.dst {
		m.v[o.dst] = r
	}
	return nil
}

// consGeneric executes an operation of the second generation on the cons-cell reference from its record alone: a
// non-destructive operation builds fresh cells, sharing the tail of an operand where the language allows it (tail /
// tailT); a destructive operation RECYCLES the cells of the operands it may modify (the most destructive legal
// behaviour: every alias of those operands sees the damage), so that the oracle is shown to accept it.
func consGeneric(o *opDef, s, t *cell, n int64) (r *cell) {
	sv, tv := elemsOf(s), elemsOf(t)
	if o.wantS != nil || o.wantS2 != nil {
		var w []int64
		if o.wantS != nil {
			w = o.wantS(sv, n)
		} else {
			w = o.wantS2(sv, tv, n)
		}
		if len(w) == len(sv) {
			for c, i := s, 0; c != nil; c, i = c.cdr, i+1 {
				c.car = w[i]
			}
			r = s
		} else {
			r = recycle(w, s)
		}
	}
	if o.want == nil {
		return
	}
	w := o.want(sv, tv, n)
	switch {
	case o.destr && !(o.keepS && (o.t < 0 || o.keepT)):
		var pool []*cell
		if !o.keepS {
			pool = append(pool, s)
		}
		if 0 <= o.t && !o.keepT {
			pool = append(pool, t)
		}
		r = recycle(w, pool...)
	case o.tail != nil:
		k := o.tail(sv)
		r = mkList(w[:len(w)-(len(sv)-k)], nthCell(s, k))
	case o.tailT != nil:
		k := o.tailT(tv)
		r = mkList(w[:len(w)-(len(tv)-k)], nthCell(t, k))
	default:
		r = mkList(w, nil)
	}
	return
}

// recycle builds the list w out of the cells of the given lists (in order, each cell once), fresh cells when they run out.
func recycle(w []int64, lists ...*cell) *cell {
	seen := map[*cell]bool{}
	var cells []*cell
	for _, l := range lists {
		for c := l; c != nil && !seen[c]; c = c.cdr {
			seen[c] = true
			cells = append(cells, c)
		}
	}
	for _, c := range cells {
		c.cdr = nil
	}
	var head, prev *cell
	for i, x := range w {
		var c *cell
		if i < len(cells) {
			c = cells[i]
		} else {
			c = &cell{}
		}
		c.car, c.cdr = x, nil
		if prev == nil {
			head = c
		} else {
			prev.cdr = c
		}
		prev = c
	}
	return head
}

// sliceGeneric: the same on the slice model (a destructive operation writes its result into the operand's array).
func sliceGeneric(o *opDef, s, t []int64, n int64) (r []int64) {
	if o.wantS != nil || o.wantS2 != nil {
		var w []int64
		if o.wantS != nil {
			w = o.wantS(s, n)
		} else {
			w = o.wantS2(s, append([]int64(nil), t...), n)
		}
		if len(w) == len(s) {
			copy(s, w)
			r = s
		} else {
			r = append(s[:0], w...)
		}
	}
	if o.want == nil {
		return
	}
	w := o.want(s, t, n)
	switch {
	case o.destr && !o.keepS && 0 < len(s):
		r = view(append(s[:0], w...))
	case o.tail != nil:
		if k := o.tail(s); len(w) == len(s)-k {
			r = view(s[k:])
		} else {
			r = clone(w)
		}
	case o.tailT != nil:
		if k := o.tailT(t); len(w) == len(t)-k {
			r = view(t[k:])
		} else {
			r = clone(w)
		}
	default:
		r = clone(w)
	}
	return
}

// ---------------------------------------------------------------- slice models

type mutant int

const (
	mutNone               mutant = iota // a correct slice implementation (copies where slip's design copies)
	mutButlastView                      // butlast returns list[:n] instead of a copy
	mutSubseqView                       // subseq returns list[i:j] instead of a copy
	mutAppendInPlace                    // append does append(first, second...) without copying the first argument
	mutReverseInPlace                   // reverse reverses its argument in place and returns it
	mutConsInsert                       // cons/push insert in place: s = append(s, 0); copy(s[1:], s); s[0] = x
	mutCopyAlias                        // copy-list returns its argument
	mutMapcarAlias                      // mapcar with identity returns its argument
	mutRemoveStartReslice               // remove-if with :start > 0 starts its result as the re-slice seq[:start] (seeded change C06-7)
	mutReduceKeyInPlace                 // reduce with :key writes the keys into its argument (defect C06-1 of the unchanged tree)
	mutSiteConstant                     // a list-building call with constant arguments is built once per call site (seeded change C06-8)
	mutBoxPushInPlace                   // push on a stored list inserts in place into spare capacity
	nMutants
)

var mutantNames = map[mutant]string{
	mutNone: "correct slice model", mutButlastView: "butlast returns list[:n]", mutSubseqView: "subseq returns list[i:j]",
	mutAppendInPlace: "append appends in place to its first argument", mutReverseInPlace: "reverse works in place",
	mutConsInsert: "cons/push insert in place into spare capacity", mutCopyAlias: "copy-list returns its argument",
	mutMapcarAlias:        "mapcar #'identity returns its argument",
	mutRemoveStartReslice: "remove-if :start k builds its result in seq[:k]", mutReduceKeyInPlace: "reduce :key overwrites its argument",
	mutSiteConstant: "a builder call with constant arguments returns one list per call site", mutBoxPushInPlace: "push on a container's list inserts in place",
}

// sliceModel mimics an implementation of lists on Go slices.
type sliceModel struct {
	mut   mutant
	v     [nLoc][]int64
	konst map[string][]int64 // mutSiteConstant: the list of every call site
}

func newSliceModel(m mutant) *sliceModel { return &sliceModel{mut: m} }

func (m *sliceModel) reset([]*opDef) {
	m.konst = nil
	m.v = [nLoc][]int64{{1, 2, 3, 4}}
}

func (m *sliceModel) observe() (st state) {
	for i, s := range m.v {
		o := obsVar{elems: append([]int64(nil), s...), present: s != nil}
		if s != nil {
			o.segs = []segment{{si: sliceInfo{ptr: uintptr(unsafe.Pointer(unsafe.SliceData(s))), len: len(s), cap: cap(s), esize: 8}, elems: o.elems}}
		}
		st[i] = o
	}
	return
}

func clone(s []int64) []int64 {
	if len(s) == 0 {
		return nil
	}
	out := make([]int64, len(s))
	copy(out, s)
	return out
}

func view(s []int64) []int64 {
	if len(s) == 0 {
		return nil
	}
	return s
}

func (m *sliceModel) exec(o *opDef, n int64) *execErr {
	var s, t []int64
	if 0 <= o.s {
		s = m.v[o.s]
	}
	if 0 <= o.t {
		t = m.v[o.t]
	}
	var r []int64
	even := func(x int64) bool { return x%2 == 0 }
	grow := func(keep func(int64) bool) []int64 { // like slip: built with append from nil (leaves spare capacity)
		var out []int64
		for _, x := range s {
			if keep(x) {
				out = append(out, x)
			}
		}
		return out
	}
	switch o.name {
	case "cdr", "rest", "pop":
		r = view(s[1:])
	case "nthcdr0":
		r = s
	case "nthcdr2":
		if 2 < len(s) {
			r = s[2:]
		}
	case "last":
		r = clone(s[len(s)-1:]) // slip documents that last returns a copy
	case "last2":
		r = clone(s[max(0, len(s)-2):])
	case "butlast":
		if m.mut == mutButlastView {
			r = view(s[:len(s)-1])
		} else {
			r = clone(s[:len(s)-1])
		}
	case "butlast2":
		if 2 < len(s) {
			r = clone(s[:len(s)-2])
		}
	case "subseq-0-2", "subseq-1", "subseq-1-3", "subseq-0-0":
		i, j := 0, len(s)
		switch o.name {
		case "subseq-0-2":
			j = 2
		case "subseq-1":
			i = 1
		case "subseq-1-3":
			i, j = 1, 3
		case "subseq-0-0":
			j = 0
		}
		if m.mut == mutSubseqView {
			r = s[i:j]
		} else {
			r = clone(s[i:j])
		}
	case "copy-list":
		if m.mut == mutCopyAlias {
			r = s
		} else {
			r = clone(s)
		}
	case "mapcar":
		if m.mut == mutMapcarAlias {
			r = s
		} else {
			r = clone(s)
		}
	case "maprow-list*", "maprow-list", "maprow-cons", "maprow-append":
		r = []int64{s[0], s[0]}
	case "via-vector", "via-vector-set", "via-values", "copy-seq", "concatenate", "map-list", "copy-tree", "revappend":
		r = clone(o.want(s, nil, 0))
	case "append1":
		r = clone(s)
	case "reverse":
		if m.mut == mutReverseInPlace {
			for i, j := 0, len(s)-1; i < j; i, j = i+1, j-1 {
				s[i], s[j] = s[j], s[i]
			}
			r = s
		} else {
			r = rev(s)
		}
	case "remove-2nd", "delete-2nd", "delete-2nd-bare":
		x := s[1]
		r = grow(func(y int64) bool { return y != x })
	case "remove-absent":
		r = clone(filter(s, func(y int64) bool { return y != 0 }))
	case "remove-if", "delete-if", "delete-if-bare":
		r = grow(func(y int64) bool { return !even(y) })
	case "member-2nd":
		for i, x := range s {
			if x == s[1] {
				r = s[i:]
				break
			}
		}
	case "cons", "push":
		if m.mut == mutConsInsert && 0 < len(s) {
			s = append(s, 0)
			copy(s[1:], s)
			s[0] = n
			r = s
		} else {
			r = append([]int64{n}, s...)
		}
	case "list*":
		r = append([]int64{n, n + 1}, s...)
	case "append":
		if m.mut == mutAppendInPlace {
			r = view(append(s, t...))
		} else {
			r = append(clone(s), t...)
			if len(s) == 0 {
				r = clone(t)
			}
		}
	case "add", "add-bare":
		r = append(s, n)
	case "setf-car", "setf-elt0", "rplaca":
		s[0] = n
	case "setf-nth1", "setf-elt1":
		s[1] = n
	case "setf-nth2":
		s[2] = n
	case "nreverse", "nreverse-bare":
		for i, j := 0, len(s)-1; i < j; i, j = i+1, j-1 {
			s[i], s[j] = s[j], s[i]
		}
		r = s
	case "sort>", "sort<", "sort>-bare", "sort<-bare":
		desc := o.name[4] == '>'
		sort.SliceStable(s, func(i, j int) bool {
			if desc {
				return s[i] > s[j]
			}
			return s[i] < s[j]
		})
		r = s
	case "nconc", "nconc-bare":
		r = append(s, t...)
	case "rplacd", "rplacd-bare":
		r = append(s[:1], t...)
	case "rplacd-nil":
		r = s[:1] // a variable that is not assigned keeps its length (as in slip)
	default:
		if o.group == "" {
			panic("c06: slice model does not know " + o.name)
		}
		switch {
		case m.mut == mutRemoveStartReslice && o.name == "remove-if-start":
			r = s[:2]
			for _, x := range s[2:] {
				if !even(x) {
					r = append(r, x)
				}
			}
		case m.mut == mutReduceKeyInPlace && o.name == "reduce-key":
			r = o.want(s, t, n)
			for i := range s {
				s[i]++
			}
		case m.mut == mutSiteConstant && o.group == "site" && o.s < 0:
			if m.konst == nil {
				m.konst = map[string][]int64{}
			}
			if m.konst[o.name] == nil {
				m.konst[o.name] = o.want(nil, nil, n)
			}
			r = m.konst[o.name]
		case m.mut == mutBoxPushInPlace && o.group == "box" && o.fn == "push" && 0 < len(s):
			s = append(s, 0)
			copy(s[1:], s)
			s[0] = n
			r = s
		default:
			r = sliceGeneric(o, s, t, n)
		}
	}
	if 0 <= o.dst {
		m.v[o.dst] = r
	}
	return nil
}

// ---------------------------------------------------------------- self-test (S6)

// explore runs the oracle over every history of length <= depth over ops
// (first step: not mentioning c) on the given model and returns the number of
// histories judged and the first failure.
func explore(mk func() impl, ops []*opDef, depth int, stopAtFirst bool) (judged int, firstSig, firstDetail string, nfail int) {
	var hist []*opDef
	var rec func()
	rec = func() {
		for _, o := range ops {
			if len(hist) == 0 && mentions(o, 2) {
				continue
			}
			hist = append(hist, o)
			res := runHistory(mk(), hist, false)
			if res.Outcome != "inapplicable" && res.Outcome != "prefix-error" && res.Outcome != "prefix-malformed" {
				judged++
				if 0 < len(res.Failures) {
					nfail++
					if firstSig == "" {
						firstSig, firstDetail = res.Failures[0].Sig, res.Failures[0].Detail
					}
				}
				if !(stopAtFirst && firstSig != "") && len(hist) < depth && len(res.Failures) == 0 {
					rec()
				}
			}
			hist = hist[:len(hist)-1]
			if stopAtFirst && firstSig != "" {
				return
			}
		}
	}
	rec()
	return
}

func opsOf(codes []string) []*opDef {
	out, err := parseHist(codes)
	if err != nil {
		panic(err)
	}
	return out
}

// selftest: (1) the cons-cell reference and the correct slice model must pass
// the oracle on every history explored (the oracle demands nothing the
// language does not); (2) every mutated model must be caught.
func selftest(tier string) (killed, total int, notes []string) {
	full := opsOf(alphabet(engine.Quick))
	if tier == engine.Thorough {
		full = opsOf(alphabet("everything"))
	}
	core := opsOf(alphabet("core"))
	okRef := true
	for _, ref := range []struct {
		name string
		mk   func() impl
	}{
		{"cons-cell reference", func() impl { return &consModel{} }},
		{"correct slice model", func() impl { return newSliceModel(mutNone) }},
	} {
		j2, sig, detail, _ := explore(ref.mk, full, 2, true)
		j3, sig3, detail3, _ := explore(ref.mk, core, 3, true)
		if sig == "" {
			sig, detail = sig3, detail3
		}
		if sig != "" {
			okRef = false
			notes = append(notes, fmt.Sprintf("ORACLE UNSOUND: %s is rejected: %s: %s", ref.name, sig, detail))
		} else {
			notes = append(notes, fmt.Sprintf("%s accepted on %d histories (length<=2, full alphabet) + %d (length<=3, reduced alphabet)", ref.name, j2, j3))
		}
	}
	for m := mutNone + 1; m < nMutants; m++ {
		m := m
		total++
		mk := func() impl { return newSliceModel(m) }
		_, sig, _, _ := explore(mk, full, 2, true)
		d := 2
		if sig == "" {
			_, sig, _, _ = explore(mk, core, 3, true)
			d = 3
		}
		if sig == "" {
			var sub []*opDef
			for _, o := range full {
				if isMut(o) || o.name == "k-list-defun" || o.name == "k-append-lambda" || o.group == "box" && mentions(o, 4) {
					sub = append(sub, o)
				}
			}
			_, sig, _, _ = explore(mk, sub, 3, true)
			d = 3
		}
		if sig != "" {
			killed++
			notes = append(notes, fmt.Sprintf("mutant %q caught at length<=%d: %s", mutantNames[m], d, sig))
		} else {
			notes = append(notes, fmt.Sprintf("mutant %q NOT caught", mutantNames[m]))
		}
	}
	if !okRef {
		killed = -1 // forces a harness error: the oracle rejects a correct implementation
	}
	return
}
