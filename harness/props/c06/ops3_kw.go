package c06

import "strings"

// Keyword variants: one family per distinct loop / branch that a keyword argument selects in the Go source of the
// sequence functions (pkg/cl/delete.go, delete-if.go, delete-duplicates.go, substitute.go, substitute-if.go, find.go,
// position.go, member.go, count.go, reduce.go ...). Argument values are chosen so that the branch changes the result on
// the 3-4 element lists of the pool; the counter kw:<family> fires when it really did (want != base).
//
// Source reading (r8): remove/remove-if/remove-duplicates embed delete/delete-if/delete-duplicates (same inList), each
// inList has a forward loop and a :from-end loop (builds reversed, then reverses its own result in place), one skip
// branch for :start/:end/:count, a :key call and a :test call; substitute copies and then shares subRep.replace with
// nsubstitute (forward loop, from-end loop, count cut-off, key, test).

func init() {
	item := func(s []int64) func(int64) bool { x := s[1]; return func(y int64) bool { return y == x } }
	ge := func(s []int64) func(int64) bool { x := s[1]; return func(y int64) bool { return x <= y } }
	lt := func(s []int64) func(int64) bool { x := s[1]; return func(y int64) bool { return x < y } }
	keyp := func(s []int64) func(int64) bool { x := s[1]; return func(y int64) bool { return y+1 == x } }

	type rv struct {
		suffix, args string
		want, base   func(s []int64) []int64
	}
	// ---- remove / delete with an item
	itemVariants := []rv{
		{"start", ":start 2", func(s []int64) []int64 { return removeWhere(s, item(s), 2, -1, -1, false) },
			func(s []int64) []int64 { return removeWhere(s, item(s), 0, -1, -1, false) }},
		{"end", ":end 1", func(s []int64) []int64 { return removeWhere(s, item(s), 0, 1, -1, false) },
			func(s []int64) []int64 { return removeWhere(s, item(s), 0, -1, -1, false) }},
		{"count", ":test #'<= :count 1", func(s []int64) []int64 { return removeWhere(s, ge(s), 0, -1, 1, false) },
			func(s []int64) []int64 { return removeWhere(s, ge(s), 0, -1, -1, false) }},
		{"from-end", ":test #'<= :count 1 :from-end t", func(s []int64) []int64 { return removeWhere(s, ge(s), 0, -1, 1, true) },
			func(s []int64) []int64 { return removeWhere(s, ge(s), 0, -1, 1, false) }},
		{"key", ":key #'1+", func(s []int64) []int64 { return removeWhere(s, keyp(s), 0, -1, -1, false) },
			func(s []int64) []int64 { return removeWhere(s, item(s), 0, -1, -1, false) }},
		{"test", ":test #'<", func(s []int64) []int64 { return removeWhere(s, lt(s), 0, -1, -1, false) },
			func(s []int64) []int64 { return removeWhere(s, item(s), 0, -1, -1, false) }},
		{"start-end-from-end", ":test #'<= :start 1 :end 3 :from-end t :count 1", func(s []int64) []int64 { return removeWhere(s, ge(s), 1, 3, 1, true) },
			func(s []int64) []int64 { return removeWhere(s, ge(s), 0, -1, -1, false) }},
	}
	// ---- remove-if / delete-if with evenp
	ifVariants := []rv{
		{"start", ":start 2", func(s []int64) []int64 { return removeWhere(s, even, 2, -1, -1, false) },
			func(s []int64) []int64 { return removeWhere(s, even, 0, -1, -1, false) }},
		{"end", ":end 2", func(s []int64) []int64 { return removeWhere(s, even, 0, 2, -1, false) },
			func(s []int64) []int64 { return removeWhere(s, even, 0, -1, -1, false) }},
		{"count", ":count 1", func(s []int64) []int64 { return removeWhere(s, even, 0, -1, 1, false) },
			func(s []int64) []int64 { return removeWhere(s, even, 0, -1, -1, false) }},
		{"from-end", ":count 1 :from-end t", func(s []int64) []int64 { return removeWhere(s, even, 0, -1, 1, true) },
			func(s []int64) []int64 { return removeWhere(s, even, 0, -1, 1, false) }},
		{"key", ":key #'1+", func(s []int64) []int64 { return removeWhere(s, odd, 0, -1, -1, false) },
			func(s []int64) []int64 { return removeWhere(s, even, 0, -1, -1, false) }},
		{"start-from-end", ":start 1 :from-end t", func(s []int64) []int64 { return removeWhere(s, even, 1, -1, -1, true) },
			func(s []int64) []int64 { return removeWhere(s, even, 0, -1, -1, false) }},
	}
	for _, f := range []struct {
		fn    string
		destr bool
	}{{"remove", false}, {"delete", true}} {
		for _, v := range itemVariants {
			v := v
			pats := patProd4
			if f.destr {
				pats = patSelf
			}
			ms := 2
			if strings.Contains(v.args, ":end 3") {
				ms = 3
			}
			addFam(&fam{name: f.fn + "-" + v.suffix, fn: f.fn, group: "kw", pats: pats, minS: ms, share: shareS, destr: f.destr,
				form: "(" + f.fn + " (nth 1 {S}) {S} " + v.args + ")",
				want: func(s, _ []int64, _ int64) []int64 { return v.want(s) }, base: func(s, _ []int64, _ int64) []int64 { return v.base(s) }})
		}
		for _, v := range ifVariants {
			v := v
			pats := patProd4
			if f.destr {
				pats = patSelf
			}
			addFam(&fam{name: f.fn + "-if-" + v.suffix, fn: f.fn + "-if", group: "kw", pats: pats, minS: 2, share: shareS, destr: f.destr,
				form: "(" + f.fn + "-if #'evenp {S} " + v.args + ")",
				want: func(s, _ []int64, _ int64) []int64 { return v.want(s) }, base: func(s, _ []int64, _ int64) []int64 { return v.base(s) }})
		}
	}

	// ---- remove-duplicates / delete-duplicates (not in the alphabet before): the default loop runs from the end and
	// keeps the LAST of two equal elements, :from-end t runs forward and keeps the first
	par := func(a, b int64) bool { return mod2(a) == mod2(b) }
	type dv struct {
		suffix, args string
		want, base   func(s []int64) []int64
	}
	dups := []dv{
		{"", "", func(s []int64) []int64 { return dedup(s, eqv, 0, -1, false) }, nil},
		{"-from-end", ":from-end t", func(s []int64) []int64 { return dedup(s, eqv, 0, -1, true) }, func(s []int64) []int64 { return dedup(s, eqv, 0, -1, false) }},
		{"-key", ":key #'evenp", func(s []int64) []int64 { return dedup(s, par, 0, -1, false) }, func(s []int64) []int64 { return dedup(s, eqv, 0, -1, false) }},
		{"-key-from-end", ":key #'evenp :from-end t", func(s []int64) []int64 { return dedup(s, par, 0, -1, true) }, func(s []int64) []int64 { return dedup(s, par, 0, -1, false) }},
		{"-start", ":key #'evenp :start 1", func(s []int64) []int64 { return dedup(s, par, 1, -1, false) }, func(s []int64) []int64 { return dedup(s, par, 0, -1, false) }},
		{"-end", ":key #'evenp :end 3", func(s []int64) []int64 { return dedup(s, par, 0, 3, false) }, func(s []int64) []int64 { return dedup(s, par, 0, -1, false) }},
		{"-test", ":test (lambda (x y) (eql (evenp x) (evenp y)))", func(s []int64) []int64 { return dedup(s, par, 0, -1, false) }, func(s []int64) []int64 { return dedup(s, eqv, 0, -1, false) }},
	}
	for _, f := range []struct {
		fn    string
		destr bool
	}{{"remove-duplicates", false}, {"delete-duplicates", true}} {
		for _, v := range dups {
			v := v
			pats, group := patProd4, "kw"
			if f.destr {
				pats = patSelf
			}
			var base lf
			if v.base != nil {
				base = func(s, _ []int64, _ int64) []int64 { return v.base(s) }
			} else {
				group = "fn"
				if !f.destr {
					pats = patProd
				}
			}
			addFam(&fam{name: f.fn + v.suffix, fn: f.fn, group: group, pats: pats, minS: 3, share: shareS, destr: f.destr,
				form: "(" + f.fn + " {S} " + v.args + ")",
				want: func(s, _ []int64, _ int64) []int64 { return v.want(s) }, base: base})
		}
	}

	// ---- substitute / nsubstitute (item = 2nd element, replaced by the fresh number) and the -if forms
	type sv struct {
		suffix, args string
		want, base   func(s []int64, n int64) []int64
	}
	subs := []sv{
		{"", "", func(s []int64, n int64) []int64 { return substWhere(s, n, item(s), 0, -1, -1, false) }, nil},
		{"-start", ":start 2", func(s []int64, n int64) []int64 { return substWhere(s, n, item(s), 2, -1, -1, false) },
			func(s []int64, n int64) []int64 { return substWhere(s, n, item(s), 0, -1, -1, false) }},
		{"-end", ":end 1", func(s []int64, n int64) []int64 { return substWhere(s, n, item(s), 0, 1, -1, false) },
			func(s []int64, n int64) []int64 { return substWhere(s, n, item(s), 0, -1, -1, false) }},
		{"-count", ":test #'<= :count 1", func(s []int64, n int64) []int64 { return substWhere(s, n, ge(s), 0, -1, 1, false) },
			func(s []int64, n int64) []int64 { return substWhere(s, n, ge(s), 0, -1, -1, false) }},
		{"-from-end", ":test #'<= :count 1 :from-end t", func(s []int64, n int64) []int64 { return substWhere(s, n, ge(s), 0, -1, 1, true) },
			func(s []int64, n int64) []int64 { return substWhere(s, n, ge(s), 0, -1, 1, false) }},
		{"-key", ":key #'1+", func(s []int64, n int64) []int64 { return substWhere(s, n, keyp(s), 0, -1, -1, false) },
			func(s []int64, n int64) []int64 { return substWhere(s, n, item(s), 0, -1, -1, false) }},
		{"-test", ":test #'<", func(s []int64, n int64) []int64 { return substWhere(s, n, lt(s), 0, -1, -1, false) },
			func(s []int64, n int64) []int64 { return substWhere(s, n, item(s), 0, -1, -1, false) }},
	}
	subIfs := []sv{
		{"", "", func(s []int64, n int64) []int64 { return substWhere(s, n, even, 0, -1, -1, false) }, nil},
		{"-start", ":start 2", func(s []int64, n int64) []int64 { return substWhere(s, n, even, 2, -1, -1, false) },
			func(s []int64, n int64) []int64 { return substWhere(s, n, even, 0, -1, -1, false) }},
		{"-end", ":end 2", func(s []int64, n int64) []int64 { return substWhere(s, n, even, 0, 2, -1, false) },
			func(s []int64, n int64) []int64 { return substWhere(s, n, even, 0, -1, -1, false) }},
		{"-count", ":count 1", func(s []int64, n int64) []int64 { return substWhere(s, n, even, 0, -1, 1, false) },
			func(s []int64, n int64) []int64 { return substWhere(s, n, even, 0, -1, -1, false) }},
		{"-from-end", ":count 1 :from-end t", func(s []int64, n int64) []int64 { return substWhere(s, n, even, 0, -1, 1, true) },
			func(s []int64, n int64) []int64 { return substWhere(s, n, even, 0, -1, 1, false) }},
		{"-key", ":key #'1+", func(s []int64, n int64) []int64 { return substWhere(s, n, odd, 0, -1, -1, false) },
			func(s []int64, n int64) []int64 { return substWhere(s, n, even, 0, -1, -1, false) }},
	}
	for _, f := range []struct {
		fn    string
		destr bool
	}{{"substitute", false}, {"nsubstitute", true}} {
		for i, set := range [][]sv{subs, subIfs} {
			for _, v := range set {
				v := v
				fn, form := f.fn, "("+f.fn+" {N} (nth 1 {S}) {S} "+v.args+")"
				if i == 1 {
					fn, form = f.fn+"-if", "("+f.fn+"-if {N} #'evenp {S} "+v.args+")"
				}
				pats, group := patProd4, "kw"
				if f.destr {
					pats = patSelf
				}
				var base lf
				if v.base != nil {
					base = func(s, _ []int64, n int64) []int64 { return v.base(s, n) }
				} else {
					group = "fn"
					if !f.destr {
						pats = patProd
					} else {
						pats = patSelf + " ba ca"
					}
				}
				addFam(&fam{name: fn + v.suffix, fn: fn, group: group, pats: pats, minS: 2, share: shareS, destr: f.destr, form: form,
					want: func(s, _ []int64, n int64) []int64 { return v.want(s, n) }, base: base})
			}
		}
	}
}
