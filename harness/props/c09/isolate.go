package c09

import "strings"

// Calls that are known to kill or hang the process on the pinned tree; they are
// run in a child process so that each gets a specific signature (see isolate()).
// Filled from observation; the table never decides a verdict.

func init() {
	anyOf := func(names ...string) func(string, []string, func(...string) bool) bool {
		return func(mode string, args []string, has func(...string) bool) bool { return has(names...) }
	}
	// (unuse-package <package>) rebuilds cl-user's tables from an incomplete use list: every later error is a nil dereference
	isolateRules["common-lisp:unuse-package"] = anyOf("pkg", "lisppkg", "kwpkg", "pkd")
	// reading a line from a closed stream never returns
	isolateRules["common-lisp:read-line"] = anyOf("scl")
	// (do () (t)): an end test that is a symbol or a constant is dropped, the loop never ends
	doRule := func(mode string, args []string, has func(...string) bool) bool {
		return mode == "l" && 2 <= len(args) && (args[0] == "el" || args[0] == "lamx") &&
			(args[1] == "(1 2 3)" || args[1] == "(1 . 2)" || args[1] == "lamx")
	}
	isolateRules["common-lisp:do"] = doRule
	isolateRules["common-lisp:do*"] = doRule
	// (unexport '(lambda (x) x)) takes `lambda` away from cl-user: no fault, but it must not happen inside a worker
	isolateRules["common-lisp:unexport"] = anyOf("lamx")
}

// isolateDirective: format directives known to run without bound with a huge
// column/count parameter.
func isolateDirective(d string) bool {
	c := d[len(d)-1]
	if 'a' <= c && c <= 'z' {
		c -= 'a' - 'A'
	}
	return strings.IndexByte("ASDBOX$&%~|T", c) >= 0
}
