package c04

import (
	"fmt"
	"sort"
	"strconv"
	"strings"
	"sync/atomic"

	"github.com/ohler55/slip"

	"verif/engine"
	"verif/lisp"
)

// ---------------------------------------------------------------- bounds

type boundsA struct {
	maxReq, maxOpt, maxKey int
	maxPairs               int // key/value pairs after the positional arguments
	vias                   []string
	// sixth round: bounds of the call-route / environment / lambda-list-dimension families
	routeReq, routeOpt, routeKey int // shapes used by the further call routes
	routePairs                   int
	routeAlias                   bool
	envPairs                     int
	dimReq, dimOpt, dimKey       int // shapes used by the further lambda-list dimensions (forms, &allow-other-keys, spelling)
	dimPairs                     int
	unsupReq, unsupOpt, unsupKey int  // shapes of the supplied-p / ((:keyword var)) dimensions (slip rejects the definitions)
	reduced                      bool // the sixth-round families use one with/without-default pattern per parameter count instead of all of them
}

func boundsFor(tier string) boundsA {
	if tier == engine.Thorough {
		return boundsA{maxReq: 3, maxOpt: 2, maxKey: 3, maxPairs: 3, vias: []string{"defun", "funcall", "apply", "applysym"},
			routeReq: 3, routeOpt: 2, routeKey: 2, routePairs: 2, routeAlias: false, envPairs: 1,
			dimReq: 2, dimOpt: 2, dimKey: 2, dimPairs: 2, unsupReq: 2, unsupOpt: 2, unsupKey: 2, reduced: false}
	}
	return boundsA{maxReq: 2, maxOpt: 2, maxKey: 2, maxPairs: 3, vias: []string{"defun", "funcall", "apply", "applysym"},
		routeReq: 2, routeOpt: 2, routeKey: 2, routePairs: 1, routeAlias: false, envPairs: 1,
		dimReq: 1, dimOpt: 2, dimKey: 2, dimPairs: 2, unsupReq: 1, unsupOpt: 1, unsupKey: 2, reduced: true}
}

func boolVecs(n int) [][]bool {
	if n == 0 {
		return [][]bool{nil}
	}
	var out [][]bool
	for m := 0; m < 1<<n; m++ {
		v := make([]bool, n)
		for i := 0; i < n; i++ {
			v[i] = m&(1<<i) != 0
		}
		out = append(out, v)
	}
	return out
}

// shapes enumerates the lambda-list shapes, simplest first.
func shapes(b boundsA) []*shape {
	return shapesOf(b.maxReq, b.maxOpt, b.maxKey)
}

func shapesOf(maxReq, maxOpt, maxKey int) []*shape {
	return shapesWith(maxReq, maxOpt, maxKey, boolVecs, boolVecs)
}

// patterns: a fixed choice of with/without-default patterns per parameter count ("dn" = first with, second without a default).
func patterns(byCount ...[]string) func(n int) [][]bool {
	return func(n int) [][]bool {
		if n == 0 {
			return [][]bool{nil}
		}
		var out [][]bool
		for _, p := range byCount[n-1] {
			out = append(out, parseFlags(p))
		}
		return out
	}
}

func shapesWith(maxReq, maxOpt, maxKey int, optVecs, keyVecs func(int) [][]bool) []*shape {
	var out []*shape
	for req := 0; req <= maxReq; req++ {
		for no := 0; no <= maxOpt; no++ {
			for _, opt := range optVecs(no) {
				for _, rest := range []bool{false, true} {
					for nk := 0; nk <= maxKey; nk++ {
						for _, key := range keyVecs(nk) {
							for _, aux := range []bool{false, true} {
								out = append(out, &shape{req: req, opt: opt, rest: rest, key: key, aux: aux})
							}
						}
					}
				}
			}
		}
	}
	sort.SliceStable(out, func(i, j int) bool { return out[i].weight() < out[j].weight() })
	return out
}

// withMode copies the shapes into a mode (see shape.mode), keeping those for which keep says so.
func withMode(in []*shape, mode byte, aok bool, keep func(*shape) bool) []*shape {
	var out []*shape
	for _, sh := range in {
		c := *sh
		c.mode, c.aok = mode, aok
		if keep == nil || keep(&c) {
			out = append(out, &c)
		}
	}
	return out
}

func (sh *shape) weight() int {
	w := sh.req + len(sh.opt) + len(sh.key)
	if sh.rest {
		w++
	}
	if sh.aux {
		w++
	}
	return w
}

func (sh *shape) anyDefault() bool {
	for _, d := range sh.opt {
		if d {
			return true
		}
	}
	for _, d := range sh.key {
		if d {
			return true
		}
	}
	return false
}

// vecOpts selects the argument vectors of a family.
type vecOpts struct {
	maxPairs  int
	noAlias   bool // without the unknown keys named like the function's own parameters
	aokTails  bool // plus tails containing :allow-other-keys t / nil
	spellings bool // plus every declared key in UPPER and Mixed case
}

// keySections enumerates the argument tails that follow the positional arguments:
//
//	(a) every sequence of <= maxPairs key/value pairs over the declared keys and the unknown key zz
//	    (repetitions = duplicates, every order), and every such sequence of < maxPairs pairs
//	    followed by a lone key without a value;
//	(b) every sequence of <= 2 pairs in which one pair uses an unknown key named like one of the
//	    function's own non-key parameters (first required / first optional / rest / first aux);
//
// without &key in the lambda list only the tails {}, {:zz v}, {:zz} are used (they are ordinary
// positional values there).
func keySections(sh *shape, vo vecOpts) [][]string {
	var out [][]string
	zz := sh.unknownKey()
	if !sh.hasKeySection() {
		return [][]string{nil, {zz, "v"}, {zz}}
	}
	maxPairs := vo.maxPairs
	var alpha []string
	for i := range sh.key {
		alpha = append(alpha, sh.keyArg(i))
	}
	alpha = append(alpha, zz)
	var seqs [][]string // sequences of keys
	var rec func(cur []string)
	rec = func(cur []string) {
		seqs = append(seqs, append([]string(nil), cur...))
		if len(cur) == maxPairs {
			return
		}
		for _, k := range alpha {
			rec(append(cur, k))
		}
	}
	rec(nil)
	sort.SliceStable(seqs, func(i, j int) bool { return len(seqs[i]) < len(seqs[j]) })
	toArgs := func(keys []string, lone string) []string {
		var a []string
		for _, k := range keys {
			a = append(a, k, "v")
		}
		if lone != "" {
			a = append(a, lone)
		}
		return a
	}
	for _, s := range seqs {
		out = append(out, toArgs(s, ""))
	}
	for _, s := range seqs {
		if len(s) < maxPairs {
			out = append(out, toArgs(s, alpha[0]))
			if alpha[0] != zz {
				out = append(out, toArgs(s, zz))
			}
		}
	}
	if !vo.noAlias {
		var aliases []string
		if 0 < sh.req {
			aliases = append(aliases, sh.reqName(0))
		}
		if 0 < len(sh.opt) {
			aliases = append(aliases, sh.optName(0))
		}
		if sh.rest {
			aliases = append(aliases, sh.restName())
		}
		if sh.aux {
			aliases = append(aliases, sh.auxName(0))
		}
		for _, al := range aliases {
			out = append(out, toArgs([]string{al}, ""))
			for _, k := range alpha {
				out = append(out, toArgs([]string{al, k}, ""))
				out = append(out, toArgs([]string{k, al}, ""))
			}
		}
	}
	if vo.aokTails {
		// :allow-other-keys in the call: true / nil, before and after an unknown key, repeated (the first one counts), next to a declared key, without a value
		out = append(out,
			[]string{aokKey, "#t"}, []string{aokKey, "n"}, []string{aokKey, "v"}, []string{aokKey},
			[]string{aokKey, "#t", zz, "v"}, []string{zz, "v", aokKey, "#t"}, []string{aokKey, "n", zz, "v"},
			[]string{aokKey, "n", aokKey, "#t", zz, "v"}, []string{aokKey, "#t", aokKey, "n", zz, "v"})
		if 0 < len(sh.key) {
			k := sh.keyArg(len(sh.key) - 1)
			out = append(out, []string{k, "v", aokKey, "#t", zz, "v"}, []string{aokKey, "#t", zz, "v", k, "v"}, []string{zz, "v", k, "n", aokKey, "#t"})
		}
	}
	if vo.spellings {
		// every declared key in upper and mixed case: alone, next to another key in another spelling, as a duplicate of its lower-case spelling
		for i := range sh.key {
			k := sh.keyArg(i)
			other := sh.keyArg((i + 1) % len(sh.key))
			for _, sp := range []byte{'U', 'M'} {
				ks := spell(k, sp)
				out = append(out, []string{ks, "v"}, []string{ks, "n"}, []string{ks})
				if other != k {
					out = append(out, []string{ks, "v", other, "v"}, []string{spell(other, 'U'+'M'-sp), "v", ks, "v"})
				}
				out = append(out, []string{k, "v", ks, "v"}, []string{ks, "v", k, "v"})
			}
		}
		out = append(out, []string{spell(zz, 'U'), "v"})
	}
	return out
}

// argVectors enumerates the argument vectors of one shape.
func argVectors(sh *shape, vo vecOpts, emit func(args string)) {
	maxPos := sh.req + len(sh.opt) + 2
	tails := keySections(sh, vo)
	for p := 0; p <= maxPos; p++ {
		pos := make([]string, p)
		for i := range pos {
			pos[i] = "v"
		}
		for _, t := range tails {
			emit(strings.Join(append(append([]string(nil), pos...), t...), ","))
		}
		// (d) one positional argument is an explicit nil (a supplied nil is a value, not an absent argument)
		for j := 0; j < p; j++ {
			np := append([]string(nil), pos...)
			np[j] = "n"
			tl := [][]string{nil}
			if 0 < len(sh.key) {
				tl = append(tl, []string{sh.keyArg(0), "v"})
			}
			for _, t := range tl {
				emit(strings.Join(append(append([]string(nil), np...), t...), ","))
			}
		}
		// (e) a declared key is given an explicit nil: alone, before and after another pair, and as the first of a duplicate
		for ki := range sh.key {
			k := sh.keyArg(ki)
			other := sh.keyArg((ki + 1) % len(sh.key))
			for _, t := range [][]string{{k, "n"}, {k, "n", other, "v"}, {other, "v", k, "n"}, {k, "n", k, "v"}, {k, "v", k, "n"}} {
				emit(strings.Join(append(append([]string(nil), pos...), t...), ","))
			}
		}
		// (c) one positional argument is itself a keyword naming a declared key (positional first!)
		if 0 < len(sh.key) && 0 < p {
			for j := 0; j < p; j++ {
				kp := append([]string(nil), pos...)
				kp[j] = sh.keyArg(0)
				tls := [][]string{nil, {sh.keyArg(0), "v"}, {sh.keyArg(len(sh.key) - 1), "v", sh.unknownKey(), "v"}}
				if vo.spellings {
					kp[j] = spell(sh.keyArg(0), 'U')
					tls = tls[:2]
				}
				for _, t := range tls {
					emit(strings.Join(append(append([]string(nil), kp...), t...), ","))
				}
			}
		}
	}
}

func enumerateA(tier string, emit func(string)) {
	b := boundsFor(tier)
	for _, sh := range shapes(b) {
		code := sh.code()
		for _, via := range b.vias {
			argVectors(sh, vecOpts{maxPairs: b.maxPairs}, func(args string) {
				emit("A|" + via + "|" + code + "|" + args)
			})
		}
	}
	// redefinition: the name is first defined with ANOTHER lambda list (a different number of required parameters,
	// the optional section flipped) and called once, then redefined with the shape under test: nothing of the
	// earlier definition (a cached count, a cached binding plan) may survive. Positional arguments only.
	for _, sh := range shapes(b) {
		code := sh.code()
		maxPos := sh.req + len(sh.opt) + 2
		for p := 0; p <= maxPos; p++ {
			pos := make([]string, p)
			for i := range pos {
				pos[i] = "v"
			}
			emit("A|redefun|" + code + "|" + strings.Join(pos, ","))
		}
	}
	// maprows: the function is called by a multi-list mapcar (which may hand every call the same argument buffer) with
	// TWO rows of arguments - the vector under test first, then the same vector with other numbers; the result of the
	// FIRST call is what is compared: nothing bound in one call (the &rest list above all) may be changed by the next.
	for _, sh := range shapes(b) {
		code := sh.code()
		argVectors(sh, vecOpts{maxPairs: 2}, func(args string) {
			if args != "" {
				emit("A|maprows|" + code + "|" + args)
			}
		})
	}
	for _, s := range defaultFormCases {
		emit(s)
	}
	for _, fam := range families(b) {
		fam.each(func(via string, sh *shape, args string) {
			emit("A|" + via + "|" + sh.code() + "|" + args)
		})
	}
}

// ---------------------------------------------------------------- sixth round: families of further routes and dimensions

// family = a set of shapes x a set of argument vectors x a set of call routes (expanded per vector, see expandVia).
type family struct {
	name   string
	shapes []*shape
	opts   vecOpts
	vias   []string
}

var (
	// routes that call the function once with exactly the argument vector
	plainRoutes = []string{"spread", "mv.one", "mv.all", "mv.split", "mapcar1", "mapc", "every", "reduce", "reduceinit", "sort",
		"fsharp", "ffunction", "fsymfn", "closure", "generic", "flavor", "macro", "recout", "recin"}
	// routes x environments: every parameter name is also a variable around the call site (@call), around the
	// definition site (@def) or a global of the current package (@glob)
	envBases = []string{"defun", "funcall", "apply", "applysym", "fsharp", "closure", "generic", "flavor", "macro", "mapcar1"}
	envKinds = []string{"call", "def", "glob"}
	// routes over which the further lambda-list dimensions are run
	dimRoutes = []string{"defun", "funcall", "apply", "generic", "flavor", "macro"}
)

func families(b boundsA) []*family {
	routeShapes := shapesOf(b.routeReq, b.routeOpt, b.routeKey)
	dimShapes := shapesOf(b.dimReq, b.dimOpt, b.dimKey)
	formShapes := dimShapes
	unsupShapes := shapesOf(b.unsupReq, b.unsupOpt, b.unsupKey)
	if b.reduced {
		one := patterns([]string{"d"}, []string{"dn"}, []string{"dnd"})
		oneKey := patterns([]string{"d"}, []string{"nd"}, []string{"ndn"})
		routeShapes = shapesWith(b.routeReq, b.routeOpt, b.routeKey, one, oneKey)
		dimShapes = shapesWith(b.dimReq, b.dimOpt, b.dimKey, one, oneKey)
		formShapes = shapesWith(b.dimReq, b.dimOpt, b.dimKey, patterns([]string{"d"}, []string{"dd", "nd"}), patterns([]string{"d"}, []string{"dd", "dn"}))
	}
	var envVias []string
	for _, base := range envBases {
		for _, k := range envKinds {
			if k == "def" && (base == "closure" || base == "mapcar1" || base == "fsharp") {
				continue // the definition site of these is the one of the defun route
			}
			envVias = append(envVias, base+"@"+k)
		}
	}
	hasKeys := func(sh *shape) bool { return 0 < len(sh.key) }
	return []*family{
		{name: "routes", shapes: routeShapes, opts: vecOpts{maxPairs: b.routePairs, noAlias: !b.routeAlias}, vias: plainRoutes},
		{name: "environments", shapes: routeShapes, opts: vecOpts{maxPairs: b.envPairs, noAlias: true}, vias: envVias},
		{name: "default-forms", shapes: withMode(formShapes, 'f', false, func(sh *shape) bool { return sh.anyDefault() || sh.aux }),
			opts: vecOpts{maxPairs: b.dimPairs, noAlias: true}, vias: append([]string{"closure"}, dimRoutes...)},
		{name: "allow-other-keys-in-the-lambda-list", shapes: withMode(dimShapes, 0, true, nil),
			opts: vecOpts{maxPairs: 1, noAlias: true, aokTails: true}, vias: dimRoutes},
		{name: "allow-other-keys-in-the-call", shapes: withMode(dimShapes, 0, false, hasKeys),
			opts: vecOpts{maxPairs: 0, noAlias: true, aokTails: true}, vias: dimRoutes},
		{name: "spelling-declared-lower", shapes: withMode(dimShapes, 'L', false, hasKeys), opts: vecOpts{maxPairs: 1, noAlias: true, spellings: true}, vias: dimRoutes},
		{name: "spelling-declared-upper", shapes: withMode(dimShapes, 'U', false, nil), opts: vecOpts{maxPairs: 1, noAlias: true, spellings: true}, vias: dimRoutes},
		{name: "spelling-declared-mixed", shapes: withMode(dimShapes, 'M', false, nil), opts: vecOpts{maxPairs: 1, noAlias: true, spellings: true}, vias: dimRoutes},
		{name: "supplied-p", shapes: withMode(unsupShapes, 's', false, func(sh *shape) bool { return 0 < len(sh.opt)+len(sh.key) && !sh.aux }),
			opts: vecOpts{maxPairs: 1, noAlias: true}, vias: []string{"defun", "funcall"}},
		{name: "keyword-specs", shapes: withMode(unsupShapes, 'q', false, func(sh *shape) bool { return 0 < len(sh.key) && !sh.aux }),
			opts: vecOpts{maxPairs: 1, noAlias: true}, vias: []string{"defun", "funcall"}},
	}
}

// each enumerates the (route, shape, vector) triples of the family, simplest shape first.
func (fam *family) each(emit func(via string, sh *shape, args string)) {
	for _, sh := range fam.shapes {
		for _, via := range fam.vias {
			argVectors(sh, fam.opts, func(args string) {
				n := 0
				if args != "" {
					n = strings.Count(args, ",") + 1
				}
				for _, v := range expandVia(via, sh, n) {
					emit(v, sh, args)
				}
			})
		}
	}
}

// expandVia: the concrete routes of a route name for a vector of n arguments (none when the route cannot pass such a vector).
func expandVia(via string, sh *shape, n int) []string {
	base := via
	if i := strings.IndexByte(via, '@'); 0 < i {
		base = via[:i]
	}
	switch base {
	case "spread": // every split of the vector into spread arguments and the final list
		out := make([]string, 0, n+1)
		for k := 0; k <= n; k++ {
			out = append(out, "spread."+strconv.Itoa(k))
		}
		return out
	case "mapcar1", "mapc", "every":
		if n < 1 {
			return nil
		}
	case "reduce", "reduceinit", "sort":
		if n != 2 {
			return nil
		}
	case "recout", "recin":
		if otherCount(sh, n) < 0 {
			return nil
		}
	}
	return []string{via}
}

// otherCount: the number of (positional) arguments of the OTHER activation of a recursive route: the number of required
// parameters, or one more when the vector under test has exactly that many; -1 when no different count is possible.
func otherCount(sh *shape, n int) int {
	if n != sh.req {
		return sh.req
	}
	if 0 < len(sh.opt) || sh.rest {
		return sh.req + 1
	}
	return -1
}

// ---------------------------------------------------------------- execution

var nameCounter int64

// freshName: names come from a per-process counter but cycle through 256 values: slip never forgets a
// defun'd name (Package.lambdas keeps the entry after Undefine, 2.6 kB per name), a redefinition replaces
// the old entry completely, and every case undefines its function when it ends.
func freshName() string {
	return "c04f" + strconv.FormatInt(atomic.AddInt64(&nameCounter, 1)%256, 10)
}

func parseShape(f []string) *shape {
	req, _ := strconv.Atoi(f[0])
	sh := &shape{req: req, opt: parseFlags(f[1]), rest: f[2] == "1", key: parseFlags(f[3])}
	a := f[4]
	if strings.HasSuffix(a, "+") {
		sh.aok = true
		a = a[:len(a)-1]
	}
	sh.aux = strings.HasPrefix(a, "1")
	if 1 < len(a) {
		sh.mode = a[1]
	}
	return sh
}

func argTexts(args []arg) []string {
	out := make([]string, len(args))
	for i, a := range args {
		out[i] = a.callText()
	}
	return out
}

// callFeatures names the special ingredients of a call (part of the signature).
func callFeatures(sh *shape, args []arg) []string {
	var fs []string
	add := func(s string) {
		for _, x := range fs {
			if x == s {
				return
			}
		}
		fs = append(fs, s)
	}
	npos := sh.req + len(sh.opt)
	names, kinds := sh.params()
	seen := map[string]bool{}
	if len(args) == 0 {
		add("no-args")
	}
	for i, a := range args {
		if a.kw == "" {
			continue
		}
		kw := strings.ToLower(a.kw)
		if kw != a.kw {
			add("keyword-spelled-with-upper-case")
		}
		if i < npos {
			add("keyword-as-positional-value")
			continue
		}
		if !sh.hasKeySection() {
			add("keyword-without-&key")
			continue
		}
		isKeyParam := false
		for k := range sh.key {
			if sh.keyArg(k) == kw {
				isKeyParam = true
			}
		}
		switch {
		case isKeyParam:
			if seen[kw] {
				add("duplicate-key")
			}
			seen[kw] = true
		case kw == aokKey:
			add("allow-other-keys-argument")
		case kw == sh.unknownKey():
			add("unknown-key")
		default:
			for j, n := range names {
				if n == kw {
					add("unknown-key-named-like-" + kinds[j])
				}
			}
		}
	}
	sort.Strings(fs)
	return fs
}

func execA(spec string) (res engine.Result) {
	f := strings.Split(spec, "|")
	if len(f) != 8 {
		res.Fail("harness:bad-spec", spec)
		return
	}
	via := f[1]
	sh := parseShape(f[2:7])
	args := parseArgs(f[7])
	if isNewRoute(via) || sh.mode != 0 || sh.aok {
		return execRoute(spec, via, sh, args)
	}
	exp := acceptable(sh, args)

	ll := sh.lambdaList()
	names, _ := sh.params()
	body := "(tr 'in) (list " + strings.Join(names, " ") + ")"
	at := argTexts(args)
	name := freshName()
	scope := slip.NewScope()
	lisp.ResetTrace()
	var val slip.Object
	var err *lisp.Err
	var src string
	define := func() bool {
		def := "(defun " + name + " " + ll + " " + body + ")"
		src = def + " "
		if _, derr := lisp.EvalIn(scope, def); derr != nil {
			res.Fail("A via="+via+" kind=definition-rejected err="+derr.Class, def+" => "+derr.String())
			return false
		}
		return true
	}
	defer slip.UserPkg.Undefine(name)
	switch via {
	case "defun":
		if !define() {
			return
		}
		call := "(" + name + " " + strings.Join(at, " ") + ")"
		src += call
		val, err = lisp.EvalIn(scope, call)
	case "redefun":
		decoy := &shape{req: (sh.req + 1) % 4}
		if len(sh.opt) == 0 {
			decoy.opt = []bool{true}
		}
		dnames, _ := decoy.params()
		ddef := "(defun " + name + " " + decoy.lambdaList() + " (list " + strings.Join(dnames, " ") + "))"
		dargs := make([]string, decoy.req)
		for i := range dargs {
			dargs[i] = strconv.Itoa(900 + i)
		}
		dcall := "(" + name + " " + strings.Join(dargs, " ") + ")"
		if _, derr := lisp.EvalIn(scope, ddef); derr != nil {
			res.Fail("harness:decoy-definition-rejected", ddef+" => "+derr.String())
			return
		}
		if _, derr := lisp.EvalIn(scope, dcall); derr != nil {
			res.Fail("harness:decoy-call-rejected", ddef+" "+dcall+" => "+derr.String())
			return
		}
		lisp.ResetTrace()
		if !define() {
			return
		}
		res.Hit("A:redefined-with-another-lambda-list")
		call := "(" + name + " " + strings.Join(at, " ") + ")"
		src = ddef + " " + dcall + " " + src + call
		val, err = lisp.EvalIn(scope, call)
	case "applysym":
		if !define() {
			return
		}
		var call string
		if len(at) == 0 {
			call = "(apply '" + name + " nil)"
		} else {
			call = "(apply '" + name + " " + at[0] + " (list " + strings.Join(at[1:], " ") + "))"
		}
		src += call
		val, err = lisp.EvalIn(scope, call)
	case "maprows":
		if !define() {
			return
		}
		cols := make([]string, len(args))
		for i, a := range args {
			second := a.callText()
			if a.kw == "" && !a.isNil {
				second = strconv.Itoa(a.val + 700)
			}
			cols[i] = "(list " + a.callText() + " " + second + ")"
		}
		call := "(let ((rows (mapcar '" + name + " " + strings.Join(cols, " ") + "))) (tr 'after) (car rows))"
		src += call
		res.Hit("A:called-twice-by-a-multi-list-mapcar")
		val, err = lisp.EvalIn(scope, call)
	case "funcall":
		src = "(funcall (lambda " + ll + " " + body + ") " + strings.Join(at, " ") + ")"
		val, err = lisp.EvalIn(scope, src)
	case "apply":
		src = "(apply (lambda " + ll + " " + body + ") (list " + strings.Join(at, " ") + "))"
		val, err = lisp.EvalIn(scope, src)
	default:
		res.Fail("harness:bad-spec", spec)
		return
	}
	trace := lisp.Trace()
	ob := &observation{via: via, sh: sh, args: args, exp: exp, val: val, err: err, bodyRan: 0 < len(trace), src: src}
	judge(&res, ob)
	return
}

// observation is what one call showed, handed to the judge.
type observation struct {
	via     string
	sh      *shape
	args    []arg
	exp     *expectation
	val     slip.Object // the list of all parameters as the body saw them
	err     *lisp.Err
	bodyRan bool
	pre     []string        // what was logged before the body started (default forms evaluated, in order)
	src     string          // the program
	foreign map[string]bool // renderings of the values of like-named variables around the call (environment routes)
}

// judge applies the oracle to one observed call and bumps the vacuity counters.
func judge(res *engine.Result, ob *observation) {
	via, sh, args, exp, err := ob.via, ob.sh, ob.args, ob.exp, ob.err
	_, kinds := sh.params()

	// vacuity counters
	res.Nontrivial = 0 < len(sh.opt) || sh.rest || sh.hasKeySection() || sh.aux || len(args) != sh.req
	feats := callFeatures(sh, args)
	for _, ft := range feats {
		res.Hit("A:" + ft)
	}
	if len(args) < sh.req {
		res.Hit("A:too-few")
	}
	if exp.errReasons["too-many"] {
		res.Hit("A:too-many")
	}
	if exp.errReasons["odd-key-tail"] {
		res.Hit("A:odd-key-tail")
	}
	if 0 < len(exp.values) {
		res.Hit("A:valid-call")
		o := exp.values[0]
		for i, k := range kinds {
			switch {
			case k == "optional" && sh.mode != 'f' && sh.opt[indexOfKind(kinds, i)] && o.vals[i] == strconv.Itoa(optDefaultBase+indexOfKind(kinds, i)):
				res.Hit("A:optional-default-used")
			case k == "key" && sh.mode != 'f' && sh.key[indexOfKind(kinds, i)] && o.vals[i] == strconv.Itoa(keyDefaultBase+indexOfKind(kinds, i)):
				res.Hit("A:key-default-used")
			case k == "rest" && o.vals[i] != "nil":
				res.Hit("A:rest-nonempty")
			case k == "aux" && i == len(kinds)-1:
				res.Hit("A:aux")
			case strings.HasSuffix(k, "supplied-p") && o.vals[i] == "t" && o.vals[i-1] == "nil":
				res.Hit("A:supplied-p-true-for-a-supplied-nil")
			case strings.HasSuffix(k, "supplied-p") && o.vals[i] == "nil" && o.vals[i-1] != "nil":
				res.Hit("A:supplied-p-false-with-a-non-nil-default")
			}
		}
		if 0 < len(o.trace) {
			res.Hit("A:default-form-with-side-effect-evaluated")
		}
		if sh.mode == 'f' && len(o.trace) < countForms(sh) {
			res.Hit("A:default-form-with-side-effect-skipped-because-supplied")
		}
		if keysOutOfOrder(sh, args) {
			res.Hit("A:keys-out-of-order")
		}
		if !exp.set["ERR"] && hasFeature(feats, "unknown-key") {
			res.Hit("A:unknown-key-that-must-be-allowed")
		}
	}

	// observed
	var observed string
	switch {
	case err != nil && err.GoFault:
		observed = "GOFAULT"
	case err != nil:
		observed = "ERR"
	default:
		observed = withTrace(lisp.Show(ob.val), ob.pre)
	}
	res.Outcome = observed
	if err != nil {
		res.Outcome += ":" + err.Class
		if ob.bodyRan {
			res.Outcome += ":body-ran"
		}
	}

	// the signature names the call's special ingredient only where it can explain the failure: an unknown
	// key named like one of the function's own parameters (wrong binding), a call without arguments (rejected call)
	sig := func(kind string) string {
		s := "A via=" + via + " kind=" + kind
		if sh.mode != 0 || sh.aok {
			s = "A via=" + via + " lambda-list=" + dimensionName(sh) + " kind=" + kind
		}
		pf := primaryFeature(feats)
		switch {
		case strings.HasPrefix(pf, "unknown-key-named-like-") && (strings.HasPrefix(kind, "wrong-binding") || strings.HasPrefix(kind, "valid-call-rejected") || kind == "go-fault"):
			s += " call=" + pf
		case pf == "no-args" && strings.HasPrefix(kind, "valid-call-rejected"):
			s += " call=no-args"
		case (pf == "allow-other-keys-argument" || pf == "keyword-spelled-with-upper-case") && kind != "go-fault" && !strings.Contains(kind, "not-rejected"):
			s += " call=" + pf
		}
		return s
	}
	detail := func() string {
		got := observed
		if err != nil {
			got = "error " + err.String()
			if ob.bodyRan {
				got += " (raised AFTER the body had started to run)"
			}
		}
		return fmt.Sprintf("%s => %s; required: %s", ob.src, got, exp.describe())
	}
	reason := func() string {
		for _, r := range []string{"too-few", "too-many", "non-keyword-in-key-position", "odd-key-tail", "unknown-key"} {
			if exp.errReasons[r] {
				return r
			}
		}
		return "?"
	}
	switch {
	case err != nil && err.GoFault:
		res.Fail(sig("go-fault"), detail())
	case err != nil && exp.onlyError():
		// an error is required; for a wrong argument count it must reject the call, not surface from a body that ran
		if ob.bodyRan && (exp.errReasons["too-few"] || exp.errReasons["too-many"]) {
			res.Fail(sig(reason()+"-not-rejected:body-ran-then-"+err.Class), detail())
		}
	case err != nil && exp.set["ERR"]:
		// acceptable (unknown key rejected)
	case err != nil:
		kind := "valid-call-rejected:" + err.Class
		if strings.Contains(strings.ToLower(err.Message), "arguments to "+via) {
			kind = "valid-call-rejected-by-" + via + "-itself"
		}
		res.Fail(sig(kind), detail())
	case exp.set[observed]:
		// fine
	case exp.onlyError():
		res.Fail(sig(reason()+"-accepted"), detail())
	case exp.hasValues(lisp.Show(ob.val)):
		res.Fail(sig("evaluation:"+diffEvaluation(ob)), detail())
	default:
		res.Fail(sig("wrong-binding:"+diffBindings(ob)), detail())
	}
}

func dimensionName(sh *shape) string {
	var p []string
	switch sh.mode {
	case 'f':
		p = append(p, "default-forms")
	case 's':
		p = append(p, "supplied-p")
	case 'q':
		p = append(p, "keyword-specs")
	case 'L':
		p = append(p, "long-names")
	case 'U':
		p = append(p, "declared-upper-case")
	case 'M':
		p = append(p, "declared-mixed-case")
	}
	if sh.aok {
		p = append(p, "allow-other-keys")
	}
	return strings.Join(p, "+")
}

func countForms(sh *shape) int {
	n := 0
	for _, d := range sh.opt {
		if d {
			n++
		}
	}
	for _, d := range sh.key {
		if d {
			n++
		}
	}
	if sh.aux {
		n += 2
	}
	return n
}

func hasFeature(feats []string, f string) bool {
	for _, x := range feats {
		if x == f {
			return true
		}
	}
	return false
}

var featurePriority = []string{
	"unknown-key-named-like-required", "unknown-key-named-like-optional", "unknown-key-named-like-rest", "unknown-key-named-like-aux",
	"keyword-spelled-with-upper-case", "allow-other-keys-argument",
	"duplicate-key", "unknown-key", "keyword-as-positional-value", "keyword-without-&key", "no-args",
}

func primaryFeature(feats []string) string {
	for _, p := range featurePriority {
		for _, f := range feats {
			if f == p {
				return p
			}
		}
	}
	return "plain"
}

func indexOfKind(kinds []string, i int) int {
	n := 0
	for j := 0; j < i; j++ {
		if kinds[j] == kinds[i] {
			n++
		}
	}
	return n
}

func keysOutOfOrder(sh *shape, args []arg) bool {
	last := -1
	for i := sh.req + len(sh.opt); i < len(args); i++ {
		for k := range sh.key {
			if strings.EqualFold(args[i].kw, sh.keyArg(k)) {
				if k < last {
					return true
				}
				last = k
			}
		}
	}
	return false
}

// diffEvaluation: the bindings are right, the default forms were not evaluated as prescribed (once, only for absent
// arguments, left to right); names what differs.
func diffEvaluation(ob *observation) string {
	shown := lisp.Show(ob.val)
	var want []string
	for _, o := range ob.exp.values {
		if o.valueString() == shown {
			want = o.trace
			break
		}
	}
	count := func(xs []string) map[string]int {
		m := map[string]int{}
		for _, x := range xs {
			m[x]++
		}
		return m
	}
	wc, gc := count(want), count(ob.pre)
	for k, n := range gc {
		switch {
		case k[0] >= '0' && k[0] <= '9':
			return "argument-form-of-a-macro-call-evaluated"
		case wc[k] == 0:
			return "default-form-evaluated-although-the-argument-was-supplied"
		case wc[k] < n:
			return "default-form-evaluated-more-than-once"
		}
	}
	for k := range wc {
		if gc[k] == 0 {
			return "default-form-not-evaluated"
		}
	}
	return "default-forms-not-evaluated-left-to-right"
}

// diffBindings names which parameter kinds are bound wrongly and what they hold instead, relative
// to the closest acceptable value outcome.
func diffBindings(ob *observation) string {
	sh, args, val, exp := ob.sh, ob.args, ob.val, ob.exp
	names, kinds := sh.params()
	list, ok := val.(slip.List)
	if val == nil {
		list, ok = slip.List{}, true
	}
	if !ok || len(list) != len(names) {
		return "result-shape"
	}
	got := make([]string, len(list))
	for i, v := range list {
		got[i] = lisp.Show(v)
	}
	best, bestN := -1, 1<<30
	for oi, o := range exp.values {
		n := 0
		for i := range names {
			if o.vals[i] != got[i] {
				n++
			}
		}
		if n < bestN {
			best, bestN = oi, n
		}
	}
	o := exp.values[best]
	set := map[string]bool{}
	for i := range names {
		if o.vals[i] == got[i] {
			continue
		}
		what := "other"
		switch {
		case ob.foreign[got[i]]:
			what = "outer-variable"
		case got[i] == "nil":
			what = "nil"
		case kinds[i] == "optional" && got[i] == strconv.Itoa(optDefaultBase+indexOfKind(kinds, i)),
			kinds[i] == "key" && got[i] == strconv.Itoa(keyDefaultBase+indexOfKind(kinds, i)),
			kinds[i] == "aux" && got[i] == strconv.Itoa(auxValue):
			what = "its-default"
		case kinds[i] == "rest":
			what = "other-list"
			if _, isList := list[i].(slip.List); !isList {
				what = "non-list"
			}
		default:
			for _, a := range args {
				if a.text() == got[i] {
					what = "another-argument"
				}
				if a.form && strconv.Itoa(a.val) == got[i] {
					what = "evaluated-argument-form"
				}
			}
		}
		set[kinds[i]+"="+what] = true
	}
	var parts []string
	outer := 0 < len(set)
	for k := range set {
		parts = append(parts, k)
		if !strings.HasSuffix(k, "=outer-variable") {
			outer = false
		}
		if strings.HasSuffix(k, "=evaluated-argument-form") {
			// one defect class (a macro call evaluates its argument forms) whatever else is displaced by it
			return "evaluated-argument-form"
		}
	}
	if outer {
		// one defect class whatever the kinds of the parameters it shows on (they are in the detail)
		return "outer-variable"
	}
	sort.Strings(parts)
	return strings.Join(parts, ",")
}
