//go:build verif

package c01

import (
	"fmt"
	"math/big"
	"strings"

	"github.com/ohler55/slip"

	"verif/engine"
	"verif/lisp"
)

// The quoted datum table: text of the datum and the object(s) it denotes,
// built by Go construction (never through slip's reader or printer). Where
// Common Lisp and slip's documentation leave the exact type open (the float
// format of an unsuffixed 1.5) every acceptable object is listed.
type qdatum struct {
	name     string
	text     string
	want     []slip.Object
	compound bool
}

func bigOf(s string) *slip.Bignum {
	b, _ := new(big.Int).SetString(s, 10)
	return (*slip.Bignum)(b)
}

func sym(s string) slip.Object { return slip.Symbol(s) }

var datums = []qdatum{
	{"fixnum", "42", []slip.Object{slip.Fixnum(42)}, false},
	{"negative-fixnum", "-7", []slip.Object{slip.Fixnum(-7)}, false},
	{"zero", "0", []slip.Object{slip.Fixnum(0)}, false},
	{"bignum", "12345678901234567890123", []slip.Object{bigOf("12345678901234567890123")}, false},
	{"ratio", "2/3", []slip.Object{(*slip.Ratio)(big.NewRat(2, 3))}, false},
	{"float", "1.5", []slip.Object{slip.DoubleFloat(1.5), slip.SingleFloat(1.5)}, false},
	{"double-float", "2.5d0", []slip.Object{slip.DoubleFloat(2.5)}, false},
	{"string", `"hi"`, []slip.Object{slip.String("hi")}, false},
	{"empty-string", `""`, []slip.Object{slip.String("")}, false},
	{"string-with-escape", `"a\"b"`, []slip.Object{slip.String(`a"b`)}, false},
	{"character", `#\a`, []slip.Object{slip.Character('a')}, false},
	{"character-name", `#\Space`, []slip.Object{slip.Character(' ')}, false},
	{"symbol", "foo", []slip.Object{sym("foo")}, false},
	{"symbol-mixed-case", "Foo", []slip.Object{sym("foo")}, false},
	{"piped-symbol", "|Foo|", []slip.Object{sym("Foo")}, false},
	{"keyword", ":key", []slip.Object{sym(":key")}, false},
	{"nil", "nil", []slip.Object{nil}, false},
	{"empty-list", "()", []slip.Object{nil}, false},
	{"t", "t", []slip.Object{slip.True}, false},
	{"list", "(1 2 3)", []slip.Object{slip.List{slip.Fixnum(1), slip.Fixnum(2), slip.Fixnum(3)}}, true},
	{"nested-list", `(1 (2 b) "x" #\a nil)`, []slip.Object{slip.List{slip.Fixnum(1), slip.List{slip.Fixnum(2), sym("b")},
		slip.String("x"), slip.Character('a'), nil}}, true},
	{"dotted-pair", "(a . b)", []slip.Object{slip.List{sym("a"), slip.Tail{Value: sym("b")}}}, true},
	{"dotted-list", "(1 2 . 3)", []slip.Object{slip.List{slip.Fixnum(1), slip.Fixnum(2), slip.Tail{Value: slip.Fixnum(3)}}}, true},
	{"list-that-looks-like-a-call", "(+ 1 2)", []slip.Object{slip.List{sym("+"), slip.Fixnum(1), slip.Fixnum(2)}}, true},
	{"list-that-looks-like-a-trace-call", "(tr (quote kq) 1)", []slip.Object{slip.List{sym("tr"), slip.List{sym("quote"), sym("kq")}, slip.Fixnum(1)}}, true},
	{"list-that-looks-like-a-special-form", "(if a (setq b 1) (let ((c 2)) c))", []slip.Object{slip.List{sym("if"), sym("a"),
		slip.List{sym("setq"), sym("b"), slip.Fixnum(1)},
		slip.List{sym("let"), slip.List{slip.List{sym("c"), slip.Fixnum(2)}}, sym("c")}}}, true},
	{"list-headed-by-lambda", "(lambda (x) x)", []slip.Object{slip.List{sym("lambda"), slip.List{sym("x")}, sym("x")}}, true},
	{"list-headed-by-quote", "(quote a)", []slip.Object{slip.List{sym("quote"), sym("a")}}, true},
	{"vector", "#(1 2 3)", []slip.Object{slip.NewVector(3, slip.TrueSymbol, nil, slip.List{slip.Fixnum(1), slip.Fixnum(2), slip.Fixnum(3)}, true)}, true},
}

// A quote context: the program around the quoted form Q and what its value
// must be, given the rendering S of the datum.
type qctx struct {
	name  string
	prog  string // Q = the quoted form, NAME = a unique function name
	want  string // S = rendering of the datum
	twice bool
}

var quoteCtxs = []qctx{
	{"top-level", "Q", "S", false},
	{"argument", "(list Q 7 Q)", "(S 7 S)", false},
	{"let-init", "(let ((x Q)) x)", "S", false},
	{"lambda-argument", "(funcall (lambda (a) a) Q)", "S", false},
	{"if-branch", "(if nil 1 Q)", "S", false},
	{"function-body-called-twice", "(progn (defun NAME () Q) (list (NAME) (NAME)))", "(S S)", true},
	{"loop-body-run-twice", "(let ((r nil)) (dotimes (i 2) (setq r (cons Q r))) r)", "(S S)", true},
}

func enumerateQuotes(emit func(string)) {
	for ci := range quoteCtxs {
		for _, via := range []string{"quote", "'"} {
			for di := range datums {
				emit(fmt.Sprintf("q|%s|%s|%s", quoteCtxs[ci].name, via, datums[di].name))
			}
		}
	}
}

func findQuote(ctx, dat string) (*qctx, *qdatum) {
	var c *qctx
	var d *qdatum
	for i := range quoteCtxs {
		if quoteCtxs[i].name == ctx {
			c = &quoteCtxs[i]
		}
	}
	for i := range datums {
		if datums[i].name == dat {
			d = &datums[i]
		}
	}
	return c, d
}

type qverdict struct {
	ok   bool
	kind string
	text string
	want []string
	got  observation
}

func judgeQuote(c *qctx, via string, d *qdatum, prefix string) (v qverdict) {
	q := "(quote " + d.text + ")"
	if via == "'" {
		q = "'" + d.text
	}
	v.text = strings.ReplaceAll(strings.ReplaceAll(c.prog, "NAME", prefix), "Q", q)
	for _, w := range d.want {
		v.want = append(v.want, strings.ReplaceAll(c.want, "S", lisp.Show(w)))
	}
	v.got = runSlip(v.text, 100000)
	if strings.Contains(c.prog, "NAME") {
		slip.VerifForgetFunction(slip.CurrentPackage, prefix)
	}
	switch {
	case v.got.runaway:
		v.kind = "runaway"
	case v.got.err != nil && v.got.err.GoFault:
		v.kind = "go-fault"
	case 0 < len(v.got.trace):
		v.kind = "datum-was-evaluated"
	default:
		v.kind = "not-the-datum"
		if v.got.err == nil {
			for _, w := range v.want {
				v.ok = v.ok || w == v.got.val
			}
		}
	}
	return
}

func (v *qverdict) describe() string {
	got := v.got.val
	if v.got.err != nil {
		got = "signals " + v.got.err.String()
	}
	if 0 < len(v.got.trace) {
		got += " with trace [" + clip(v.got.trace) + "]"
	}
	return fmt.Sprintf("%s => slip: %s; the datum is: %s", v.text, got, strings.Join(v.want, " or "))
}

func execQuote(spec string) (res engine.Result) {
	parts := strings.SplitN(spec, "|", 4)
	if len(parts) != 4 {
		res.Fail("harness:bad-spec", spec)
		return
	}
	c, d := findQuote(parts[1], parts[3])
	via := parts[2]
	if c == nil || d == nil || (via != "'" && via != "quote") {
		res.Fail("harness:bad-spec", spec)
		return
	}
	prefix := fmt.Sprintf("c01q%x", engine.Hash64(spec))
	v := judgeQuote(c, via, d, prefix)
	res.Nontrivial = c.name != "top-level"
	if d.compound {
		res.Hit("quote-compound")
	}
	if c.twice {
		res.Hit("quote-evaluated-twice")
	}
	if v.got.err != nil {
		res.Outcome = "err:" + v.got.err.Class
	} else {
		res.Outcome = v.got.val
	}
	if v.ok {
		return
	}
	// The context is part of the signature only when the failure needs it:
	// the same datum, same notation, at top level is fine.
	sig := fmt.Sprintf("quote notation=%s datum=%s kind=%s", via, d.name, v.kind)
	detail := v.describe()
	if c.name != "top-level" {
		top := judgeQuote(&quoteCtxs[0], via, d, prefix+"t")
		if top.ok {
			sig = fmt.Sprintf("quote notation=%s datum=%s context=%s kind=%s", via, d.name, c.name, v.kind)
		} else {
			detail += " [already at top level: " + top.describe() + "]"
		}
	}
	res.Fail(sig, detail)
	return
}
