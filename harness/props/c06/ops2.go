package c06

import (
	"fmt"
	"strings"
)

// ------------------------------------------------------------------------------------------------------------------
// Second-generation alphabet (round 8): operations described by a FAMILY record - a Lisp form template plus the
// reference functions - and instantiated over a list of (destination, source[, second source]) patterns. The groups:
//
//	kw    keyword variants of the sequence functions already in the alphabet: one family per distinct loop / branch
//	      that a keyword selects in the Go source (:start/:end > 0, :from-end t, :count 1, :key, :test)
//	fn    functions that take or return lists and were not in the alphabet
//	box   a list kept in a container across steps (hash table entry, slot, closed-over variable) and the place
//	      operations on it
//	site  the same call site evaluated more than once: a producer in the body of a function / lambda defined once
//	      per history and called into several variables
//
// The first-generation operations (ops.go) have group "".
// ------------------------------------------------------------------------------------------------------------------

// siteDef is a piece of code evaluated ONCE per history (before the first step that needs it): a defun, or a lambda
// stored in a variable of the scope. {F} is replaced by the name.
type siteDef struct {
	name string // function name / variable name
	def  string // definition form, {F} = name
	isFn bool   // defined with defun (called as ({F} ...)) rather than a lambda in a variable (called with funcall)
	once bool   // a global definition (class, flavor) made once per process, not once per history
}

type fam struct {
	name  string
	fn    string // Lisp function named in signatures (default: name)
	group string
	// form is the VALUE form for an assigned operation ((setq D form)) or, when bare is set, the whole step.
	// Placeholders: {D} {S} {T} variables, {N} the fresh fixnum, {M} = N+1, {F} the call of the family's site.
	form  string
	bare  bool
	share shareMode
	destr bool // documented as destructive on its list operand(s)
	keepS bool // destr, but S itself must stay unchanged (only T may be modified)
	keepT bool // destr, but T itself must stay unchanged (only S may be modified)
	ext   bool
	minS  int
	minT  int
	needT bool
	dist  bool // S and T must not share by the language rules
	// dstS: the step assigns the place S itself (push / pop / remf / setf getf on a variable): dst = s
	dstS  bool
	want  func(s, t []int64, n int64) []int64
	wantS func(s []int64, n int64) []int64
	// base: the result of the keyword-free form; counter kw:<name> fires when want differs from it
	base func(s, t []int64, n int64) []int64
	// tail: for the reference models, the result is fresh cells for want[:len(want)-(len(S)-k)] followed by the
	// cells of S from index k = tail(S) (k = len(S): nothing shared). nil: everything fresh (shareNone) /
	// k = len(S)-len(common suffix) is not attempted.
	tail func(s []int64) int
	// tailT: same with T (shareT).
	tailT func(t []int64) int
	site  *siteDef
	// pats: instantiation patterns, blank separated: "ba" = D b, S a; "bab" = D b, S a, T b; "-a" = no D, S a;
	// "b" = D b alone (no operand); locations are a b c h o k.
	pats string
	// thorough: not in the quick alphabet
	thorough bool
	setEq    bool
	okS      func(s []int64) bool
	okST     func(s, t []int64) bool
	wantS2   func(s, t []int64, n int64) []int64
	alt      func(s, t []int64, n int64) []int64
}

var locIndex = map[byte]int{'a': 0, 'b': 1, 'c': 2, 'h': 3, 'o': 4, 'k': 5, '-': -1}

// standard pattern sets, each closed under the exchange of b and c
const (
	patProd  = "ba ca ab ac bc cb"       // producer into another variable
	patProd4 = "ba ca bc cb"             // producer, result never assigned to a
	patSelf  = "aa bb cc"                // (setq X (f X))
	patBare  = "-a -b -c"                // bare call on a variable
	patDst   = "a b c"                   // no operand
	patBin   = "bac cab cba bca abc acb" // D, S, T all different
	patBin2  = "baa caa abb acc bcc cbb" // S == T
	patBareT = "-ab -ac -ba -bc -ca -cb" // bare call with two operands
	patSelfT = "aab aac bba bbc cca ccb" // (setq S (f S T))
)

func expand(tmpl string, d, s, t int, n int64, call string) string {
	r := strings.NewReplacer(
		"{D}", loc(d), "{S}", loc(s), "{T}", loc(t),
		"{N}", fmt.Sprint(n), "{M}", fmt.Sprint(n+1), "{F}", call)
	return r.Replace(tmpl)
}

func loc(i int) string {
	if i < 0 {
		return "nil"
	}
	return varNames[i]
}

var famIndex = map[string]*fam{}

// addFam instantiates a family.
func addFam(f *fam) {
	if f.fn == "" {
		f.fn = f.name
	}
	if f.group == "" {
		panic("family without group: " + f.name)
	}
	if _, has := famIndex[f.name]; has {
		panic("duplicate family " + f.name)
	}
	famIndex[f.name] = f
	for _, p := range strings.Fields(f.pats) {
		d, s, t := -1, -1, -1
		d = locIndex[p[0]]
		if 1 < len(p) {
			s = locIndex[p[1]]
		}
		if 2 < len(p) {
			t = locIndex[p[2]]
		}
		var code string
		switch {
		case s < 0:
			code = fmt.Sprintf("%s=%s()", loc(d), f.name)
		case d < 0 && t < 0:
			code = fmt.Sprintf("%s!(%s)", f.name, loc(s))
		case d < 0:
			code = fmt.Sprintf("%s!(%s,%s)", f.name, loc(s), loc(t))
		case t < 0:
			code = fmt.Sprintf("%s=%s(%s)", loc(d), f.name, loc(s))
		default:
			code = fmt.Sprintf("%s=%s(%s,%s)", loc(d), f.name, loc(s), loc(t))
		}
		if f.dstS {
			d = s
		}
		f, d, s, t := f, d, s, t
		call := ""
		if f.site != nil {
			if f.site.isFn {
				call = f.site.name
			} else {
				call = "funcall " + f.site.name
			}
		}
		o := &opDef{
			code: code, name: f.name, fn: f.fn, group: f.group, dst: d, s: s, t: t, destr: f.destr, share: f.share, ext: f.ext,
			quick: !f.thorough, minS: f.minS, minT: f.minT, needT: f.needT, distinct: f.dist, keepS: f.keepS, keepT: f.keepT,
			tail: f.tail, tailT: f.tailT, site: f.site, base: f.base, famRec: f, setEq: f.setEq, okS: f.okS, okST: f.okST, wantS2: f.wantS2, alt: f.alt,
		}
		o.lisp = func(n int64) string {
			if f.bare {
				return expand(f.form, d, s, t, n, call)
			}
			return "(setq " + loc(d) + " " + expand(f.form, d, s, t, n, call) + ")"
		}
		if f.want != nil {
			o.want = f.want
		}
		if f.wantS != nil {
			o.wantS = f.wantS
		}
		if _, has := opIndex[code]; has {
			panic("duplicate op " + code)
		}
		allOps = append(allOps, o)
		opIndex[code] = o
	}
}

// ---------------------------------------------------------------- helpers for reference functions

type lf = func(s, t []int64, n int64) []int64

// mod2 is (mod x 2) of the language (never negative)
func mod2(x int64) int64 { return ((x % 2) + 2) % 2 }

func even(x int64) bool { return x%2 == 0 }
func odd(x int64) bool  { return x%2 != 0 }

// removeWhere is the reference of the remove / delete family: drop the elements of s[start:end) for which drop
// holds, at most count of them (count < 0: all), counting from the end when fromEnd.
func removeWhere(s []int64, drop func(int64) bool, start, end, count int, fromEnd bool) []int64 {
	if end < 0 || len(s) < end {
		end = len(s)
	}
	gone := make([]bool, len(s))
	k := 0
	idx := func(i int) int {
		if fromEnd {
			return end - 1 - (i - start)
		}
		return i
	}
	for i := start; i < end; i++ {
		j := idx(i)
		if 0 <= count && count <= k {
			break
		}
		if drop(s[j]) {
			gone[j] = true
			k++
		}
	}
	var out []int64
	for i, x := range s {
		if !gone[i] {
			out = append(out, x)
		}
	}
	return out
}

// substWhere: replace by n the elements of s[start:end) for which hit holds (at most count, from the end when fromEnd).
func substWhere(s []int64, n int64, hit func(int64) bool, start, end, count int, fromEnd bool) []int64 {
	if end < 0 || len(s) < end {
		end = len(s)
	}
	out := append([]int64(nil), s...)
	k := 0
	for i := start; i < end; i++ {
		j := i
		if fromEnd {
			j = end - 1 - (i - start)
		}
		if 0 <= count && count <= k {
			break
		}
		if hit(s[j]) {
			out[j] = n
			k++
		}
	}
	return out
}

// dedup is the reference of remove-duplicates: of two elements with eq(earlier, later) the earlier is dropped
// (fromEnd: the later one), only inside [start,end).
func dedup(s []int64, eq func(a, b int64) bool, start, end int, fromEnd bool) []int64 {
	if end < 0 || len(s) < end {
		end = len(s)
	}
	gone := make([]bool, len(s))
	if fromEnd {
		for i := start; i < end; i++ {
			for j := start; j < i; j++ {
				if !gone[j] && eq(s[j], s[i]) {
					gone[i] = true
					break
				}
			}
		}
	} else {
		for i := start; i < end; i++ {
			for j := i + 1; j < end; j++ {
				if eq(s[i], s[j]) {
					gone[i] = true
					break
				}
			}
		}
	}
	var out []int64
	for i, x := range s {
		if !gone[i] {
			out = append(out, x)
		}
	}
	return out
}

func eqv(a, b int64) bool { return a == b }

func indexOf(s []int64, x int64) int {
	for i, y := range s {
		if y == x {
			return i
		}
	}
	return -1
}

func has(s []int64, x int64) bool { return 0 <= indexOf(s, x) }

func one(x int64) []int64 { return []int64{x} }

func sl(xs ...int64) []int64 { return xs }

// optional result (nil when absent) as a one-element list
func opt(ok bool, x int64) []int64 {
	if ok {
		return []int64{x}
	}
	return nil
}

func minInt(a, b int) int {
	if a < b {
		return a
	}
	return b
}

// stable sort by a key
func sortedBy(s []int64, less func(a, b int64) bool) []int64 {
	out := append([]int64(nil), s...)
	for i := 1; i < len(out); i++ { // insertion sort: stable
		for j := i; 0 < j && less(out[j], out[j-1]); j-- {
			out[j], out[j-1] = out[j-1], out[j]
		}
	}
	return out
}

// mergeBy merges two lists the way cl:merge does (stable, elements of a first on ties).
func mergeBy(a, b []int64, less func(x, y int64) bool) []int64 {
	var out []int64
	i, j := 0, 0
	for i < len(a) && j < len(b) {
		if less(b[j], a[i]) {
			out = append(out, b[j])
			j++
		} else {
			out = append(out, a[i])
			i++
		}
	}
	out = append(out, a[i:]...)
	return append(out, b[j:]...)
}

func sameSet(a, b []int64) bool {
	for _, x := range a {
		if !has(b, x) {
			return false
		}
	}
	for _, x := range b {
		if !has(a, x) {
			return false
		}
	}
	return true
}
