package c15

import (
	"fmt"
)

// selftest (S6): mutated reference renderers, each encoding one realistic
// format bug. The enumerated case set must contain a case whose text under
// the real reference is rejected by the mutated one (so if slip had that bug,
// some enumerated case would expose it).
func selftest(tier string) (killed, total int, notes []string) {
	type mutant struct {
		id   int
		name string
		by   string
	}
	muts := []*mutant{
		{id: refMutCommaInterval, name: "comma interval off by one"},
		{id: refMutSignDroppedWhenPadded, name: "@ sign dropped when mincol is given"},
		{id: refMutTeens, name: "teens table shifted by one"},
		{id: refMutOrdinalTens, name: "ordinal of a multiple of ten left cardinal"},
		{id: refMutBackupTwo, name: "~:* backs up one argument too many"},
		{id: refMutDefaultClauseIgnored, name: "~[ ... ~:; default clause ignored"},
		{id: refMutIterMaxOffByOne, name: "~n{ runs n+1 passes"},
	}
	total = len(muts)
	alive := total
	enumerate(tier, func(spec string) {
		if alive == 0 {
			return
		}
		_, env, control, argTexts, ok := parseSpec(spec)
		if !ok {
			return
		}
		// Only cases that can distinguish: cheap syntactic pre-filter per mutant is not needed; the reference is fast.
		args, rerr := readArgs(argTexts)
		if rerr != nil {
			return
		}
		cr := &caseRun{control: control, args: args, env: env}
		vals := make([]*Val, len(args))
		for i, a := range args {
			vals[i] = toVal(a)
		}
		real, okReal, _ := refTexts(cr.newRef(refMutNone), control, vals)
		if !okReal {
			return
		}
		for _, m := range muts {
			if m.by != "" {
				continue
			}
			mt, okM, _ := refTexts(cr.newRef(m.id), control, vals)
			accepted := false
			if okM {
				for _, t := range mt {
					accepted = accepted || t == real[0]
				}
			}
			if !accepted {
				m.by = spec
				alive--
			}
		}
	})
	for _, m := range muts {
		if m.by != "" {
			killed++
			notes = append(notes, fmt.Sprintf("killed: %s -- by %s", m.name, m.by))
		} else {
			notes = append(notes, fmt.Sprintf("SURVIVED: %s", m.name))
		}
	}
	return
}
