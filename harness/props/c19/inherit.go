//go:build verif

package c19

// Inheritance worlds: three definitions - a distant one (b), a nearer one (m)
// and a leaf (l) - in two shapes,
//
//	chain:  b <- m <- l           (l built on m, m built on b)
//	mixin:  l built on (m b)      (m is the nearer component, b the more distant)
//
// and ONE property of the definitions (the default of a variable, an accessor
// option, an init keyword, the documentation, a method, a slot option ...)
// that every level either does not mention or gives in one of two (or three)
// ways. Every assignment of the letters to the three levels is a world: in
// particular the worlds in which the leaf REPEATS what the distant definition
// says while the nearer one says something else, and the worlds in which the
// leaf says again what it would inherit anyway. A writer that leaves
// something out of a saved definition "because it is inherited" has to get
// all of them right.
//
// Every world is used twice: as an A1 case (lf|inh:...: the load forms of the
// three definitions (+ methods) pretty printed at every margin, read back and
// evaluated under fresh names in the same process) and as an A2 session
// (snap|inh:...: snapshot, fresh process, load, snapshot). In both the oracle
// is a table of behaviour probes per level (values of the variables of a new
// instance, which messages / readers / init keywords are accepted,
// documentation, what the method returns) that must be the same in the
// reloaded world; the text fixed point is checked as well but is blind to an
// omission that is made the same way both times.

import (
	"fmt"
	"strings"

	"verif/engine"
)

type inhFamily struct {
	lang    string   // fl (flavors), cl (CLOS classes), st (defstruct)
	name    string   // signature: what varies
	letters string   // alphabet of a level ('-' = the level does not mention it)
	tletter string   // letters only used by the thorough tier
	vals    []string // value kinds / variable patterns (second dimension)
	tvals   []string // ... only used by the thorough tier
	shapes  []string
	noSnap  bool // A1 only
}

var inhValueKinds = map[string][2]string{
	"num": {"1", "2"},
	"sym": {"'plain", "'fancy"},
	"str": {`"one"`, `"two"`},
	"lst": {`(list 1 "x")`, `(list 2 "x")`},
}

var bothShapes = []string{"chain", "mixin"}

// patterns of the shared variable v for the option families: which level
// gives v which default ('-' = the level does not mention v).
var (
	optPatternsQuick    = []string{"1--", "1-1", "121"}
	optPatternsThorough = []string{"11-", "12-", "--1", "122", "-1-", "-11", "-12"}
)

var inhFamilies = []*inhFamily{
	{lang: "fl", name: "default", letters: "-ab", tletter: "n", vals: []string{"num", "sym"}, tvals: []string{"str", "lst"}, shapes: bothShapes},
	{lang: "fl", name: "gettable", letters: "-v*", tletter: "w", vals: optPatternsQuick, tvals: optPatternsThorough, shapes: bothShapes},
	{lang: "fl", name: "settable", letters: "-v*", tletter: "w", vals: optPatternsQuick, tvals: optPatternsThorough, shapes: bothShapes},
	{lang: "fl", name: "inittable", letters: "-v*", tletter: "w", vals: optPatternsQuick, tvals: optPatternsThorough, shapes: bothShapes},
	{lang: "fl", name: "init-keywords", letters: "-ab", vals: []string{"x"}, shapes: bothShapes},
	{lang: "fl", name: "default-init-plist", letters: "-ab", vals: []string{"x"}, shapes: bothShapes},
	{lang: "fl", name: "allow-other-keys", letters: "-ab", vals: []string{"x"}, shapes: bothShapes},
	{lang: "fl", name: "documentation", letters: "-ab", vals: []string{"x"}, shapes: bothShapes},
	{lang: "fl", name: "method", letters: "-ab", vals: []string{"x"}, shapes: bothShapes},
	{lang: "fl", name: "before-daemon", letters: "-ab", vals: nil, tvals: []string{"x"}, shapes: bothShapes},
	{lang: "cl", name: "initform", letters: "-ab", tletter: "n", vals: []string{"num", "sym"}, tvals: []string{"str", "lst"}, shapes: bothShapes},
	{lang: "cl", name: "initarg", letters: "-ab", vals: []string{"x"}, shapes: bothShapes},
	{lang: "cl", name: "reader", letters: "-ab", vals: []string{"x"}, shapes: bothShapes},
	{lang: "cl", name: "writer", letters: "-ab", vals: nil, tvals: []string{"x"}, shapes: bothShapes},
	{lang: "cl", name: "accessor", letters: "-ab", vals: nil, tvals: []string{"x"}, shapes: bothShapes},
	{lang: "cl", name: "documentation", letters: "-ab", vals: []string{"x"}, shapes: bothShapes},
	{lang: "cl", name: "slot-documentation", letters: "-ab", vals: nil, tvals: []string{"x"}, shapes: bothShapes},
	{lang: "cl", name: "default-initargs", letters: "-ab", vals: []string{"x"}, shapes: bothShapes},
	{lang: "cl", name: "allocation", letters: "-ab", vals: nil, tvals: []string{"x"}, shapes: bothShapes},
	{lang: "cl", name: "generic-method", letters: "-ab", vals: []string{"x"}, shapes: bothShapes},
	{lang: "cl", name: "generic-next-method", letters: "-ab", vals: nil, tvals: []string{"x"}, shapes: bothShapes},
	// not an inheritance shape, the same kind of omission: level b is the generic function's documentation, m and l are
	// the documentation strings of two of its methods
	{lang: "cl", name: "generic-documentation", letters: "-ab", vals: []string{"x"}, shapes: []string{"flat"}},
	{lang: "st", name: "default", letters: "-ab", vals: []string{"num"}, tvals: []string{"sym"}, shapes: []string{"chain"}, noSnap: true},
}

func inhFamilyOf(lang, name string) *inhFamily {
	for _, f := range inhFamilies {
		if f.lang == lang && f.name == name {
			return f
		}
	}
	return nil
}

// inhWorld is one generated world. Names are written with '$' (replaced by a
// fresh prefix in A1 and by "ih-" in the sessions).
type inhWorld struct {
	fam     *inhFamily
	shape   string
	val     string
	letters string
	tier    string

	support string   // defined before the world, not under test (A1: renamed and evaluated again for the copy)
	forms   []string // the defining forms, in definition order
	defs    []string // A1: expressions giving the load forms, in order
	probes  []string
	pnames  []string
	// repeats: the leaf says what the distant definition says while the nearer one says something else
	repeats bool
	// restates: the leaf says what the nearer definition says
	restates bool
}

func (w *inhWorld) label() string {
	return "inh:" + w.fam.lang + ":" + w.fam.name + ":" + w.shape + ":" + w.val + ":" + w.letters
}

func (w *inhWorld) kind() string {
	switch w.fam.lang {
	case "fl":
		return "flavor"
	case "cl":
		if strings.HasPrefix(w.fam.name, "generic") {
			return "generic"
		}
		return "class"
	}
	return "struct"
}

func (w *inhWorld) feat() string {
	return "inherit-" + w.fam.name + "/" + w.shape
}

var levelNames = [3]string{"$b", "$m", "$l"}
var levelWords = [3]string{"distant", "nearer", "leaf"}

// supers of a level, nearest first.
func inhSupers(shape string, level int) []int {
	switch shape {
	case "chain":
		if 0 < level {
			return []int{level - 1}
		}
	case "mixin":
		if level == 2 {
			return []int{1, 0}
		}
	}
	return nil
}

// inhVisible: the levels whose definitions a level is built from (itself first).
func inhVisible(shape string, level int) []int {
	out := []int{level}
	switch shape {
	case "chain":
		for k := level - 1; 0 <= k; k-- {
			out = append(out, k)
		}
	case "mixin":
		if level == 2 {
			out = append(out, 1, 0)
		}
	}
	return out
}

func superList(shape string, level int) string {
	var names []string
	for _, s := range inhSupers(shape, level) {
		names = append(names, levelNames[s])
	}
	return "(" + strings.Join(names, " ") + ")"
}

func (w *inhWorld) probe(name, src string) {
	w.pnames = append(w.pnames, name)
	w.probes = append(w.probes, src)
}

// buildInhWorld generates the world; ok is false when the assignment is not
// meaningful (an option naming a variable the level does not have; no method
// at all on the generic function).
func buildInhWorld(fam *inhFamily, shape, val, letters string) (w *inhWorld, ok bool) {
	w = &inhWorld{fam: fam, shape: shape, val: val, letters: letters}
	if len(letters) != 3 {
		return nil, false
	}
	if strings.ContainsAny(letters, fam.tletter) && fam.tletter != "" {
		w.tier = engine.Thorough
	}
	for _, v := range fam.tvals {
		if v == val {
			w.tier = engine.Thorough
		}
	}
	near := 1
	w.repeats = letters[2] != '-' && letters[2] == letters[0] && letters[near] != '-' && letters[near] != letters[2]
	w.restates = letters[2] != '-' && letters[2] == letters[near]
	switch fam.lang {
	case "fl":
		ok = w.buildFlavors()
	case "cl":
		ok = w.buildClasses()
	case "st":
		ok = w.buildStructs()
	}
	return w, ok
}

func (w *inhWorld) abVal(c byte) string {
	kv := inhValueKinds[w.val]
	if c == 'a' {
		return kv[0]
	}
	return kv[1]
}

func (w *inhWorld) buildFlavors() bool {
	fam := w.fam
	optionFamily := fam.name == "gettable" || fam.name == "settable" || fam.name == "inittable"
	if fam.name == "before-daemon" {
		w.support = "(defvar $t nil)"
	}
	var methods []string
	for lv := 0; lv < 3; lv++ {
		name := levelNames[lv]
		c := w.letters[lv]
		var vars, opts []string
		switch {
		case fam.name == "default":
			switch c {
			case 'a', 'b':
				vars = append(vars, "(v "+w.abVal(c)+")")
			case 'n':
				vars = append(vars, "v")
			}
		case optionFamily:
			// the shared variable v follows the pattern; every level has a variable of its own
			if pc := w.val[lv]; pc != '-' {
				vars = append(vars, "(v "+string(pc)+")")
			}
			vars = append(vars, fmt.Sprintf("(w%d %d)", lv, 10+lv))
			vVisible := false
			for _, k := range inhVisible(w.shape, lv) {
				vVisible = vVisible || w.val[k] != '-'
			}
			opt := ":" + fam.name + "-instance-variables"
			switch c {
			case '*':
				opts = append(opts, opt)
			case 'v':
				if !vVisible {
					return false
				}
				opts = append(opts, "("+opt+" v)")
			case 'w':
				opts = append(opts, fmt.Sprintf("(%s w%d)", opt, lv))
			}
		default:
			vars = append(vars, fmt.Sprintf("(w%d %d)", lv, 10+lv))
			switch fam.name {
			case "init-keywords":
				if c != '-' {
					opts = append(opts, "(:init-keywords :k"+string(c)+")")
				}
			case "default-init-plist":
				switch c {
				case 'a':
					opts = append(opts, "(:default-init-plist (:k 1))")
				case 'b':
					opts = append(opts, "(:default-init-plist (:k 2))")
				}
			case "allow-other-keys":
				switch c {
				case 'a':
					opts = append(opts, "(:default-init-plist (:allow-other-keys t))")
				case 'b':
					opts = append(opts, "(:default-init-plist (:allow-other-keys nil))")
				}
			case "documentation":
				switch c {
				case 'a':
					opts = append(opts, `(:documentation "Doc A.")`)
				case 'b':
					opts = append(opts, `(:documentation "Doc B.")`)
				}
			case "method":
				switch c {
				case 'a':
					methods = append(methods, "(defmethod ("+name+" :m) () 'one)")
				case 'b':
					methods = append(methods, "(defmethod ("+name+" :m) () 'two)")
				}
				if c != '-' {
					w.defs = append(w.defs, "method:"+name+":primary:m")
				}
			case "before-daemon":
				if lv == 0 {
					methods = append(methods, "(defmethod ("+name+" :m) () (setq $t (cons 'primary $t)) 'done)")
					w.defs = append(w.defs, "method:"+name+":primary:m")
				}
				switch c {
				case 'a':
					methods = append(methods, "(defmethod ("+name+" :before :m) () (setq $t (cons 'one $t)))")
				case 'b':
					methods = append(methods, "(defmethod ("+name+" :before :m) () (setq $t (cons 'two $t)))")
				}
				if c != '-' {
					w.defs = append(w.defs, "method:"+name+":before:m")
				}
			}
		}
		form := "(defflavor " + name + " (" + strings.Join(vars, " ") + ") " + superList(w.shape, lv)
		if 0 < len(opts) {
			form += " " + strings.Join(opts, " ")
		}
		w.forms = append(w.forms, form+")")
	}
	w.forms = append(w.forms, methods...)
	// load forms: the three flavors, then the methods
	w.defs = append([]string{"(make-load-form '$b)", "(make-load-form '$m)", "(make-load-form '$l)"}, w.defs...)
	// probes, leaf first
	for lv := 2; 0 <= lv; lv-- {
		x := levelNames[lv]
		at := "@" + levelWords[lv]
		_ = at
		mk := "(make-instance '" + x + ")"
		switch {
		case fam.name == "default":
			w.probe("value-of-v", "(slot-value "+mk+" 'v)")
		case optionFamily:
			w.probe("value-of-v", "(slot-value "+mk+" 'v)")
			for _, y := range []string{"v", "w0", "w1", "w2"} {
				pn := "v"
				if y != "v" {
					pn = "component-variable"
					if y == fmt.Sprintf("w%d", lv) {
						pn = "own-variable"
					}
				}
				switch fam.name {
				case "gettable":
					w.probe("getter-of-"+pn, "(send "+mk+" :"+y+")")
				case "settable":
					w.probe("setter-of-"+pn, "(let ((i "+mk+")) (send i :set-"+y+" 9) (slot-value i '"+y+"))")
				case "inittable":
					w.probe("init-keyword-of-"+pn, "(slot-value (make-instance '"+x+" :"+y+" 7) '"+y+")")
				}
			}
		case fam.name == "init-keywords":
			w.probe("accepts-init-keyword", "(progn (make-instance '"+x+" :ka 1) 'accepted)")
			w.probe("accepts-init-keyword", "(progn (make-instance '"+x+" :kb 1) 'accepted)")
		case fam.name == "default-init-plist":
			w.probe("accepts-init-keyword", "(progn (make-instance '"+x+" :k 5) 'accepted)")
		case fam.name == "allow-other-keys":
			w.probe("accepts-other-keyword", "(progn (make-instance '"+x+" :zz 5) 'accepted)")
		case fam.name == "documentation":
			w.probe("documentation", "(documentation '"+x+" 'type)")
		case fam.name == "method":
			w.probe("method-result", "(send "+mk+" :m)")
		case fam.name == "before-daemon":
			w.probe("daemon-trace", "(progn (setq $t nil) (list (send "+mk+" :m) $t))")
		}
	}
	return true
}

func (w *inhWorld) buildClasses() bool {
	fam := w.fam
	if fam.name == "generic-documentation" {
		return w.buildGenericDoc()
	}
	generic := strings.HasPrefix(fam.name, "generic")
	var methods []string
	for lv := 0; lv < 3; lv++ {
		name := levelNames[lv]
		c := w.letters[lv]
		var slots, opts []string
		switch fam.name {
		case "initform":
			switch c {
			case 'a', 'b':
				slots = append(slots, "(s :initform "+w.abVal(c)+")")
			case 'n':
				slots = append(slots, "s")
			}
		case "initarg":
			if c != '-' {
				slots = append(slots, "(s :initarg :"+string(c)+")")
			}
		case "reader", "writer", "accessor":
			if c != '-' {
				slots = append(slots, "(s :initform 1 :"+fam.name+" $r"+string(c)+")")
			}
		case "slot-documentation":
			switch c {
			case 'a':
				slots = append(slots, `(s :initform 1 :documentation "Doc A.")`)
			case 'b':
				slots = append(slots, `(s :initform 1 :documentation "Doc B.")`)
			}
		case "allocation":
			switch c {
			case 'a':
				slots = append(slots, "(s :initform 1 :allocation :class)")
			case 'b':
				slots = append(slots, "(s :initform 1 :allocation :instance)")
			}
		case "documentation":
			slots = append(slots, fmt.Sprintf("(w%d :initform %d)", lv, 10+lv))
			switch c {
			case 'a':
				opts = append(opts, `(:documentation "Doc A.")`)
			case 'b':
				opts = append(opts, `(:documentation "Doc B.")`)
			}
		case "default-initargs":
			slots = append(slots, "(s :initarg :s)")
			switch c {
			case 'a':
				opts = append(opts, "(:default-initargs :s 1)")
			case 'b':
				opts = append(opts, "(:default-initargs :s 2)")
			}
		case "generic-method":
			slots = append(slots, fmt.Sprintf("(w%d :initform %d)", lv, 10+lv))
			switch c {
			case 'a':
				methods = append(methods, "(defmethod $g ((o "+name+")) (list 'one))")
			case 'b':
				methods = append(methods, "(defmethod $g ((o "+name+")) (list 'two))")
			}
		case "generic-next-method":
			slots = append(slots, fmt.Sprintf("(w%d :initform %d)", lv, 10+lv))
			switch c {
			case 'a':
				methods = append(methods, "(defmethod $g ((o "+name+")) (cons 'one (if (next-method-p) (call-next-method) nil)))")
			case 'b':
				methods = append(methods, "(defmethod $g ((o "+name+")) (cons 'two (if (next-method-p) (call-next-method) nil)))")
			}
		}
		form := "(defclass " + name + " " + superList(w.shape, lv) + " (" + strings.Join(slots, " ") + ")"
		if 0 < len(opts) {
			form += " " + strings.Join(opts, " ")
		}
		w.forms = append(w.forms, form+")")
	}
	if generic && len(methods) == 0 {
		return false
	}
	w.forms = append(w.forms, methods...)
	w.defs = []string{"(make-load-form '$b)", "(make-load-form '$m)", "(make-load-form '$l)"}
	if generic {
		w.defs = append(w.defs, "(make-load-form '$g)")
	}
	for lv := 2; 0 <= lv; lv-- {
		x := levelNames[lv]
		mk := "(make-instance '" + x + ")"
		switch fam.name {
		case "initform", "slot-documentation":
			w.probe("value-of-s", "(slot-value "+mk+" 's)")
		case "initarg":
			w.probe("accepts-initarg", "(slot-value (make-instance '"+x+" :a 7) 's)")
			w.probe("accepts-initarg", "(slot-value (make-instance '"+x+" :b 7) 's)")
		case "reader":
			w.probe("reader", "($ra "+mk+")")
			w.probe("reader", "($rb "+mk+")")
		case "writer":
			w.probe("writer", "(let ((i "+mk+")) ($ra i 8) (slot-value i 's))")
			w.probe("writer", "(let ((i "+mk+")) ($rb i 8) (slot-value i 's))")
		case "accessor":
			w.probe("accessor", "(let ((i "+mk+")) (list ($ra i) (setf ($ra i) 8) (slot-value i 's)))")
			w.probe("accessor", "(let ((i "+mk+")) (list ($rb i) (setf ($rb i) 8) (slot-value i 's)))")
		case "allocation":
			w.probe("shared-slot", "(let ((i "+mk+") (j "+mk+")) (setf (slot-value i 's) 9) (slot-value j 's))")
		case "documentation":
			w.probe("documentation", "(documentation '"+x+" 'type)")
		case "default-initargs":
			w.probe("value-of-s", "(slot-value "+mk+" 's)")
			w.probe("value-of-s", "(slot-value (make-instance '"+x+" :s 7) 's)")
		case "generic-method", "generic-next-method":
			w.probe("method-result", "($g "+mk+")")
		}
	}
	if fam.name == "allocation" {
		// a class allocated slot written through the leaf, read through the other levels
		w.probe("shared-slot", "(let ((i (make-instance '$l)) (j (make-instance '$m)) (k (make-instance '$b))) (setf (slot-value i 's) 5) (list (slot-value j 's) (slot-value k 's)))")
	}
	return true
}

// buildGenericDoc: level b = documentation of the generic function, m and l =
// documentation of the method on fixnum / on string.
func (w *inhWorld) buildGenericDoc() bool {
	doc := func(c byte) string {
		switch c {
		case 'a':
			return `"Doc A."`
		case 'b':
			return `"Doc B."`
		}
		return ""
	}
	g := "(defgeneric $g (x)"
	if d := doc(w.letters[0]); d != "" {
		g += " (:documentation " + d + ")"
	}
	w.forms = append(w.forms, g+")")
	w.forms = append(w.forms, strings.Join(strings.Fields("(defmethod $g ((x fixnum)) "+doc(w.letters[1])+" (list 'fixnum x))"), " "))
	w.forms = append(w.forms, strings.Join(strings.Fields("(defmethod $g ((x string)) "+doc(w.letters[2])+" (list 'string x))"), " "))
	w.defs = []string{"(make-load-form '$g)"}
	w.probe("generic-documentation", "(documentation '$g 'function)")
	// a method without documentation is written with the documentation of the generic function (pinned by the
	// repository test TestDefmethodGenericLoadForm): what is compared is the method's own documentation or else the
	// generic function's
	w.probe("method-documentation", effectiveMethodDoc("$g", "fixnum"))
	w.probe("method-documentation", effectiveMethodDoc("$g", "string"))
	w.probe("method-result", `(list ($g 1) ($g "s"))`)
	// here "repeats" = a method says what the generic function says while the other method says something else
	w.repeats = w.letters[2] != '-' && w.letters[2] == w.letters[0] && w.letters[1] != w.letters[2]
	w.restates = w.letters[0] != '-' && (w.letters[1] == '-' || w.letters[2] == '-')
	return true
}

func effectiveMethodDoc(g, spec string) string {
	return "(let ((d (documentation (find-method (function " + g + ") nil '(" + spec + ")) t))) (if (equal d \"\") (documentation '" + g + " 'function) d))"
}

func (w *inhWorld) buildStructs() bool {
	for lv := 0; lv < 3; lv++ {
		name := levelNames[lv]
		head := name
		if 0 < lv {
			head = "(" + name + " (:include " + levelNames[lv-1] + "))"
		}
		var slots []string
		if c := w.letters[lv]; c != '-' {
			slots = append(slots, "(v "+w.abVal(c)+")")
		}
		slots = append(slots, fmt.Sprintf("(w%d %d)", lv, 10+lv))
		w.forms = append(w.forms, "(defstruct "+head+" "+strings.Join(slots, " ")+")")
	}
	w.defs = []string{"(make-load-form '$b)", "(make-load-form '$m)", "(make-load-form '$l)"}
	for lv := 2; 0 <= lv; lv-- {
		x := levelNames[lv]
		w.probe("value-of-v", "("+x+"-v (make-"+x+"))")
		w.probe("value-of-own-slot", fmt.Sprintf("(%s-w%d (make-%s))", x, lv, x))
	}
	return true
}

// ---------------------------------------------------------------- enumeration

// inhSpec names a world; the world itself is built when it is executed (every
// worker and every child process enumerates, only the executing one builds).
type inhSpec struct {
	fam     *inhFamily
	shape   string
	val     string
	letters string
}

func (sp *inhSpec) label() string {
	return "inh:" + sp.fam.lang + ":" + sp.fam.name + ":" + sp.shape + ":" + sp.val + ":" + sp.letters
}

func (sp *inhSpec) thorough() bool {
	if sp.fam.tletter != "" && strings.ContainsAny(sp.letters, sp.fam.tletter) {
		return true
	}
	for _, v := range sp.fam.tvals {
		if v == sp.val {
			return true
		}
	}
	return false
}

// valid: an option that names the shared variable needs a level that has it;
// a generic function needs a method.
func (sp *inhSpec) valid() bool {
	switch sp.fam.name {
	case "gettable", "settable", "inittable":
		for lv := 0; lv < 3; lv++ {
			if sp.letters[lv] != 'v' {
				continue
			}
			vis := false
			for _, k := range inhVisible(sp.shape, lv) {
				vis = vis || sp.val[k] != '-'
			}
			if !vis {
				return false
			}
		}
	case "generic-method", "generic-next-method":
		return sp.letters != "---"
	}
	return true
}

var inhSpecs []*inhSpec

func words3(alpha string) (out []string) {
	// simplest first: by the number of levels that mention the thing
	var all []string
	for _, a := range alpha {
		for _, b := range alpha {
			for _, c := range alpha {
				all = append(all, string([]rune{a, b, c}))
			}
		}
	}
	for n := 0; n <= 3; n++ {
		for _, s := range all {
			if 3-strings.Count(s, "-") == n {
				out = append(out, s)
			}
		}
	}
	return
}

func init() {
	for _, fam := range inhFamilies {
		words := words3(fam.letters + fam.tletter)
		vals := append(append([]string(nil), fam.vals...), fam.tvals...)
		for _, val := range vals {
			for _, shape := range fam.shapes {
				for _, letters := range words {
					sp := &inhSpec{fam: fam, shape: shape, val: val, letters: letters}
					if sp.valid() {
						inhSpecs = append(inhSpecs, sp)
					}
				}
			}
		}
	}
}

func parseInhLabel(label string) *inhSpec {
	parts := strings.Split(label, ":")
	if len(parts) != 6 || parts[0] != "inh" {
		return nil
	}
	fam := inhFamilyOf(parts[1], parts[2])
	if fam == nil || len(parts[5]) != 3 {
		return nil
	}
	sp := &inhSpec{fam: fam, shape: parts[3], val: parts[4], letters: parts[5]}
	okShape := false
	for _, sh := range fam.shapes {
		okShape = okShape || sh == sp.shape
	}
	okVal := false
	for _, v := range append(append([]string(nil), fam.vals...), fam.tvals...) {
		okVal = okVal || v == sp.val
	}
	for _, c := range sp.letters {
		if !strings.ContainsRune(fam.letters+fam.tletter, c) {
			return nil
		}
	}
	if !okShape || !okVal || !sp.valid() {
		return nil
	}
	return sp
}

var inhBuilt = map[string]*inhWorld{}

func inhWorldOf(label string) *inhWorld {
	if w, has := inhBuilt[label]; has {
		return w
	}
	sp := parseInhLabel(label)
	if sp == nil {
		return nil
	}
	w, ok := buildInhWorld(sp.fam, sp.shape, sp.val, sp.letters)
	if !ok {
		w = nil
	}
	inhBuilt[label] = w
	return w
}

// inhCase: the world as an A1 case.
func inhCase(label string) *lfCase {
	w := inhWorldOf(label)
	if w == nil {
		return nil
	}
	c := &lfCase{label: label, kind: w.kind(), feat: w.feat(), support: w.support,
		setup: strings.Join(w.forms, "\n"), defs: w.defs, tier: w.tier,
		probes: append([]string(nil), w.probes...), pnames: append([]string(nil), w.pnames...), inh: w}
	// the load form of every definition of the copy is the load form of the original
	for _, d := range w.defs {
		if strings.HasPrefix(d, "(make-load-form") {
			c.probes = append(c.probes, d)
			c.pnames = append(c.pnames, "")
		}
	}
	switch w.fam.name {
	case "reader", "writer", "accessor":
		c.parts = []string{"class:" + w.fam.name}
	}
	return c
}

// inhItem: the world as a session of its own (fixed names: every session has
// processes of its own).
func inhItem(id string) *item {
	w := inhWorldOf(id)
	if w == nil || w.fam.noSnap {
		return nil
	}
	ren := func(s string) string { return strings.ReplaceAll(s, "$", "ih-") }
	it := &item{id: id}
	if w.support != "" {
		it.src = append(it.src, ren(w.support))
	}
	for _, f := range w.forms {
		it.src = append(it.src, ren(f))
	}
	for _, p := range w.probes {
		it.probes = append(it.probes, ren(p))
	}
	if itemMetas[id] == nil {
		itemMetas[id] = &itemMeta{sig: w.kind() + ":" + w.feat(), pnames: w.pnames, inh: w}
	}
	return it
}

func enumerateInhLF(tier string, emit func(string)) {
	for _, sp := range inhSpecs {
		if sp.thorough() && tier != engine.Thorough {
			continue
		}
		emit("lf|" + sp.label())
	}
}

func enumerateInhSnap(tier string, out func(ids []string)) {
	for _, sp := range inhSpecs {
		if sp.fam.noSnap || (sp.thorough() && tier != engine.Thorough) {
			continue
		}
		out([]string{sp.label()})
	}
}

func inhCount(tier string) (worlds, sessions int) {
	for _, sp := range inhSpecs {
		if sp.thorough() && tier != engine.Thorough {
			continue
		}
		worlds++
		if !sp.fam.noSnap {
			sessions++
		}
	}
	return
}
