package c12

import (
	"fmt"
	"sort"
	"strconv"
	"strings"

	"verif/engine"
)

// ---------------------------------------------------------------- case description

// slotDecl is one slot specifier of one defclass form.
type slotDecl struct {
	name     string   // "s" or "u"
	initargs []string // subset of a, b, k (k is the initarg shared between s and u)
	form     int      // 0 = no initform, 1 = value initform, 2 = initform nil
	val      int      // value of the initform when form == 1
	shared   bool     // :allocation :class
}

// classDef is one defclass form: ordered direct superclasses and the two slot
// option strings. Option letters: o = bare slot, a/b/k = :initarg :a/:b/:k,
// f = :initform <number>, n = :initform nil, c = :allocation :class, "-" = slot not declared here.
// dopt: the initargs (letters a, b, k) for which the class option :default-initargs gives a default form.
type classDef struct {
	supers []int
	sopt   string
	uopt   string
	dopt   string
	bump   bool // redefinition: initform and default-initarg values are shifted by +5
}

func (d classDef) slotText() string {
	if d.dopt != "" {
		return d.sopt + "." + d.uopt + "." + d.dopt
	}
	return d.sopt + "." + d.uopt
}

func (d classDef) String() string {
	return supText(d.supers) + "=" + d.slotText()
}

// defaults of class i: initarg letter -> value of its default form.
func (d classDef) defaults(i int) map[string]int {
	if d.dopt == "" {
		return nil
	}
	off := 0
	if d.bump {
		off = 5
	}
	out := map[string]int{}
	for k, a := range argOrder {
		if strings.Contains(d.dopt, a) {
			out[a] = 300 + 10*(i+1) + k + off
		}
	}
	return out
}

// splitSlots parses "sopt.uopt" or "sopt.uopt.dopt".
func splitSlots(s string) (so, uo, do string, err error) {
	su := strings.Split(s, ".")
	if len(su) != 2 && len(su) != 3 {
		return "", "", "", fmt.Errorf("bad slots %q", s)
	}
	if len(su) == 3 {
		do = su[2]
	}
	return su[0], su[1], do, nil
}

func supText(s []int) string {
	if len(s) == 0 {
		return "-"
	}
	var b strings.Builder
	for _, x := range s {
		b.WriteString(strconv.Itoa(x))
	}
	return b.String()
}

func parseSup(s string) []int {
	if s == "-" || s == "" {
		return nil
	}
	out := make([]int, 0, len(s))
	for _, ch := range s {
		out = append(out, int(ch-'0'))
	}
	return out
}

func declFrom(name, opt string, base int) (slotDecl, bool) {
	if opt == "-" || opt == "" {
		return slotDecl{}, false
	}
	d := slotDecl{name: name}
	for _, ch := range opt {
		switch ch {
		case 'a', 'b', 'k':
			d.initargs = append(d.initargs, string(ch))
		case 'f':
			d.form = 1
			d.val = base
		case 'n':
			d.form = 2
		case 'c':
			d.shared = true
		case 'o':
		default:
			panic("bad slot option " + opt)
		}
	}
	return d, true
}

// slots of class i under this definition.
func (d classDef) slots(i int) []slotDecl {
	var out []slotDecl
	off := 0
	if d.bump {
		off = 5
	}
	if sd, ok := declFrom("s", d.sopt, 10*(i+1)+1+off); ok {
		out = append(out, sd)
	}
	if sd, ok := declFrom("u", d.uopt, 10*(i+1)+2+off); ok {
		out = append(out, sd)
	}
	return out
}

func (d classDef) slot(i int, name string) (slotDecl, bool) {
	for _, sd := range d.slots(i) {
		if sd.name == name {
			return sd, true
		}
	}
	return slotDecl{}, false
}

type redefSpec struct {
	r   int
	def classDef
}

type caseSpec struct {
	n     int
	defs  []classDef
	redef *redefSpec
	warm  bool
	ext   bool // extended probes (ext.go)
}

var slotNames = []string{"s", "u"}
var argValue = map[string]int{"a": 101, "b": 151, "k": 201}
var argOrder = []string{"a", "b", "k"}

func (c *caseSpec) String() string {
	var sup, sl []string
	for _, d := range c.defs {
		sup = append(sup, supText(d.supers))
		sl = append(sl, d.slotText())
	}
	r := "-"
	if c.redef != nil {
		r = fmt.Sprintf("%d=%s", c.redef.r, c.redef.def.String())
		if !c.redef.def.bump {
			r += "=same"
		}
	}
	w := ""
	if c.warm {
		w = "w"
	}
	if c.ext {
		w += "x"
	}
	if w == "" {
		w = "-"
	}
	return fmt.Sprintf("%d|%s|%s|%s|%s", c.n, strings.Join(sup, ","), strings.Join(sl, ","), r, w)
}

func parseCase(spec string) (*caseSpec, error) {
	p := strings.Split(spec, "|")
	if len(p) != 5 {
		return nil, fmt.Errorf("want 5 fields")
	}
	n, err := strconv.Atoi(p[0])
	if err != nil || n < 1 || 9 < n {
		return nil, fmt.Errorf("bad n")
	}
	sup := strings.Split(p[1], ",")
	sl := strings.Split(p[2], ",")
	if len(sup) != n || len(sl) != n {
		return nil, fmt.Errorf("field count")
	}
	c := &caseSpec{n: n, warm: strings.Contains(p[4], "w"), ext: strings.Contains(p[4], "x")}
	for i := 0; i < n; i++ {
		so, uo, do, err := splitSlots(sl[i])
		if err != nil {
			return nil, err
		}
		d := classDef{supers: parseSup(sup[i]), sopt: so, uopt: uo, dopt: do}
		for _, x := range d.supers {
			if x < 0 || n <= x || x == i {
				return nil, fmt.Errorf("bad super")
			}
		}
		c.defs = append(c.defs, d)
	}
	if p[3] != "-" {
		q := strings.Split(p[3], "=")
		if len(q) != 3 && !(len(q) == 4 && q[3] == "same") {
			return nil, fmt.Errorf("bad redef")
		}
		r, err := strconv.Atoi(q[0])
		if err != nil || r < 0 || n <= r {
			return nil, fmt.Errorf("bad redef class")
		}
		so, uo, do, err := splitSlots(q[2])
		if err != nil {
			return nil, err
		}
		c.redef = &redefSpec{r: r, def: classDef{supers: parseSup(q[1]), sopt: so, uopt: uo, dopt: do, bump: len(q) == 3}}
	}
	return c, nil
}

// finalDefs are the definitions in force at the end of every history.
func (c *caseSpec) finalDefs() []classDef {
	out := append([]classDef(nil), c.defs...)
	if c.redef != nil {
		out[c.redef.r] = c.redef.def
	}
	return out
}

// ---------------------------------------------------------------- histories

// A history is an order of the forms 0..n-1 (original defclass of class i) and
// n (the redefinition, if any); the redefinition comes after the original.
func (c *caseSpec) histories() [][]int {
	m := c.n
	if c.redef != nil {
		m++
	}
	var out [][]int
	perm := make([]int, 0, m)
	used := make([]bool, m)
	var rec func()
	rec = func() {
		if len(perm) == m {
			out = append(out, append([]int(nil), perm...))
			return
		}
		for f := 0; f < m; f++ {
			if used[f] {
				continue
			}
			if f == c.n && !used[c.redef.r] {
				continue
			}
			used[f] = true
			perm = append(perm, f)
			rec()
			perm = perm[:len(perm)-1]
			used[f] = false
		}
	}
	rec()
	return out
}

// ---------------------------------------------------------------- class graph helpers

// ancestors of class i (excluding i) under defs restricted to defined classes;
// ok is false when some ancestor is not defined or the graph has a cycle through i.
func ancestors(defs []classDef, defined []bool, i int) (set map[int]bool, ok bool) {
	set = map[int]bool{}
	ok = true
	var walk func(x int, depth int)
	walk = func(x int, depth int) {
		if 20 < depth {
			ok = false
			return
		}
		for _, s := range defs[x].supers {
			if defined != nil && !defined[s] {
				ok = false
				continue
			}
			if s == i {
				ok = false
				continue
			}
			if !set[s] {
				set[s] = true
				walk(s, depth+1)
			}
		}
	}
	if defined != nil && !defined[i] {
		return set, false
	}
	walk(i, 0)
	return
}

// acyclic reports whether the definitions contain no inheritance cycle.
func acyclic(defs []classDef) bool {
	for i := range defs {
		if _, ok := ancestors(defs, nil, i); !ok {
			return false
		}
	}
	return true
}

// canonPrec is the precedence the sentence "direct superclasses in the order
// written followed by theirs" yields when read the way slip implements it:
// direct superclasses first, then each direct superclass' own list.
func canonPrec(defs []classDef, i int) []int {
	var inh func(x int, depth int) []int
	inh = func(x int, depth int) []int {
		var l []int
		has := func(y int) bool {
			for _, z := range l {
				if z == y {
					return true
				}
			}
			return false
		}
		for _, s := range defs[x].supers {
			if !has(s) {
				l = append(l, s)
			}
		}
		if depth < 12 {
			direct := append([]int(nil), l...)
			for _, d := range direct {
				for _, a := range inh(d, depth+1) {
					if !has(a) {
						l = append(l, a)
					}
				}
			}
		}
		return l
	}
	return append([]int{i}, inh(i, 0)...)
}

// shape classifies the ancestor graph of class i.
func shape(defs []classDef, i int) string {
	anc, _ := ancestors(defs, nil, i)
	if len(anc) == 0 {
		return "root"
	}
	multi := false
	paths := map[int]int{}
	var walk func(x int, depth int)
	walk = func(x int, depth int) {
		if 12 < depth {
			return
		}
		if 1 < len(defs[x].supers) {
			multi = true
		}
		for _, s := range defs[x].supers {
			paths[s]++
			walk(s, depth+1)
		}
	}
	walk(i, 0)
	if !multi {
		return "chain"
	}
	// a direct superclass that is also an ancestor of another direct superclass (at any level)
	for x := range anc {
		_ = x
	}
	redundant := false
	check := append([]int{i}, keys(anc)...)
	for _, x := range check {
		for _, d := range defs[x].supers {
			for _, e := range defs[x].supers {
				if d == e {
					continue
				}
				ea, _ := ancestors(defs, nil, e)
				if ea[d] {
					redundant = true
				}
			}
		}
	}
	if redundant {
		return "redundant-direct"
	}
	for _, cnt := range paths {
		if 1 < cnt {
			return "diamond"
		}
	}
	return "fork"
}

func keys(m map[int]bool) []int {
	var k []int
	for x := range m {
		k = append(k, x)
	}
	sort.Ints(k)
	return k
}

// validArgs: initargs declared for any slot of class i or of an ancestor.
func validArgs(defs []classDef, i int) []string {
	anc, _ := ancestors(defs, nil, i)
	anc[i] = true
	seen := map[string]bool{}
	for x := range anc {
		for _, sd := range defs[x].slots(x) {
			for _, a := range sd.initargs {
				seen[a] = true
			}
		}
	}
	var out []string
	for _, a := range argOrder {
		if seen[a] {
			out = append(out, a)
		}
	}
	return out
}

// argSlots: slots of class i (own or inherited) for which key is a declared initarg.
func argSlots(defs []classDef, i int, key string) []string {
	anc, _ := ancestors(defs, nil, i)
	anc[i] = true
	seen := map[string]bool{}
	for x := range anc {
		for _, sd := range defs[x].slots(x) {
			for _, a := range sd.initargs {
				if a == key {
					seen[sd.name] = true
				}
			}
		}
	}
	var out []string
	for _, n := range slotNames {
		if seen[n] {
			out = append(out, n)
		}
	}
	return out
}

func subsets(args []string) [][]string {
	var out [][]string
	for m := 0; m < 1<<len(args); m++ {
		var s []string
		for b, a := range args {
			if m&(1<<b) != 0 {
				s = append(s, a)
			}
		}
		out = append(out, s)
	}
	sort.SliceStable(out, func(a, b int) bool { return len(out[a]) < len(out[b]) })
	return out
}

func sigmaText(s []string) string {
	if len(s) == 0 {
		return "-"
	}
	return strings.Join(s, "+")
}

// accSigma: a maximal set of valid initargs in which no slot has two supplied
// matching initargs (the accessor checks want a determinate start state).
func accSigma(defs []classDef, i int) []string {
	var out []string
	taken := map[string]bool{}
	for _, a := range validArgs(defs, i) {
		ok := true
		for _, sl := range argSlots(defs, i, a) {
			if taken[sl] {
				ok = false
			}
		}
		if ok {
			out = append(out, a)
			for _, sl := range argSlots(defs, i, a) {
				taken[sl] = true
			}
		}
	}
	return out
}

// ---------------------------------------------------------------- enumeration

// ordered subsets of {0..i-1} with at most maxLen members.
func orderedSubsets(i, maxLen int) [][]int {
	out := [][]int{nil}
	var rec func(cur []int)
	rec = func(cur []int) {
		if len(cur) == maxLen {
			return
		}
		for x := 0; x < i; x++ {
			dup := false
			for _, y := range cur {
				if y == x {
					dup = true
				}
			}
			if dup {
				continue
			}
			nxt := append(append([]int(nil), cur...), x)
			out = append(out, nxt)
			rec(nxt)
		}
	}
	rec(nil)
	sort.SliceStable(out, func(a, b int) bool { return len(out[a]) < len(out[b]) })
	return out
}

// dags: every assignment of ordered direct-superclass lists where class i may
// only name classes j < i (so every DAG appears once up to naming of a
// topological order; the definition ORDER is permuted separately).
func dags(n, maxSup int) [][][]int {
	out := [][][]int{{}}
	for i := 0; i < n; i++ {
		var nxt [][][]int
		for _, d := range out {
			for _, s := range orderedSubsets(i, maxSup) {
				nd := append(append([][]int(nil), d...), s)
				nxt = append(nxt, nd)
			}
		}
		out = nxt
	}
	return out
}

func product(alpha []string, n int, f func([]string)) {
	cur := make([]string, n)
	var rec func(i int)
	rec = func(i int) {
		if i == n {
			f(cur)
			return
		}
		for _, a := range alpha {
			cur[i] = a
			rec(i + 1)
		}
	}
	rec(0)
}

var (
	// per-class slot alphabets ("sopt.uopt")
	alphaFull = func() []string {
		var out []string
		for _, u := range []string{"-", "f", "k", "kf"} {
			for _, s := range []string{"-", "o", "f", "a", "af", "k", "b", "bf"} {
				out = append(out, s+"."+u)
			}
		}
		return out
	}()
	// initform nil lives in a family of its own: on the pinned tree it faults in make-instance,
	// and mixed with the shared initarg k the fault would come and go with Go map order (S9)
	alphaNil     = []string{"-.-", "o.-", "f.-", "n.-", "an.-"}
	alphaCurated = []string{"-.-", "o.-", "f.-", "a.-", "af.-", "k.-", "-.k", "-.kf", "f.k", "k.k", "af.kf", "b.-", "bf.-"}
	alphaSmall   = []string{"-.-", "f.-", "a.-", "af.-", "k.k"}
	alphaTiny    = []string{"-.-", "f.-", "af.-"}
	alphaTwo     = []string{"-.-", "f.-"}
)

func mkCase(sup [][]int, sl []string) *caseSpec {
	c := &caseSpec{n: len(sup)}
	for i := range sup {
		so, uo, do, err := splitSlots(sl[i])
		if err != nil {
			panic(err)
		}
		c.defs = append(c.defs, classDef{supers: sup[i], sopt: so, uopt: uo, dopt: do})
	}
	return c
}

// defaultsValid: every initarg a class gives a default for is declared for some slot of the class or of an ancestor
// (otherwise make-instance is an error in Common Lisp; the statement says nothing about it).
func defaultsValid(defs []classDef) bool {
	for i, d := range defs {
		if d.dopt == "" {
			continue
		}
		va := validArgs(defs, i)
		for _, ch := range d.dopt {
			if !inList(string(ch), va) {
				return false
			}
		}
	}
	return true
}

func usesDefaults(defs []classDef) bool {
	for _, d := range defs {
		if d.dopt != "" {
			return true
		}
	}
	return false
}

// redefinitions of class r of case c: one change each.
func redefsOf(c *caseSpec, r int) []classDef {
	old := c.defs[r]
	var out []classDef
	add := func(d classDef) {
		d.bump = true
		for _, o := range out {
			if o.String() == d.String() {
				return
			}
		}
		if !defaultsValid(c.finalDefsWith(r, d)) {
			return
		}
		out = append(out, d)
	}
	// identical text but for the initform value / added slot s with an initform
	add(classDef{supers: old.supers, sopt: "f", uopt: old.uopt, dopt: old.dopt})
	// slot removed
	if old.sopt != "-" || old.uopt != "-" {
		add(classDef{supers: old.supers, sopt: "-", uopt: "-"})
	}
	// initform dropped, initarg only
	add(classDef{supers: old.supers, sopt: "a", uopt: old.uopt, dopt: old.dopt})
	// slot u added with the shared initarg
	if old.uopt == "-" {
		add(classDef{supers: old.supers, sopt: old.sopt, uopt: "kf", dopt: old.dopt})
	}
	// :default-initargs dropped / added (only in the families whose alphabet has the class option)
	if old.dopt != "" {
		add(classDef{supers: old.supers, sopt: old.sopt, uopt: old.uopt})
	} else if usesDefaults(c.defs) {
		if va := validArgs(c.defs, r); 0 < len(va) {
			add(classDef{supers: old.supers, sopt: old.sopt, uopt: old.uopt, dopt: va[0]})
		}
	}
	// superclass list reversed / first dropped / one added at the end or the front
	if 1 < len(old.supers) {
		rev := make([]int, len(old.supers))
		for i, s := range old.supers {
			rev[len(rev)-1-i] = s
		}
		add(classDef{supers: rev, sopt: old.sopt, uopt: old.uopt, dopt: old.dopt})
	}
	if 0 < len(old.supers) {
		add(classDef{supers: append([]int(nil), old.supers[1:]...), sopt: old.sopt, uopt: old.uopt, dopt: old.dopt})
	}
	for j := 0; j < c.n; j++ {
		if j == r {
			continue
		}
		dup := false
		for _, s := range old.supers {
			if s == j {
				dup = true
			}
		}
		if dup {
			continue
		}
		nd := classDef{supers: append(append([]int(nil), old.supers...), j), sopt: old.sopt, uopt: old.uopt, dopt: old.dopt}
		fin := c.finalDefsWith(r, nd)
		if acyclic(fin) {
			add(nd)
		}
	}
	return out
}

func (c *caseSpec) finalDefsWith(r int, d classDef) []classDef {
	out := append([]classDef(nil), c.defs...)
	out[r] = d
	return out
}

func emitP(emit func(string), n, maxSup int, alpha []string) {
	for _, g := range dags(n, maxSup) {
		product(alpha, n, func(sl []string) {
			emit(mkCase(g, sl).String())
		})
	}
}

func emitR(emit func(string), n, maxSup int, alpha []string, warmToo bool) {
	emitRShapes(emit, dags(n, maxSup), nil, alpha, rOpts{cold: true, warm: warmToo})
}

type rOpts struct {
	cold, warm bool // emit the case with a cold / a warm dispatch cache
	ext        bool // the warm variant also carries the extended probes (instances made before the redefinition are kept and probed)
	coldExt    bool // the cold variant carries the extended probes
	same       bool // also the redefinition that repeats the definition unchanged
}

// emitRShapes: every redefinition of every class in `which` (nil = all) of every slot assignment over the shapes.
func emitRShapes(emit func(string), shapes [][][]int, which []int, alpha []string, o rOpts) {
	for _, g := range shapes {
		n := len(g)
		product(alpha, n, func(sl []string) {
			c := mkCase(g, sl)
			if !defaultsValid(c.defs) {
				return
			}
			for r := 0; r < n; r++ {
				if which != nil && !inInts(r, which) {
					continue
				}
				rds := redefsOf(c, r)
				if o.same {
					same := c.defs[r]
					same.bump = false
					rds = append(rds, same)
				}
				for _, nd := range rds {
					c2 := *c
					c2.redef = &redefSpec{r: r, def: nd}
					if o.cold {
						c2.warm, c2.ext = false, o.coldExt
						emit(c2.String())
					}
					if o.warm {
						c2.warm, c2.ext = true, o.ext
						emit(c2.String())
					}
				}
			}
		})
	}
}

func inInts(x int, l []int) bool {
	for _, y := range l {
		if x == y {
			return true
		}
	}
	return false
}

// emitShapes: no redefinition; every slot assignment over the shapes whose default initargs are all valid.
func emitShapes(emit func(string), shapes [][][]int, alpha []string, ext bool) {
	for _, g := range shapes {
		product(alpha, len(g), func(sl []string) {
			c := mkCase(g, sl)
			if !defaultsValid(c.defs) {
				return
			}
			c.ext = ext
			emit(c.String())
		})
	}
}

// shapes5: the 5-class chains and diamonds of the thorough tier.
var shapes5 = [][][]int{
	{nil, {0}, {1}, {2}, {3}},          // chain
	{nil, {0}, {0}, {1, 2}, {3}},       // diamond with a tail below
	{nil, {0}, {1}, {1}, {2, 3}},       // diamond on a stem
	{nil, {0}, {0}, {0}, {1, 2, 3}},    // triple diamond
	{nil, {0}, {0}, {1, 2}, {2, 1}},    // two joins of the same pair in opposite order
	{nil, nil, {0, 1}, {1, 0}, {2, 3}}, // crossing forks
	{nil, {0}, {0}, {1, 2}, {3, 0}},    // join plus a redundant direct superclass
	{nil, {0}, {1}, {0}, {2, 3}},       // long and short arm
	{nil, {0}, {0, 1}, {2}, {3, 1}},    // redundant direct superclasses at two levels
	{nil, nil, nil, {0, 1, 2}, {3}},    // wide fork with a tail
}

// shapesDiamond4: top c0; middles c1, c2; bottom c3.
var shapesDiamond4 = [][][]int{
	{nil, {0}, {0}, {1, 2}},    // diamond
	{nil, {0}, {0}, {2, 1}},    // diamond, middles in the other order
	{nil, {0}, {0}, {1, 2, 0}}, // diamond whose bottom also names the top directly
	{nil, {0}, {1}, {2, 0}},    // chain whose bottom also names the top directly (redundant-direct)
}

func enumerate(tier string, emit func(string)) {
	enumNilarg(emit)
	enumMisc(emit)
	thorough := tier == engine.Thorough
	// family P: no redefinition, every permutation of the defclass forms
	emitP(emit, 1, 0, alphaFull)
	if thorough {
		emitP(emit, 2, 1, alphaFull)
		emitP(emit, 3, 2, alphaCurated)
	} else {
		emitP(emit, 2, 1, alphaCurated)
		emitP(emit, 3, 2, alphaQuick3)
	}
	// family N: initform nil
	emitP(emit, 1, 0, alphaNil)
	emitP(emit, 2, 1, alphaNil)
	if thorough {
		emitP(emit, 3, 2, alphaNil)
	} else {
		emitP(emit, 3, 2, []string{"-.-", "f.-", "n.-"})
	}
	// family R: one class redefined at any later point of the history
	if thorough {
		emitRShapes(emit, dags(2, 1), nil, alphaSmall, rOpts{cold: true, warm: true, same: true})
		emitRShapes(emit, dags(3, 2), nil, alphaTiny, rOpts{cold: true, warm: true, same: true})
		emitR(emit, 3, 2, []string{"-.-", "f.-", "k.k"}, false)
	} else {
		// sixth round: the redefinition that repeats the definition unchanged is one more kind
		emitRShapes(emit, dags(2, 1), nil, alphaTiny, rOpts{cold: true, warm: true, same: true})
		emitRShapes(emit, dags(3, 2), nil, alphaTwo, rOpts{cold: true, warm: true, same: true})
	}
	// 4 classes: every DAG, every permutation
	emitP(emit, 4, 3, []string{"f.-"})
	// family RD (both tiers): the 4-class diamonds and redundant-direct shapes with the TOP class redefined
	// (every applicable kind, all 60 orders; cold, and warm for the all-initform slot assignment): the re-merge of the bottom class must wait for
	// BOTH middle classes (seeded change C12-diamond-redefinition-merged-once was only seen by thorough before)
	for _, g := range shapesDiamond4 {
		product(alphaTwo, 4, func(sl []string) {
			c := mkCase(g, sl)
			for _, nd := range redefsOf(c, 0) {
				c2 := *c
				c2.redef = &redefSpec{r: 0, def: nd}
				emit(c2.String())
				if strings.Join(sl, ",") == "f.-,f.-,f.-,f.-" { // warm dispatch cache: one slot assignment is enough (time)
					c2.warm = true
					emit(c2.String())
				}
			}
		})
	}
	if thorough {
		emitP(emit, 4, 3, alphaTiny)
		emitR(emit, 4, 2, []string{"f.-"}, false)
		for _, g := range shapes5 {
			product(alphaTwo, 5, func(sl []string) {
				emit(mkCase(g, sl).String())
			})
		}
	}
	enumerateSixth(thorough, emit)
}

var alphaQuick3 = []string{"-.-", "o.-", "f.-", "a.-", "af.-", "k.-", "-.kf", "k.k"}
