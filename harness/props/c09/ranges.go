package c09

// ranges.go: family g, see size.go.

import (
	"fmt"
	"strings"

	"github.com/ohler55/slip"

	"verif/engine"
)

// rangeValues: positions around a sequence of length 5 (nil = not given / to the end).
var rangeValues = []string{"0", "1", "3", "5", "6", "-1", "nil"}

var rangeKinds = []struct{ name, seq, item string }{
	{"list", "(list 1 2 3 1 2)", "1"},
	{"vector", "(vector 1 2 3 1 2)", "1"},
	{"string", `(copy-seq "abcab")`, `#\a`},
	{"fpvector", "(make-array 8 :fill-pointer 5 :adjustable t :initial-contents (list 1 2 3 1 2 0 0 0))", "1"},
	{"octets", "(make-octets 5 1)", "1"},
}

type rangeTmpl struct{ fn, form string }

var rangeTemplates = buildRangeTemplates()

func buildRangeTemplates() (out []rangeTmpl) {
	se := func(fn, base string) { out = append(out, rangeTmpl{fn, base + " :start $s :end $e)"}) }
	se("count", "(count {I} {S}")
	se("count", "(count {I} {S} :from-end t")
	se("count-if", "(count-if (lambda (x) x) {S}")
	se("find", "(find {I} {S}")
	se("find", "(find {I} {S} :from-end t")
	se("find-if", "(find-if (lambda (x) x) {S}")
	se("find-if", "(find-if (lambda (x) x) {S} :from-end t")
	se("position", "(position {I} {S}")
	se("position", "(position {I} {S} :from-end t")
	se("position-if", "(position-if (lambda (x) x) {S}")
	se("position-if", "(position-if (lambda (x) x) {S} :from-end t")
	se("remove", "(remove {I} {S}")
	se("remove", "(remove {I} {S} :from-end t :count 1")
	se("remove-if", "(remove-if (lambda (x) x) {S}")
	se("delete", "(delete {I} {S}")
	se("delete", "(delete {I} {S} :from-end t :count 1")
	se("delete-if", "(delete-if (lambda (x) x) {S}")
	se("remove-duplicates", "(remove-duplicates {S}")
	se("remove-duplicates", "(remove-duplicates {S} :from-end t")
	se("delete-duplicates", "(delete-duplicates {S}")
	se("substitute", "(substitute {I} {I} {S}")
	se("substitute", "(substitute {I} {I} {S} :from-end t :count 1")
	se("substitute-if", "(substitute-if {I} (lambda (x) x) {S}")
	se("nsubstitute", "(nsubstitute {I} {I} {S}")
	se("nsubstitute-if", "(nsubstitute-if {I} (lambda (x) x) {S}")
	se("fill", "(fill {S} {I}")
	se("reduce", "(reduce #'list {S}")
	se("reduce", "(reduce #'list {S} :from-end t")
	se("reduce", "(reduce #'list {S} :initial-value 0")
	se("write-sequence", "(write-sequence {S} (make-string-output-stream)")
	out = append(out, rangeTmpl{"char-length", `(char-length "abcab" :start $s :end $e)`})
	out = append(out,
		rangeTmpl{"subseq", "(subseq {S} $s $e)"},
		rangeTmpl{"subseq", "(let ((s {S})) (setf (subseq s $s $e) {S}) s)"},
	)
	for _, f := range []string{"replace", "mismatch", "search"} {
		out = append(out,
			rangeTmpl{f, "(" + f + " {S} {S} :start1 $s :end1 $e)"},
			rangeTmpl{f, "(" + f + " {S} {S} :start2 $s :end2 $e)"},
			rangeTmpl{f, "(" + f + " {S} {S} :start1 $s :end2 $e)"},
			rangeTmpl{f, "(" + f + " {S} {S} :start1 1 :end1 3 :start2 $s :end2 $e)"},
		)
	}
	out = append(out,
		rangeTmpl{"mismatch", "(mismatch {S} {S} :from-end t :start1 $s :end1 $e)"},
		rangeTmpl{"search", "(search {S} {S} :from-end t :start2 $s :end2 $e)"},
	)
	// string-only functions (run with the string kind only: no {S})
	for _, f := range []string{"string-upcase", "string-downcase", "string-capitalize", "nstring-upcase", "nstring-downcase", "nstring-capitalize"} {
		out = append(out, rangeTmpl{f, "(" + f + ` (copy-seq "abcab") :start $s :end $e)`})
	}
	for _, f := range []string{"string=", "string/=", "string<", "string<=", "string>", "string>=", "string-equal", "string-not-equal",
		"string-lessp", "string-not-lessp", "string-greaterp", "string-not-greaterp"} {
		out = append(out,
			rangeTmpl{f, "(" + f + ` "abcab" "abcab" :start1 $s :end1 $e)`},
			rangeTmpl{f, "(" + f + ` "abcab" "abcab" :start2 $s :end2 $e)`},
			rangeTmpl{f, "(" + f + ` "abcab" 'abcab :start1 $s :end2 $e)`},
		)
	}
	out = append(out,
		rangeTmpl{"parse-integer", `(parse-integer "12345" :start $s :end $e)`},
		rangeTmpl{"parse-integer", `(parse-integer "12345" :start $s :end $e :junk-allowed t)`},
		rangeTmpl{"read-from-string", `(read-from-string "a b c" nil nil :start $s :end $e)`},
		rangeTmpl{"write-string", `(write-string "abcab" (make-string-output-stream) :start $s :end $e)`},
		rangeTmpl{"write-line", `(write-line "abcab" (make-string-output-stream) :start $s :end $e)`},
		rangeTmpl{"make-string-input-stream", `(read-line (make-string-input-stream "abcab" $s $e) nil nil)`},
		rangeTmpl{"with-input-from-string", `(with-input-from-string (s "abcab" :start $s :end $e) (read-line s nil nil))`},
		rangeTmpl{"octet-length", `(octet-length "abcab" :start $s :end $e)`},
		rangeTmpl{"string-to-octets", `(string-to-octets "abcab" :start $s :end $e)`},
		rangeTmpl{"octets-to-string", "(octets-to-string (make-octets 5 65) :start $s :end $e)"},
		rangeTmpl{"octets-to-string", "(octets-to-string (list 65 66 67 68 69) :start $s :end $e)"},
		rangeTmpl{"parse-float", `(parse-float "12.45" :start $s :end $e)`},
		rangeTmpl{"format ~*", `(format nil "~A~$s@*~A~$e:*~A" 1 2 3 4 5)`},
	)
	return
}

func enumRanges(tier string, emit func(string)) {
	for _, s := range rangeValues {
		for _, e := range rangeValues {
			for ti := range rangeTemplates {
				t := &rangeTemplates[ti]
				if !strings.Contains(t.form, "{S}") {
					emit("g|" + t.fn + "|-|" + s + "|" + e + "|" + t.form)
					continue
				}
				for _, k := range rangeKinds {
					emit("g|" + t.fn + "|" + k.name + "|" + s + "|" + e + "|" + t.form)
				}
			}
		}
	}
}

func execRange(spec string) (res engine.Result) {
	parts := strings.SplitN(spec, "|", 6)
	if len(parts) != 6 {
		res.Fail("harness:bad-spec", spec)
		return
	}
	fn, kind, s, e, form := parts[1], parts[2], parts[3], parts[4], parts[5]
	for _, k := range rangeKinds {
		if k.name == kind {
			form = strings.ReplaceAll(strings.ReplaceAll(form, "{S}", k.seq), "{I}", k.item)
		}
	}
	if strings.Contains(form, "{S}") {
		res.Fail("harness:bad-spec", spec)
		return
	}
	src := strings.ReplaceAll(strings.ReplaceAll(form, "$s", s), "$e", e)
	leave := enter(false)
	defer leave()
	scope := slip.NewScope()
	o := observe(func() slip.Object { return slip.ReadString(src, scope).Eval(scope, nil) })
	res.Outcome = o.outcome()
	res.Nontrivial = true
	res.Hit("range-cases")
	switch o.kind {
	case "value":
		res.Hit("range-value")
	case "condition":
		res.Hit("range-condition")
	}
	if o.catchAll {
		res.Hit("catch-all-conversions")
	}
	if fc := realClassifier.classify(o); fc != "" {
		res.Hit("faults")
		res.Fail(fmt.Sprintf("range fn=%s fault=%s at=%s", fn, fc, o.site), src+" => "+o.describe())
	} else if o.catchAll {
		res.Hit("catch-all-accepted")
		logAccepted("range fn="+fn, o)
	}
	return
}
