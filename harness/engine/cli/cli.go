// vcheck: exhaustive bounded exploration of slip properties C01..C20.
//
//	vcheck run <ID> [--tier quick|thorough]      parent: explore, confirm, report, write evidence
//	vcheck worker|serve|exec ...                 worker processes (internal)
//	vcheck replay <file>                         re-execute one recorded case in this fresh process
package cli

import (
	"encoding/json"
	"flag"
	"fmt"
	"os"
	"strconv"

	"verif/engine"
)

// Main is the entry point shared by every per-property binary.
func Main() {
	if len(os.Args) < 2 {
		fmt.Fprintln(os.Stderr, "usage: vcheck run|replay|list ...")
		os.Exit(2)
	}
	cmd := os.Args[1]
	switch cmd {
	case "list":
		for _, id := range engine.IDs() {
			fmt.Println(id)
		}
		return
	case "replay":
		replay(os.Args[2])
		return
	}
	if len(os.Args) < 3 {
		fmt.Fprintln(os.Stderr, "missing property id")
		os.Exit(2)
	}
	id := os.Args[2]
	p := engine.Lookup(id)
	if p == nil {
		fmt.Fprintf(os.Stderr, "unknown property %s\n", id)
		os.Exit(2)
	}
	fs := flag.NewFlagSet(cmd, flag.ExitOnError)
	tier := fs.String("tier", "", "quick|thorough")
	shard := fs.Int("shard", 0, "")
	n := fs.Int("n", 1, "")
	journal := fs.String("journal", "", "")
	resume := fs.Int("resume", 0, "")
	mem := fs.Uint64("mem", 0, "GiB address-space limit")
	specFile := fs.String("spec-file", "", "")
	spec := fs.String("spec", "", "")
	_ = fs.Parse(os.Args[3:])
	if *tier == "" {
		*tier = os.Getenv("VERIF_TIER")
	}
	if *tier != engine.Thorough {
		*tier = engine.Quick
	}
	switch cmd {
	case "run":
		seed, _ := strconv.Atoi(os.Getenv("VERIF_SEED"))
		self, err := os.Executable()
		if err != nil {
			self = os.Args[0]
		}
		os.Exit(engine.Run(p, *tier, seed, self))
	case "worker":
		engine.StaticWorker(p, *tier, *shard, *n, *journal, *resume, *mem)
	case "serve":
		engine.ServeWorker(p, *journal, *mem)
	case "exec":
		s := *spec
		if *specFile != "" {
			b, err := os.ReadFile(*specFile)
			if err != nil {
				fmt.Fprintln(os.Stderr, err)
				os.Exit(2)
			}
			s = string(b)
		}
		res := engine.SafeExec(p, s)
		_ = json.NewEncoder(engine.ProtoOut()).Encode(&res)
	case "enum":
		// debugging aid: print the first cases of the tier
		k := 0
		p.Enumerate(*tier, func(spec string) {
			if k < 200 {
				fmt.Println(spec)
			}
			k++
		})
		fmt.Fprintf(os.Stderr, "%d cases\n", k)
	default:
		fmt.Fprintf(os.Stderr, "unknown command %s\n", cmd)
		os.Exit(2)
	}
}

func replay(path string) {
	b, err := os.ReadFile(path)
	if err != nil {
		fmt.Fprintln(os.Stderr, err)
		os.Exit(2)
	}
	var rp engine.Replay
	if err = json.Unmarshal(b, &rp); err != nil {
		fmt.Fprintln(os.Stderr, err)
		os.Exit(2)
	}
	p := engine.Lookup(rp.Property)
	if p == nil {
		fmt.Fprintf(os.Stderr, "unknown property %s\n", rp.Property)
		os.Exit(2)
	}
	res := engine.SafeExec(p, rp.Spec)
	fmt.Printf("property=%s\nspec=%s\n", rp.Property, rp.Spec)
	hit := false
	for _, f := range res.Failures {
		fmt.Printf("FAIL %s\n  %s\n", f.Sig, f.Detail)
		hit = hit || f.Sig == rp.Signature
	}
	if hit {
		fmt.Printf("VIOLATION property=%s replay=%s\n", rp.Property, path)
		os.Exit(1)
	}
	fmt.Println("recorded signature not reproduced:", rp.Signature)
}
