package c06

import (
	"fmt"
	"sort"
	"strings"

	"verif/engine"
)

// How the result of an operation relates to its operands BY THE LANGUAGE
// RULES (Common Lisp + slip's own FuncDoc where slip adds a function).
type shareMode int

const (
	shareNone  shareMode = iota // result is a fresh list (copy-list subseq reverse butlast mapcar)
	shareS                      // result may share structure with S (cdr rest nthcdr last member remove* cons list* push pop append/1)
	shareT                      // result may share with T, the last argument (append S T); fresh when T is empty
	shareMerge                  // S and T are spliced together (nconc, rplacd): everything shares afterwards
	shareKeep                   // no list is created; element replacement only (setf car/nth/elt, rplaca)
)

// opDef is one instantiated operation of the alphabet.
type opDef struct {
	code     string // unique op string, e.g. "b=cdr(a)"
	name     string // family name, e.g. "subseq-0-2", "sort>-bare"
	fn       string // the Lisp function, used in signatures, e.g. "subseq", "sort"
	dst      int    // variable assigned by the step (-1: none)
	s, t     int    // operand variables (-1: none)
	destr    bool   // documented as destructive on its list operand(s)
	share    shareMode
	ext      bool // extends a list (cons list* append push add nconc)
	core     bool // member of the reduced alphabet used for the deep BFS of the thorough tier
	core5    bool // member of the small alphabet of the fifth step of the deep BFS
	quick    bool // member of the quick alphabet
	minS     int  // S must have at least this many elements
	needT    bool // T must be non-empty
	anyST    bool // applicable when S or T is non-empty (append)
	distinct bool // S and T must not share by the language rules (nconc/rplacd would build a cycle)
	lisp     func(n int64) string
	want     func(sv, tv []int64, n int64) []int64 // expected value of dst (nil func: not checked)
	wantS    func(sv []int64, n int64) []int64     // expected value of S after element replacement (nil func: not checked)
	// ---- second-generation operations (ops2.go)
	group  string                                // "" first generation | kw | fn | box | site
	minT   int                                   // T must have at least this many elements
	keepS  bool                                  // destructive on T only: S itself must stay unchanged
	keepT  bool                                  // destructive on S only: T itself must stay unchanged
	base   func(sv, tv []int64, n int64) []int64 // result of the keyword-free form (kw group)
	tail   func(sv []int64) int                  // reference models: the result shares the cells of S from this index on
	tailT  func(tv []int64) int                  // the same for T
	site   *siteDef                              // code evaluated once per history before the first use
	famRec *fam
	setEq  bool                                  // the result is a set: compared without order and multiplicity
	okS    func(sv []int64) bool                 // further applicability condition on S
	okST   func(sv, tv []int64) bool             // further applicability condition on S and T
	wantS2 func(sv, tv []int64, n int64) []int64 // expected value of S after the call when it depends on T
	alt    func(sv, tv []int64, n int64) []int64 // a second acceptable result (the language leaves the choice open)
}

// nLoc locations hold lists: the pool variables a, b, c and three containers that keep a list across steps -
// h (the value of key 1 of a hash table), o (the slot s of a standard-object), k (a variable closed over by a lambda).
const nLoc = 6

var varNames = [nLoc]string{"a", "b", "c", "h", "o", "k"}

type state [nLoc]obsVar

func cat(parts ...[]int64) []int64 {
	var out []int64
	for _, p := range parts {
		out = append(out, p...)
	}
	return out
}

func rev(s []int64) []int64 {
	out := make([]int64, len(s))
	for i, v := range s {
		out[len(s)-1-i] = v
	}
	return out
}

func filter(s []int64, keep func(int64) bool) []int64 {
	var out []int64
	for _, v := range s {
		if keep(v) {
			out = append(out, v)
		}
	}
	return out
}

func sorted(s []int64, desc bool) []int64 {
	out := append([]int64(nil), s...)
	sort.SliceStable(out, func(i, j int) bool {
		if desc {
			return out[i] > out[j]
		}
		return out[i] < out[j]
	})
	return out
}

func replaced(s []int64, i int, n int64) []int64 {
	out := append([]int64(nil), s...)
	out[i] = n
	return out
}

func from(s []int64, k int) []int64 {
	if len(s) <= k {
		return nil
	}
	return s[k:]
}

var (
	allOps  []*opDef
	opIndex = map[string]*opDef{}
)

var fnOf = map[string]string{
	"subseq-0-2": "subseq", "subseq-1": "subseq", "subseq-1-3": "subseq", "subseq-0-0": "subseq", "nthcdr0": "nthcdr", "nthcdr2": "nthcdr",
	"last2": "last", "butlast2": "butlast", "remove-2nd": "remove", "remove-absent": "remove", "member-2nd": "member",
	"setf-nth1": "setf-nth", "setf-nth2": "setf-nth", "setf-elt0": "setf-elt", "setf-elt1": "setf-elt", "append1": "append",
	"sort>": "sort", "sort<": "sort", "delete-2nd": "delete", "rplacd-nil": "rplacd",
}

// isCore selects the reduced alphabet used for the deep BFS of the thorough tier: one representative per
// mechanism (view, copy, copy with spare capacity, in-place extension, element replacement, reordering, splice).
func isCore(o *opDef) bool {
	switch o.name {
	case "cdr", "nthcdr0", "butlast", "subseq-0-2", "subseq-1", "remove-if", "add":
		return o.dst != o.s
	case "append":
		return o.dst != o.s && o.s != o.t && o.dst != o.t
	case "push", "pop", "add-bare", "setf-car", "setf-nth1", "sort>-bare", "rplacd-bare":
		return true
	case "nreverse", "delete-2nd", "nconc":
		return o.dst == o.s
	}
	return false
}

// core5: the small alphabet of the fifth step of the deep BFS - ONE instantiated operation per sharing class of the
// first generation (classes.go: 38 classes measured over the 2316 states reachable by <= 2 quick operations, i.e. on
// histories of length <= 3; the 7 classes that differ from another one only by the states they apply to or by the
// direction / index they use - butlast2 last2 setf-nth2 subseq-1-3 sort< sort<-bare delete-if-bare - are represented by
// that other class). Producers read a and assign c (a and b stay observable), in-place operations work on a.
var core5 = map[string]bool{
	"c=add(a)": true, "add!(a)": true, "c=append(a,b)": true, "c=copy-list(a)": true, "c=butlast(a)": true, "c=cdr(a)": true,
	"c=cons(a)": true, "c=remove-if(a)": true, "a=delete-2nd(a)": true, "delete-2nd!(a)": true, "c=last(a)": true, "c=list*(a)": true,
	"c=map-list(a)": true, "c=subseq-0-2(a)": true, "c=member-2nd(a)": true, "a=nconc(a,b)": true, "nconc!(a,b)": true,
	"a=nreverse(a)": true, "nreverse!(a)": true, "c=nthcdr0(a)": true, "c=nthcdr2(a)": true, "pop(a)": true, "push(a)": true,
	"setf-car(a)": true, "setf-nth1(a)": true, "c=rplacd(a,b)": true, "rplacd!(a,b)": true, "a=rplacd(a,nil)": true,
	"a=sort>(a)": true, "sort>!(a)": true, "c=subseq-0-0(a)": true,
}

func addOp(o *opDef) {
	o.core = isCore(o)
	o.core5 = core5[o.code]
	o.fn = strings.TrimSuffix(o.name, "-bare")
	if f, has := fnOf[o.fn]; has {
		o.fn = f
	}
	if _, has := opIndex[o.code]; has {
		panic("duplicate op " + o.code)
	}
	allOps = append(allOps, o)
	opIndex[o.code] = o
}

// tiers: q = quick+thorough, t = thorough only; core marks the deep-BFS alphabet.
func init() {
	v := varNames
	type un struct {
		name  string
		form  string // %s = S
		share shareMode
		minS  int
		want  func(sv []int64) []int64
		quick bool
		core  bool
	}
	unary := []un{
		{"cdr", "(cdr %s)", shareS, 1, func(s []int64) []int64 { return from(s, 1) }, true, true},
		{"rest", "(rest %s)", shareS, 1, func(s []int64) []int64 { return from(s, 1) }, false, false},
		{"nthcdr0", "(nthcdr 0 %s)", shareS, 1, func(s []int64) []int64 { return s }, true, true},
		{"nthcdr2", "(nthcdr 2 %s)", shareS, 1, func(s []int64) []int64 { return from(s, 2) }, true, false},
		{"last", "(last %s)", shareS, 1, func(s []int64) []int64 { return from(s, len(s)-1) }, true, false},
		{"last2", "(last %s 2)", shareS, 1, func(s []int64) []int64 {
			if len(s) <= 2 {
				return s
			}
			return s[len(s)-2:]
		}, false, false},
		{"butlast", "(butlast %s)", shareNone, 1, func(s []int64) []int64 { return s[:len(s)-1] }, true, true},
		{"butlast2", "(butlast %s 2)", shareNone, 1, func(s []int64) []int64 {
			if len(s) <= 2 {
				return nil
			}
			return s[:len(s)-2]
		}, false, false},
		{"subseq-0-2", "(subseq %s 0 2)", shareNone, 2, func(s []int64) []int64 { return s[0:2] }, true, true},
		{"subseq-1", "(subseq %s 1)", shareNone, 1, func(s []int64) []int64 { return s[1:] }, true, true},
		{"subseq-1-3", "(subseq %s 1 3)", shareNone, 3, func(s []int64) []int64 { return s[1:3] }, false, false},
		{"subseq-0-0", "(subseq %s 0 0)", shareNone, 1, func(s []int64) []int64 { return nil }, false, false},
		{"copy-list", "(copy-list %s)", shareNone, 1, func(s []int64) []int64 { return s }, true, true},
		{"reverse", "(reverse %s)", shareNone, 1, rev, true, true},
		{"append1", "(append %s)", shareS, 1, func(s []int64) []int64 { return s }, false, false},
		{"remove-2nd", "(remove (nth 1 %[1]s) %[1]s)", shareS, 2, func(s []int64) []int64 {
			return filter(s, func(x int64) bool { return x != s[1] })
		}, true, false},
		{"remove-absent", "(remove 0 %s)", shareS, 1, func(s []int64) []int64 { return filter(s, func(x int64) bool { return x != 0 }) }, false, false},
		{"remove-if", "(remove-if #'evenp %s)", shareS, 1, func(s []int64) []int64 {
			return filter(s, func(x int64) bool { return x%2 != 0 })
		}, true, true},
		{"member-2nd", "(member (nth 1 %[1]s) %[1]s)", shareS, 2, func(s []int64) []int64 {
			for i, x := range s {
				if x == s[1] {
					return s[i:]
				}
			}
			return nil
		}, true, false},
		{"mapcar", "(mapcar (lambda (x) x) %s)", shareNone, 1, func(s []int64) []int64 { return s }, true, false},
		// the FIRST list a list-building function returns when a multi-list mapping function calls it directly, once per
		// element: it must not be touched by the calls that follow (results of other calls are independent)
		{"maprow-list*", "(car (mapcar #'list* %[1]s %[1]s (mapcar (lambda (x) nil) %[1]s)))", shareNone, 2, func(s []int64) []int64 { return []int64{s[0], s[0]} }, true, false},
		{"maprow-list", "(car (mapcar #'list %[1]s %[1]s))", shareNone, 2, func(s []int64) []int64 { return []int64{s[0], s[0]} }, true, false},
		{"maprow-cons", "(car (mapcar #'cons %[1]s (mapcar #'list %[1]s)))", shareNone, 2, func(s []int64) []int64 { return []int64{s[0], s[0]} }, false, false},
		{"maprow-append", "(car (mapcar #'append (mapcar #'list %[1]s) (mapcar #'list %[1]s)))", shareNone, 2, func(s []int64) []int64 { return []int64{s[0], s[0]} }, false, false},
		// producers that build their result by way of ANOTHER kind of object (a vector, a values object, a sequence
		// function that copies): the list that comes back is independent of the argument, and the intermediate object
		// is the producer's own (changing the intermediate vector must not change the list it was made from)
		{"via-vector", "(coerce (coerce %s 'vector) 'list)", shareNone, 1, func(s []int64) []int64 { return s }, true, false},
		{"via-vector-set", "(let ((v (coerce %s 'vector))) (setf (aref v 0) (- (aref v 0))) (coerce v 'list))", shareNone, 1, func(s []int64) []int64 { return cat([]int64{-s[0]}, s[1:]) }, true, false},
		{"via-values", "(multiple-value-list (values-list %s))", shareNone, 1, func(s []int64) []int64 { return s }, true, false},
		{"copy-seq", "(copy-seq %s)", shareNone, 1, func(s []int64) []int64 { return s }, true, false},
		{"concatenate", "(concatenate 'list %s)", shareNone, 1, func(s []int64) []int64 { return s }, true, false},
		{"map-list", "(map 'list (lambda (x) x) %s)", shareNone, 1, func(s []int64) []int64 { return s }, false, false},
		{"copy-tree", "(copy-tree %s)", shareNone, 1, func(s []int64) []int64 { return s }, false, false},
		{"revappend", "(revappend %s nil)", shareNone, 1, rev, false, false},
	}
	for _, u := range unary {
		u := u
		for d := 0; d < 3; d++ {
			for s := 0; s < 3; s++ {
				d, s := d, s
				addOp(&opDef{
					code: fmt.Sprintf("%s=%s(%s)", v[d], u.name, v[s]), name: u.name, dst: d, s: s, t: -1,
					share: u.share, minS: u.minS, quick: u.quick,
					lisp: func(int64) string { return fmt.Sprintf("(setq %s %s)", v[d], fmt.Sprintf(u.form, v[s])) },
					want: func(sv, _ []int64, _ int64) []int64 { return u.want(sv) },
				})
			}
		}
	}
	// constructors that take a fresh element
	for d := 0; d < 3; d++ {
		for s := 0; s < 3; s++ {
			d, s := d, s
			addOp(&opDef{
				code: fmt.Sprintf("%s=cons(%s)", v[d], v[s]), name: "cons", dst: d, s: s, t: -1, share: shareS, ext: true,
				quick: true,
				lisp:  func(n int64) string { return fmt.Sprintf("(setq %s (cons %d %s))", v[d], n, v[s]) },
				want:  func(sv, _ []int64, n int64) []int64 { return cat([]int64{n}, sv) },
			})
			addOp(&opDef{
				code: fmt.Sprintf("%s=list*(%s)", v[d], v[s]), name: "list*", dst: d, s: s, t: -1, share: shareS, ext: true,
				quick: true,
				lisp:  func(n int64) string { return fmt.Sprintf("(setq %s (list* %d %d %s))", v[d], n, n+1, v[s]) },
				want:  func(sv, _ []int64, n int64) []int64 { return cat([]int64{n, n + 1}, sv) },
			})
			// add is documented by slip as "appends to the list potentially modifying the list": destructive,
			// the result may share with its argument (like nconc with a fresh one-element list).
			addOp(&opDef{
				code: fmt.Sprintf("%s=add(%s)", v[d], v[s]), name: "add", dst: d, s: s, t: -1, share: shareS, ext: true,
				destr: true, quick: true,
				lisp: func(n int64) string { return fmt.Sprintf("(setq %s (add %s %d))", v[d], v[s], n) },
				want: func(sv, _ []int64, n int64) []int64 { return cat(sv, []int64{n}) },
			})
			for t := 0; t < 3; t++ {
				t := t
				addOp(&opDef{
					code: fmt.Sprintf("%s=append(%s,%s)", v[d], v[s], v[t]), name: "append", dst: d, s: s, t: t, share: shareT,
					ext: true, anyST: true, quick: true,
					lisp: func(int64) string { return fmt.Sprintf("(setq %s (append %s %s))", v[d], v[s], v[t]) },
					want: func(sv, tv []int64, _ int64) []int64 { return cat(sv, tv) },
				})
			}
		}
	}
	for s := 0; s < 3; s++ {
		s := s
		addOp(&opDef{
			code: fmt.Sprintf("push(%s)", v[s]), name: "push", dst: s, s: s, t: -1, share: shareS, ext: true, quick: true,
			lisp: func(n int64) string { return fmt.Sprintf("(push %d %s)", n, v[s]) },
			want: func(sv, _ []int64, n int64) []int64 { return cat([]int64{n}, sv) },
		})
		addOp(&opDef{
			code: fmt.Sprintf("pop(%s)", v[s]), name: "pop", dst: s, s: s, t: -1, share: shareS, minS: 1, quick: true,
			lisp: func(int64) string { return fmt.Sprintf("(pop %s)", v[s]) },
			want: func(sv, _ []int64, _ int64) []int64 { return from(sv, 1) },
		})
		addOp(&opDef{
			code: fmt.Sprintf("add!(%s)", v[s]), name: "add-bare", dst: -1, s: s, t: -1, share: shareKeep, ext: true, destr: true,
			minS: 0, quick: true,
			lisp: func(n int64) string { return fmt.Sprintf("(add %s %d)", v[s], n) },
		})
		type rp struct {
			name  string
			form  string
			idx   int
			quick bool
			core  bool
		}
		for _, r := range []rp{
			{"setf-car", "(setf (car %s) %d)", 0, true, true},
			{"setf-nth1", "(setf (nth 1 %s) %d)", 1, true, true},
			{"setf-nth2", "(setf (nth 2 %s) %d)", 2, false, false},
			{"setf-elt1", "(setf (elt %s 1) %d)", 1, true, false},
			{"setf-elt0", "(setf (elt %s 0) %d)", 0, false, false},
			{"rplaca", "(rplaca %s %d)", 0, true, false},
		} {
			r := r
			addOp(&opDef{
				code: fmt.Sprintf("%s(%s)", r.name, v[s]), name: r.name, dst: -1, s: s, t: -1, share: shareKeep, destr: true,
				minS: r.idx + 1, quick: r.quick,
				lisp:  func(n int64) string { return fmt.Sprintf(r.form, v[s], n) },
				wantS: func(sv []int64, n int64) []int64 { return replaced(sv, r.idx, n) },
			})
		}
		// destructive sequence functions: bare call and (setq D (f S))
		type ds struct {
			name string
			form string
			minS int
			want func(sv []int64) []int64
			q    bool // quick for D==S and bare
			core bool
		}
		for _, x := range []ds{
			{"nreverse", "(nreverse %s)", 1, rev, true, true},
			{"sort>", "(sort %s #'>)", 1, func(s []int64) []int64 { return sorted(s, true) }, true, true},
			{"sort<", "(sort %s #'<)", 1, func(s []int64) []int64 { return sorted(s, false) }, false, false},
			{"delete-2nd", "(delete (nth 1 %[1]s) %[1]s)", 2, func(s []int64) []int64 {
				return filter(s, func(y int64) bool { return y != s[1] })
			}, true, true},
			{"delete-if", "(delete-if #'evenp %s)", 1, func(s []int64) []int64 {
				return filter(s, func(y int64) bool { return y%2 != 0 })
			}, true, false},
		} {
			x := x
			addOp(&opDef{
				code: fmt.Sprintf("%s!(%s)", x.name, v[s]), name: x.name + "-bare", dst: -1, s: s, t: -1, share: shareKeep,
				destr: true, minS: x.minS, quick: x.q && x.name != "delete-if",
				lisp: func(int64) string { return fmt.Sprintf(x.form, v[s]) },
			})
			for d := 0; d < 3; d++ {
				d := d
				addOp(&opDef{
					code: fmt.Sprintf("%s=%s(%s)", v[d], x.name, v[s]), name: x.name, dst: d, s: s, t: -1, share: shareS,
					destr: true, minS: x.minS, quick: x.q && d == s,
					lisp: func(int64) string { return fmt.Sprintf("(setq %s %s)", v[d], fmt.Sprintf(x.form, v[s])) },
					want: func(sv, _ []int64, _ int64) []int64 { return x.want(sv) },
				})
			}
		}
		// two-list destructive operations
		for t := 0; t < 3; t++ {
			if t == s {
				continue
			}
			t := t
			addOp(&opDef{
				code: fmt.Sprintf("nconc!(%s,%s)", v[s], v[t]), name: "nconc-bare", dst: -1, s: s, t: t, share: shareMerge,
				destr: true, ext: true, minS: 1, needT: true, distinct: true, quick: true,
				lisp: func(int64) string { return fmt.Sprintf("(nconc %s %s)", v[s], v[t]) },
			})
			addOp(&opDef{
				code: fmt.Sprintf("rplacd!(%s,%s)", v[s], v[t]), name: "rplacd-bare", dst: -1, s: s, t: t, share: shareMerge,
				destr: true, minS: 1, needT: true, distinct: true, quick: true,
				lisp: func(int64) string { return fmt.Sprintf("(rplacd %s %s)", v[s], v[t]) },
			})
			for d := 0; d < 3; d++ {
				d := d
				addOp(&opDef{
					code: fmt.Sprintf("%s=nconc(%s,%s)", v[d], v[s], v[t]), name: "nconc", dst: d, s: s, t: t, share: shareMerge,
					destr: true, ext: true, minS: 1, needT: true, distinct: true, quick: d == s,
					lisp: func(int64) string { return fmt.Sprintf("(setq %s (nconc %s %s))", v[d], v[s], v[t]) },
					want: func(sv, tv []int64, _ int64) []int64 { return cat(sv, tv) },
				})
				addOp(&opDef{
					code: fmt.Sprintf("%s=rplacd(%s,%s)", v[d], v[s], v[t]), name: "rplacd", dst: d, s: s, t: t, share: shareMerge,
					destr: true, minS: 1, needT: true, distinct: true, quick: false,
					lisp: func(int64) string { return fmt.Sprintf("(setq %s (rplacd %s %s))", v[d], v[s], v[t]) },
					want: func(sv, tv []int64, _ int64) []int64 { return cat(sv[:1], tv) },
				})
			}
		}
		addOp(&opDef{
			code: fmt.Sprintf("%[1]s=rplacd(%[1]s,nil)", v[s]), name: "rplacd-nil", dst: s, s: s, t: -1, share: shareS,
			destr: true, minS: 1, quick: true,
			lisp: func(int64) string { return fmt.Sprintf("(setq %[1]s (rplacd %[1]s nil))", v[s]) },
			want: func(sv, _ []int64, _ int64) []int64 { return sv[:1] },
		})
		addOp(&opDef{
			code: fmt.Sprintf("rplacd!(%s,nil)", v[s]), name: "rplacd-nil", dst: -1, s: s, t: -1, share: shareKeep,
			destr: true, minS: 1, quick: true,
			lisp: func(int64) string { return fmt.Sprintf("(rplacd %s nil)", v[s]) },
		})
	}
}

// alphabet returns the op codes of a set: "quick" = the quick tier (first generation quick operations + every family of
// the second generation not marked thorough), "old-quick" / "all" = first generation only (quick / everything),
// "core" = the reduced first-generation alphabet of the deep BFS, "new" = second generation, "everything".
func alphabet(which string) []string {
	var out []string
	for _, o := range allOps {
		switch which {
		case engine.Quick:
			if !o.quick {
				continue
			}
		case "old-quick":
			if !o.quick || o.group != "" {
				continue
			}
		case "all":
			if o.group != "" {
				continue
			}
		case "new":
			if o.group == "" {
				continue
			}
		case "core":
			if !o.core {
				continue
			}
		case "mut":
			if !isMut(o) {
				continue
			}
		case "core5":
			if !o.core5 {
				continue
			}
		}
		out = append(out, o.code)
	}
	return out
}

// isMut: the operations of the reduced alphabet that modify or extend a list (what exposes an illegal alias).
func isMut(o *opDef) bool { return o.core && (o.destr || o.ext || o.name == "pop") }

func mentions(o *opDef, v int) bool { return o.dst == v || o.s == v || o.t == v }

func parseHist(codes []string) ([]*opDef, error) {
	out := make([]*opDef, len(codes))
	for i, c := range codes {
		o := opIndex[c]
		if o == nil {
			return nil, fmt.Errorf("unknown op %q", c)
		}
		out[i] = o
	}
	return out, nil
}

func families(codes []string) string {
	seen := map[string]bool{}
	var names []string
	for _, c := range codes {
		if n := opIndex[c].name; !seen[n] {
			seen[n] = true
			names = append(names, n)
		}
	}
	return strings.Join(names, " ")
}
