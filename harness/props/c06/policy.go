package c06

// Which operations are tried after a history (the engine's Enabled list; nil = the whole alphabet of the tier).
//
// quick tier (BFS to length 3 over first generation quick + second generation):
//
//	length 0, 1 : everything
//	length 2, [x, y]:
//	  both first generation            -> the first-generation quick alphabet (the bound of the earlier rounds, unchanged),
//	                                      plus the whole second generation when x and y are both in the reduced alphabet
//	  exactly one second generation    -> when the other one is in the reduced alphabet: the modifying operations of the
//	                                      reduced alphabet + the operations of the same family (and, for a site / box
//	                                      operation, of the same group on the same location); otherwise nothing
//	  both second generation           -> same family, or both of group site / box: modifying operations + same family /
//	                                      group; otherwise nothing
//
// thorough tier (BFS over the reduced alphabet): length <= 3 everything, length 4: the small alphabet of the fifth step.
func enabledAfter(hist []*opDef) (list []string, all bool) {
	switch len(hist) {
	case 2:
		x, y := hist[0], hist[1]
		switch {
		case x.group == "" && y.group == "":
			if x.core && y.core {
				return nil, true
			}
			return oldQuick(), false
		case x.group == "" || y.group == "":
			old, nw := x, y
			if y.group == "" {
				old, nw = y, x
			}
			if !old.core {
				return []string{}, false
			}
			return mutPlus(nw, nil), false
		default:
			if related(x, y) {
				return mutPlus(x, y), false
			}
			return []string{}, false
		}
	case 4:
		return alphabetCached("core5"), false
	}
	return nil, true
}

var alphaCache = map[string][]string{}

func alphabetCached(which string) []string {
	if l, has := alphaCache[which]; has {
		return l
	}
	l := alphabet(which)
	if l == nil {
		l = []string{}
	}
	alphaCache[which] = l
	return l
}

func oldQuick() []string { return alphabetCached("old-quick") }

var famOps = map[string][]string{}

// related: the same family, the same producer at another call site (site group), the same container (box group).
func related(p, o *opDef) bool {
	if p.name == o.name {
		return true
	}
	if p.group != o.group {
		return false
	}
	return o.group == "site" && p.fn == o.fn || o.group == "box" && sameBox(p, o)
}

func sameFamily(o *opDef) []string {
	if l, has := famOps[o.code]; has {
		return l
	}
	var l []string
	for _, p := range allOps {
		if p.quick && p.group != "" && related(p, o) {
			l = append(l, p.code)
		}
	}
	famOps[o.code] = l
	return l
}

func boxOf(o *opDef) string {
	for loc := 3; loc < nLoc; loc++ {
		if mentions(o, loc) {
			return varNames[loc]
		}
	}
	return ""
}

func sameBox(p, o *opDef) bool { return boxOf(p) != "" && boxOf(p) == boxOf(o) }

func mutPlus(x, y *opDef) []string {
	out := append([]string(nil), alphabetCached("mut")...)
	seen := map[string]bool{}
	for _, c := range out {
		seen[c] = true
	}
	for _, o := range []*opDef{x, y} {
		if o == nil {
			continue
		}
		for _, c := range sameFamily(o) {
			if !seen[c] {
				seen[c] = true
				out = append(out, c)
			}
		}
	}
	return out
}
