//go:build verif

// Package c10: generic dispatch equals the specification and is unaffected by
// its cache. This file holds the SEQUENTIAL part: an explicit-state BFS over
// histories of defmethod / remove-method / call on one fresh generic function
// per replay, compared with the cache-free reference dispatcher of seqref.go.
// (The concurrent part is built separately next to the seq*.go files.)
package c10

import (
	"fmt"
	"os"
	"regexp"
	"sort"
	"strconv"
	"strings"
	"sync"

	"github.com/ohler55/slip"
	"github.com/ohler55/slip/pkg/generic"

	"verif/engine"
	"verif/lisp"
)

func init() {
	engine.Register(&engine.Prop{
		ID:    "C10",
		Level: "model_checking",
		Rule: "explicit-state BFS over operation histories; the first operation chooses a configuration (arity 1 or 2, built-in " +
			"numeric class chain or a user defclass chain, which qualifiers/specialiser tuples/argument classes are offered); every " +
			"further operation is a defmethod (qualifier x specialiser tuple; redefinition = replacement with a new body), a " +
			"remove-method of a present method, or a call with one argument class tuple. Each transition replays its history on a " +
			"fresh generic function in a fresh scope, applies the oracle to the last operation and then calls the function once " +
			"with EVERY argument class tuple of the configuration (probes); each call's ordered (tr ...) trace and value are " +
			"compared with the cache-free reference dispatcher. States are deduplicated on a dump of the real generic.Aux " +
			"(method table, cache keys + identity of cached combinations, defaultCaller) read through an overlay accessor. " +
			"A transition is non-trivial when its last operation is a mutation that follows at least one call (cache or " +
			"fast path possibly warm) or a call with >= 2 applicable methods",
		Assumptions: []string{
			"class precedence lists of the argument classes used (fixnum, bignum, ratio, double-float, symbol, single-inheritance defclass chain) are the Common Lisp ones, written down in the harness",
			"call-next-method is always given the arguments explicitly (slip documents that it continues 'using the arguments provided')",
			"call-next-method from a primary method is a documented error in slip and is not in the alphabet",
			"calls for which no primary method is applicable are only checked weakly (statement silent): no Go fault, and if methods run they are applicable, current and run once",
			"the state key is sound if generic.Aux{methods,cache,defaultCaller} is all the state dispatch depends on (Lambda.Closure is overwritten before every use)",
		},
		Exec:      execAny, // sequential BFS transitions and the concurrent scenarios (conc.go)
		Enumerate: concEnumerate,
		BFS: &engine.BFS{
			Ops: func(tier string) []string {
				var ops []string
				for _, c := range tierConfigs(tier) {
					ops = append(ops, fmt.Sprintf("cfg:%s@%d", c.id, c.maxLen))
				}
				return ops
			},
			MaxDepth:     func(tier string) int { return 1 + histLen(tier) },
			NoDedupDepth: func(tier string) int { return 1 + noDedupLen(tier) },
			StateCap:     stateCap,
		},
		Required: []string{"executions-preempted", "race-executions", "group-d", "path-hit", "path-miss", "recall-after-mutation", "replace", "remove",
			"arounds>=2", "afters>=2", "befores>=2", "primaries>=2", "lexicographic-conflict", "no-applicable-method",
			"remove-entry-first-defined-unspecialised",
			"around-without-call-next-method", "call-after-remove"},
		Bound:         bound,
		Selftest:      selftest,
		CaseDeadlineS: 30,
	})
}

func envInt(name string, def int) int {
	if v, err := strconv.Atoi(os.Getenv(name)); err == nil && 0 < v {
		return v
	}
	return def
}

func noDedupLen(tier string) int {
	if tier == engine.Thorough {
		return envInt("C10_NODEDUP", 3)
	}
	return envInt("C10_NODEDUP", 2)
}

func stateCap(tier string) int {
	if tier == engine.Thorough {
		return envInt("C10_STATECAP", 3000000)
	}
	return 0
}

// ------------------------------------------------------------------ configurations

type argKind struct {
	src  string   // Lisp source of an argument of this kind
	typ  string   // the name slip keys its cache with (most specific class)
	cpl  []string // class precedence list, most specific first (Common Lisp)
	user bool
}

var argKinds = map[string]argKind{
	"f": {src: "1", typ: "fixnum", cpl: []string{"fixnum", "integer", "rational", "real", "number", "t"}},
	"B": {src: "12345678901234567890123", typ: "bignum", cpl: []string{"bignum", "integer", "rational", "real", "number", "t"}},
	"r": {src: "1/2", typ: "ratio", cpl: []string{"ratio", "rational", "real", "number", "t"}},
	"d": {src: "1.5", typ: "double-float", cpl: []string{"double-float", "float", "real", "number", "t"}},
	"s": {src: "'q", typ: "symbol", cpl: []string{"symbol", "t"}},
	"1": {src: "(make-instance 'vc1)", typ: "vc1", cpl: []string{"vc1", "vc2", "vc3", "vc4", "standard-object", "t"}, user: true},
	"2": {src: "(make-instance 'vc2)", typ: "vc2", cpl: []string{"vc2", "vc3", "vc4", "standard-object", "t"}, user: true},
	"3": {src: "(make-instance 'vc3)", typ: "vc3", cpl: []string{"vc3", "vc4", "standard-object", "t"}, user: true},
	"4": {src: "(make-instance 'vc4)", typ: "vc4", cpl: []string{"vc4", "standard-object", "t"}, user: true},
}

// config fixes the alphabet that follows a cfg: operation.
type config struct {
	id       string
	arity    int
	specs    []string // specialiser tuples offered to defmethod / remove-method
	variants string   // body variants offered to defmethod (see seqref.go)
	calls    []string // argument kind tuples offered to call (and used as probes)
	user     bool
}

func (c *config) cpls(args string) [][]string {
	parts := strings.Split(args, ",")
	out := make([][]string, len(parts))
	for i, p := range parts {
		out[i] = argKinds[p].cpl
	}
	return out
}

func tuples(per ...[]string) []string {
	out := []string{""}
	for i, list := range per {
		var next []string
		for _, pre := range out {
			for _, x := range list {
				if i == 0 {
					next = append(next, x)
				} else {
					next = append(next, pre+","+x)
				}
			}
		}
		out = next
	}
	return out
}

var allConfigs = func() map[string]*config {
	l := func(s ...string) []string { return s }
	list := []*config{
		// 1 argument, built-in numeric chain (+ t; a symbol argument reaches only t), small and full
		{id: "b1s", arity: 1, specs: l("fixnum", "rational", "u"), variants: "pbaw", calls: l("f", "r", "s")},
		{id: "b1", arity: 1, specs: l("fixnum", "integer", "rational", "real", "t"), variants: "pbaw", calls: l("f", "B", "r", "d", "s")},
		// 1 argument, user defclass chain vc1 < vc2 < vc3 < vc4
		{id: "u1", arity: 1, specs: l("vc1", "vc2", "vc3", "vc4"), variants: "pbaw", calls: l("1", "2", "3", "4"), user: true},
		// 1 argument, the three kinds of :around body (calls next / does not / asks next-method-p first)
		{id: "s1", arity: 1, specs: l("fixnum", "integer", "real"), variants: "pwsn", calls: l("f", "B", "d")},
		// 2 arguments, built-in classes, small and full
		{id: "b2s", arity: 2, specs: l("fixnum,fixnum", "fixnum,real", "real,fixnum", "u,u"), variants: "paw", calls: l("f,f", "f,d", "d,f")},
		// the two ways to write a parameter of class t: (x t) and a bare x ("u")
		{id: "n1", arity: 1, specs: l("fixnum", "t", "u"), variants: "pb", calls: l("f", "s")},
		{id: "n2", arity: 2, specs: l("fixnum,u", "fixnum,t", "u,u"), variants: "pa", calls: l("f,f", "d,f")},
		{id: "b2", arity: 2, specs: append(tuples(l("fixnum", "real"), l("fixnum", "real")), "t,t"), variants: "pbaw", calls: l("f,f", "f,d", "d,f", "d,d")},
		// 2 arguments, user classes
		{id: "u2", arity: 2, specs: tuples(l("vc1", "vc2"), l("vc1", "vc2")), variants: "paw", calls: l("1,1", "1,2", "2,1", "2,2"), user: true},
	}
	m := map[string]*config{}
	for _, c := range list {
		m[c.id] = c
	}
	return m
}()

// tierCfg: a configuration and the history length explored for it in a tier.
type tierCfg struct {
	*config
	maxLen int
}

// tierConfigs lists "id@len". C10_CFGS overrides it (development aid).
func tierConfigs(tier string) []tierCfg {
	spec := "b1s@5,u1@5,s1@5,b2s@5,u2@5,n1@5,n2@5"
	if tier == engine.Thorough {
		spec = "b1s@7,u1@7,s1@7,b2s@7,u2@7,n1@7,n2@7,b1@6,b2@6"
	}
	if v := os.Getenv("C10_CFGS"); v != "" {
		spec = v
	}
	var out []tierCfg
	for _, item := range strings.Split(spec, ",") {
		id, ls, _ := strings.Cut(item, "@")
		n, _ := strconv.Atoi(ls)
		if c := allConfigs[id]; c != nil && 0 < n {
			out = append(out, tierCfg{c, n})
		}
	}
	return out
}

func histLen(tier string) (n int) {
	for _, tc := range tierConfigs(tier) {
		if n < tc.maxLen {
			n = tc.maxLen
		}
	}
	return
}

func (c *config) slotLetters() string {
	out := ""
	for _, s := range "pba" {
		if strings.ContainsRune(c.variants, s) {
			out += string(s)
		}
	}
	if strings.ContainsAny(c.variants, "wsn") {
		out += "w"
	}
	return out
}

// ops lists the full alphabet of the configuration, simplest first.
func (c *config) ops() []string {
	var out []string
	for _, a := range c.calls {
		out = append(out, "c:"+a)
	}
	for _, v := range c.variants {
		for _, s := range c.specs {
			out = append(out, fmt.Sprintf("d:%c:%s", v, s))
		}
	}
	for _, v := range c.slotLetters() {
		seen := map[string]bool{}
		for _, s := range c.specs {
			if n := normSpec(s); !seen[n] {
				seen[n] = true
				out = append(out, fmt.Sprintf("r:%c:%s", v, n))
			}
		}
	}
	return out
}

// enabled lists the operations that make sense in the model state
// (remove-method only of present methods).
func (c *config) enabled(m *model) []string {
	var out []string
	for _, o := range c.ops() {
		if o[0] == 'r' {
			po, _ := parseOp(o)
			if !m.present(slotOf(po.variant), po.spec) {
				continue
			}
		}
		out = append(out, o)
	}
	return out
}

func bound(tier string) string {
	var parts []string
	for _, c := range tierConfigs(tier) {
		parts = append(parts, fmt.Sprintf("%s: histories of length <= %d over a %d-arg generic function, defmethod/remove-method on specialiser tuples {%s} "+
			"with bodies {%s}, call/probe tuples {%s} (%d operations)",
			c.id, c.maxLen, c.arity, strings.Join(c.specs, " "), c.variants, strings.Join(c.calls, " "), len(c.ops())))
	}
	capNote := ""
	if sc := stateCap(tier); 0 < sc {
		capNote = fmt.Sprintf("; state cap %d (if hit, the run is reported as not exhaustive: see notes and bfs_depth_completed)", sc)
	}
	return fmt.Sprintf("every history up to the stated length per configuration (BFS depth = 1 configuration choice + history), up to equality of the "+
		"real generic.Aux state, no deduplication up to length %d; every reached state additionally probed with every call tuple. %s%s",
		noDedupLen(tier), strings.Join(parts, " | "), capNote)
}

// ------------------------------------------------------------------ Lisp text

func specLambdaList(spec string) string {
	names := []string{"x", "y"}
	var b strings.Builder
	b.WriteByte('(')
	for i, s := range strings.Split(spec, ",") {
		if 0 < i {
			b.WriteByte(' ')
		}
		if s == "u" {
			b.WriteString(names[i]) // unspecialised parameter
		} else {
			fmt.Fprintf(&b, "(%s %s)", names[i], s)
		}
	}
	b.WriteByte(')')
	return b.String()
}

func argNames(arity int) string {
	if arity == 2 {
		return "x y"
	}
	return "x"
}

func defmethodSrc(name string, arity int, variant byte, spec, tag string) string {
	ll := specLambdaList(spec)
	an := argNames(arity)
	switch variant {
	case 'p':
		return fmt.Sprintf("(defmethod %s %s (tr '%s) '%s)", name, ll, tag, tag)
	case 'b':
		return fmt.Sprintf("(defmethod %s :before %s (tr '%s) 'ignored)", name, ll, tag)
	case 'a':
		return fmt.Sprintf("(defmethod %s :after %s (tr '%s) 'ignored)", name, ll, tag)
	case 'w':
		return fmt.Sprintf("(defmethod %s :around %s (tr '%s-in) (let ((v (call-next-method %s))) (tr '%s-out) (list '%s v)))",
			name, ll, tag, an, tag, tag)
	case 's':
		return fmt.Sprintf("(defmethod %s :around %s (tr '%s-in) '%s)", name, ll, tag, tag)
	case 'n':
		return fmt.Sprintf("(defmethod %s :around %s (tr '%s-in) (if (next-method-p) (let ((v (call-next-method %s))) (tr '%s-out) (list '%s v)) '%s-none))",
			name, ll, tag, an, tag, tag, tag)
	}
	panic("bad variant")
}

func removeSrc(name string, slot byte, spec string) string {
	q := "'()"
	switch slot {
	case 'b':
		q = "'(:before)"
	case 'a':
		q = "'(:after)"
	case 'w':
		q = "'(:around)"
	}
	return fmt.Sprintf("(remove-method '%s (find-method '%s %s '(%s)))", name, name, q, strings.ReplaceAll(spec, ",", " "))
}

func callSrc(name, args string) string {
	var b strings.Builder
	b.WriteByte('(')
	b.WriteString(name)
	for _, a := range strings.Split(args, ",") {
		b.WriteByte(' ')
		b.WriteString(argKinds[a].src)
	}
	b.WriteByte(')')
	return b.String()
}

func cacheKey(args string) string {
	parts := strings.Split(args, ",")
	for i, p := range parts {
		parts[i] = argKinds[p].typ
	}
	return strings.Join(parts, "|")
}

var (
	nameCounter int
	userOnce    sync.Once
	userErr     *lisp.Err
)

func ensureUserClasses() *lisp.Err {
	userOnce.Do(func() {
		for _, src := range []string{
			"(defclass vc4 () ())", "(defclass vc3 (vc4) ())", "(defclass vc2 (vc3) ())", "(defclass vc1 (vc2) ())",
		} {
			if _, err := lisp.Eval(src); err != nil {
				userErr = err
				return
			}
		}
	})
	return userErr
}

// ------------------------------------------------------------------ state key

var tagRe = regexp.MustCompile(`\b([pbawsn]-[a-z0-9_]+)-([0-9]+)\b`)

func labelTag(label string) string {
	if label == "" {
		return "-"
	}
	if m := tagRe.FindString(label); m != "" {
		return m
	}
	return "?" + label
}

// renderState renders the dump with method bodies reduced to their tags.
func renderState(st generic.VerifAuxState) string {
	if !st.Found {
		return "<no generic function>"
	}
	var b strings.Builder
	fmt.Fprintf(&b, "req=%d dk=%s\n", st.ReqCnt, st.DefaultKey)
	dump := func(title string, m map[string][]generic.VerifCombo) {
		keys := make([]string, 0, len(m))
		for k := range m {
			keys = append(keys, k)
		}
		sort.Strings(keys)
		b.WriteString(title)
		b.WriteByte('\n')
		for _, k := range keys {
			fmt.Fprintf(&b, " %s:", k)
			for _, c := range m[k] {
				live := c.Live
				if live == "" {
					live = "DETACHED"
				}
				fmt.Fprintf(&b, " [@%s P=%s B=%s A=%s W=%s]", live, labelTag(c.Primary), labelTag(c.Before), labelTag(c.After), labelTag(c.Wrap))
			}
			b.WriteByte('\n')
		}
	}
	dump("methods", st.Methods)
	dump("cache", st.Cache)
	fmt.Fprintf(&b, "default=%s live=%v\n", labelTag(st.Default), st.DefaultLive)
	// the specialiser names remove-method will rebuild its key from (Method.Doc of each table entry)
	dkeys := make([]string, 0, len(st.MethodDocTypes))
	for k := range st.MethodDocTypes {
		dkeys = append(dkeys, k)
	}
	sort.Strings(dkeys)
	for _, k := range dkeys {
		fmt.Fprintf(&b, "doc %s=%s\n", k, st.MethodDocTypes[k])
	}
	return b.String()
}

// canonKey renames the generation numbers of every (variant, tuple) in order
// of first appearance, so that two states that differ only in how often a
// method had been redefined get the same key.
func canonKey(s string) string {
	seen := map[string]map[string]int{}
	return tagRe.ReplaceAllStringFunc(s, func(m string) string {
		sub := tagRe.FindStringSubmatch(m)
		g := seen[sub[1]]
		if g == nil {
			g = map[string]int{}
			seen[sub[1]] = g
		}
		n, has := g[sub[2]]
		if !has {
			n = len(g) + 1
			g[sub[2]] = n
		}
		return fmt.Sprintf("%s-#%d", sub[1], n)
	})
}

// ------------------------------------------------------------------ exec

type callObs struct {
	trace []string
	value string
	err   *lisp.Err
}

func (o callObs) digest() string {
	if o.err != nil {
		return "ERR:" + o.err.Class + "|" + strings.Join(o.trace, " ")
	}
	return strings.Join(o.trace, " ") + "=>" + o.value
}

func doCall(scope *slip.Scope, name, args string) (o callObs) {
	lisp.ResetTrace()
	val, err := lisp.EvalIn(scope, callSrc(name, args))
	o.trace = lisp.Trace()
	o.err = err
	if err == nil {
		o.value = lisp.Show(val)
	}
	return
}

func exec(spec string) (res engine.Result) {
	hist, ok := engine.ParseBFSSpec(spec)
	if !ok {
		res.Fail("harness:bad-spec", spec)
		return
	}
	if len(hist) == 0 {
		res.Key = "root"
		res.Outcome = "root"
		return
	}
	if !strings.HasPrefix(hist[0], "cfg:") {
		return // only a configuration choice is applicable at the root
	}
	for _, o := range hist[1:] {
		if strings.HasPrefix(o, "cfg:") {
			return // a second configuration choice is not applicable (checked before any replay work)
		}
	}
	cfgID, lenStr, _ := strings.Cut(strings.TrimPrefix(hist[0], "cfg:"), "@")
	cfgMaxLen, _ := strconv.Atoi(lenStr)
	cfg := allConfigs[cfgID]
	if cfg == nil || cfgMaxLen <= 0 {
		res.Fail("harness:bad-spec", "unknown configuration in "+spec)
		return
	}
	if cfg.user {
		if err := ensureUserClasses(); err != nil {
			res.Fail("harness:defclass", err.String())
			return
		}
	}
	nameCounter++
	name := fmt.Sprintf("c10gf%d", nameCounter)
	scope := slip.NewScope()
	defer func() {
		defer func() { _ = recover() }()
		slip.CurrentPackage.Undefine(name)
	}()
	if _, err := lisp.EvalIn(scope, fmt.Sprintf("(defgeneric %s (%s))", name, argNames(cfg.arity))); err != nil {
		res.Fail("harness:defgeneric", err.String())
		return
	}
	m := newModel(cfg, refOpts{})
	ck := &checker{cfg: cfg, m: m, res: &res, hist: hist}
	var outcome []string
	callsSeen := map[string]bool{}   // argument tuples called since the start
	recallArmed := map[string]bool{} // tuples called, then followed by a mutation
	lastMutation := byte(0)
	for i, opstr := range hist[1:] {
		last := i == len(hist)-2
		o, pok := parseOp(opstr)
		if !pok {
			if strings.HasPrefix(opstr, "cfg:") {
				return engine.Result{} // a second configuration choice is not applicable
			}
			res.Fail("harness:bad-spec", "bad operation "+opstr)
			return
		}
		switch o.kind {
		case 'd':
			slot := slotOf(o.variant)
			replaced := m.present(slot, o.spec)
			m.apply(o)
			tag := m.t[normSpec(o.spec)][slot].tag(o.spec)
			_, err := lisp.EvalIn(scope, defmethodSrc(name, cfg.arity, o.variant, o.spec, tag))
			if last {
				if replaced {
					res.Hit("replace")
				}
				if 0 < len(callsSeen) {
					res.Nontrivial = true
				}
				if err != nil {
					ck.opError("defmethod", err)
				}
				outcome = append(outcome, "defmethod:"+errDigest(err))
			}
			for k := range callsSeen {
				recallArmed[k] = true
			}
			lastMutation = 'd'
		case 'r':
			if !m.present(slotOf(o.variant), o.spec) {
				return engine.Result{} // not applicable here
			}
			if last && unspecialised(m.firstSrc[normSpec(o.spec)]) {
				res.Hit("remove-entry-first-defined-unspecialised")
			}
			m.apply(o)
			_, err := lisp.EvalIn(scope, removeSrc(name, o.variant, o.spec))
			if last {
				res.Hit("remove")
				if 0 < len(callsSeen) {
					res.Nontrivial = true
				}
				if err != nil {
					ck.opError("remove-method", err)
				}
				outcome = append(outcome, "remove-method:"+errDigest(err))
			}
			for k := range callsSeen {
				recallArmed[k] = true
			}
			lastMutation = 'r'
		case 'c':
			pre := ""
			if last {
				pre = generic.VerifPath(name, cacheKey(o.spec))
			}
			obs := doCall(scope, name, o.spec)
			if last {
				ex := m.call(o.spec)
				if recallArmed[o.spec] {
					res.Hit("recall-after-mutation")
				}
				ck.check("call", o.spec, ex, obs, pre, lastMutation)
				outcome = append(outcome, obs.digest())
			}
			callsSeen[o.spec] = true
		}
	}
	post := generic.VerifAux(name)
	if !post.Found {
		res.Fail("harness:no-aux", "generic function "+name+" has no generic.Aux")
		return
	}
	res.Key = cfg.id + "\n" + canonKey(renderState(post))
	if post.Default != "" {
		res.Hit("default-caller-set")
	}
	// probes: every argument tuple, on the state just reached
	for _, args := range cfg.calls {
		pre := generic.VerifPath(name, cacheKey(args))
		obs := doCall(scope, name, args)
		ex := m.call(args)
		if recallArmed[args] {
			res.Hit("recall-after-mutation")
		}
		ck.check("probe", args, ex, obs, pre, lastMutation)
		outcome = append(outcome, obs.digest())
	}
	res.Outcome = canonKey(strings.Join(outcome, ";"))
	if len(hist)-1 < cfgMaxLen {
		res.Enabled = cfg.enabled(m)
	} // else: no successor is applicable (only cfg: operations are offered, and they are rejected)
	return
}

func errDigest(err *lisp.Err) string {
	if err == nil {
		return "ok"
	}
	return "ERR:" + err.Class
}

// ------------------------------------------------------------------ oracle

type checker struct {
	cfg  *config
	m    *model
	res  *engine.Result
	hist []string
	seen map[string]bool
}

func (ck *checker) fail(sig, detail string) {
	if ck.seen == nil {
		ck.seen = map[string]bool{}
	}
	if ck.seen[sig] {
		return
	}
	ck.seen[sig] = true
	ck.res.Fail(sig, detail)
}

func (ck *checker) opError(what string, err *lisp.Err) {
	kind := "error:" + err.Class
	if err.GoFault {
		kind = "go-fault"
	}
	ck.fail(fmt.Sprintf("arity=%d op=%s kind=%s", ck.cfg.arity, what, kind),
		fmt.Sprintf("history %v: %s failed: %s", ck.hist, what, err.String()))
}

func slotOfTag(tag string) int { return slotOf(tag[0]) }

func baseTag(entry string) string {
	entry = strings.TrimSuffix(entry, "-in")
	entry = strings.TrimSuffix(entry, "-out")
	return entry
}

func slotList(set map[int]bool) string {
	var names []string
	for s := 0; s < 4; s++ {
		if set[s] {
			names = append(names, slotNames[s])
		}
	}
	return strings.Join(names, "+")
}

// check compares one observed call with the reference expectation.
func (ck *checker) check(how, args string, ex expect, obs callObs, path string, lastMutation byte) {
	res := ck.res
	// path = the way Aux.Call takes, read from the implementation's state just before the call
	res.Hit("path-" + path)
	if lastMutation == 'r' {
		res.Hit("call-after-remove")
	}
	// vacuity counters from the reference's view of this call
	if 2 <= len(ex.applicable[3]) {
		res.Hit("arounds>=2")
	}
	if 2 <= len(ex.applicable[2]) {
		res.Hit("afters>=2")
	}
	if 2 <= len(ex.applicable[1]) {
		res.Hit("befores>=2")
	}
	if 2 <= len(ex.applicable[0]) {
		res.Hit("primaries>=2")
	}
	napp := len(ex.applicable[0]) + len(ex.applicable[1]) + len(ex.applicable[2]) + len(ex.applicable[3])
	if 2 <= napp && how == "call" {
		res.Nontrivial = true
	}
	if ck.cfg.arity == 2 && lexConflict(ck.m.t, ck.cfg.cpls(args)) {
		res.Hit("lexicographic-conflict")
	}
	for _, a := range ex.applicable[3] {
		if a[0] == 's' {
			res.Hit("around-without-call-next-method")
		}
		if a[0] == 'n' {
			res.Hit("around-next-method-p")
		}
	}
	switch ex.kind {
	case exNone:
		res.Hit("no-applicable-method")
	case exLenient:
		res.Hit("no-primary-lenient")
	}

	sig := func(kind string) string {
		return fmt.Sprintf("arity=%d kind=%s path=%s", ck.cfg.arity, kind, path)
	}
	detail := func(what string) string {
		stale := ""
		noApp := obs.err != nil && obs.err.IsA("no-applicable-method-error")
		if un, ok := ck.m.staleMatch(args, obs.trace, obs.value, obs.err != nil, noApp); ok {
			stale = fmt.Sprintf("; NOTE the observation equals the reference dispatch under an EARLIER method table (not reflecting the last %s)", un)
		}
		got := strings.Join(obs.trace, " ") + " => " + obs.value
		if obs.err != nil {
			got = strings.Join(obs.trace, " ") + " => " + obs.err.String()
		}
		want := strings.Join(ex.trace, " ") + " => " + ex.value
		switch ex.kind {
		case exNone:
			want = "no applicable method: an error and no method run"
		case exLenient:
			want = "no applicable primary (only checked weakly); reference trace " + strings.Join(ex.trace, " ")
		}
		return fmt.Sprintf("%s: history %v, %s %s on methods {%s} [%s]: expected %s; observed %s%s", what, ck.hist, how,
			callSrc("gf", args), ck.m.t.String(), path, want, trunc(got, 400), stale)
	}
	if obs.err != nil && obs.err.GoFault {
		ck.fail(sig("go-fault"), detail("Go fault"))
		return
	}
	// classify the observed trace entries against the current table
	inTable := map[string]bool{}
	for spec, e := range ck.m.t {
		for _, d := range e {
			if d != nil {
				inTable[d.tag(spec)] = true
			}
		}
	}
	applicable := map[string]bool{}
	for s := 0; s < 4; s++ {
		for _, t := range ex.applicable[s] {
			applicable[t] = true
		}
	}
	ranRemoved, ranRemovedU, ranReplaced := map[int]bool{}, map[int]bool{}, map[int]bool{}
	ranInapplicable, ranTwice := map[int]bool{}, map[int]bool{}
	count := map[string]int{}
	for _, e := range obs.trace {
		if strings.HasSuffix(e, "-out") {
			continue
		}
		t := baseTag(e)
		if !tagRe.MatchString(t) {
			ck.fail("harness:trace", "unrecognised trace entry "+e)
			return
		}
		count[t]++
		switch {
		case !inTable[t]:
			switch {
			case ck.m.gone[t] == "replaced":
				ranReplaced[slotOfTag(t)] = true
			case ck.m.gone[t] == "removed-u":
				ranRemovedU[slotOfTag(t)] = true
			default:
				ranRemoved[slotOfTag(t)] = true
			}
		case !applicable[t]:
			ranInapplicable[slotOfTag(t)] = true
		case 1 < count[t]:
			ranTwice[slotOfTag(t)] = true
		}
	}
	// one failure per (kind, qualifier): a single defect then yields a handful of signatures
	bad := false
	each := func(kind string, set map[int]bool, what string) {
		for sl := 0; sl < 4; sl++ {
			if set[sl] {
				bad = true
				ck.fail(sig(kind+":"+slotNames[sl]), detail(what))
			}
		}
	}
	each("ran-removed", ranRemoved, "a method that was removed by remove-method ran")
	each("ran-removed(tuple-first-defined-with-unspecialised-parameter)", ranRemovedU,
		"a method that was removed by remove-method ran (the first defmethod for its specialiser tuple had an unspecialised parameter)")
	each("ran-replaced", ranReplaced, "the old body of a redefined method ran")
	each("ran-inapplicable", ranInapplicable, "a method that is not applicable to the arguments ran")
	each("ran-twice", ranTwice, "a method ran twice")
	switch ex.kind {
	case exNone:
		if obs.err == nil && !bad {
			ck.fail(sig("no-error-without-applicable-method"), detail("call without applicable method"))
		}
		return
	case exLenient:
		// statement silent about a call without applicable primary: only the
		// "nothing stale, nothing inapplicable, nothing twice" part is demanded
		return
	}
	// strict: an applicable primary exists
	if obs.err != nil {
		ck.fail(sig("error:"+obs.err.Class), detail("error instead of dispatch"))
		return
	}
	if equalStrings(ex.trace, obs.trace) {
		if ex.value != obs.value {
			ck.fail(sig("value"), detail("wrong value"))
		}
		return
	}
	if bad {
		return // stale, inapplicable or repeated methods ran: that is the finding
	}
	// From here on every observed entry is a current, applicable method that ran once.
	// (A) the :around chain
	var expIns, obsIns, obsOuts, obsInner []string
	for _, e := range ex.trace {
		if strings.HasSuffix(e, "-in") {
			expIns = append(expIns, baseTag(e))
		}
	}
	for _, e := range obs.trace {
		switch {
		case strings.HasSuffix(e, "-in"):
			obsIns = append(obsIns, baseTag(e))
		case strings.HasSuffix(e, "-out"):
			obsOuts = append(obsOuts, baseTag(e))
		default:
			obsInner = append(obsInner, e)
		}
	}
	if !equalStrings(expIns, obsIns) {
		ran := map[string]bool{}
		for _, t := range obsIns {
			ran[t] = true
		}
		want := map[string]bool{}
		var ranks []string
		for i, t := range expIns {
			want[t] = true
			if !ran[t] {
				ranks = append(ranks, strconv.Itoa(i+1))
			}
		}
		extra := false
		for _, t := range obsIns {
			extra = extra || !want[t]
		}
		var k []string
		if 0 < len(ranks) {
			// name the expected :around methods that WERE entered, by specificity rank (1 = most specific)
			var entered []string
			for i, t := range expIns {
				if ran[t] {
					entered = append(entered, strconv.Itoa(i+1))
				}
			}
			if len(entered) == 0 {
				entered = []string{"none"}
			}
			k = append(k, fmt.Sprintf("entered#%s-of-%d", strings.Join(entered, "+"), len(expIns)))
		}
		if extra {
			k = append(k, "continued-past-an-around-that-does-not-call-next")
		}
		if len(k) == 0 {
			k = append(k, "order")
		}
		ck.fail(sig("around-chain:"+strings.Join(k, ",")), detail("wrong :around chain"))
	}
	// (B) what must follow GIVEN the around chain that was actually entered (S3/S9: a
	// skipped :around must not hide what the rest of the call does)
	continues := len(obsIns) == 0 || obsIns[len(obsIns)-1][0] != 's'
	var expInner []string
	if continues {
		expInner = append(expInner, ex.applicable[1]...)
		expInner = append(expInner, ex.applicable[0][0])
		for i := len(ex.applicable[2]) - 1; 0 <= i; i-- {
			expInner = append(expInner, ex.applicable[2][i])
		}
	}
	var given []string
	for _, t := range obsIns {
		given = append(given, t+"-in")
	}
	given = append(given, expInner...)
	var expOuts []string
	for i := len(obsIns) - 1; 0 <= i; i-- {
		if obsIns[i][0] != 's' {
			expOuts = append(expOuts, obsIns[i])
			given = append(given, obsIns[i]+"-out")
		}
	}
	if equalStrings(given, obs.trace) {
		v := "nil"
		if continues {
			v = ex.applicable[0][0]
		}
		for i := len(obsIns) - 1; 0 <= i; i-- {
			if obsIns[i][0] == 's' {
				v = obsIns[i]
			} else {
				v = "(" + obsIns[i] + " " + v + ")"
			}
		}
		if v != obs.value {
			ck.fail(sig("value"), detail("wrong value (for the :around chain that was entered, the value must be "+v+")"))
		}
		return
	}
	if !equalStrings(expInner, obsInner) {
		ranI := map[string]bool{}
		for _, t := range obsInner {
			ranI[t] = true
		}
		wantI := map[string]bool{}
		missing, unexpected := map[int]bool{}, map[int]bool{}
		for _, t := range expInner {
			wantI[t] = true
			if !ranI[t] {
				missing[slotOfTag(t)] = true
			}
		}
		for _, t := range obsInner {
			if !wantI[t] {
				unexpected[slotOfTag(t)] = true
			}
		}
		if 0 < len(missing) || 0 < len(unexpected) {
			each("missing", missing, "an applicable method did not run")
			each("unexpected", unexpected, "an applicable method ran that must not run in this call")
			return
		}
		wrong := map[int]bool{}
		for s := 0; s < 3; s++ {
			var a, b []string
			for _, e := range expInner {
				if slotOfTag(e) == s {
					a = append(a, e)
				}
			}
			for _, e := range obsInner {
				if slotOfTag(e) == s {
					b = append(b, e)
				}
			}
			if !equalStrings(a, b) {
				wrong[s] = true
			}
		}
		if 0 < len(wrong) {
			each("order", wrong, "methods of one qualifier ran in the wrong order")
		} else {
			ck.fail(sig("order:between-qualifiers"), detail("before/primary/after phases in the wrong order"))
		}
		return
	}
	if !equalStrings(expOuts, obsOuts) {
		ck.fail(sig("around-exit-order"), detail(":around methods do not return in reverse order of entry"))
		return
	}
	ck.fail(sig("order:around-vs-inner"), detail(":around entries/exits interleaved wrongly with the inner methods"))
}

// lexConflict: two applicable specialiser tuples whose per-argument ranks
// disagree (the first argument prefers one, the second the other).
func lexConflict(t table, cpls [][]string) bool {
	var ranks [][]int
	for spec := range t {
		parts := strings.Split(spec, ",")
		if len(parts) != len(cpls) {
			continue
		}
		r := make([]int, len(parts))
		ok := true
		for i, p := range parts {
			r[i] = -1
			for ci, c := range cpls[i] {
				if c == p {
					r[i] = ci
				}
			}
			ok = ok && 0 <= r[i]
		}
		if ok {
			ranks = append(ranks, r)
		}
	}
	for i := range ranks {
		for j := range ranks {
			if ranks[i][0] < ranks[j][0] && ranks[i][1] > ranks[j][1] {
				return true
			}
		}
	}
	return false
}

func trunc(s string, n int) string {
	if len(s) <= n {
		return s
	}
	return s[:n] + "..."
}
