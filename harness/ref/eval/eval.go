// Package eval is a small, independent reference evaluator for a Common-Lisp
// subset: the core forms (quote, progn, if, when, unless, cond, and, or, let,
// let*, setq, lambda, defun, funcall, dolist, dotimes, do) and the non-local
// exits (block / return-from / return, tagbody / go, unwind-protect, errors).
//
// It shares no code with slip. Programs are S-expression trees (Node) built
// in Go and rendered to text by Render; the same tree is interpreted here.
// Non-local exits are Go panics carrying the *lexically* resolved target, so
// "the lexically matching block or tag and nowhere else" holds by
// construction. Errors are Go panics carrying a *Condition with an abstract
// class name. The observable result of a run is (value, ordered trace of the
// keys passed to (tr key [value]), class of the unhandled condition, final
// state of the mutex and stream objects that were created).
//
// A Mutations value switches on one deliberately wrong behaviour at a time;
// the property harnesses use these as "mutated references" to prove that their
// case sets can tell such a bug from the real semantics (rule S6).
package eval

import (
	"fmt"
	"strconv"
	"strings"
)

// ---------------------------------------------------------------- syntax

// Node is an S-expression: Sym, Int, Str or List. The Go nil Node is NIL.
type Node interface{}

// Sym is a symbol (lower case by convention).
type Sym string

// Int is a fixnum literal.
type Int int64

// Str is a string literal.
type Str string

// List is a proper list.
type List []Node

// L builds a list.
func L(items ...Node) List { return List(items) }

// Q builds (quote x).
func Q(x Node) List { return List{Sym("quote"), x} }

// Render writes the program text of a node (the harness' own writer).
func Render(n Node) string {
	var b strings.Builder
	render(&b, n)
	return b.String()
}

// RenderAll renders top-level forms, one per line.
func RenderAll(forms []Node) string {
	var b strings.Builder
	for i, f := range forms {
		if 0 < i {
			b.WriteByte('\n')
		}
		render(&b, f)
	}
	return b.String()
}

func render(b *strings.Builder, n Node) {
	switch v := n.(type) {
	case nil:
		b.WriteString("nil")
	case Sym:
		b.WriteString(string(v))
	case Int:
		b.WriteString(strconv.FormatInt(int64(v), 10))
	case Str:
		b.WriteString(strconv.Quote(string(v)))
	case List:
		if len(v) == 0 {
			b.WriteString("nil")
			return
		}
		if len(v) == 2 {
			if s, ok := v[0].(Sym); ok && s == "quote" {
				b.WriteByte('\'')
				render(b, v[1])
				return
			}
		}
		b.WriteByte('(')
		for i, e := range v {
			if 0 < i {
				b.WriteByte(' ')
			}
			render(b, e)
		}
		b.WriteByte(')')
	default:
		panic(fmt.Sprintf("eval.Render: unsupported node %T", n))
	}
}

// ---------------------------------------------------------------- values

// Value is a runtime value: nil (NIL), T, int64, string, Sym, []Value,
// *Closure, *Mutex, *Stream, *Condition, Wild.
type Value interface{}

type tType struct{}

// T is the true value.
var T = tType{}

type wildType struct{ falsy bool }

// Wild is a value the reference does not pin down; comparisons must accept anything.
var Wild = wildType{}

// WildFalse is what ignore-errors yields after it caught an error: (values nil condition). As the result of a
// program it is not pinned down (a Wild), as a test (and, or, if, ...) it counts as its primary value nil.
var WildFalse = wildType{falsy: true}

// IsWild reports whether v is a value that comparisons must not pin down.
func IsWild(v Value) bool {
	_, ok := v.(wildType)
	return ok
}

// Closure is a function value.
type Closure struct {
	Name   string // "" for a lambda; a defun establishes a block of this name
	Params []string
	Body   []Node
	env    *env
}

// Mutex is a lock object.
type Mutex struct {
	Name   string
	Locked bool
}

// Stream is a file stream object.
type Stream struct {
	Name     string
	Open     bool
	Dir      string // input | output | io
	IfExists string // "" | supersede | append | overwrite | rename
	Written  string // what write-string put into it while it was open
}

// Content is what the file holds in the end when it held init before the stream was opened.
func (s *Stream) Content(init string) string {
	switch {
	case s.Dir == "input":
		return init
	case s.IfExists == "supersede" || s.IfExists == "rename":
		return s.Written
	case s.IfExists == "append":
		return init + s.Written
	}
	// overwrite (and the default): written over the old bytes from the start
	if len(s.Written) < len(init) {
		return s.Written + init[len(s.Written):]
	}
	return s.Written
}

// Condition is a signalled error.
type Condition struct {
	Class   string // abstract: error | division-by-zero | unbound-variable | type-error | control-error | program-error
	Message string
	Alt     []string // classes of the errors that were in flight when a cleanup form signalled this one
}

// Show renders a value in the notation of harness/lisp.Show.
func Show(v Value) string {
	switch t := v.(type) {
	case nil:
		return "nil"
	case tType:
		return "t"
	case wildType:
		return "*"
	case int64:
		return strconv.FormatInt(t, 10)
	case string:
		return strconv.Quote(t)
	case Sym:
		return strings.ToLower(string(t))
	case []Value:
		if len(t) == 0 {
			return "nil"
		}
		parts := make([]string, len(t))
		for i, e := range t {
			parts[i] = Show(e)
		}
		return "(" + strings.Join(parts, " ") + ")"
	case *Closure:
		return "#<function>"
	case *Mutex:
		return "#<mutex>"
	case *Stream:
		return "#<file-stream>"
	case *Condition:
		return "#<" + t.Class + ">"
	case *Opaque:
		return "#<" + t.Kind + ">"
	case *Package:
		return "#<package>"
	case *Instance:
		return "#<instance>"
	case multi:
		parts := make([]string, len(t))
		for i, e := range t {
			parts[i] = Show(e)
		}
		return "#values(" + strings.Join(parts, " ") + ")"
	case *Builtin:
		return "#<function>"
	case *HashTable:
		return "#<hash-table>"
	}
	return fmt.Sprintf("#<?%T>", v)
}

func truthy(v Value) bool {
	if v == nil {
		return false
	}
	if w, ok := v.(wildType); ok && w.falsy {
		return false
	}
	if l, ok := v.([]Value); ok && len(l) == 0 {
		return false
	}
	return true
}

// ---------------------------------------------------------------- mutations

// Mutations selects deliberately wrong behaviours (all false = the reference).
type Mutations struct {
	// BodyIgnoresExit: when/unless/cond bodies swallow a return-from/go that
	// passes through them and carry on with the next body form.
	BodyIgnoresExit bool
	// CleanupTwiceOnError: unwind-protect runs its cleanup forms twice when
	// the protected form signals an error.
	CleanupTwiceOnError bool
	// CleanupSkippedOnGo: unwind-protect does not run its cleanup forms when
	// it is left by go.
	CleanupSkippedOnGo bool
	// CleanupOuterFirst: on a return-from, cleanups run outermost first.
	CleanupOuterFirst bool
	// OutermostBlock: return-from picks the OUTERMOST enclosing block of
	// that name instead of the innermost (lexically matching) one.
	OutermostBlock bool
	// LoopReturnNil: (return v) out of dolist/dotimes/do yields nil.
	LoopReturnNil bool
	// MutexKeptOnError: with-mutex-lock does not unlock when left by an error.
	MutexKeptOnError bool
	// StreamKeptOnExit: with-open-file does not close when left by return-from/go.
	StreamKeptOnExit bool
	// ErrorClassLost: an error that unwinds through unwind-protect is
	// re-signalled as a plain error.
	ErrorClassLost bool
	// GoBackwardIgnored: a go to a tag that precedes the current statement
	// ends the tagbody instead of looping.
	GoBackwardIgnored bool
	// CleanupRerunOnCleanupError: when a cleanup form signals an error while the
	// unwind-protect is left normally or by return-from/go, the cleanup forms
	// are run again from the start (up to the failing one).
	CleanupRerunOnCleanupError bool
	// CleanupContinuesAfterError: the cleanup forms after a failing one still run.
	CleanupContinuesAfterError bool
	// LetSequential: let binds like let* (not an exit bug; used by C01-like checks).
	LetSequential bool
	// SwallowIn: the body of the named form (more.go: case, ecase, typecase, etypecase, and, or, prog1, prog2,
	// multiple-value-prog1, progv, multiple-value-bind, with-slots, with-output-to-string, ...) swallows a
	// return-from / return / go that passes through it and carries on with its next body form.
	SwallowIn string
	// DropsGo: the named iteration form (do*, loop, dovector, do-symbols, do-external-symbols, prog, prog*)
	// drops a go that leaves through it to an outer tagbody and carries on with its next statement.
	DropsGo string
	// CleanupExitIgnored: a return-from / return / go evaluated inside a cleanup form that would leave the
	// unwind-protect is discarded, the remaining cleanup forms run and whatever was in flight continues.
	CleanupExitIgnored bool
	// CleanupExitRerunsCleanup: when a cleanup form leaves the unwind-protect by return-from / return / go,
	// the cleanup forms are started a second time.
	CleanupExitRerunsCleanup bool
	// StreamKeptOnError: with-open-file does not close when left by an error.
	StreamKeptOnError bool
	// HOFSwallows: the named built-in higher-order function (mapcar, every, reduce, sort, ... or "*" for all of them)
	// treats a return-from / return / go that leaves the function it called as that function's value (true) and
	// carries on with the next element.
	HOFSwallows string
	// ValueSwallow: an exit that leaves a form in the named kind of value position (arg, init, setq, test, loop-form,
	// with-arg, value) is dropped, nil is taken as the value and the enclosing form carries on.
	ValueSwallow string
	// ClassLostInHOF: an error that passes a built-in higher-order function is re-signalled as a plain error.
	ClassLostInHOF bool
	// LambdaConsumesNilReturn: the call of an anonymous function consumes a (return ..) / (return-from nil ..) that
	// passes through it on its way to a nil block outside and yields its value as the value of the call.
	LambdaConsumesNilReturn bool
}

// ---------------------------------------------------------------- interpreter

type cell struct{ v Value }

type blockFrame struct {
	name   string // "" = nil block
	active bool
}

type tagFrame struct {
	tags   map[string]int // tag text -> statement index
	active bool
}

type env struct {
	parent *env
	vars   map[string]*cell
	block  *blockFrame
	tags   *tagFrame
}

type blockExit struct {
	frame *blockFrame
	val   Value
}

type goExit struct {
	frame *tagFrame
	index int
	back  bool
}

// Budget is raised when the step budget is exhausted (runaway program).
type Budget struct{}

// Deadlock is raised when a held mutex is locked again.
type Deadlock struct{ Name string }

// Interp is one interpreter instance (one program run).
type Interp struct {
	Mut     Mutations
	Trace   []string
	Funcs   map[string]*Closure
	Mutexes []*Mutex
	Streams []*Stream
	Steps   int // remaining budget
	global  *env

	postponed []postponedCleanup // only used by Mutations.CleanupOuterFirst
	whoppers  []whopFrame        // more.go: send / continue-whopper
}

type postponedCleanup struct {
	forms []Node
	e     *env
}

// New returns a fresh interpreter.
func New(m Mutations) *Interp {
	return &Interp{Mut: m, Funcs: map[string]*Closure{}, Steps: 100000, global: &env{vars: map[string]*cell{}}}
}

// SetGlobal binds a variable in the root environment (like Scope.Let on the root scope).
func (in *Interp) SetGlobal(name string, v Value) {
	in.global.vars[name] = &cell{v}
}

// Global reads a root variable.
func (in *Interp) Global(name string) (Value, bool) {
	c := in.global.vars[name]
	if c == nil {
		return nil, false
	}
	return c.v, true
}

// NewMutex creates a tracked mutex.
func (in *Interp) NewMutex(name string) *Mutex {
	m := &Mutex{Name: name}
	in.Mutexes = append(in.Mutexes, m)
	return m
}

// Outcome of a run.
type Outcome struct {
	Value    Value
	Trace    []string
	ErrClass string // "" = completed normally
	ErrMsg   string
	ErrAlt   []string // other acceptable classes (errors that were in flight when a cleanup form failed)
	Deadlock bool
	Budget   bool
}

// Run evaluates the top-level forms in order and returns the last value.
func (in *Interp) Run(forms []Node) (out Outcome) {
	defer func() {
		out.Trace = in.Trace
		if r := recover(); r != nil {
			out.Value = nil
			switch t := r.(type) {
			case *Condition:
				out.ErrClass, out.ErrMsg, out.ErrAlt = t.Class, t.Message, t.Alt
			case *blockExit, *goExit:
				// cannot happen: targets are resolved lexically and are active
				out.ErrClass, out.ErrMsg = "control-error", "exit escaped to top level"
			case Budget:
				out.Budget = true
			case Deadlock:
				out.Deadlock = true
			default:
				panic(r)
			}
		}
	}()
	for _, f := range forms {
		out.Value = in.eval(f, in.global)
	}
	return
}

func (in *Interp) signal(class, format string, args ...any) {
	panic(&Condition{Class: class, Message: fmt.Sprintf(format, args...)})
}

func (e *env) lookup(name string) *cell {
	for ; e != nil; e = e.parent {
		if e.vars != nil {
			if c := e.vars[name]; c != nil {
				return c
			}
		}
	}
	return nil
}

func (e *env) findBlock(name string, outermost bool) (found *blockFrame) {
	for ; e != nil; e = e.parent {
		if e.block != nil && e.block.name == name {
			if !outermost {
				return e.block
			}
			found = e.block
		}
	}
	return
}

func (e *env) findTag(tag string) (*tagFrame, int) {
	for ; e != nil; e = e.parent {
		if e.tags != nil {
			if i, ok := e.tags.tags[tag]; ok {
				return e.tags, i
			}
		}
	}
	return nil, 0
}

func tagText(n Node) (string, bool) {
	switch t := n.(type) {
	case Sym:
		return "s:" + strings.ToLower(string(t)), true
	case Int:
		return "i:" + strconv.FormatInt(int64(t), 10), true
	case nil:
		return "s:nil", true
	}
	return "", false
}

func blockName(n Node) string {
	switch t := n.(type) {
	case nil:
		return ""
	case Sym:
		if t == "nil" {
			return ""
		}
		return strings.ToLower(string(t))
	}
	panic(fmt.Sprintf("eval: bad block name %v", n))
}

func (in *Interp) progn(body []Node, e *env) (v Value) {
	for _, f := range body {
		v = in.eval(f, e)
	}
	return
}

func (in *Interp) eval(n Node, e *env) Value {
	in.Steps--
	if in.Steps < 0 {
		panic(Budget{})
	}
	switch t := n.(type) {
	case nil:
		return nil
	case Int:
		return int64(t)
	case Str:
		return string(t)
	case Sym:
		name := strings.ToLower(string(t))
		switch {
		case name == "nil":
			return nil
		case name == "t":
			return T
		case strings.HasPrefix(name, ":"):
			return Sym(name)
		}
		c := e.lookup(name)
		if c == nil {
			in.signal("unbound-variable", "variable %s is unbound", name)
		}
		return c.v
	case List:
		if len(t) == 0 {
			return nil
		}
		return in.evalList(t, e)
	}
	panic(fmt.Sprintf("eval: unsupported node %T", n))
}

func (in *Interp) evalList(l List, e *env) Value {
	head, ok := l[0].(Sym)
	if !ok {
		if lam, isList := l[0].(List); isList && 0 < len(lam) && lam[0] == Sym("lambda") {
			fn := in.eval(lam, e).(*Closure)
			return in.apply(fn, in.evalArgs(l[1:], e))
		}
		in.signal("program-error", "illegal function call")
	}
	args := l[1:]
	if v, ok := in.evalR8(strings.ToLower(string(head)), args, e); ok {
		return v // the forms of r8.go
	}
	if v, ok := in.evalMore(strings.ToLower(string(head)), args, e); ok {
		return v // the forms of more.go
	}
	switch strings.ToLower(string(head)) {
	case "quote":
		return quoteValue(args[0])
	case "function":
		if s, isSym := args[0].(Sym); isSym {
			fn := in.Funcs[strings.ToLower(string(s))]
			if fn == nil {
				if isBuiltinName(strings.ToLower(string(s))) {
					return &Builtin{Name: strings.ToLower(string(s))}
				}
				in.signal("undefined-function", "function %s is undefined", s)
			}
			return fn
		}
		return in.eval(args[0], e)
	case "progn":
		return in.progn(args, e)
	case "prog1":
		v := in.eval(args[0], e)
		in.progn(args[1:], e)
		return v
	case "if":
		if truthy(primary(in.value("test", args[0], e))) {
			return in.eval(args[1], e)
		}
		if 2 < len(args) {
			return in.eval(args[2], e)
		}
		return nil
	case "when":
		if truthy(primary(in.value("test", args[0], e))) {
			return in.condBody(args[1:], e)
		}
		return nil
	case "unless":
		if !truthy(primary(in.value("test", args[0], e))) {
			return in.condBody(args[1:], e)
		}
		return nil
	case "cond":
		for _, c := range args {
			clause := c.(List)
			v := primary(in.value("test", clause[0], e))
			if truthy(v) {
				if len(clause) == 1 {
					return v
				}
				return in.condBody(clause[1:], e)
			}
		}
		return nil
	case "and":
		var v Value = T
		for _, a := range args {
			if v = in.eval(a, e); !truthy(v) {
				return nil
			}
		}
		return v
	case "or":
		for _, a := range args {
			if v := in.eval(a, e); truthy(v) {
				return v
			}
		}
		return nil
	case "let", "let*":
		seq := strings.ToLower(string(head)) == "let*" || in.Mut.LetSequential
		ne := &env{parent: e, vars: map[string]*cell{}}
		var bindings List
		if args[0] != nil {
			bindings = args[0].(List)
		}
		for _, b := range bindings {
			var name string
			var init Node
			switch bt := b.(type) {
			case Sym:
				name = strings.ToLower(string(bt))
			case List:
				name = strings.ToLower(string(bt[0].(Sym)))
				if 1 < len(bt) {
					init = bt[1]
				}
			}
			var v Value
			if seq {
				v = primary(in.value("init", init, ne))
			} else {
				v = primary(in.value("init", init, e))
			}
			ne.vars[name] = &cell{v}
		}
		return in.progn(args[1:], ne)
	case "setq":
		var v Value
		for i := 0; i+1 < len(args); i += 2 {
			name := strings.ToLower(string(args[i].(Sym)))
			v = primary(in.value("setq", args[i+1], e))
			if c := e.lookup(name); c != nil {
				c.v = v
			} else {
				in.global.vars[name] = &cell{v}
			}
		}
		return v
	case "block":
		return in.block(blockName(args[0]), e, func(ne *env) Value { return in.progn(args[1:], ne) })
	case "return-from":
		var v Value
		name := blockName(args[0])
		fr := e.findBlock(name, in.Mut.OutermostBlock)
		if fr == nil || !fr.active {
			in.signal("control-error", "return from unknown block %s", name)
		}
		if 1 < len(args) {
			v = in.eval(args[1], e)
		}
		panic(&blockExit{frame: fr, val: v})
	case "return":
		var v Value
		fr := e.findBlock("", in.Mut.OutermostBlock)
		if fr == nil || !fr.active {
			in.signal("control-error", "return from unknown block nil")
		}
		if 0 < len(args) {
			v = in.eval(args[0], e)
		}
		panic(&blockExit{frame: fr, val: v})
	case "tagbody":
		in.tagbody(args, e)
		return nil
	case "go":
		tt, _ := tagText(args[0])
		fr, idx := e.findTag(tt)
		if fr == nil || !fr.active {
			in.signal("control-error", "attempt to go to nonexistent tag %v", args[0])
		}
		panic(&goExit{frame: fr, index: idx})
	case "unwind-protect":
		return in.unwindProtect(args[0], args[1:], e)
	case "dolist":
		spec := args[0].(List)
		name := strings.ToLower(string(spec[0].(Sym)))
		return in.blockL("", true, e, func(be *env) Value {
			lv := primary(in.value("loop-form", spec[1], be))
			items, isList := lv.([]Value)
			if lv != nil && !isList {
				in.signal("type-error", "dolist needs a list")
			}
			for _, it := range items {
				ne := &env{parent: be, vars: map[string]*cell{name: {it}}}
				in.tagbody(args[1:], ne)
			}
			ne := &env{parent: be, vars: map[string]*cell{name: {nil}}}
			if 2 < len(spec) {
				return in.eval(spec[2], ne)
			}
			return nil
		})
	case "dotimes":
		spec := args[0].(List)
		name := strings.ToLower(string(spec[0].(Sym)))
		return in.blockL("", true, e, func(be *env) Value {
			cv, isInt := primary(in.value("loop-form", spec[1], be)).(int64)
			if !isInt {
				in.signal("type-error", "dotimes needs an integer")
			}
			for i := int64(0); i < cv; i++ {
				ne := &env{parent: be, vars: map[string]*cell{name: {i}}}
				in.tagbody(args[1:], ne)
			}
			ne := &env{parent: be, vars: map[string]*cell{name: {cv}}}
			if 2 < len(spec) {
				return in.eval(spec[2], ne)
			}
			return nil
		})
	case "do", "do*":
		return in.doLoop(strings.ToLower(string(head)) == "do*", args, e)
	case "lambda":
		return &Closure{Params: paramNames(args[0]), Body: args[1:], env: e}
	case "defun":
		name := strings.ToLower(string(args[0].(Sym)))
		in.Funcs[name] = &Closure{Name: name, Params: paramNames(args[1]), Body: args[2:], env: e}
		return Sym(name)
	case "ignore-errors":
		return in.ignoreErrors(args, e)
	case "recover":
		return in.recoverForm(args, e)
	case "with-mutex-lock":
		return in.withMutexLock(args, e)
	case "with-open-file":
		return in.withOpenFile(args, e)
	}
	return in.call(strings.ToLower(string(head)), args, e)
}

// condBody evaluates the body of when/unless/a cond clause.
func (in *Interp) condBody(body []Node, e *env) (v Value) {
	if !in.Mut.BodyIgnoresExit {
		return in.progn(body, e)
	}
	for _, f := range body {
		v = in.swallowExit(f, e)
	}
	return
}

func (in *Interp) swallowExit(f Node, e *env) (v Value) {
	defer func() {
		if r := recover(); r != nil {
			switch r.(type) {
			case *blockExit, *goExit:
				v = nil
			default:
				panic(r)
			}
		}
	}()
	return in.eval(f, e)
}

func quoteValue(n Node) Value {
	switch t := n.(type) {
	case nil:
		return nil
	case Int:
		return int64(t)
	case Str:
		return string(t)
	case Sym:
		switch strings.ToLower(string(t)) {
		case "nil":
			return nil
		case "t":
			return T
		}
		return Sym(strings.ToLower(string(t)))
	case List:
		if len(t) == 0 {
			return nil
		}
		out := make([]Value, len(t))
		for i, x := range t {
			out[i] = quoteValue(x)
		}
		return out
	}
	panic("eval: bad quoted datum")
}

func paramNames(n Node) (names []string) {
	if n == nil {
		return nil
	}
	for _, p := range n.(List) {
		names = append(names, strings.ToLower(string(p.(Sym))))
	}
	return
}

func (in *Interp) block(name string, e *env, body func(*env) Value) (v Value) {
	return in.blockL(name, false, e, body)
}

func (in *Interp) blockL(name string, loop bool, e *env, body func(*env) Value) (v Value) {
	fr := &blockFrame{name: name, active: true}
	ne := &env{parent: e, block: fr}
	defer func() {
		fr.active = false
		if r := recover(); r != nil {
			if be, ok := r.(*blockExit); ok && be.frame == fr {
				v = be.val
				if loop && in.Mut.LoopReturnNil {
					v = nil
				}
				pp := in.postponed
				in.postponed = nil
				for i := len(pp) - 1; 0 <= i; i-- {
					in.progn(pp[i].forms, pp[i].e)
				}
				return
			}
			panic(r)
		}
	}()
	return body(ne)
}

// tagbody runs statements; atoms are tags. Returns normally at the end.
func (in *Interp) tagbody(stmts []Node, e *env) {
	fr := &tagFrame{tags: map[string]int{}, active: true}
	for i, s := range stmts {
		if _, isList := s.(List); isList {
			continue
		}
		if tt, ok := tagText(s); ok {
			if _, dup := fr.tags[tt]; !dup {
				fr.tags[tt] = i
			}
		}
	}
	ne := &env{parent: e, tags: fr}
	defer func() { fr.active = false }()
	pc := 0
	for pc < len(stmts) {
		next, jumped := in.tagSegment(stmts, pc, ne, fr)
		if jumped {
			if in.Mut.GoBackwardIgnored && next <= pc {
				return
			}
		}
		pc = next
	}
}

// tagSegment executes statement pc; returns the next pc (after a go: the tag index).
func (in *Interp) tagSegment(stmts []Node, pc int, e *env, fr *tagFrame) (next int, jumped bool) {
	defer func() {
		if r := recover(); r != nil {
			if g, ok := r.(*goExit); ok && g.frame == fr {
				next, jumped = g.index, true
				return
			}
			panic(r)
		}
	}()
	if l, isList := stmts[pc].(List); isList {
		in.eval(l, e)
	}
	return pc + 1, false
}

func (in *Interp) unwindProtect(protected Node, cleanup []Node, e *env) (v Value) {
	defer func() {
		r := recover()
		runs := 1
		switch r.(type) {
		case *Condition:
			if in.Mut.CleanupTwiceOnError {
				runs = 2
			}
		case *goExit:
			if in.Mut.CleanupSkippedOnGo {
				runs = 0
			}
		case *blockExit:
			if in.Mut.CleanupOuterFirst {
				// postponed: the target block runs the collected cleanups in
				// establishment order (outermost first)
				runs = 0
				in.postponed = append(in.postponed, postponedCleanup{cleanup, e})
			}
		}
		for i := 0; i < runs; i++ {
			in.runCleanup(cleanup, e, r) // an exit or error out of a cleanup form supersedes r
		}
		if r != nil {
			if c, ok := r.(*Condition); ok && in.Mut.ErrorClassLost {
				r = &Condition{Class: "error", Message: c.Message}
			}
			panic(r)
		}
	}()
	return in.eval(protected, e)
}

// runCleanup evaluates the cleanup forms of an unwind-protect that is being
// left by `leaving` (nil = normally). An error signalled by a cleanup form
// ends the cleanup (the forms after it do not run), replaces whatever exit was
// in progress and propagates outward. If an error was already in flight the
// new condition remembers its class in Alt (which of the two classes surfaces
// is not pinned down).
func (in *Interp) runCleanup(cleanup []Node, e *env, leaving any) {
	defer func() {
		r2 := recover()
		if r2 == nil {
			return
		}
		c2, isErr := r2.(*Condition)
		if !isErr {
			switch r2.(type) {
			case *blockExit, *goExit:
				if in.Mut.CleanupExitRerunsCleanup {
					in.progn(cleanup, e) // leaves again at the same form
				}
			}
			panic(r2)
		}
		if c1, inFlight := leaving.(*Condition); inFlight {
			c2 = &Condition{Class: c2.Class, Message: c2.Message, Alt: append(append([]string{c1.Class}, c1.Alt...), c2.Alt...)}
		} else if in.Mut.CleanupRerunOnCleanupError {
			in.progn(cleanup, e) // signals again at the same form
		}
		panic(c2)
	}()
	if in.Mut.CleanupExitIgnored {
		for _, f := range cleanup {
			in.swallowExit(f, e)
		}
		return
	}
	if in.Mut.CleanupContinuesAfterError {
		var first any
		for _, f := range cleanup {
			func() {
				defer func() {
					if r := recover(); r != nil {
						if _, isErr := r.(*Condition); !isErr {
							panic(r)
						}
						if first == nil {
							first = r
						}
					}
				}()
				in.eval(f, e)
			}()
		}
		if first != nil {
			panic(first)
		}
		return
	}
	in.progn(cleanup, e)
}

func (in *Interp) doLoop(star bool, args List, e *env) Value {
	var specs List
	if args[0] != nil {
		specs = args[0].(List)
	}
	end := args[1].(List)
	return in.blockL("", true, e, func(be *env) Value {
		ne := &env{parent: be, vars: map[string]*cell{}}
		type stepper struct {
			name string
			step Node
			has  bool
		}
		var steps []stepper
		vals := make([]Value, len(specs))
		for i, sp := range specs {
			var st stepper
			var init Node
			switch t := sp.(type) {
			case Sym:
				st.name = strings.ToLower(string(t))
			case List:
				st.name = strings.ToLower(string(t[0].(Sym)))
				if 1 < len(t) {
					init = t[1]
				}
				if 2 < len(t) {
					st.step, st.has = t[2], true
				}
			}
			steps = append(steps, st)
			if star {
				ne.vars[st.name] = &cell{primary(in.value("loop-form", init, ne))}
			} else {
				vals[i] = primary(in.value("loop-form", init, be))
			}
		}
		if !star {
			for i, st := range steps {
				ne.vars[st.name] = &cell{vals[i]}
			}
		}
		for {
			if truthy(primary(in.value("loop-form", end[0], ne))) {
				return in.progn(end[1:], ne)
			}
			in.loopBody(map[bool]string{false: "do", true: "do*"}[star], args[2:], ne)
			if star {
				for _, st := range steps {
					if st.has {
						ne.vars[st.name].v = primary(in.value("loop-form", st.step, ne))
					}
				}
			} else {
				for i, st := range steps {
					if st.has {
						vals[i] = primary(in.value("loop-form", st.step, ne))
					}
				}
				for i, st := range steps {
					if st.has {
						ne.vars[st.name].v = vals[i]
					}
				}
			}
		}
	})
}

func (in *Interp) ignoreErrors(body []Node, e *env) (v Value) {
	defer func() {
		if r := recover(); r != nil {
			if _, ok := r.(*Condition); ok {
				v = WildFalse // (values nil condition)
				return
			}
			panic(r)
		}
	}()
	return in.progn(body, e)
}

// (recover symbol on-recover-form forms...)
func (in *Interp) recoverForm(args []Node, e *env) (v Value) {
	name := strings.ToLower(string(args[0].(Sym)))
	defer func() {
		if r := recover(); r != nil {
			if c, ok := r.(*Condition); ok {
				ne := &env{parent: e, vars: map[string]*cell{name: {c}}}
				v = in.eval(args[1], ne)
				return
			}
			panic(r)
		}
	}()
	return in.progn(args[2:], e)
}

func (in *Interp) withMutexLock(args []Node, e *env) (v Value) {
	m, ok := in.eval(args[0], e).(*Mutex)
	if !ok {
		in.signal("type-error", "with-mutex-lock needs a mutex")
	}
	if m.Locked {
		panic(Deadlock{m.Name})
	}
	m.Locked = true
	defer func() {
		if r := recover(); r != nil {
			if _, isErr := r.(*Condition); !(isErr && in.Mut.MutexKeptOnError) {
				m.Locked = false
			}
			panic(r)
		}
		m.Locked = false
	}()
	return in.progn(args[1:], e)
}

// (with-open-file (var path options...) forms...)
func (in *Interp) withOpenFile(args []Node, e *env) (v Value) {
	spec := args[0].(List)
	name := strings.ToLower(string(spec[0].(Sym)))
	st := &Stream{Name: name, Dir: "input"}
	var opts []Value
	for _, a := range spec[1:] {
		opts = append(opts, primary(in.value("with-arg", a, e)))
	}
	for i := 1; i+1 < len(opts); i += 2 {
		k, _ := opts[i].(Sym)
		val, _ := opts[i+1].(Sym)
		switch k {
		case ":direction":
			st.Dir = strings.TrimPrefix(string(val), ":")
		case ":if-exists":
			st.IfExists = strings.TrimPrefix(string(val), ":")
		}
	}
	st.Open = true
	in.Streams = append(in.Streams, st)
	ne := &env{parent: e, vars: map[string]*cell{name: {st}}}
	defer func() {
		if r := recover(); r != nil {
			switch r.(type) {
			case *blockExit, *goExit:
				if !in.Mut.StreamKeptOnExit {
					st.Open = false
				}
			default:
				if !in.Mut.StreamKeptOnError {
					st.Open = false
				}
			}
			panic(r)
		}
		st.Open = false
	}()
	return in.progn(args[1:], ne)
}

func (in *Interp) evalArgs(args []Node, e *env) []Value {
	out := make([]Value, len(args))
	for i, a := range args {
		out[i] = in.value("arg", a, e)
	}
	return out
}

func (in *Interp) apply(fn *Closure, args []Value) Value {
	if len(args) != len(fn.Params) {
		in.signal("program-error", "wrong number of arguments")
	}
	ne := &env{parent: fn.env, vars: map[string]*cell{}}
	for i, p := range fn.Params {
		ne.vars[p] = &cell{args[i]}
	}
	if fn.Name == "" {
		if in.Mut.LambdaConsumesNilReturn {
			return in.consumeNilReturn(fn.Body, ne)
		}
		return in.progn(fn.Body, ne)
	}
	return in.block(fn.Name, ne, func(be *env) Value { return in.progn(fn.Body, be) })
}

func (in *Interp) num(v Value, op string) int64 {
	n, ok := v.(int64)
	if !ok {
		in.signal("type-error", "%s needs a number, not %s", op, Show(v))
	}
	return n
}

func boolValue(b bool) Value {
	if b {
		return T
	}
	return nil
}

func (in *Interp) call(name string, argForms []Node, e *env) Value {
	if name == "tr" {
		// (tr key [value]): log key, return value — the one observable side effect
		args := in.evalArgs(argForms, e)
		in.Trace = append(in.Trace, Show(args[0]))
		if len(args) == 2 {
			return args[1]
		}
		return nil
	}
	args := in.evalArgs(argForms, e)
	for i := range args {
		args[i] = primary(args[i]) // an argument is the primary value of its form
	}
	return in.callValues(name, args)
}

// callValues calls the named function with evaluated arguments.
func (in *Interp) callValues(name string, args []Value) Value {
	if v, ok := in.callR8(name, args); ok {
		return v // the functions of r8.go
	}
	switch name {
	case "+":
		var s int64
		for _, a := range args {
			s += in.num(a, name)
		}
		return s
	case "*":
		s := int64(1)
		for _, a := range args {
			s *= in.num(a, name)
		}
		return s
	case "-":
		if len(args) == 1 {
			return -in.num(args[0], name)
		}
		s := in.num(args[0], name)
		for _, a := range args[1:] {
			s -= in.num(a, name)
		}
		return s
	case "/":
		s := in.num(args[0], name)
		for _, a := range args[1:] {
			d := in.num(a, name)
			if d == 0 {
				in.signal("division-by-zero", "divide by zero")
			}
			if s%d != 0 {
				return Wild // ratios are outside this evaluator
			}
			s /= d
		}
		return s
	case "1+":
		return in.num(args[0], name) + 1
	case "1-":
		return in.num(args[0], name) - 1
	case "=", "<", ">", "<=", ">=":
		for i := 0; i+1 < len(args); i++ {
			a, b := in.num(args[i], name), in.num(args[i+1], name)
			var ok bool
			switch name {
			case "=":
				ok = a == b
			case "<":
				ok = a < b
			case ">":
				ok = a > b
			case "<=":
				ok = a <= b
			case ">=":
				ok = a >= b
			}
			if !ok {
				return nil
			}
		}
		return T
	case "eql", "eq":
		return boolValue(args[0] == args[1])
	case "not", "null":
		return boolValue(!truthy(args[0]))
	case "identity":
		return args[0]
	case "list":
		if len(args) == 0 {
			return nil
		}
		return append([]Value(nil), args...)
	case "car":
		switch t := args[0].(type) {
		case nil:
			return nil
		case []Value:
			if len(t) == 0 {
				return nil
			}
			return t[0]
		}
		in.signal("type-error", "argument to car must be a list, not %s", Show(args[0]))
	case "cdr":
		switch t := args[0].(type) {
		case nil:
			return nil
		case []Value:
			if len(t) <= 1 {
				return nil
			}
			return append([]Value(nil), t[1:]...)
		}
		in.signal("type-error", "argument to cdr must be a list, not %s", Show(args[0]))
	case "error":
		msg := ""
		if 0 < len(args) {
			msg = Show(args[0])
		}
		in.signal("error", "%s", msg)
	case "make-mutex":
		return in.NewMutex("")
	case "funcall":
		return in.applyAny(args[0], args[1:])
	case "apply":
		var flat []Value
		flat = append(flat, args[1:len(args)-1]...)
		if last, ok := args[len(args)-1].([]Value); ok {
			flat = append(flat, last...)
		}
		return in.applyAny(args[0], flat)
	}
	if fn := in.Funcs[name]; fn != nil {
		return in.apply(fn, args)
	}
	in.signal("undefined-function", "function %s is undefined", name)
	return nil
}

func (in *Interp) toFunction(v Value) *Closure {
	switch t := v.(type) {
	case *Closure:
		return t
	case Sym:
		if fn := in.Funcs[string(t)]; fn != nil {
			return fn
		}
	}
	in.signal("type-error", "%s is not a function", Show(v))
	return nil
}

func (in *Interp) consumeNilReturn(body []Node, e *env) (v Value) {
	defer func() {
		if r := recover(); r != nil {
			if be, ok := r.(*blockExit); ok && be.frame.name == "" {
				v = be.val
				return
			}
			panic(r)
		}
	}()
	return in.progn(body, e)
}
