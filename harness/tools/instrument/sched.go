package main

import (
	"fmt"
	"go/ast"
	"go/parser"
	"go/token"
	"path/filepath"
	"reflect"
	"strconv"
)

// Packages of the slip module whose synchronisation is put under the scheduler.
var schedPkgs = []string{".", "pkg/gi", "pkg/generic", "pkg/clos", "pkg/flavors", "pkg/cl"}

// Files whose channel operations are left alone (receive-only channel types that the generic shims
// cannot take, background helpers, signal handling); their "sync" import is still rewritten.
var schedChanSkip = map[string]string{
	"pkg/gi/timechannel.go": "receive-only time channel (outside the controlled alphabet)",
	"pkg/gi/logger.go":      "background logger goroutine",
	"pkg/gi/signal-wait.go": "os signal channel",
}

const (
	vschedPath = "github.com/ohler55/slip/vsched"
	vsyncPath  = "github.com/ohler55/slip/vsync"
)

func sel(pkg, name string) ast.Expr {
	return &ast.SelectorExpr{X: ast.NewIdent(pkg), Sel: ast.NewIdent(name)}
}

func call(fun ast.Expr, args ...ast.Expr) *ast.CallExpr {
	return &ast.CallExpr{Fun: fun, Args: args}
}

type schedRewriter struct {
	fset    *token.FileSet
	rel     string
	chanTyp map[string]bool // named chan types of the package
	report  []string
	changed bool
}

func (r *schedRewriter) note(pos token.Pos, what string) {
	r.report = append(r.report, fmt.Sprintf("%s:%d %s", r.rel, r.fset.Position(pos).Line, what))
}

func isArrow(e ast.Expr) (*ast.UnaryExpr, bool) {
	for {
		p, ok := e.(*ast.ParenExpr)
		if !ok {
			break
		}
		e = p.X
	}
	u, ok := e.(*ast.UnaryExpr)
	return u, ok && u.Op == token.ARROW
}

// expr rewrites one expression (post-order).
func (r *schedRewriter) expr(e ast.Expr) ast.Expr {
	if e == nil {
		return nil
	}
	r.walk(e)
	if u, ok := isArrow(e); ok {
		r.changed = true
		r.note(u.Pos(), "recv -> vsched.Recv")
		return call(sel("vsched", "Recv"), u.X)
	}
	if c, ok := e.(*ast.CallExpr); ok {
		if id, ok := c.Fun.(*ast.Ident); ok && id.Name == "close" && len(c.Args) == 1 {
			r.changed = true
			r.note(c.Pos(), "close -> vsched.Close")
			return call(sel("vsched", "Close"), c.Args[0])
		}
	}
	return e
}

var exprType = reflect.TypeOf((*ast.Expr)(nil)).Elem()
var stmtType = reflect.TypeOf((*ast.Stmt)(nil)).Elem()

// walk rewrites the children of n in place.
func (r *schedRewriter) walk(n ast.Node) {
	if n == nil || reflect.ValueOf(n).IsNil() {
		return
	}
	switch t := n.(type) {
	case *ast.SelectStmt:
		// reached only when the statement is not an element of a statement list (see stmts)
		r.note(t.Pos(), "select left alone")
		for _, cc := range t.Body.List {
			if c, ok := cc.(*ast.CommClause); ok {
				c.Body = r.stmts(c.Body) // the communication itself (c.Comm) is not touched
			}
		}
		return
	case *ast.AssignStmt:
		if len(t.Lhs) == 2 && len(t.Rhs) == 1 {
			if u, ok := isArrow(t.Rhs[0]); ok {
				u.X = r.expr(u.X)
				t.Rhs[0] = call(sel("vsched", "Recv2"), u.X)
				r.changed = true
				r.note(u.Pos(), "recv,ok -> vsched.Recv2")
				for i := range t.Lhs {
					t.Lhs[i] = r.expr(t.Lhs[i])
				}
				return
			}
		}
	case *ast.ValueSpec:
		if len(t.Names) == 2 && len(t.Values) == 1 {
			if u, ok := isArrow(t.Values[0]); ok {
				u.X = r.expr(u.X)
				t.Values[0] = call(sel("vsched", "Recv2"), u.X)
				r.changed = true
				r.note(u.Pos(), "recv,ok -> vsched.Recv2")
				return
			}
		}
	case *ast.RangeStmt:
		if r.isChanExpr(t.X, t) {
			t.X = call(sel("vsched", "Range"), t.X)
			r.changed = true
			r.note(t.Pos(), "range over channel -> vsched.Range")
			t.Body.List = r.stmts(t.Body.List)
			return
		}
	case *ast.FuncDecl:
		r.pushFunc(t)
		defer r.popFunc()
	}
	v := reflect.ValueOf(n).Elem()
	for i := 0; i < v.NumField(); i++ {
		f := v.Field(i)
		switch {
		case f.Type() == exprType:
			if !f.IsNil() {
				f.Set(reflect.ValueOf(r.expr(f.Interface().(ast.Expr))))
			}
		case f.Type() == stmtType:
			if !f.IsNil() {
				out := r.stmts([]ast.Stmt{f.Interface().(ast.Stmt)})
				f.Set(reflect.ValueOf(out[0]))
			}
		case f.Kind() == reflect.Slice && f.Type().Elem() == exprType:
			for j := 0; j < f.Len(); j++ {
				if !f.Index(j).IsNil() {
					f.Index(j).Set(reflect.ValueOf(r.expr(f.Index(j).Interface().(ast.Expr))))
				}
			}
		case f.Kind() == reflect.Slice && f.Type().Elem() == stmtType:
			f.Set(reflect.ValueOf(r.stmts(f.Interface().([]ast.Stmt))))
		case f.Kind() == reflect.Ptr || f.Kind() == reflect.Interface:
			if !f.IsNil() {
				if c, ok := f.Interface().(ast.Node); ok {
					if _, isObj := f.Interface().(*ast.Object); !isObj {
						r.walk(c)
					}
				}
			}
		case f.Kind() == reflect.Slice:
			for j := 0; j < f.Len(); j++ {
				e := f.Index(j)
				if (e.Kind() == reflect.Ptr || e.Kind() == reflect.Interface) && !e.IsNil() {
					if c, ok := e.Interface().(ast.Node); ok {
						r.walk(c)
					}
				}
			}
		}
	}
}

func (r *schedRewriter) stmts(list []ast.Stmt) []ast.Stmt {
	for i, st := range list {
		switch t := st.(type) {
		case *ast.GoStmt:
			r.changed = true
			r.walk(t.Call)
			if fl, ok := t.Call.Fun.(*ast.FuncLit); ok && len(t.Call.Args) == 0 {
				r.note(t.Pos(), "go func(){..}() -> vsched.Go(func)")
				list[i] = &ast.ExprStmt{X: call(sel("vsched", "Go"), fl)}
			} else {
				r.note(t.Pos(), "go f(x) -> vsched.Go(func(){f(x)}) [arguments now evaluated in the new thread]")
				body := &ast.BlockStmt{List: []ast.Stmt{&ast.ExprStmt{X: t.Call}}}
				list[i] = &ast.ExprStmt{X: call(sel("vsched", "Go"), &ast.FuncLit{Type: &ast.FuncType{Params: &ast.FieldList{}}, Body: body})}
			}
		case *ast.SelectStmt:
			list[i] = r.selectStmt(t)
		case *ast.SendStmt:
			r.changed = true
			t.Chan = r.expr(t.Chan)
			t.Value = r.expr(t.Value)
			r.note(t.Pos(), "send -> vsched.Send")
			list[i] = &ast.ExprStmt{X: call(sel("vsched", "Send"), t.Chan, t.Value)}
		default:
			r.walk(st)
		}
	}
	return list
}

// selectStmt: a select whose clauses are all receives (no default, no send) becomes
//
//	switch vsched.Select(c0, c1, ...) {
//	case 0: <comm 0 as a plain statement>; vsched.SelectDone(); <body 0>
//	...
//	default: <the original select>      // the goroutine is not under a scheduler
//	}
//
// so that the explorer decides which ready case fires. Any other select is left alone (bodies rewritten).
func (r *schedRewriter) selectStmt(t *ast.SelectStmt) ast.Stmt {
	var chans []ast.Expr
	ok := true
	for _, cc := range t.Body.List {
		c := cc.(*ast.CommClause)
		var u *ast.UnaryExpr
		switch cm := c.Comm.(type) {
		case *ast.ExprStmt:
			u, _ = isArrowU(cm.X)
		case *ast.AssignStmt:
			if len(cm.Rhs) == 1 {
				u, _ = isArrowU(cm.Rhs[0])
			}
		}
		if u == nil {
			ok = false
			break
		}
		chans = append(chans, u.X)
	}
	for _, cc := range t.Body.List {
		c := cc.(*ast.CommClause)
		c.Body = r.stmts(c.Body) // the communication itself (c.Comm) stays a real receive
	}
	if !ok || len(chans) == 0 {
		r.note(t.Pos(), "select left alone (default or send clause)")
		return t
	}
	r.changed = true
	r.note(t.Pos(), fmt.Sprintf("select over %d receives -> switch vsched.Select", len(chans)))
	sw := &ast.SwitchStmt{Tag: call(sel("vsched", "Select"), chans...), Body: &ast.BlockStmt{}}
	for i, cc := range t.Body.List {
		c := cc.(*ast.CommClause)
		body := []ast.Stmt{c.Comm, &ast.ExprStmt{X: call(sel("vsched", "SelectDone"))}}
		body = append(body, c.Body...)
		sw.Body.List = append(sw.Body.List, &ast.CaseClause{
			List: []ast.Expr{&ast.BasicLit{Kind: token.INT, Value: strconv.Itoa(i)}},
			Body: body,
		})
	}
	sw.Body.List = append(sw.Body.List, &ast.CaseClause{Body: []ast.Stmt{t}})
	return sw
}

func isArrowU(e ast.Expr) (*ast.UnaryExpr, bool) {
	u, ok := isArrow(e)
	if !ok {
		return nil, false
	}
	return u, true
}

// ---- channel-typed identifiers, decided from declarations inside the file/package

type funcScope struct{ vars map[string]ast.Expr }

var scopes []funcScope

func (r *schedRewriter) pushFunc(fd *ast.FuncDecl) {
	fs := funcScope{vars: map[string]ast.Expr{}}
	add := func(fl *ast.FieldList) {
		if fl == nil {
			return
		}
		for _, f := range fl.List {
			for _, n := range f.Names {
				fs.vars[n.Name] = f.Type
			}
		}
	}
	add(fd.Recv)
	add(fd.Type.Params)
	if fd.Body != nil {
		ast.Inspect(fd.Body, func(n ast.Node) bool {
			if vs, ok := n.(*ast.ValueSpec); ok && vs.Type != nil {
				for _, nm := range vs.Names {
					fs.vars[nm.Name] = vs.Type
				}
			}
			if as, ok := n.(*ast.AssignStmt); ok && as.Tok == token.DEFINE && len(as.Lhs) == len(as.Rhs) {
				for i, l := range as.Lhs {
					id, ok := l.(*ast.Ident)
					if !ok {
						continue
					}
					// x := make(chan T, n) / make(Channel, n) / Channel(...)
					if c, ok := as.Rhs[i].(*ast.CallExpr); ok {
						if f, ok := c.Fun.(*ast.Ident); ok && f.Name == "make" && 0 < len(c.Args) {
							fs.vars[id.Name] = c.Args[0]
						} else if f, ok := c.Fun.(*ast.Ident); ok && r.chanTyp[f.Name] {
							fs.vars[id.Name] = f
						}
					}
				}
			}
			return true
		})
	}
	scopes = append(scopes, fs)
}

func (r *schedRewriter) popFunc() { scopes = scopes[:len(scopes)-1] }

func (r *schedRewriter) isChanType(t ast.Expr) bool {
	switch tt := t.(type) {
	case *ast.ChanType:
		return tt.Dir == ast.SEND|ast.RECV
	case *ast.Ident:
		return r.chanTyp[tt.Name]
	case *ast.ParenExpr:
		return r.isChanType(tt.X)
	}
	return false
}

func (r *schedRewriter) isChanExpr(e ast.Expr, at ast.Node) bool {
	switch t := e.(type) {
	case *ast.Ident:
		for i := len(scopes) - 1; 0 <= i; i-- {
			if ty, ok := scopes[i].vars[t.Name]; ok {
				return r.isChanType(ty)
			}
		}
	case *ast.CallExpr: // conversion Channel(x)
		if f, ok := t.Fun.(*ast.Ident); ok && r.chanTyp[f.Name] {
			return true
		}
	case *ast.ParenExpr:
		return r.isChanExpr(t.X, at)
	}
	return false
}

func addImport(f *ast.File, path string) {
	for _, imp := range f.Imports {
		if p, _ := strconv.Unquote(imp.Path.Value); p == path {
			return
		}
	}
	spec := &ast.ImportSpec{Path: &ast.BasicLit{Kind: token.STRING, Value: strconv.Quote(path)}}
	for _, d := range f.Decls {
		if gd, ok := d.(*ast.GenDecl); ok && gd.Tok == token.IMPORT {
			gd.Specs = append(gd.Specs, spec)
			if !gd.Lparen.IsValid() {
				gd.Lparen = gd.Pos()
				gd.Rparen = gd.End()
			}
			f.Imports = append(f.Imports, spec)
			return
		}
	}
	gd := &ast.GenDecl{Tok: token.IMPORT, Specs: []ast.Spec{spec}}
	f.Decls = append([]ast.Decl{gd}, f.Decls...)
	f.Imports = append(f.Imports, spec)
}

func rewriteSched(repo, out string, replace map[string]string) ([]string, error) {
	var rep []string
	for _, shim := range []string{"vsched", "vsync"} {
		r, err := mountShim(shim, repo, replace)
		if err != nil {
			return nil, err
		}
		rep = append(rep, r...)
	}
	for _, pkg := range schedPkgs {
		dir := filepath.Join(repo, pkg)
		files := goFiles(dir)
		fset := token.NewFileSet()
		parsed := map[string]*ast.File{}
		chanTyp := map[string]bool{}
		for _, path := range files {
			f, err := parser.ParseFile(fset, path, nil, parser.ParseComments|parser.SkipObjectResolution)
			if err != nil {
				return nil, err
			}
			parsed[path] = f
			for _, d := range f.Decls {
				if gd, ok := d.(*ast.GenDecl); ok && gd.Tok == token.TYPE {
					for _, s := range gd.Specs {
						ts := s.(*ast.TypeSpec)
						if ct, ok := ts.Type.(*ast.ChanType); ok && ct.Dir == ast.SEND|ast.RECV {
							chanTyp[ts.Name.Name] = true
						}
					}
				}
			}
		}
		for _, path := range files {
			f := parsed[path]
			rel, _ := filepath.Rel(repo, path)
			changed := rewriteImport(fset, f, "sync", "sync", vsyncPath)
			if changed {
				rep = append(rep, "sync->vsync "+rel)
			}
			if why, skip := schedChanSkip[filepath.ToSlash(rel)]; skip {
				rep = append(rep, "chan-ops-left-alone "+rel+": "+why)
			} else {
				rw := &schedRewriter{fset: fset, rel: rel, chanTyp: chanTyp}
				scopes = nil
				for _, d := range f.Decls {
					rw.walk(d)
				}
				if rw.changed {
					addImport(f, vschedPath)
					changed = true
				}
				rep = append(rep, rw.report...)
			}
			if changed {
				if err := writeOut(fset, f, repo, out, path, replace); err != nil {
					return nil, err
				}
			}
		}
	}
	return rep, nil
}
