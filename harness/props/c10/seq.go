//go:build verif

// Package c10: generic dispatch equals the specification and is unaffected by
// its cache. This file holds the SEQUENTIAL part: an explicit-state BFS over
// histories of defmethod / remove-method / call on one fresh generic function
// per replay, compared with the cache-free reference dispatcher of seqref.go.
// (The concurrent part is built separately next to the seq*.go files.)
package c10

import (
	"fmt"
	"io"
	"os"
	"regexp"
	"sort"
	"strconv"
	"strings"
	"sync"

	"github.com/ohler55/slip"
	"github.com/ohler55/slip/pkg/generic"

	"verif/engine"
	"verif/lisp"
)

func init() {
	engine.Register(&engine.Prop{
		ID:    "C10",
		Level: "model_checking",
		Rule: "explicit-state BFS over operation histories; the first operation chooses a configuration (arity 1 or 2, built-in " +
			"numeric class chain or a user defclass chain, which qualifiers/specialiser tuples/argument classes are offered); every " +
			"further operation is a defmethod (qualifier x specialiser tuple; redefinition = replacement with a new body), a " +
			"remove-method of a present method, or a call with one argument class tuple. Each transition replays its history on a " +
			"fresh generic function in a fresh scope, applies the oracle to the last operation and then calls the function once " +
			"with EVERY argument class tuple of the configuration (probes); each call's ordered (tr ...) trace and value are " +
			"compared with the cache-free reference dispatcher. States are deduplicated on a dump of the real generic.Aux " +
			"(method table, cache keys + identity of cached combinations, defaultCaller) read through an overlay accessor. " +
			"A transition is non-trivial when its last operation is a mutation that follows at least one call (cache or " +
			"fast path possibly warm) or a call with >= 2 applicable methods. Round 8: more :around body kinds (call-next-method twice, in a loop after " +
			"next-method-p, with other arguments of the same classes, bare, after a nested call of the generic function itself), primary / :before / " +
			":after bodies that call call-next-method (documented error, depth guard), nested calls from a primary; every probe is repeated through " +
			"the other call routes (funcall, apply, mapcar, a call compiled before the defgeneric, a call compiled after it, FuncInfo.Apply, Caller.Call) " +
			"and must equal the direct call; t / unspecialised parameters mixed with classes, 3 required arguments, &optional / &key / &rest after the " +
			"required parameter, defgeneric evaluated again (with and without a :method option), a built-in generic function (slot-unbound) extended by user methods",
		Assumptions: []string{
			"class precedence lists of the argument classes used (fixnum, bignum, ratio, double-float, symbol, single-inheritance defclass chain) are the Common Lisp ones, written down in the harness",
			"call-next-method is always given the arguments explicitly (slip documents that it continues 'using the arguments provided')",
			"call-next-method from a primary / :before / :after method is a documented error in slip (call-next-method.go: 'called outside an around method qualifier'): demanded is an error of the class slip signals for it without any :around method, also below an :around method, and never a recursion",
			"defgeneric evaluated again: slip's documentation is silent and Common Lisp keeps the defmethod methods, so both tables (methods kept / a new generic function with only the (:method ...) option) are admissible - but every call route must then dispatch on that one table",
			"a bare (call-next-method) passes the arguments of the call on (shown by the example in call-next-method's own documentation)",
			"calls for which no primary method is applicable are only checked weakly (statement silent): no Go fault, and if methods run they are applicable, current and run once",
			"the state key is sound if generic.Aux{methods,cache,defaultCaller} is all the state dispatch depends on (Lambda.Closure is overwritten before every use)",
		},
		Exec:      execAny, // sequential BFS transitions and the concurrent scenarios (conc.go)
		Enumerate: concEnumerate,
		BFS: &engine.BFS{
			Ops: func(tier string) []string {
				var ops []string
				for _, c := range tierConfigs(tier) {
					ops = append(ops, fmt.Sprintf("cfg:%s@%d", c.id, c.maxLen))
				}
				return ops
			},
			MaxDepth:     func(tier string) int { return 1 + histLen(tier) },
			NoDedupDepth: func(tier string) int { return 1 + noDedupLen(tier) },
			StateCap:     stateCap,
		},
		Required: []string{"executions-preempted", "race-executions", "group-d", "path-hit", "path-miss", "recall-after-mutation", "replace", "remove",
			"arounds>=2", "afters>=2", "befores>=2", "primaries>=2", "lexicographic-conflict", "no-applicable-method",
			"remove-entry-first-defined-unspecialised",
			"around-without-call-next-method", "call-after-remove",
			// round 8
			"body:around-calls-next-twice", "body:around-calls-next-twice:arounds>=2", "body:around-calls-next-in-loop-after-next-method-p",
			"body:around-calls-next-in-loop-after-next-method-p:arounds>=2",
			"body:around-calls-next-with-other-arguments", "body:around-calls-next-with-other-arguments:arounds>=2", "body:around-calls-bare-call-next-method",
			"body:around-calls-generic-function-recursively", "body:around-calls-generic-function-recursively:arounds>=2",
			"body:primary-calls-generic-function-recursively", "nested-call-of-the-generic-function",
			"body:primary-calls-call-next-method", "body:before-calls-call-next-method", "body:after-calls-call-next-method",
			"expected-error:cnm-from-primary:below-around", "expected-error:cnm-from-primary:no-around",
			"expected-error:cnm-from-before:below-around", "expected-error:cnm-from-before:no-around",
			"expected-error:cnm-from-after:below-around", "expected-error:cnm-from-after:no-around",
			"expected-error:nested-no-applicable-method", "expected-error:builtin-default", "built-in-generic-function-with-user-method",
			"route:funcall", "route:apply", "route:mapcar", "route:fwd", "route:late", "route:goapply", "route:gocall",
			"defgeneric-again", "defgeneric-again-with-method-option", "route-after-defgeneric-again:fwd", "route-after-defgeneric-again:late",
			"route-after-defgeneric-again:funcall",
			"lambda-list-&opt:argument-given", "lambda-list-&key:argument-given", "lambda-list-&rest:argument-given",
			"lexicographic-conflict:t-or-unspecialised-against-a-class", "lexicographic-conflict:3-arguments",
			"remove-method-by-function-object-and-class-objects",
			"steps:no-applicable-method-user-around-method", "steps:no-applicable-method-user-primary-on-function", "steps:no-next-method-user-around-method",
			"steps:find-method-qualifiers-and-errorp", "steps:next-method-p-in-a-before-method-of-a-nested-call",
			"steps:call-next-method-in-a-primary-of-another-generic-function-called-from-an-around",
			"steps:call-next-method-in-a-primary-of-the-same-generic-function-reached-by-a-nested-call", "steps:eql-specializer"},
		Bound:         bound,
		Selftest:      selftest,
		CaseDeadlineS: 30,
	})
}

// routeMaxLen: the other call routes are probed on every state reached by a history of at most this length (all of the
// quick tier; in the thorough tier the last layer of the length-7 configurations is probed by direct calls only).
const routeMaxLen = 6

// routesOff: C10_ROUTES=0 leaves the other call routes out (development aid for timing; the Required counters then fail).
var routesOff = os.Getenv("C10_ROUTES") == "0"

func envInt(name string, def int) int {
	if v, err := strconv.Atoi(os.Getenv(name)); err == nil && 0 < v {
		return v
	}
	return def
}

func noDedupLen(tier string) int {
	if tier == engine.Thorough {
		return envInt("C10_NODEDUP", 3)
	}
	return envInt("C10_NODEDUP", 2)
}

func stateCap(tier string) int {
	if tier == engine.Thorough {
		return envInt("C10_STATECAP", 3000000)
	}
	return 0
}

// ------------------------------------------------------------------ state key

var tagRe = regexp.MustCompile(`\b([pbawsndlmgohxyzE]-[a-z0-9_]+)-([0-9]+)\b`)

func labelTag(label string) string {
	if label == "" {
		return "-"
	}
	if m := tagRe.FindString(label); m != "" {
		return m
	}
	return "?" + label
}

// renderState renders the dump with method bodies reduced to their tags.
func renderState(st generic.VerifAuxState) string {
	if !st.Found {
		return "<no generic function>"
	}
	var b strings.Builder
	fmt.Fprintf(&b, "req=%d dk=%s\n", st.ReqCnt, st.DefaultKey)
	dump := func(title string, m map[string][]generic.VerifCombo) {
		keys := make([]string, 0, len(m))
		for k := range m {
			keys = append(keys, k)
		}
		sort.Strings(keys)
		b.WriteString(title)
		b.WriteByte('\n')
		for _, k := range keys {
			fmt.Fprintf(&b, " %s:", k)
			for _, c := range m[k] {
				live := c.Live
				if live == "" {
					live = "DETACHED"
				}
				fmt.Fprintf(&b, " [@%s P=%s B=%s A=%s W=%s]", live, labelTag(c.Primary), labelTag(c.Before), labelTag(c.After), labelTag(c.Wrap))
			}
			b.WriteByte('\n')
		}
	}
	dump("methods", st.Methods)
	dump("cache", st.Cache)
	fmt.Fprintf(&b, "default=%s live=%v\n", labelTag(st.Default), st.DefaultLive)
	// the specialiser names remove-method will rebuild its key from (Method.Doc of each table entry)
	dkeys := make([]string, 0, len(st.MethodDocTypes))
	for k := range st.MethodDocTypes {
		dkeys = append(dkeys, k)
	}
	sort.Strings(dkeys)
	for _, k := range dkeys {
		fmt.Fprintf(&b, "doc %s=%s\n", k, st.MethodDocTypes[k])
	}
	return b.String()
}

// canonKey renames the generation numbers of every (variant, tuple) in order
// of first appearance, so that two states that differ only in how often a
// method had been redefined get the same key.
func canonKey(s string) string {
	seen := map[string]map[string]int{}
	return tagRe.ReplaceAllStringFunc(s, func(m string) string {
		sub := tagRe.FindStringSubmatch(m)
		g := seen[sub[1]]
		if g == nil {
			g = map[string]int{}
			seen[sub[1]] = g
		}
		n, has := g[sub[2]]
		if !has {
			n = len(g) + 1
			g[sub[2]] = n
		}
		return fmt.Sprintf("%s-#%d", sub[1], n)
	})
}

// ------------------------------------------------------------------ exec

type callObs struct {
	trace []string
	value string
	err   *lisp.Err
}

func (o callObs) digest() string {
	if o.err != nil {
		return "ERR:" + o.err.Class + "|" + strings.Join(o.trace, " ")
	}
	return strings.Join(o.trace, " ") + "=>" + o.value
}

func doEval(scope *slip.Scope, src string) (o callObs) {
	lisp.ResetTrace()
	resetDepth()
	val, err := lisp.EvalIn(scope, src)
	o.trace = lisp.Trace()
	o.err = err
	if err == nil {
		o.value = lisp.Show(val)
	}
	return
}

func doCall(cfg *config, scope *slip.Scope, name, args string) callObs {
	return doEval(scope, callSrc(cfg, name, args))
}

// implSlots lists "slotletter:tuple" of every method in the implementation's table, sorted.
func implSlots(st generic.VerifAuxState) []string {
	var out []string
	for k, combos := range st.Methods {
		key := strings.ReplaceAll(k, "|", ",")
		for _, c := range combos {
			for i, label := range []string{c.Primary, c.Before, c.After, c.Wrap} {
				if label != "" {
					out = append(out, fmt.Sprintf("%c:%s", "pbaw"[i], key))
				}
			}
		}
	}
	sort.Strings(out)
	return out
}

func exec(spec string) (res engine.Result) {
	hist, ok := engine.ParseBFSSpec(spec)
	if !ok {
		res.Fail("harness:bad-spec", spec)
		return
	}
	if len(hist) == 0 {
		res.Key = "root"
		res.Outcome = "root"
		return
	}
	if !strings.HasPrefix(hist[0], "cfg:") {
		return // only a configuration choice is applicable at the root
	}
	for _, o := range hist[1:] {
		if strings.HasPrefix(o, "cfg:") {
			return // a second configuration choice is not applicable (checked before any replay work)
		}
	}
	cfgID, lenStr, _ := strings.Cut(strings.TrimPrefix(hist[0], "cfg:"), "@")
	cfgMaxLen, _ := strconv.Atoi(lenStr)
	cfg := allConfigs[cfgID]
	if cfg == nil || cfgMaxLen <= 0 {
		res.Fail("harness:bad-spec", "unknown configuration in "+spec)
		return
	}
	if cfg.user {
		if err := ensureUserClasses(); err != nil {
			res.Fail("harness:defclass", err.String())
			return
		}
	}
	errOut := slip.ErrorOutput
	slip.ErrorOutput = &slip.OutputStream{Writer: io.Discard} // "Warning: redefining ..." of a defgeneric evaluated again
	defer func() { slip.ErrorOutput = errOut }()
	nameCounter++
	name := fmt.Sprintf("c10gf%d", nameCounter)
	scope := slip.NewScope()
	m := newModel(cfg, refOpts{})
	rt := &routeEnv{cfg: cfg, scope: scope, name: name}
	if cfg.builtin != "" {
		name = cfg.builtin
		rt.name = name
		if st := generic.VerifAux(name); 0 < len(st.Cache) {
			// the built-in generic function outlives the replay and so does its cache (filled by the probes of the replay
			// before): a throw-away method on a class of its own is added and removed, both clear the cache
			_, _ = lisp.EvalIn(scope, "(defmethod slot-unbound ((c t) (i c10scratch) (n t)) nil)")
			_, _ = lisp.EvalIn(scope, "(remove-method 'slot-unbound (find-method 'slot-unbound '() '(t c10scratch t)))")
			if st = generic.VerifAux(name); 0 < len(st.Cache) {
				res.Fail("harness:builtin-cache-not-empty", fmt.Sprintf("%s still has cached effective methods before the history starts", name))
				return
			}
		}
		if got := implSlots(generic.VerifAux(name)); !equalStrings(got, m.t.slots()) {
			res.Fail("harness:builtin-not-pristine", fmt.Sprintf("%s has the methods %v before the history starts (a previous replay could not remove its methods)", name, got))
			return
		}
		defer func() {
			// remove whatever the history left, then look again
			for spec, e := range m.t {
				for s, d := range e {
					if d != nil && d.gen != 0 {
						_, _ = lisp.EvalIn(scope, removeSrc(cfg, name, "pbaw"[s], spec))
					}
				}
			}
			if got := implSlots(generic.VerifAux(name)); !equalStrings(got, newModel(cfg, refOpts{}).t.slots()) && len(res.Failures) == 0 {
				res.Fail(fmt.Sprintf("arity=%d op=remove-method kind=built-in-generic-function-keeps-user-methods", cfg.arity),
					fmt.Sprintf("history %v: after remove-method of every user method %s still has %v", hist, name, got))
			}
		}()
	} else {
		defer func() {
			defer func() { _ = recover() }()
			slip.CurrentPackage.Undefine(name)
		}()
		if !cfg.noRoutes && cfg.tail == "" {
			// a call compiled BEFORE the generic function exists (forward reference)
			rt.fwd = fmt.Sprintf("c10fw%d", nameCounter)
			if _, err := lisp.EvalIn(scope, fmt.Sprintf("(defun %s (%s) (%s %s))", rt.fwd, argNames(cfg.arity), name, argNames(cfg.arity))); err != nil {
				res.Fail("harness:defun-forward", err.String())
				return
			}
			defer func() {
				defer func() { _ = recover() }()
				slip.CurrentPackage.Undefine(rt.fwd)
			}()
		}
		if _, err := lisp.EvalIn(scope, fmt.Sprintf("(defgeneric %s %s)", name, cfg.gfLambdaList())); err != nil {
			res.Fail("harness:defgeneric", err.String())
			return
		}
		if !cfg.noRoutes && cfg.tail == "" {
			// a call compiled after the defgeneric, before any method exists
			rt.late = fmt.Sprintf("c10lt%d", nameCounter)
			if _, err := lisp.EvalIn(scope, fmt.Sprintf("(defun %s (%s) (%s %s))", rt.late, argNames(cfg.arity), name, argNames(cfg.arity))); err != nil {
				res.Fail("harness:defun-late", err.String())
				return
			}
			defer func() {
				defer func() { _ = recover() }()
				slip.CurrentPackage.Undefine(rt.late)
			}()
		}
	}
	ck := &checker{cfg: cfg, m: m, res: &res, hist: hist}
	res.Hit("transitions:" + cfg.id)
	var outcome []string
	callsSeen := map[string]bool{}   // argument tuples called since the start
	recallArmed := map[string]bool{} // tuples called, then followed by a mutation
	lastMutation := byte(0)
	for i, opstr := range hist[1:] {
		last := i == len(hist)-2
		o, pok := parseOp(opstr)
		if !pok {
			if strings.HasPrefix(opstr, "cfg:") {
				return engine.Result{} // a second configuration choice is not applicable
			}
			res.Fail("harness:bad-spec", "bad operation "+opstr)
			return
		}
		switch o.kind {
		case 'd':
			slot := slotOf(o.variant)
			replaced := m.present(slot, o.spec)
			m.apply(o)
			tag := m.t[normSpec(o.spec)][slot].tag(o.spec)
			_, err := lisp.EvalIn(scope, defmethodSrc(cfg, name, o.variant, o.spec, tag))
			if last {
				if replaced {
					res.Hit("replace")
				}
				if 0 < len(callsSeen) {
					res.Nontrivial = true
				}
				if err != nil {
					ck.opError("defmethod", err)
				}
				outcome = append(outcome, "defmethod:"+errDigest(err))
			}
			for k := range callsSeen {
				recallArmed[k] = true
			}
			lastMutation = 'd'
		case 'r':
			if !m.removable(slotOf(o.variant), o.spec) {
				return engine.Result{} // not applicable here
			}
			if last && unspecialised(m.firstSrc[normSpec(o.spec)]) {
				res.Hit("remove-entry-first-defined-unspecialised")
			}
			m.apply(o)
			_, err := lisp.EvalIn(scope, removeSrc(cfg, name, o.variant, o.spec))
			if last {
				res.Hit("remove")
				if cfg.fnForms {
					res.Hit("remove-method-by-function-object-and-class-objects")
				}
				if 0 < len(callsSeen) {
					res.Nontrivial = true
				}
				if err != nil {
					ck.opError("remove-method", err)
				}
				outcome = append(outcome, "remove-method:"+errDigest(err))
			}
			for k := range callsSeen {
				recallArmed[k] = true
			}
			lastMutation = 'r'
		case 'G', 'M':
			if !cfg.regen {
				return engine.Result{}
			}
			m.apply(o)
			tag := ""
			if o.kind == 'M' {
				tag = m.t[normSpec(o.spec)][0].tag(o.spec)
			}
			_, err := lisp.EvalIn(scope, regenSrc(cfg, name, o, tag))
			how := m.chooseRegen(implSlots(generic.VerifAux(name)))
			if last {
				res.Hit("defgeneric-again")
				if o.kind == 'M' {
					res.Hit("defgeneric-again-with-method-option")
				}
				if 0 < len(callsSeen) {
					res.Nontrivial = true
				}
				switch {
				case err != nil:
					ck.opError("defgeneric", err)
				case how == "":
					ck.fail(fmt.Sprintf("arity=%d op=defgeneric kind=method-table-neither-kept-nor-new", cfg.arity),
						fmt.Sprintf("history %v: after the defgeneric the generic function has the methods %v; admissible are %v (methods of defmethod kept) or %v (a new generic function)",
							hist, implSlots(generic.VerifAux(name)), m.t.slots(), m.regenAlt.slots()))
				default:
					res.Hit("defgeneric-again:methods-" + how)
				}
				outcome = append(outcome, "defgeneric:"+errDigest(err)+":"+how)
			}
			if how == "" || err != nil {
				if !last {
					return engine.Result{} // reported at the transition that ended with this operation; nothing sensible follows
				}
				res.Outcome = canonKey(strings.Join(outcome, ";"))
				return
			}
			for k := range callsSeen {
				recallArmed[k] = true
			}
			lastMutation = 'G'
		case 'c':
			pre := ""
			if last {
				pre = generic.VerifPath(name, cacheKey(o.spec))
			}
			obs := doCall(cfg, scope, name, o.spec)
			if last {
				ex := m.call(o.spec)
				if recallArmed[o.spec] {
					res.Hit("recall-after-mutation")
				}
				ck.check("call", o.spec, ex, obs, pre, lastMutation)
				outcome = append(outcome, obs.digest())
			}
			callsSeen[o.spec] = true
		}
	}
	post := generic.VerifAux(name)
	if !post.Found {
		res.Fail("harness:no-aux", "generic function "+name+" has no generic.Aux")
		return
	}
	res.Key = cfg.id + "\n" + canonKey(renderState(post))
	if post.Default != "" {
		res.Hit("default-caller-set")
	}
	// probes: every argument tuple, on the state just reached, through every call route
	for _, args := range cfg.calls {
		pre := generic.VerifPath(name, cacheKey(args))
		obs := doCall(cfg, scope, name, args)
		ex := m.call(args)
		if recallArmed[args] {
			res.Hit("recall-after-mutation")
		}
		ck.check("probe", args, ex, obs, pre, lastMutation)
		outcome = append(outcome, obs.digest())
		if !cfg.noRoutes && !routesOff && len(hist)-1 <= routeMaxLen {
			ck.routes(rt, args, obs, pre, lastMutation)
		}
	}
	res.Outcome = canonKey(strings.Join(outcome, ";"))
	if len(hist)-1 < cfgMaxLen {
		res.Enabled = cfg.enabled(m)
	} // else: no successor is applicable (only cfg: operations are offered, and they are rejected)
	return
}

func errDigest(err *lisp.Err) string {
	if err == nil {
		return "ok"
	}
	return "ERR:" + err.Class
}

// ------------------------------------------------------------------ oracle

type checker struct {
	cfg  *config
	m    *model
	res  *engine.Result
	hist []string
	seen map[string]bool
}

func (ck *checker) fail(sig, detail string) {
	if ck.seen == nil {
		ck.seen = map[string]bool{}
	}
	if ck.seen[sig] {
		return
	}
	ck.seen[sig] = true
	ck.res.Fail(sig, detail)
}

func (ck *checker) opError(what string, err *lisp.Err) {
	kind := "error:" + err.Class
	if err.GoFault {
		kind = "go-fault"
	}
	ck.fail(fmt.Sprintf("arity=%d op=%s kind=%s", ck.cfg.arity, what, kind),
		fmt.Sprintf("history %v: %s failed: %s", ck.hist, what, err.String()))
}

func slotOfTag(tag string) int { return slotOf(tag[0]) }

func baseTag(entry string) string {
	entry = strings.TrimSuffix(entry, "-in")
	entry = strings.TrimSuffix(entry, "-out")
	return entry
}

func slotList(set map[int]bool) string {
	var names []string
	for s := 0; s < 4; s++ {
		if set[s] {
			names = append(names, slotNames[s])
		}
	}
	return strings.Join(names, "+")
}

// check compares one observed call with the reference expectation.
func (ck *checker) check(how, args string, ex expect, obs callObs, path string, lastMutation byte) {
	res := ck.res
	// path = the way Aux.Call takes, read from the implementation's state just before the call
	res.Hit("path-" + path)
	if lastMutation == 'r' {
		res.Hit("call-after-remove")
	}
	// vacuity counters from the reference's view of this call
	if 2 <= len(ex.applicable[3]) {
		res.Hit("arounds>=2")
	}
	if 2 <= len(ex.applicable[2]) {
		res.Hit("afters>=2")
	}
	if 2 <= len(ex.applicable[1]) {
		res.Hit("befores>=2")
	}
	if 2 <= len(ex.applicable[0]) {
		res.Hit("primaries>=2")
	}
	napp := len(ex.applicable[0]) + len(ex.applicable[1]) + len(ex.applicable[2]) + len(ex.applicable[3])
	if 2 <= napp && how == "call" {
		res.Nontrivial = true
	}
	if 2 <= ck.cfg.arity && lexConflict(ck.m.t, ck.cfg.cpls(args)) {
		res.Hit("lexicographic-conflict")
		if ck.cfg.id == "m2" {
			res.Hit("lexicographic-conflict:t-or-unspecialised-against-a-class")
		}
		if ck.cfg.arity == 3 {
			res.Hit("lexicographic-conflict:3-arguments")
		}
	}
	for _, a := range ex.applicable[3] {
		if a[0] == 's' {
			res.Hit("around-without-call-next-method")
		}
		if a[0] == 'n' {
			res.Hit("around-next-method-p")
		}
	}
	for _, f := range ex.features {
		res.Hit("body:" + f)
		if 2 <= len(ex.applicable[3]) {
			res.Hit("body:" + f + ":arounds>=2")
		}
	}
	if ex.nested {
		res.Hit("nested-call-of-the-generic-function")
	}
	if ck.cfg.tail != "" {
		res.Hit("lambda-list-&" + ck.cfg.tail)
		if strings.HasSuffix(args, "+") {
			res.Hit("lambda-list-&" + ck.cfg.tail + ":argument-given")
		}
	}
	if ck.cfg.builtin != "" && 2 <= napp {
		res.Hit("built-in-generic-function-with-user-method")
	}
	switch ex.kind {
	case exNone:
		res.Hit("no-applicable-method")
	case exLenient:
		res.Hit("no-primary-lenient")
	case exError:
		res.Hit("expected-error:" + ex.errWhat)
	}

	sig := func(kind string) string {
		return fmt.Sprintf("arity=%d kind=%s path=%s", ck.cfg.arity, kind, path)
	}
	// sigB: signature of a call that involves the body kinds / lambda lists of round 8
	bodies := strings.Join(ex.features, "+")
	if bodies == "" {
		bodies = "plain"
	}
	if ck.cfg.tail != "" {
		bodies += ",lambda-list-&" + ck.cfg.tail
	}
	sigB := func(kind string) string {
		return fmt.Sprintf("arity=%d kind=%s bodies=%s path=%s", ck.cfg.arity, kind, bodies, path)
	}
	detail := func(what string) string {
		stale := ""
		noApp := obs.err != nil && obs.err.IsA("no-applicable-method-error")
		if un, ok := ck.m.staleMatch(args, obs.trace, obs.value, obs.err != nil, noApp); ok {
			stale = fmt.Sprintf("; NOTE the observation equals the reference dispatch under an EARLIER method table (not reflecting the last %s)", un)
		}
		got := strings.Join(obs.trace, " ") + " => " + obs.value
		if obs.err != nil {
			got = strings.Join(obs.trace, " ") + " => " + obs.err.String()
		}
		want := strings.Join(ex.trace, " ") + " => " + ex.value
		switch ex.kind {
		case exNone:
			want = "no applicable method: an error and no method run"
		case exLenient:
			want = "no applicable primary (only checked weakly); reference trace " + strings.Join(ex.trace, " ")
		case exError:
			want = strings.Join(ex.trace, " ") + " => an error (" + ex.errWhat + ")"
		}
		return fmt.Sprintf("%s: history %v, %s %s on methods {%s} [%s]: expected %s; observed %s%s", what, ck.hist, how,
			callSrc(ck.cfg, "gf", args), ck.m.t.String(), path, want, trunc(got, 400), stale)
	}
	if obs.err != nil && obs.err.GoFault {
		ck.fail(sig("go-fault"), detail("Go fault"))
		return
	}
	// classify the observed trace entries against the current table
	inTable := map[string]bool{}
	for spec, e := range ck.m.t {
		for _, d := range e {
			if d != nil {
				inTable[d.tag(spec)] = true
			}
		}
	}
	applicable := map[string]bool{}
	for s := 0; s < 4; s++ {
		for _, t := range ex.applicable[s] {
			applicable[t] = true
		}
	}
	for t := range ex.mayRun { // methods applicable to a nested call of the generic function
		applicable[t] = true
	}
	// how often the body kinds themselves ask for a method to run (an :around that calls call-next-method twice ...)
	expCount := map[string]int{}
	for _, e := range ex.trace {
		if !strings.HasSuffix(e, "-out") && !strings.HasPrefix(e, "(") {
			expCount[baseTag(e)]++
		}
	}
	ranRemoved, ranRemovedU, ranReplaced, ranWiped := map[int]bool{}, map[int]bool{}, map[int]bool{}, map[int]bool{}
	ranInapplicable, ranTwice := map[int]bool{}, map[int]bool{}
	count := map[string]int{}
	for _, e := range obs.trace {
		if strings.HasSuffix(e, "-out") || strings.HasPrefix(e, "(") {
			continue // (args...) entries are annotations of the entry before them
		}
		t := baseTag(e)
		if !tagRe.MatchString(t) {
			ck.fail("harness:trace", "unrecognised trace entry "+e)
			return
		}
		count[t]++
		switch {
		case !inTable[t]:
			switch {
			case ck.m.gone[t] == "replaced":
				ranReplaced[slotOfTag(t)] = true
			case ck.m.gone[t] == "removed-u":
				ranRemovedU[slotOfTag(t)] = true
			case ck.m.gone[t] == "wiped":
				ranWiped[slotOfTag(t)] = true
			default:
				ranRemoved[slotOfTag(t)] = true
			}
		case !applicable[t]:
			ranInapplicable[slotOfTag(t)] = true
		case 1 <= expCount[t] && expCount[t] < count[t], expCount[t] == 0 && 1 < count[t]:
			ranTwice[slotOfTag(t)] = true
		}
	}
	// one failure per (kind, qualifier): a single defect then yields a handful of signatures
	bad := false
	each := func(kind string, set map[int]bool, what string) {
		for sl := 0; sl < 4; sl++ {
			if set[sl] {
				bad = true
				ck.fail(sig(kind+":"+slotNames[sl]), detail(what))
			}
		}
	}
	each("ran-removed", ranRemoved, "a method that was removed by remove-method ran")
	each("ran-removed(tuple-first-defined-with-unspecialised-parameter)", ranRemovedU,
		"a method that was removed by remove-method ran (the first defmethod for its specialiser tuple had an unspecialised parameter)")
	each("ran-replaced", ranReplaced, "the old body of a redefined method ran")
	each("ran-method-of-the-generic-function-before-defgeneric-again", ranWiped, "a method that the defgeneric evaluated again removed ran")
	each("ran-inapplicable", ranInapplicable, "a method that is not applicable to the arguments ran")
	if ex.kind == exError && obs.err == nil && !bad {
		// the documented error did not come: name that, not its consequences (methods running again and again)
		// (the signature names the body that must have raised it, not the other bodies around it)
		ck.fail(sig("no-error:"+ex.errWhat), detail("a call that must end in an error returned"))
		return
	}
	if ex.classic {
		each("ran-twice", ranTwice, "a method ran twice")
	} else if ex.kind == exLenient {
		for sl := 0; sl < 4; sl++ {
			if ranTwice[sl] {
				bad = true
				ck.fail(sigB("ran-more-often:"+slotNames[sl]), detail("a method ran more often than the method bodies ask for"))
			}
		}
	} // else: the comparison with the reference trace below names it
	switch ex.kind {
	case exNone:
		if obs.err == nil && !bad {
			ck.fail(sig("no-error-without-applicable-method"), detail("call without applicable method"))
		}
		return
	case exLenient:
		// statement silent about a call without applicable primary: only the
		// "nothing stale, nothing inapplicable, nothing twice" part is demanded
		return
	case exError:
		if bad {
			return
		}
		switch {
		case strings.HasPrefix(ex.errWhat, "cnm-from-"):
			// the documented error: the class slip signals for call-next-method in a primary of a generic function without any :around method
			if want := cnmOutsideClass(); obs.err.Class != want {
				ck.fail(sigB("error-class:"+ex.errWhat+":"+obs.err.Class+"-instead-of-"+want), detail("the error is not the one slip signals for call-next-method outside an :around method"))
				return
			}
		case ex.errWhat == "builtin-default":
			if !obs.err.IsA(ck.cfg.presetErr) {
				ck.fail(sigB("error-class:"+ex.errWhat+":"+obs.err.Class), detail("the built-in default method must signal "+ck.cfg.presetErr))
				return
			}
		}
		if !equalStrings(ex.trace, obs.trace) {
			// named by the body that raises the error, not by every body kind around it
			ck.general(ex, obs, sig, detail, "before-the-error("+ex.errWhat+"):")
		}
		return
	}
	// strict: an applicable primary exists
	if obs.err != nil {
		ck.fail(sig("error:"+obs.err.Class), detail("error instead of dispatch"))
		return
	}
	if !ex.classic {
		if bad {
			return
		}
		if equalStrings(ex.trace, obs.trace) {
			if ex.value != obs.value {
				ck.fail(sigB("value"), detail("wrong value"))
			}
			return
		}
		ck.general(ex, obs, sigB, detail, "")
		return
	}
	if equalStrings(ex.trace, obs.trace) {
		if ex.value != obs.value {
			ck.fail(sig("value"), detail("wrong value"))
		}
		return
	}
	if bad {
		return // stale, inapplicable or repeated methods ran: that is the finding
	}
	// From here on every observed entry is a current, applicable method that ran once.
	// (A) the :around chain
	var expIns, obsIns, obsOuts, obsInner []string
	for _, e := range ex.trace {
		if strings.HasSuffix(e, "-in") {
			expIns = append(expIns, baseTag(e))
		}
	}
	for _, e := range obs.trace {
		switch {
		case strings.HasSuffix(e, "-in"):
			obsIns = append(obsIns, baseTag(e))
		case strings.HasSuffix(e, "-out"):
			obsOuts = append(obsOuts, baseTag(e))
		default:
			obsInner = append(obsInner, e)
		}
	}
	if !equalStrings(expIns, obsIns) {
		ran := map[string]bool{}
		for _, t := range obsIns {
			ran[t] = true
		}
		want := map[string]bool{}
		var ranks []string
		for i, t := range expIns {
			want[t] = true
			if !ran[t] {
				ranks = append(ranks, strconv.Itoa(i+1))
			}
		}
		extra := false
		for _, t := range obsIns {
			extra = extra || !want[t]
		}
		var k []string
		if 0 < len(ranks) {
			// name the expected :around methods that WERE entered, by specificity rank (1 = most specific)
			var entered []string
			for i, t := range expIns {
				if ran[t] {
					entered = append(entered, strconv.Itoa(i+1))
				}
			}
			if len(entered) == 0 {
				entered = []string{"none"}
			}
			k = append(k, fmt.Sprintf("entered#%s-of-%d", strings.Join(entered, "+"), len(expIns)))
		}
		if extra {
			k = append(k, "continued-past-an-around-that-does-not-call-next")
		}
		if len(k) == 0 {
			k = append(k, "order")
		}
		ck.fail(sig("around-chain:"+strings.Join(k, ",")), detail("wrong :around chain"))
	}
	// (B) what must follow GIVEN the around chain that was actually entered (S3/S9: a
	// skipped :around must not hide what the rest of the call does)
	continues := len(obsIns) == 0 || obsIns[len(obsIns)-1][0] != 's'
	var expInner []string
	if continues {
		expInner = append(expInner, ex.applicable[1]...)
		expInner = append(expInner, ex.applicable[0][0])
		for i := len(ex.applicable[2]) - 1; 0 <= i; i-- {
			expInner = append(expInner, ex.applicable[2][i])
		}
	}
	var given []string
	for _, t := range obsIns {
		given = append(given, t+"-in")
	}
	given = append(given, expInner...)
	var expOuts []string
	for i := len(obsIns) - 1; 0 <= i; i-- {
		if obsIns[i][0] != 's' {
			expOuts = append(expOuts, obsIns[i])
			given = append(given, obsIns[i]+"-out")
		}
	}
	if equalStrings(given, obs.trace) {
		v := "nil"
		if continues {
			v = ex.applicable[0][0]
		}
		for i := len(obsIns) - 1; 0 <= i; i-- {
			if obsIns[i][0] == 's' {
				v = obsIns[i]
			} else {
				v = "(" + obsIns[i] + " " + v + ")"
			}
		}
		if v != obs.value {
			ck.fail(sig("value"), detail("wrong value (for the :around chain that was entered, the value must be "+v+")"))
		}
		return
	}
	if !equalStrings(expInner, obsInner) {
		ranI := map[string]bool{}
		for _, t := range obsInner {
			ranI[t] = true
		}
		wantI := map[string]bool{}
		missing, unexpected := map[int]bool{}, map[int]bool{}
		for _, t := range expInner {
			wantI[t] = true
			if !ranI[t] {
				missing[slotOfTag(t)] = true
			}
		}
		for _, t := range obsInner {
			if !wantI[t] {
				unexpected[slotOfTag(t)] = true
			}
		}
		if 0 < len(missing) || 0 < len(unexpected) {
			each("missing", missing, "an applicable method did not run")
			each("unexpected", unexpected, "an applicable method ran that must not run in this call")
			return
		}
		wrong := map[int]bool{}
		for s := 0; s < 3; s++ {
			var a, b []string
			for _, e := range expInner {
				if slotOfTag(e) == s {
					a = append(a, e)
				}
			}
			for _, e := range obsInner {
				if slotOfTag(e) == s {
					b = append(b, e)
				}
			}
			if !equalStrings(a, b) {
				wrong[s] = true
			}
		}
		if 0 < len(wrong) {
			each("order", wrong, "methods of one qualifier ran in the wrong order")
		} else {
			ck.fail(sig("order:between-qualifiers"), detail("before/primary/after phases in the wrong order"))
		}
		return
	}
	if !equalStrings(expOuts, obsOuts) {
		ck.fail(sig("around-exit-order"), detail(":around methods do not return in reverse order of entry"))
		return
	}
	ck.fail(sig("order:around-vs-inner"), detail(":around entries/exits interleaved wrongly with the inner methods"))
}

// lexConflict: two applicable specialiser tuples whose per-argument ranks
// disagree (the first argument prefers one, the second the other).
func lexConflict(t table, cpls [][]string) bool {
	var ranks [][]int
	for spec := range t {
		parts := strings.Split(spec, ",")
		if len(parts) != len(cpls) {
			continue
		}
		r := make([]int, len(parts))
		ok := true
		for i, p := range parts {
			r[i] = -1
			for ci, c := range cpls[i] {
				if c == p {
					r[i] = ci
				}
			}
			ok = ok && 0 <= r[i]
		}
		if ok {
			ranks = append(ranks, r)
		}
	}
	for i := range ranks {
		for j := range ranks {
			for a := 0; a < len(cpls); a++ {
				for b := a + 1; b < len(cpls); b++ {
					if ranks[i][a] < ranks[j][a] && ranks[i][b] > ranks[j][b] {
						return true
					}
				}
			}
		}
	}
	return false
}

// general: classification of a wrong trace for calls that involve the body kinds of round 8: per
// qualifier, which methods ran less / more often than the bodies ask for; else the order; else
// the arguments the bodies saw.
func (ck *checker) general(ex expect, obs callObs, sigB func(string) string, detail func(string) string, prefix string) {
	tags := func(trace []string) (seq []string, cnt map[string]int) {
		cnt = map[string]int{}
		for _, e := range trace {
			if strings.HasPrefix(e, "(") {
				continue
			}
			seq = append(seq, e)
			if !strings.HasSuffix(e, "-out") {
				cnt[baseTag(e)]++
			}
		}
		return
	}
	expSeq, expCnt := tags(ex.trace)
	obsSeq, obsCnt := tags(obs.trace)
	missing, extra := map[int]bool{}, map[int]bool{}
	for t, n := range expCnt {
		if obsCnt[t] < n {
			missing[slotOfTag(t)] = true
		}
	}
	for t, n := range obsCnt {
		if expCnt[t] < n {
			extra[slotOfTag(t)] = true
		}
	}
	if 0 < len(missing)+len(extra) {
		for sl := 0; sl < 4; sl++ {
			if missing[sl] {
				ck.fail(sigB(prefix+"ran-less-often:"+slotNames[sl]), detail("an applicable method ran less often than the method bodies ask for"))
			}
			if extra[sl] {
				ck.fail(sigB(prefix+"ran-more-often:"+slotNames[sl]), detail("an applicable method ran more often than the method bodies ask for"))
			}
		}
		return
	}
	if !equalStrings(expSeq, obsSeq) {
		ck.fail(sigB(prefix+"order"), detail("the applicable methods ran the right number of times but in the wrong order"))
		return
	}
	ck.fail(sigB(prefix+"arguments-seen-by-the-methods"), detail("the methods ran in the right order but saw other arguments than call-next-method was given"))
}

var (
	cnmClassOnce sync.Once
	cnmClass     string
)

// cnmOutsideClass: the condition class slip signals for call-next-method in the primary method of a
// generic function that has no :around method (its documented error), measured once per process.
func cnmOutsideClass() string {
	cnmClassOnce.Do(func() {
		const name = "c10calibrate"
		_, err := lisp.Eval("(progn (defgeneric " + name + " (x)) (defmethod " + name + " ((x fixnum)) (call-next-method x)) (" + name + " 1))")
		if err != nil {
			cnmClass = err.Class
		} else {
			cnmClass = "<no error>"
		}
		func() {
			defer func() { _ = recover() }()
			slip.CurrentPackage.Undefine(name)
		}()
	})
	return cnmClass
}

func trunc(s string, n int) string {
	if len(s) <= n {
		return s
	}
	return s[:n] + "..."
}
