package c14

import (
	"fmt"
	"sort"
	"strconv"
	"strings"
	"time"

	"github.com/ohler55/slip"

	"verif/engine"
	"verif/lisp"
)

// ---------------------------------------------------------------- helpers defined in slip

type ltFunc struct{ slip.Function }

// Call (c14-lt a b): strict order on the alphabet: symbols by name,
// characters by code point, fixnums by value.
func (f *ltFunc) Call(s *slip.Scope, args slip.List, depth int) slip.Object {
	if len(args) != 2 {
		panic(fmt.Sprintf("harness: c14-lt called with %d arguments", len(args)))
	}
	var less bool
	switch a := args[0].(type) {
	case slip.Symbol:
		b, ok := args[1].(slip.Symbol)
		if !ok {
			panic(fmt.Sprintf("harness: c14-lt called with %s and %s", lisp.Show(args[0]), lisp.Show(args[1])))
		}
		less = strings.ToLower(string(a)) < strings.ToLower(string(b))
	case slip.Character:
		b, ok := args[1].(slip.Character)
		if !ok {
			panic(fmt.Sprintf("harness: c14-lt called with %s and %s", lisp.Show(args[0]), lisp.Show(args[1])))
		}
		less = a < b
	case slip.Fixnum:
		b, ok := args[1].(slip.Fixnum)
		if !ok {
			panic(fmt.Sprintf("harness: c14-lt called with %s and %s", lisp.Show(args[0]), lisp.Show(args[1])))
		}
		less = a < b
	default:
		panic(fmt.Sprintf("harness: c14-lt called with %s and %s", lisp.Show(args[0]), lisp.Show(args[1])))
	}
	if less {
		return slip.True
	}
	return nil
}

type pairFunc struct{ slip.Function }

// Call (c14-pair) => zero ; (c14-pair a b) => (a b). The reducing function.
func (f *pairFunc) Call(s *slip.Scope, args slip.List, depth int) slip.Object {
	switch len(args) {
	case 0:
		return slip.Symbol("zero")
	case 2:
		return slip.List{args[0], args[1]}
	}
	panic(fmt.Sprintf("harness: c14-pair called with %d arguments", len(args)))
}

func init() {
	slip.Define(
		func(args slip.List) slip.Object {
			f := ltFunc{Function: slip.Function{Name: "c14-lt", Args: args}}
			f.Self = &f
			return &f
		},
		&slip.FuncDoc{
			Name:   "c14-lt",
			Args:   []*slip.DocArg{{Name: "a", Type: "object"}, {Name: "b", Type: "object"}},
			Return: "boolean",
			Text:   "harness: strict order on the C14 alphabet",
		}, &slip.UserPkg)
	slip.Define(
		func(args slip.List) slip.Object {
			f := pairFunc{Function: slip.Function{Name: "c14-pair", Args: args}}
			f.Self = &f
			return &f
		},
		&slip.FuncDoc{
			Name:   "c14-pair",
			Args:   []*slip.DocArg{{Name: "&rest"}, {Name: "args", Type: "object"}},
			Return: "object",
			Text:   "harness: reducing function, no arguments => zero, two => (a b)",
		}, &slip.UserPkg)
}

// ---------------------------------------------------------------- decoding results

type decoded struct {
	typ byte // L V S
	els []el
}

func decodeEl(o slip.Object, sh byte) (e el, ok bool) {
	sym := func(o slip.Object) (rune, bool) {
		s, ok := o.(slip.Symbol)
		if !ok || len(s) != 1 {
			return 0, false
		}
		return rune(strings.ToLower(string(s))[0]), true
	}
	num := func(o slip.Object) (int, bool) {
		if t, isTail := o.(slip.Tail); isTail {
			o = t.Value
		}
		n, ok := o.(slip.Fixnum)
		return int(n), ok
	}
	switch sh {
	case 'y':
		e.ch, ok = sym(o)
	case 'c':
		var c slip.Character
		c, ok = o.(slip.Character)
		e.ch = narrow(rune(c))
	case 'p':
		l, isList := o.(slip.List)
		if !isList || len(l) != 2 {
			return e, false
		}
		if _, isTail := l[1].(slip.Tail); !isTail {
			return e, false
		}
		var ok2 bool
		e.ch, ok = sym(l[0])
		e.id, ok2 = num(l[1])
		ok = ok && ok2
	}
	return
}

func decodeSeq(o slip.Object, sh byte) *decoded {
	d := &decoded{}
	var list slip.List
	switch v := o.(type) {
	case nil:
		d.typ = 'L'
	case slip.List:
		d.typ = 'L'
		list = v
	case *slip.Vector:
		d.typ = 'V'
		list = v.AsList()
	case slip.String:
		d.typ = 'S'
		for _, r := range string(v) {
			d.els = append(d.els, el{ch: narrow(r)})
		}
		return d
	default:
		return nil
	}
	for _, x := range list {
		e, ok := decodeEl(x, sh)
		if !ok {
			return nil
		}
		d.els = append(d.els, e)
	}
	return d
}

// ---------------------------------------------------------------- running and judging

type verdict struct {
	kind   string // "" = accepted
	got    string
	detail string
}

func evaluate(c *call) (got string, obj slip.Object, err *lisp.Err) {
	obj, err = lisp.Eval(c.form())
	if err == nil {
		if vs, ok := obj.(slip.Values); ok && 0 < len(vs) {
			obj = vs[0]
		}
		got = lisp.Show(obj)
	}
	return
}

func judge(c *call) verdict {
	w := expect(c, mutNone)
	if c.test == "not" && family(c.fn) != famAdjoin || c.count == "nil" {
		w.orErr = true // pushnew is the one function that documents :test-not
	}
	got, obj, err := evaluate(c)
	v := verdict{got: got}
	switch {
	case err != nil && err.GoFault:
		v.got = "ERR " + err.String()
		v.kind = "go-fault"
	case err != nil && strings.HasPrefix(err.Message, "harness:"):
		v.got = "ERR " + err.String()
		v.kind = "bad-callback-arguments"
	case err != nil:
		v.got = "ERR " + err.String()
		if !w.orErr && !w.mustErr {
			// the condition class is part of the kind so that two different rejections are not merged when shrinking
			v.kind = "error-instead-of-value(" + err.Class + ")"
		}
	case w.mustErr:
		v.kind = "value-instead-of-error"
	case w.truthy != nil:
		if lisp.Truthy(obj) != *w.truthy {
			v.kind = "wrong-truth-value"
		}
	case w.check != nil:
		if why := w.check(got, decodeSeq(obj, c.shape(0))); why != "" {
			v.kind = "wrong-value"
			v.detail = why
		}
	default:
		if got != w.show {
			v.kind = "wrong-value"
			if !sameKindOfSeq(got, w.show) {
				v.kind = "wrong-result-type"
			}
		}
	}
	if v.kind != "" {
		v.detail = fmt.Sprintf("%s => %s; the language defines %s%s", c.form(), v.got, w.desc,
			map[bool]string{true: " (" + v.detail + ")", false: ""}[v.detail != ""])
	}
	return v
}

// sameKindOfSeq: both renderings denote the same sequence type (list/nil,
// vector, string) or one of them is an atom — used to tell a wrong result
// type from a wrong value.
func sameKindOfSeq(a, b string) bool {
	k := func(s string) byte {
		switch {
		case strings.HasPrefix(s, "#("):
			return 'V'
		case strings.HasPrefix(s, `"`):
			return 'S'
		case strings.HasPrefix(s, "(") || s == "nil":
			return 'L'
		}
		return 'a' // atom
	}
	ka, kb := k(a), k(b)
	return ka == 'a' || kb == 'a' || ka == kb
}

// ---------------------------------------------------------------- signature

// reductions lists the keyword removals tried when minimising a failing call.
func reductions(c *call) []func(*call) bool {
	return []func(*call) bool{
		func(d *call) bool { ok := d.fromEnd; d.fromEnd = false; return ok },
		func(d *call) bool { ok := d.count != ""; d.count = ""; return ok },
		func(d *call) bool { ok := d.init; d.init = false; return ok },
		func(d *call) bool { ok := d.test != ""; d.test = ""; return ok },
		func(d *call) bool { ok := d.key; d.key = false; return ok },
		func(d *call) bool { ok := d.hasEnd2; d.hasEnd2, d.endNil2 = false, false; return ok },
		func(d *call) bool { ok := d.hasStart2; d.hasStart2, d.start2 = false, 0; return ok },
		func(d *call) bool { ok := d.hasEnd; d.hasEnd, d.endNil = false, false; return ok },
		func(d *call) bool {
			ok := d.hasStart && family(d.fn) != famSubseq && family(d.fn) != famElt && family(d.fn) != famMake
			if ok {
				d.hasStart, d.start = false, 0
			}
			return ok
		},
		func(d *call) bool { ok := d.subEnd != ""; d.subEnd = ""; return ok },
	}
}

// valid: the reduced call is still inside the enumerated domain.
func (c *call) valid() bool {
	if c.test == "lam" {
		switch c.fn {
		case "remove-duplicates", "delete-duplicates", "union", "nunion", "intersection", "nintersection":
			return false
		}
	}
	if family(c.fn) == famAdjoin {
		if c.pred == "pairs" && (c.key || c.test == "lam" || c.test == "notlam") {
			return false // whole pairs are compared by equality only
		}
		if c.pred == "nums" && c.key {
			return false
		}
		if c.fn == "adjoin" && (c.test == "not" || c.test == "notlam") {
			return false // adjoin documents no :test-not
		}
	}
	if family(c.fn) == famMerge {
		return c.sorted(c.els(0)) && c.sorted(c.els(1))
	}
	return true
}

// candidates lists the simpler neighbours of a call, simplest move first:
// drop one keyword, then drop one element of one sequence (bounding indices
// behind it move down by one).
func candidates(c *call) []*call {
	var out []*call
	for _, red := range reductions(c) {
		d := c.clone()
		if red(d) && d.valid() {
			out = append(out, d)
		}
	}
	for i := range c.seqs {
		for j := len(c.seqs[i]) - 1; 0 <= j; j-- {
			d := c.clone()
			d.seqs[i] = c.seqs[i][:j] + c.seqs[i][j+1:]
			switch {
			case i == 0:
				if d.hasStart && j < d.start {
					d.start--
				}
				if d.hasEnd && !d.endNil && j < d.end {
					d.end--
				}
				if d.subEnd != "" && d.subEnd != "nil" {
					if e, _ := strconv.Atoi(d.subEnd); j < e {
						d.subEnd = strconv.Itoa(e - 1)
					}
				}
			case i == 1:
				if d.hasStart2 && j < d.start2 {
					d.start2--
				}
				if d.hasEnd2 && !d.endNil2 && j < d.end2 {
					d.end2--
				}
			}
			if d.valid() {
				out = append(out, d)
			}
		}
	}
	// drop one whole sequence argument where the function argument is written for any number of them
	if f := family(c.fn); (f == famMapL || f == famMap || f == famMapInto) && (c.pred == "tuple" || c.pred == "acc" || c.pred == "last" || c.pred == "filt") {
		lo := 0
		if f == famMapInto {
			lo = 1 // sequence 0 is the result sequence
		}
		for i := len(c.seqs) - 1; lo <= i && 1 < len(c.seqs); i-- {
			if c.pred == "filt" && i == 0 {
				continue
			}
			d := c.clone()
			d.seqs = append(append([]string(nil), c.seqs[:i]...), c.seqs[i+1:]...)
			d.typs = c.typs[:i] + c.typs[i+1:]
			if d.valid() {
				out = append(out, d)
			}
		}
	}
	// lower-case a letter
	for i := range c.seqs {
		for j := len(c.seqs[i]) - 1; 0 <= j; j-- {
			if l := c.seqs[i][j]; 'A' <= l && l <= 'Z' {
				d := c.clone()
				d.seqs[i] = c.seqs[i][:j] + string(l+'a'-'A') + c.seqs[i][j+1:]
				if d.valid() {
					out = append(out, d)
				}
			}
		}
	}
	// replace a letter by a
	for i := range c.seqs {
		for j := len(c.seqs[i]) - 1; 0 <= j; j-- {
			if c.seqs[i][j] != 'a' {
				d := c.clone()
				d.seqs[i] = c.seqs[i][:j] + "a" + c.seqs[i][j+1:]
				if d.valid() {
					out = append(out, d)
				}
			}
		}
	}
	// write a sequence / the result as a plain list when the failure does not need the type
	upper := false
	for _, q := range c.seqs {
		upper = upper || strings.ToLower(q) != q
	}
	for i := range c.typs {
		if t := c.typs[i]; t == 'N' || t == 'V' || t == 'S' && !upper {
			d := c.clone()
			d.typs = c.typs[:i] + "L" + c.typs[i+1:]
			if d.valid() {
				out = append(out, d)
			}
		}
		if c.typs[i] == 'F' {
			d := c.clone()
			d.typs = c.typs[:i] + "V" + c.typs[i+1:]
			out = append(out, d)
		}
	}
	if c.rtype == "vector" || c.rtype == "string" && !upper {
		d := c.clone()
		d.rtype = "list"
		if d.pred == "up" {
			d.pred = "wrap"
		}
		if d.valid() {
			out = append(out, d)
		}
	}
	return out
}

// minimise shrinks a failing call to a locally smallest call with the same
// kind of failure (first successful move, recursively), so that the
// signature names only what the failure needs. It is a deterministic
// function of the call. Verdicts of the visited calls are memoised inside the
// process (a pure cache: it never changes a result).
func minimise(c *call, kind string) *call {
	if c.fn != memoFn {
		memoFn, minMemo, kindMemo = c.fn, map[string]string{}, map[string]string{}
	}
	key := c.spec() + "\x00" + kind
	if m, ok := minMemo[key]; ok {
		d, _ := parseSpec(m)
		return d
	}
	result := c
	for _, d := range candidates(c) {
		// a failing call that does NOT contain the trigger of a listed finding is never shrunk into one that does:
		// the two failures have different causes even when their kind reads the same
		if kindOf(d) == kind && listedTrigger(d) == listedTrigger(c) {
			result = minimise(d, kind)
			break
		}
	}
	if memoCap <= len(minMemo) {
		minMemo = map[string]string{}
	}
	minMemo[key] = result.spec()
	return result
}

// listedTrigger: does the call contain the trigger of one of the recorded C14 findings (known-findings.jsonl)?
// reduce: an empty effective range without :initial-value (D15); fill: :end = length, :start = length, :end nil, an empty list or nil (D10); mismatch: :from-end (D8).
func listedTrigger(c *call) bool {
	switch c.fn {
	case "reduce":
		if c.init || len(c.seqs) == 0 {
			return false
		}
		lo, hi := 0, len(c.seqs[0])
		if c.hasStart {
			lo = c.start
		}
		if c.hasEnd && !c.endNil {
			hi = c.end
		}
		return hi <= lo
	case "fill":
		if len(c.seqs) == 0 || len(c.seqs[0]) == 0 {
			return true
		}
		n := len(c.seqs[0])
		return (c.hasEnd && (c.endNil || c.end == n)) || (c.hasStart && c.start == n)
	case "mismatch":
		return c.fromEnd
	}
	return false
}

const memoCap = 1000000

var (
	memoFn   string
	minMemo  = map[string]string{}
	kindMemo = map[string]string{}
)

func kindOf(c *call) string {
	sp := c.spec()
	if k, ok := kindMemo[sp]; ok {
		return k
	}
	k := judge(c).kind
	if memoCap <= len(kindMemo) {
		kindMemo = map[string]string{}
	}
	kindMemo[sp] = k
	return k
}

func (c *call) seqClass(i int) string {
	s := typName(c.typs[i])
	if len(c.seqs[i]) == 0 && c.typs[i] != 'N' {
		s += ":empty"
	}
	return s
}

func posClass(v, n int) string {
	switch {
	case v < 0:
		return "negative"
	case n < v:
		return "beyond-length"
	case v == 0 && n == 0:
		return "0=len"
	case v == 0:
		return "0"
	case v == n:
		return "len"
	}
	return "mid"
}

// signature: function x sequence type(s) x the minimal keyword set with a
// coarse class of each value x kind of failure.
func (c *call) signature(kind string) string {
	var seqs []string
	for i := range c.typs {
		seqs = append(seqs, c.seqClass(i))
	}
	var kw []string
	n1 := 0
	if 0 < len(c.seqs) {
		n1 = len(c.seqs[0])
	}
	two := family(c.fn) == famTwo || family(c.fn) == famSelf
	sfx := ""
	if two {
		sfx = "1"
	}
	switch {
	case family(c.fn) == famElt:
		kw = append(kw, "index="+posClass(c.start, n1))
	case family(c.fn) == famMake:
		if c.fn == "make-sequence" {
			kw = append(kw, "size="+map[bool]string{true: "0", false: "positive"}[c.start == 0])
		}
	case c.hasStart && family(c.fn) != famSubseq:
		kw = append(kw, "start"+sfx+"="+posClass(c.start, n1))
	}
	if family(c.fn) == famSubseq {
		kw = append(kw, "start="+posClass(c.start, n1))
		switch c.subEnd {
		case "":
		case "nil":
			kw = append(kw, "end=nil")
		default:
			var e int
			fmt.Sscan(c.subEnd, &e)
			if e < c.start && 0 <= e && e <= n1 {
				kw = append(kw, "end=before-start")
			} else {
				kw = append(kw, "end="+posClass(e, n1))
			}
		}
	}
	if c.hasEnd {
		if c.endNil {
			kw = append(kw, "end"+sfx+"=nil")
		} else {
			kw = append(kw, "end"+sfx+"="+posClass(c.end, n1))
		}
	}
	if two {
		n2 := len(c.seqs[len(c.seqs)-1])
		if c.hasStart2 {
			kw = append(kw, "start2="+posClass(c.start2, n2))
		}
		if c.hasEnd2 {
			if c.endNil2 {
				kw = append(kw, "end2=nil")
			} else {
				kw = append(kw, "end2="+posClass(c.end2, n2))
			}
		}
	}
	if c.key {
		kw = append(kw, "key")
	}
	switch c.test {
	case "equal":
		kw = append(kw, "test=equal")
	case "lam", "eqv":
		kw = append(kw, "test=lambda")
	case "not":
		kw = append(kw, "test-not")
	case "notlam":
		kw = append(kw, "test-not=lambda")
	}
	if family(c.fn) == famAdjoin && c.pred == "pairs" {
		kw = append(kw, "elements=conses")
	}
	if family(c.fn) == famAdjoin && c.pred == "nums" {
		kw = append(kw, "elements=fixnums")
	}
	switch c.count {
	case "":
	case "0":
		kw = append(kw, "count=0")
	case "nil":
		kw = append(kw, "count=nil")
	case "-1":
		kw = append(kw, "count=neg")
	default:
		kw = append(kw, "count=pos")
	}
	if c.fromEnd {
		kw = append(kw, "from-end")
	}
	if c.init && family(c.fn) == famMake {
		kw = append(kw, "initial-element")
	} else if c.init {
		kw = append(kw, "initial-value")
	}
	if family(c.fn) == famSelf {
		kw = append(kw, "same-object")
	}
	sort.Strings(kw)
	if len(kw) == 0 {
		kw = []string{"none"}
	}
	extra := ""
	if c.rtype != "" {
		extra = " result-type=" + c.rtype
	}
	if len(seqs) == 0 && family(c.fn) == famMake {
		seqs = []string{"none"}
	}
	return fmt.Sprintf("fn=%s seq=%s%s kw=%s kind=%s", c.fn, strings.Join(seqs, ","), extra, strings.Join(kw, ","), kind)
}

// ---------------------------------------------------------------- Exec

func exec(spec string) (res engine.Result) {
	if strings.HasPrefix(spec, "mapdirect|") {
		return execMapDirect(spec)
	}
	if strings.HasPrefix(spec, "probe|") {
		v, err := lisp.Eval(spec[6:])
		if err != nil {
			res.Outcome = "ERR " + err.String()
		} else {
			res.Outcome = lisp.Show(v)
		}
		return
	}
	if strings.HasPrefix(spec, "bench|") { // development aid: ns per judge of one spec
		c, _ := parseSpec(spec[6:])
		t0 := time.Now()
		for i := 0; i < 20000; i++ {
			judge(c)
		}
		t1 := time.Now()
		for i := 0; i < 20000; i++ {
			_ = c.form()
			expect(c, mutNone)
		}
		t2 := time.Now()
		for i := 0; i < 20000; i++ {
			_, _ = parseSpec(spec[6:])
		}
		t3 := time.Now()
		res.Outcome = fmt.Sprintf("judge %v/op, form+expect %v/op, parse %v/op", t1.Sub(t0)/20000, t2.Sub(t1)/20000, t3.Sub(t2)/20000)
		return
	}
	if strings.HasPrefix(spec, "time|") { // development aid: time|tier|fn  -> avg cost over every 16th case
		f := strings.Split(spec, "|")
		n, fails := 0, 0
		var specs []string
		enumerateFn(f[1], f[2], func(sp string) {
			n++
			if n%16 == 0 {
				specs = append(specs, sp)
			}
		})
		t0 := time.Now()
		for _, sp := range specs {
			if r := exec(sp); 0 < len(r.Failures) {
				fails++
			}
		}
		res.Outcome = fmt.Sprintf("%s: %d cases sampled, %d failing, %v/case", f[2], len(specs), fails, time.Since(t0)/time.Duration(len(specs)+1))
		return
	}
	if strings.HasPrefix(spec, "histogram|") { // development aid: cases per function
		m := map[string]int{}
		enumerate(spec[10:], func(sp string) { m[sp[:strings.IndexByte(sp, '|')]]++ })
		var keys []string
		for k := range m {
			keys = append(keys, k)
		}
		sort.Strings(keys)
		for _, k := range keys {
			res.Outcome += fmt.Sprintf("%s=%d ", k, m[k])
		}
		return
	}
	c, perr := parseSpec(spec)
	if perr != nil || family(c.fn) == famNone {
		res.Fail("harness:bad-spec", fmt.Sprintf("%s: %v", spec, perr))
		return
	}
	v := judge(c)
	res.Outcome = c.fn + " " + v.got
	hits(c, &res)
	if v.kind != "" {
		m := minimise(c, v.kind)
		detail := v.detail
		if m.spec() != c.spec() {
			detail += "  [smallest call with the same failure: " + judge(m).detail + "]"
		}
		res.Fail(m.signature(v.kind), detail)
	}
	return
}

// hits: vacuity counters and the non-triviality rule.
func hits(c *call, res *engine.Result) {
	n := 0
	for _, s := range c.seqs {
		n += len(s)
	}
	kws := 0
	mark := func(on bool, name string) {
		if on {
			res.Hit(name)
			kws++
		}
	}
	mark(c.hasStart && family(c.fn) != famSubseq && family(c.fn) != famElt && family(c.fn) != famMake, "kw:start")
	mark(c.hasEnd, "kw:end")
	mark(c.hasStart2, "kw:start2")
	mark(c.hasEnd2, "kw:end2")
	mark(c.key, "kw:key")
	mark(c.test != "", "kw:test")
	mark(c.count != "", "kw:count")
	mark(c.fromEnd, "kw:from-end")
	mark(c.init, "kw:initial-value")
	if c.test == "not" || c.test == "notlam" {
		res.Hit("kw:test-not")
	}
	hitsNew(c, res)
	if c.fromEnd && c.count != "" && (c.hasStart || c.hasEnd) {
		res.Hit("combo:from-end+count+bounds")
	}
	if c.key && c.test != "" {
		res.Hit("combo:key+test")
		if strings.ContainsRune(c.typs, 'S') {
			res.Hit("combo:key+test-on-string")
		}
	}
	for i := range c.typs {
		res.Hit("seq:" + typName(c.typs[i]))
	}
	switch family(c.fn) {
	case famSort:
		if hasTies(c, c.els(0)) {
			res.Hit("sort:equal-keys")
			if c.fn == "stable-sort" {
				res.Hit("stable-sort:equal-keys")
			}
		}
	case famMerge:
		if hasTies(c, append(c.els(0), c.els(1)...)) {
			res.Hit("merge:equal-keys")
		}
	}
	res.Hit("fam:" + famName(family(c.fn)))
	// non-trivial: a non-empty sequence and at least one keyword argument, or (functions
	// without keywords) at least two elements
	res.Nontrivial = 0 < n && 0 < kws || 2 <= n
}

func hasTies(c *call, els []el) bool {
	seen := map[rune]bool{}
	for _, e := range els {
		k := c.keyOf(e, mutNone)
		if seen[k] {
			return true
		}
		seen[k] = true
	}
	return false
}

func famName(f fam) string {
	return [...]string{"none", "item", "if", "substitute", "substitute-if", "duplicates", "reverse", "two-sequence", "subseq", "fill",
		"sort", "merge", "set", "quantifier", "map", "reduce", "concatenate", "list-mapping", "map-into", "adjoin", "replace-same-object",
		"make", "elt"}[f]
}

// hitsNew: vacuity counters of the families added in the sixth round.
func hitsNew(c *call, res *engine.Result) {
	unequal := false
	for i := range c.seqs {
		unequal = unequal || len(c.seqs[i]) != len(c.seqs[0])
	}
	mixed := false
	for i := range c.typs {
		mixed = mixed || normTyp(c.typs[i]) != normTyp(c.typs[0])
	}
	switch family(c.fn) {
	case famMapL, famMap, famQuant, famMapInto:
		if family(c.fn) == famQuant && c.typs[0] == 'F' {
			res.Hit("fill-pointer:quantifier")
		}
		if len(c.seqs) == 3 {
			res.Hit("arity:3-sequences")
			if unequal {
				res.Hit("arity:3-sequences-of-unequal-length")
			}
			if mixed && strings.ContainsRune(c.typs, 'S') && strings.ContainsRune(c.typs, 'V') && strings.ContainsAny(c.typs, "LN") {
				res.Hit("arity:list+vector+string")
			}
		}
		if family(c.fn) == famMapL {
			res.Hit("list-mapping:" + c.fn)
			if unequal {
				res.Hit("list-mapping:unequal-lengths")
			}
			if c.pred == "filt" && strings.ContainsRune(c.seqs[0], 'b') {
				res.Hit("list-mapping:nil-result-spliced")
			}
		}
		if c.fn == "map" && c.pred == "acc" {
			res.Hit("map:result-type-nil-calls-observed")
		}
	case famSet:
		if c.fn == "set-exclusive-or" || c.fn == "nset-exclusive-or" {
			res.Hit("set-exclusive-or")
			if c.key {
				res.Hit("set-exclusive-or:key")
			}
			if hasTies(c, c.els(0)) || hasTies(c, c.els(1)) {
				res.Hit("set-exclusive-or:duplicates")
			}
		}
	case famAdjoin:
		res.Hit("adjoin:" + c.fn)
		if c.shape(0) == 'p' && c.test != "" {
			res.Hit("adjoin:test-on-conses")
		}
		if c.shape(0) == 'n' && c.test == "" {
			res.Hit("adjoin:default-test-on-boxed-fixnums")
		}
	case famSelf:
		s1, e1 := c.bounds(len(c.seqs[0]), mutNone)
		s2, e2 := c.bounds2(len(c.seqs[0]))
		if s1 < e2 && s2 < e1 && s1 != s2 && s1 < e1 && s2 < e2 {
			if s2 < s1 {
				res.Hit("replace-same-object:overlap-start1>start2")
			} else {
				res.Hit("replace-same-object:overlap-start1<start2")
			}
		}
	case famElt, famSubseq:
		if expect(c, mutNone).mustErr {
			res.Hit("out-of-range:error-demanded")
		}
		if c.typs[0] == 'F' {
			res.Hit("fill-pointer:" + c.fn)
		}

	case famRev:
		if c.typs[0] == 'F' {
			res.Hit("fill-pointer:" + c.fn)
		}
	case famMake:
		res.Hit("make:" + c.fn)
	}
}
