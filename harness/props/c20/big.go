//go:build verif

package c20

// Family "bigfile": the history and stash files are read through a line reader with a 4096-byte buffer
// (pkg/repl/linereader.go). Every history of the other families writes files of a few hundred bytes, so that the
// refill / carry-over logic of the reader is never reached. Here one form of a short history is LONG (a string
// literal padded with filler) and the filler is sized - from the OBSERVED layout of a pilot run, not from knowledge
// of the file format - so that a chosen byte of the final file (the newline that ends the entry, the TAB between the
// lines of a multi-line form, the first byte of a 2-, 3- or 4-byte UTF-8 character, the end of the file) or the
// length of the entry lands at B*4096+d for every d of the tier.
//
// Torn writes: a write(2) of more than one page to a regular file can be cut short when the process is killed (the
// kernel copies page by page and looks for a fatal signal in between), so for every write step of more than 4096
// bytes of the last operation the crash points "only the first j pages of the write arrived" (j*4096 bytes of the
// write, and: up to the j-th page boundary of the FILE inside the write) are added. Writes of at most 4096 bytes are
// never torn, as before.

import (
	"crypto/sha256"
	"fmt"
	"regexp"
	"strconv"
	"strings"

	"github.com/ohler55/slip/pkg/repl"
	"github.com/ohler55/slip/vfs"

	"verif/engine"
)

const (
	bufSize   = 4096 // buffer of the line reader AND page size of the torn-write model
	pilotFill = 8
	midFill   = 4200
)

// filler alphabet: 61 distinct bytes, so that the filler is position dependent with a period that does not divide
// the buffer size (a chunk that is dropped, repeated or swapped changes the text).
const fillAlpha = "0123456789ABCDEFGHIJKLMNOPQRSTUVWXYZabcdefghijklmnopqrstuvwxy"

func filler(n, phase int) string {
	if n <= 0 {
		return ""
	}
	b := make([]byte, n)
	for i := range b {
		b[i] = fillAlpha[(i+phase)%len(fillAlpha)]
	}
	return string(b)
}

var uchar = map[string]string{"u2": "é", "u3": "€", "u4": "😀"}

// midForm: a second long form of fixed size (longer than one buffer).
var midForm = `(m "` + filler(midFill, 31) + `")`

// longForm is the form whose filler is adjusted. Shapes: 1 one line; 2 long first line + short second line;
// 3 short first line + long second line; 4 two long lines (the second of fixed size). With a u-aim the character
// follows the filler.
func longForm(v, aim string, n int) string {
	f := filler(n, 0)
	if c, has := uchar[aim]; has {
		return `(l "` + f + c + `")`
	}
	switch v {
	case "2":
		return `(l "` + f + "\"\n  t)"
	case "3":
		return "(l\n  \"" + f + "\")"
	case "4":
		return `(l "` + f + "\"\n  \"" + filler(midFill, 17) + "\")"
	}
	return `(l "` + f + `")`
}

// measure finds the byte the aim is about in a file that holds the long form exactly once. Every measure grows by
// one when the filler grows by one (checked after the aimed run).
func measure(file, aim string) (int, bool) {
	if strings.Count(file, "(l") != 1 {
		return 0, false
	}
	if aim == "eof" {
		return len(file), true
	}
	start := strings.Index(file, "(l")
	q := strings.IndexByte(file[start:], '"')
	if q < 0 {
		return 0, false
	}
	q += start
	nl := strings.IndexByte(file[q:], '\n')
	if nl < 0 {
		return 0, false
	}
	nl += q
	switch aim {
	case "nl": // the newline that follows the long line (history format: the one that ends the entry)
		return nl, true
	case "len": // bytes of the entry without its newline
		return nl - start, true
	case "tab": // the TAB that stands for the line break after the long line
		t := strings.IndexByte(file[q:nl], '\t')
		if t < 0 {
			return 0, false
		}
		return q + t, true
	}
	if c, has := uchar[aim]; has {
		i := strings.Index(file[q:], c)
		if i < 0 {
			return 0, false
		}
		return q + i, true
	}
	return 0, false
}

func applyHistOp(sp *spec, h *repl.History, op string) {
	switch op[0] {
	case 'A':
		h.Add(repl.NewForm([]byte(sp.form(op))))
	case 'C':
		s, e := parse2(op[1:])
		h.Clear(s, e)
	}
}

func applyStashOp(sp *spec, s *repl.Stash, op string) {
	switch op[0] {
	case 'S':
		s.Add(repl.NewForm([]byte(sp.form(op))))
	case 'X':
		a, b := parse2(op[1:])
		s.Clear(a, b)
	}
}

// plainRun replays the history without any oracle and returns the files. With dieAtLast > 0 the process dies before
// that step of the last operation.
func plainRun(sp *spec, dieAtLast int) (snap map[string]string, ok bool) {
	vfs.Reset()
	_ = vfs.MkdirAll("/cfg", 0o755)
	defer vfs.Revive()
	last := len(sp.Ops) - 1
	var other any
	if sp.K == "bighist" {
		var h *repl.History
		if _, other = guard(func() { h = loadHist(sp.L) }); other != nil {
			return nil, false
		}
		for i, op := range sp.Ops {
			if i == last && 0 < dieAtLast {
				vfs.DieBefore(vfs.StepCount() + dieAtLast)
			}
			crash, other := guard(func() { applyHistOp(sp, h, op) })
			if other != nil {
				return nil, false
			}
			if crash {
				break
			}
			if sp.Mode == "r" && i < last {
				if _, other = guard(func() { h = loadHist(sp.L) }); other != nil {
					return nil, false
				}
			}
		}
	} else {
		var s *repl.Stash
		if _, other = guard(func() { s = loadStash() }); other != nil {
			return nil, false
		}
		for i, op := range sp.Ops {
			if i == last && 0 < dieAtLast {
				vfs.DieBefore(vfs.StepCount() + dieAtLast)
			}
			crash, other := guard(func() { applyStashOp(sp, s, op) })
			if other != nil {
				return nil, false
			}
			if crash {
				break
			}
			if sp.Mode == "r" && i < last {
				if _, other = guard(func() { s = loadStash() }); other != nil {
					return nil, false
				}
			}
		}
	}
	return vfs.Snapshot(), true
}

// guardLoads: while a bigfile case runs, every restart first drives the real line reader over the bytes of the file
// and refuses to call Load when the reader does not reach the end of the file within a number of lines no file of
// that size can have (History.Load / Stash.LoadExpanded loop until the reader says EOF: a reader that keeps
// returning lines would hang the case and take the worker with it). What the reader returns is NOT judged here.
var guardLoads bool

const runawayMsg = "the line reader (4096-byte buffer) does not reach the end of the file: it keeps returning lines"

func checkReaderTerminates(path string) {
	if !guardLoads {
		return
	}
	data := vfs.Snapshot()[path]
	r := repl.NewLineReader(strings.NewReader(data), bufSize)
	for i := 4*strings.Count(data, "\n") + 64; 0 < i; i-- {
		if _, err := r.ReadLine(); err != nil {
			return
		}
	}
	panic(fmt.Sprintf("%s (file of %d bytes, %d newlines)", runawayMsg, len(data), strings.Count(data, "\n")))
}

func execBig(sp *spec, res *engine.Result) {
	guardLoads = true
	defer func() { guardLoads = false }()
	defer finishBig(res)
	hist := sp.K == "bighist"
	file := stashFile
	if hist {
		file = histFile
	}
	run := func() {
		vfs.Reset()
		_ = vfs.MkdirAll("/cfg", 0o755)
		if hist {
			execHist(sp, res)
		} else {
			execStash(sp, res)
		}
	}
	want := sp.B*bufSize + sp.D
	sp.fill = pilotFill
	snap, ok := plainRun(sp, 0)
	if !ok {
		run() // an operation or a reload panics with the smallest filler already: the ordinary run says which
		return
	}
	m0, present := measure(snap[file], sp.Aim)
	if !present {
		// the long entry is not in the final file (dropped by a compaction) or not in the format the aim is about
		// (a TAB in the stash file exists only after a Clear rewrote it)
		res.Outcome = "aim-not-in-final-file"
		return
	}
	sp.fill = pilotFill + want - m0
	if sp.fill < 0 {
		res.Outcome = "aim-infeasible" // what precedes the long entry is already beyond the target
		return
	}
	if sp.Tear != "" {
		sp.s0, _ = plainRun(sp, sp.Crash)
	}
	run()
	if 0 < res.Counters["crash-reached"] {
		res.Hit("big-crash-reached")
	}
	if sp.Crash != 0 {
		return
	}
	data := vfs.Snapshot()[file]
	got, ok := measure(data, sp.Aim)
	if !ok || got != want {
		if len(res.Failures) == 0 { // after a failure the run may have stopped before the last operation
			res.Fail("harness:bigfile aim-missed", fmt.Sprintf("%s: with %d filler bytes the %s byte is at %d (present %v), aimed at %d; pilot with %d: %d",
				sp, sp.fill, sp.Aim, got, ok, want, pilotFill, m0))
		}
		return
	}
	res.Nontrivial = true
	res.Hit("big-aim:" + sp.Aim)
	if !hist {
		res.Hit("big-stash-aim:" + sp.Aim)
	}
	describeFile(data, res)
}

// describeFile counts the shapes the task is about on the final file of an aimed case.
func describeFile(data string, res *engine.Result) {
	if len(data)%bufSize == 0 {
		res.Hit("big-file-ends-at-buffer-boundary")
	}
	lines := strings.Split(data, "\n")
	lines = lines[:len(lines)-1]
	longSeen := false
	for i, l := range lines {
		switch {
		case 2*bufSize < len(l):
			res.Hit("big-entry-longer-than-two-buffers")
		case bufSize < len(l):
			res.Hit("big-entry-longer-than-one-buffer")
		}
		if len(l)+1 == bufSize || len(l) == bufSize {
			res.Hit("big-line-of-exactly-one-buffer")
		}
		if bufSize <= len(l) {
			if 0 < i && !longSeen {
				res.Hit("big-long-after-short")
			}
			longSeen = true
		} else if longSeen && 0 < len(l) {
			res.Hit("big-short-after-long")
		}
	}
	m := &lrModel{data: []byte(data), buf: make([]byte, bufSize)}
	for {
		if _, eof := m.readLine(); eof {
			break
		}
	}
	if m.staleNL {
		res.Hit("big-stale-newline-beyond-count")
	}
	if m.shortAfterFull {
		res.Hit("big-short-read-after-full-read")
	}
}

var fillRun = regexp.MustCompile(`[0-9A-Za-y]{48,}`)

// squeeze abbreviates the filler in a detail text.
func squeeze(s string) string {
	return fillRun.ReplaceAllStringFunc(s, func(m string) string {
		return m[:6] + "<" + strconv.Itoa(len(m)-12) + " filler bytes>" + m[len(m)-6:]
	})
}

func finishBig(res *engine.Result) {
	for i := range res.Failures {
		res.Failures[i].Detail = squeeze(res.Failures[i].Detail)
		if strings.Contains(res.Failures[i].Detail, runawayMsg) {
			res.Failures[i].Sig = strings.Replace(res.Failures[i].Sig, "restart-panics", "restart-does-not-terminate", 1)
		}
	}
	if 200 < len(res.Outcome) {
		res.Outcome = fmt.Sprintf("big:%x", sha256.Sum256([]byte(res.Outcome)))[:24]
	}
}

// tearCut: how many bytes of a write of n bytes appended at file offset base arrive. w<j>: j pages of the write;
// f<j>: up to the j-th page boundary of the file inside the write. 0 = no such point.
func tearCut(tear string, base, n int) int {
	j, _ := strconv.Atoi(tear[1:])
	cut := 0
	switch tear[0] {
	case 'w':
		cut = j * bufSize
	case 'f':
		cut = bufSize - base%bufSize + (j-1)*bufSize
	}
	if j < 1 || n <= cut {
		return 0
	}
	return cut
}

// tearWrite turns "step st was carried out" into "only a page-aligned part of it arrived". It returns a non-empty
// outcome when this crash point does not exist in this case.
func tearWrite(sp *spec, res *engine.Result, st vfs.Step) string {
	if st.Kind != "write" || st.N <= bufSize {
		return "tear-not-applicable" // the small-write rule: a write of at most one page is never torn
	}
	now := vfs.Snapshot()
	data := now[st.Path]
	base := len(data) - st.N
	if sp.s0 == nil || base < 0 || sp.s0[st.Path] != data[:base] {
		res.Hit("torn-write-skipped:not-an-append")
		return "tear-write-is-not-an-append"
	}
	for p, c := range now {
		if p != st.Path && sp.s0[p] != c {
			res.Hit("torn-write-skipped:not-an-append")
			return "tear-another-file-changed"
		}
	}
	cut := tearCut(sp.Tear, base, st.N)
	if cut == 0 {
		return "tear-beyond-write"
	}
	vfs.Put(st.Path, data[:base+cut])
	sp.torn = fmt.Sprintf("died in step %d, a write of %d bytes at offset %d of %s of which the first %d arrived", sp.Crash, st.N, base, st.Path, cut)
	res.Hit("torn-write")
	if sp.Tear[0] == 'f' {
		res.Hit("torn-write:file-page")
	} else {
		res.Hit("torn-write:write-page")
	}
	if strings.HasSuffix(st.Path, ".tmp") {
		res.Hit("torn-write:in-compaction")
	}
	if sp.Ops[len(sp.Ops)-1][0] == 'C' || sp.Ops[len(sp.Ops)-1][0] == 'X' {
		res.Hit("torn-write:in-clear-rewrite")
	}
	if (base+cut)%bufSize == 0 {
		res.Hit("torn-write:file-ends-at-buffer-boundary")
	}
	for _, op := range sp.Ops {
		switch op {
		case "A2", "A3", "A6", "A7":
			res.Hit("torn-write:after-lossy-form")
		}
	}
	return ""
}

// ---------------------------------------------------------------- enumeration

type aim struct {
	name, v string
	b, d    int
}

func dRange(max int) []int {
	out := []int{0}
	for d := 1; d <= max; d++ {
		out = append(out, -d, d)
	}
	return out
}

func bigAims(thorough bool) []aim {
	ds := dRange(3)
	if thorough {
		ds = dRange(8)
	}
	var out []aim
	add := func(name string, vs []string, bs []int, ds []int) {
		for _, b := range bs {
			for _, v := range vs {
				for _, d := range ds {
					out = append(out, aim{name, v, b, d})
				}
			}
		}
	}
	add("nl", []string{"1", "2", "3"}, []int{1, 2, 3}, ds)
	add("eof", []string{"1"}, []int{1, 2}, ds)
	add("len", []string{"1"}, []int{1, 2}, ds)
	add("tab", []string{"2", "4"}, []int{1, 2}, ds)
	add("u2", []string{"1"}, []int{1, 2}, []int{-1, 0, -2})
	add("u3", []string{"1"}, []int{1, 2}, []int{-1, -2, 0, -3})
	add("u4", []string{"1"}, []int{1, 2}, []int{-1, -2, -3, 0, -4})
	return out
}

// tornAims: the aims under which the torn-write crash points are enumerated (the long write is about 1, 2, 3 pages).
func tornAims(thorough bool) []aim {
	var out []aim
	ds := []int{0}
	vs := []string{"1", "2"}
	if thorough {
		ds = []int{0, -1, 1}
		vs = []string{"1", "2", "3", "4"}
	}
	for _, b := range []int{1, 2, 3} {
		for _, v := range vs {
			for _, d := range ds {
				out = append(out, aim{"nl", v, b, d})
			}
		}
	}
	return out
}

// bigHistories: every history of length <= n that holds the long form exactly once, the other places taken from
// others; shortest first.
func bigHistories(long string, others []string, n int, f func([]string)) {
	for l := 1; l <= n; l++ {
		for pos := 0; pos < l; pos++ {
			var rec func(h []string)
			rec = func(h []string) {
				if len(h) == l {
					f(h)
					return
				}
				if len(h) == pos {
					rec(append(append([]string{}, h...), long))
					return
				}
				for _, o := range others {
					rec(append(append([]string{}, h...), o))
				}
			}
			rec(nil)
		}
	}
}

const bigCrashSteps = 6 // an Add is create+write, a compaction or Clear rewrite of <= 4 entries is (create|trunc) + <=4 writes + rename

var tears = []string{"w1", "f1", "w2", "f2", "w3", "f3"}

func enumerateBig(tier string, emit func(string)) {
	thorough := tier == engine.Thorough
	n := 3
	if thorough {
		n = 4
	}
	aims := bigAims(thorough)
	torn := tornAims(thorough)
	// history: short one-line, short two-line, a second long form of fixed size, a Clear that removes nothing but
	// rewrites the whole file. L=5: plain appends only; L=3: the third Add compacts (tmp file + rename).
	bigHistories("AL", []string{"A0", "A1", "AM", "C9,9"}, n, func(h []string) {
		for _, L := range []int{5, 3} {
			if L == 3 && len(h) < 3 {
				continue // the same as L=5
			}
			// an Add that does not compact is create + write: one spare step, so that an extra step would be noticed
			steps := bigCrashSteps
			if L == 5 && h[len(h)-1][0] == 'A' {
				steps = 3
			}
			for _, a := range aims {
				emit((&spec{K: "bighist", L: L, Ops: h, Mode: "r", Aim: a.name, V: a.v, B: a.b, D: a.d}).String())
				if !thorough && (a.d < -1 || 1 < a.d) && uchar[a.name] == "" {
					continue // quick: crash points for d = -1, 0, +1 only
				}
				for k := 1; k <= steps; k++ {
					emit((&spec{K: "bighist", L: L, Ops: h, Mode: "r", Aim: a.name, V: a.v, B: a.b, D: a.d, Crash: k}).String())
				}
			}
			for _, a := range torn {
				for k := 1; k <= steps; k++ {
					for _, t := range tears {
						emit((&spec{K: "bighist", L: L, Ops: h, Mode: "r", Aim: a.name, V: a.v, B: a.b, D: a.d, Crash: k, Tear: t}).String())
					}
				}
			}
		}
	})
	// the lossy forms of the menu (TAB inside, blanks around, blank, empty line inside) next to a torn long entry: what
	// Load does to a line (trimming it, skipping it, splitting it) and the byte count by which it cuts a torn tail
	// off the file are computed in the same loop. Only histories with at least one lossy form (the others are above);
	// the comparison is made after norm() (the lossy transformations themselves are listed findings).
	nl := 2
	if thorough {
		nl = 3
	}
	lossyOp := map[string]bool{"A2": true, "A3": true, "A6": true, "A7": true}
	bigHistories("AL", []string{"A0", "A2", "A3", "A6", "A7", "C9,9"}, nl, func(h []string) {
		any := false
		for _, op := range h {
			any = any || lossyOp[op]
		}
		if !any {
			return
		}
		for _, L := range []int{5, 3} {
			if L == 3 && len(h) < 3 {
				continue
			}
			steps := bigCrashSteps
			if L == 5 && h[len(h)-1][0] == 'A' {
				steps = 3
			}
			for _, a := range torn {
				for k := 1; k <= steps; k++ {
					emit((&spec{K: "bighist", L: L, Ops: h, Mode: "r", Aim: a.name, V: a.v, B: a.b, D: a.d, Crash: k}).String())
					for _, t := range tears {
						emit((&spec{K: "bighist", L: L, Ops: h, Mode: "r", Aim: a.name, V: a.v, B: a.b, D: a.d, Crash: k, Tear: t}).String())
					}
				}
			}
		}
	})
	// stash: Add writes the expanded format (one line per line, an empty line after the form), Clear rewrites the
	// file in the TAB format, so a TAB of the stash file exists only after an X
	bigHistories("SL", []string{"S0", "S1", "SM", "X9,9"}, n, func(h []string) {
		for _, a := range aims {
			emit((&spec{K: "bigstash", Ops: h, Mode: "r", Aim: a.name, V: a.v, B: a.b, D: a.d}).String())
			if (len(h) <= 2 && ((-1 <= a.d && a.d <= 1) || uchar[a.name] != "")) || thorough {
				for k := 1; k <= bigCrashSteps; k++ {
					emit((&spec{K: "bigstash", Ops: h, Mode: "r", Aim: a.name, V: a.v, B: a.b, D: a.d, Crash: k}).String())
				}
			}
		}
		if len(h) <= 2 || thorough {
			for _, a := range torn {
				for k := 1; k <= bigCrashSteps; k++ {
					for _, t := range tears {
						emit((&spec{K: "bigstash", Ops: h, Mode: "r", Aim: a.name, V: a.v, B: a.b, D: a.d, Crash: k, Tear: t}).String())
					}
				}
			}
		}
	})
}

var bigRequired = []string{
	"big-aim:nl", "big-aim:tab", "big-aim:len", "big-aim:eof", "big-aim:u2", "big-aim:u3", "big-aim:u4",
	"big-stash-aim:nl", "big-stash-aim:tab", "big-stash-aim:eof", "big-stash-aim:u4",
	"big-file-ends-at-buffer-boundary", "big-entry-longer-than-one-buffer", "big-entry-longer-than-two-buffers",
	"big-line-of-exactly-one-buffer", "big-long-after-short", "big-short-after-long",
	"big-stale-newline-beyond-count", "big-short-read-after-full-read", "big-crash-reached",
	"torn-write", "torn-write:file-page", "torn-write:write-page", "torn-write:in-compaction", "torn-write:in-clear-rewrite",
	"torn-write:file-ends-at-buffer-boundary", "torn-write:after-lossy-form",
}

func bigBound(tier string) string {
	n, d, crashStash, tornAims := 3, 3, "histories <=2", "newline at 4096*{1,2,3}, long form of 1 or 2 lines"
	if tier == engine.Thorough {
		n, d, crashStash, tornAims = 4, 8, "all of them", "newline at 4096*{1,2,3}+{-1,0,1}, all 4 shapes of the long form"
	}
	return fmt.Sprintf("bigfile: every history of length <=%d with exactly one aimed long form and the other places from {short one-line, short two-line, "+
		"second long form of 4200 filler bytes, Clear that removes nothing but rewrites the file} for History (L=5: appends only; L=3: compaction) and Stash, "+
		"restart after every operation, x every aim: newline after the long line at 4096*{1,2,3}+d for 3 shapes of the long form, TAB at 4096*{1,2}+d "+
		"(2 shapes), end of file at 4096*{1,2}+d, entry length 4096*{1,2}+d, first byte of a 2-/3-/4-byte character at 4096*{1,2}-j for j=0..its length, "+
		"d=-%d..+%d; x a death before each of the first %d steps of the last operation (3 when it is an Add that cannot compact; quick: for d=-1..+1 and the character aims only; stash: %s); torn writes: x every step x {first j pages of the write, "+
		"up to the j-th page boundary of the file, j=1..3} for the aims %s", n, d, d, bigCrashSteps, crashStash, tornAims)
}
