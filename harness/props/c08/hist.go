package c08

import (
	"fmt"
	"io"
	"strings"

	"github.com/ohler55/slip"

	"verif/lisp"
)

// A history is a list of steps applied to the real slip. Code objects live in
// numbered slots so that "the same Code evaluated again" is expressible.
//
//	R<slot>  read src into the slot (slip.ReadString)
//	C<slot>  Code.Compile() on the slot
//	E<slot>  Code.Eval(scope) on the slot
//	L        (load <string-input-stream of src>)   = Read + Compile + Eval inside slip
type step struct {
	op   byte // 'R' 'C' 'E' 'L'
	slot int
	src  string
}

// obs is what one E/L step showed.
type obs struct {
	val   string   // lisp.Show of the value ("" when err)
	trace []string // (tr k v) keys logged during the step
	outs  []string // values handed to (c08-out v) during the step
	err   *lisp.Err
}

var outLog []string

type outFunc struct {
	slip.Function
}

// Call (c08-out v): records the rendered value on the Go side, returns v.
func (f *outFunc) Call(s *slip.Scope, args slip.List, depth int) slip.Object {
	if len(args) != 1 {
		panic(fmt.Sprintf("harness: c08-out called with %d arguments", len(args)))
	}
	outLog = append(outLog, lisp.Show(args[0]))
	return args[0]
}

func init() {
	slip.Define(
		func(args slip.List) slip.Object {
			f := outFunc{Function: slip.Function{Name: "c08-out", Args: args}}
			f.Self = &f
			return &f
		},
		&slip.FuncDoc{
			Name:   "c08-out",
			Args:   []*slip.DocArg{{Name: "value", Type: "object"}},
			Return: "object",
			Text:   "harness: records value, returns it",
		}, &slip.UserPkg)
}

func (o obs) tail() string {
	s := " trace=" + strings.Join(o.trace, ",")
	if 0 < len(o.outs) {
		s += " out=" + strings.Join(o.outs, ",")
	}
	return s
}

func (o obs) String() string {
	if o.err != nil {
		return "ERR[" + o.err.Class + ": " + o.err.Message + "]" + o.tail()
	}
	return o.val + o.tail()
}

// digest without messages (unique names would otherwise leak into outcomes).
func (o obs) digest() string {
	if o.err != nil {
		return "ERR[" + o.err.Class + "]" + o.tail()
	}
	return o.val + o.tail()
}

type machine struct {
	scope *slip.Scope
	slots map[int]slip.Code
}

func newMachine() *machine {
	slip.ErrorOutput = &slip.OutputStream{Writer: io.Discard} // "WARNING: redefining ..." lines
	return &machine{scope: slip.NewScope(), slots: map[int]slip.Code{}}
}

// do applies one step. R returns an obs only when it fails.
func (m *machine) do(st step) (o obs, observed bool) {
	lisp.ResetTrace()
	outLog = nil
	defer func() {
		if rec := recover(); rec != nil {
			o = obs{err: lisp.ErrFromRecovered(rec), trace: lisp.Trace(), outs: outLog}
			observed = true
		}
	}()
	switch st.op {
	case 'R':
		m.slots[st.slot] = slip.ReadString(st.src, m.scope)
		return obs{}, false
	case 'C':
		m.slots[st.slot].Compile()
		return obs{val: "compiled", trace: lisp.Trace(), outs: outLog}, true
	case 'E':
		code, has := m.slots[st.slot]
		if !has {
			panic(fmt.Sprintf("harness: slot %d empty", st.slot))
		}
		v := code.Eval(m.scope, nil)
		return obs{val: lisp.Show(v), trace: lisp.Trace(), outs: outLog}, true
	case 'L':
		m.scope.Let(slip.Symbol("c08-load-stream"), slip.NewStringStream([]byte(st.src)))
		code := slip.ReadString("(load c08-load-stream)", m.scope)
		v := code.Eval(m.scope, nil)
		return obs{val: lisp.Show(v), trace: lisp.Trace(), outs: outLog}, true
	}
	panic("harness: bad step")
}

// parseRaw parses "R0 <src> ;; C0 ;; E0 ;; E0" (probe aid, spec "raw|...").
func parseRaw(s string) (steps []step) {
	for _, part := range strings.Split(s, ";;") {
		part = strings.TrimSpace(part)
		if part == "" {
			continue
		}
		st := step{op: part[0]}
		rest := part[1:]
		i := 0
		for i < len(rest) && '0' <= rest[i] && rest[i] <= '9' {
			st.slot = st.slot*10 + int(rest[i]-'0')
			i++
		}
		st.src = strings.TrimSpace(rest[i:])
		steps = append(steps, st)
	}
	return
}

// cleanup: slip keeps every function, variable, flavor and class of a case in process-global tables for ever (about
// 10 KB per case: 40 GB for the thorough tier). After a case is judged its names (every token that carries the unique
// prefix of the case) are given trivial definitions and then removed, so that the compiled code can be collected.
// Nothing is observed after this point.
func cleanupNames(prefix string, h []hstep) {
	defer func() { _ = recover() }()
	names := map[string]bool{}
	for _, st := range h {
		for _, tok := range strings.FieldsFunc(st.src, func(r rune) bool { return strings.ContainsRune(" \n\t()'`,#", r) }) {
			tok = strings.ToLower(strings.TrimLeft(tok, ":"))
			if strings.Contains(tok, prefix) {
				names[tok] = true
			}
		}
	}
	scope := slip.NewScope()
	quiet := func(src string) {
		defer func() { _ = recover() }()
		slip.ReadString(src, scope).Eval(scope, nil)
	}
	for name := range names {
		if fi := slip.CurrentPackage.GetFunc(name); fi != nil {
			if fi.Aux != nil {
				slip.CurrentPackage.Undefine(name) // a generic function: an ordinary one may not be defined over it
			}
			quiet("(defun " + name + " () nil)") // the one lambda object of the name lets go of the compiled body
			slip.CurrentPackage.Undefine(name)
		}
		if strings.HasSuffix(name, "-fl") {
			quiet("(undefflavor '" + name + ")")
		}
		func() {
			defer func() { _ = recover() }()
			slip.CurrentPackage.Remove(name)
		}()
	}
}
