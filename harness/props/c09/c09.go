// Package c09: no Lisp-level input faults the host. Exhaustive enumeration of
// (i) reader byte strings, (ii) every exported function x argument tuples over
// a fixed pool of representative objects, (iii) format control strings; each
// case runs against the real slip code and the outcome must be a value or a
// genuine Lisp condition - never a Go runtime fault dressed up as an error, a
// raw Go panic, a dead process or a hang.
package c09

import (
	"fmt"
	"os"
	"strconv"
	"strings"
	"syscall"

	"verif/engine"
)

const selftestPkgName = "c09-selftest"

func init() {
	engine.Register(&engine.Prop{
		ID:    "C09",
		Level: "exploration",
		Rule: "three families, each enumerated exhaustively within its bound: r = byte strings given to Read / ReadStream / " +
			"ReadStream in 1-byte chunks / read-from-string; f = every exported function of every slip package x every argument " +
			"tuple over the object pool (objects rebuilt per case, bound to variables, call read from text and evaluated; functions " +
			"that do not evaluate their arguments are additionally given the objects as literal operands); m = format control " +
			"strings built from directive x modifiers x prefix parameters x argument lists. A case is non-trivial when the " +
			"function got past its argument-count check (value, or a condition other than too few/too many arguments) / the text " +
			"contains a byte with a syntactic role / format got past directive lookup",
		Assumptions: []string{
			"a Go runtime fault is recognised by its message (runtime error:, interface conversion:, unhashable, nil map, makeslice, " +
				"closed channel ...) on a condition manufactured by slip's catch-all (Panic.Value set), or by a raw non-condition panic value",
			"functions that block, destroy or reach outside the process BY CONTRACT with the given arguments are not called " +
				"(explicit exclusion list with reasons in funcs.go: loop, sleep n>0, send-signal, signal-wait, run, make-app, benchmark, " +
				"swank server starters, DNS/HTTP lookups)",
			"calls known to kill or hang the process run in a child process of their own (5 s, 3 GiB) and are reported with a specific " +
				"signature; any other death is reported by the engine as worker:fatal / worker:hang",
			"random / time dependent results only influence the outcome digest, never a verdict",
		},
		Enumerate:     enumerate,
		Exec:          execCase,
		Required:      []string{"fn-value", "fn-condition", "fn-type-error", "fn-arg-count-error", "reader-value", "reader-condition", "reader-partial", "format-value", "format-condition", "catch-all-conversions"},
		CaseDeadlineS: 10,
		Bound:         bound,
		Selftest:      selftest,
	})
}

// C09_ONLY (development aid): restrict the run to some families, e.g. "f" or "rm".
func only(fam string) bool {
	o := os.Getenv("C09_ONLY")
	return o == "" || strings.Contains(o, fam)
}

func enumerate(tier string, emit func(string)) {
	if only("m") {
		enumFormat(tier, emit)
	}
	if only("f") {
		enumFuncs(tier, emit)
	}
	if only("r") {
		enumReader(tier, emit)
	}
	if only("b") {
		enumBare(emit)
	}
}

func execCase(spec string) engine.Result {
	if tainted {
		restartWorker()
	}
	execCalls++
	switch {
	case strings.HasPrefix(spec, "f|"):
		return execFunc(spec)
	case strings.HasPrefix(spec, "r|"):
		return execReader(spec)
	case strings.HasPrefix(spec, "m|"):
		return execFormat(spec)
	case strings.HasPrefix(spec, "b|"):
		return execBare(spec)
	}
	var res engine.Result
	res.Fail("harness:bad-spec", spec)
	return res
}

func bound(tier string) string {
	if o := os.Getenv("C09_ONLY") + os.Getenv("C09_FN"); o != "" {
		return "DEVELOPMENT RUN restricted to " + o
	}
	nf := len(allFunctions())
	np := len(fullPool)
	if tier == engine.Thorough {
		return fmt.Sprintf("reader: every byte string of length <= 2 over all 256 bytes (4 APIs), length 3 over all 256 bytes (Read), "+
			"length <= 4 over %d syntax bytes (Read, ReadStream), length <= 6 over the 12 bytes %q (4 APIs); functions: %d exported "+
			"functions x the 0-tuple, all 1-tuples and all 2-tuples over the %d-object pool, all 3-tuples over %d objects; format: every "+
			"byte as directive x 4 modifier sets x %d parameter shapes x %d argument lists, every ordered pair of the %d real single "+
			"directives, %d wrappers x every single, the huge literal parameter on every directive x 4 modifier sets",
			len(syntax48), string(syntax12), nf, np, len(tripleNames), len(fmtParams), len(fmtArgLists), len(singles(directiveChars)), len(wrappers))
	}
	return fmt.Sprintf("reader: every byte string of length <= 2 over all 256 bytes (4 APIs), length <= 5 over the 12 bytes %q (Read, "+
		"ReadStream; <= 4 for 1-byte chunks and read-from-string); functions: %d exported functions x the 0-tuple, all 1-tuples over the "+
		"%d-object pool and all 2-tuples over a %d-object sub-pool; format: every byte as directive x 4 modifier sets x %d parameter "+
		"shapes x %d argument lists, every ordered pair over a %d-directive core, %d wrappers x every directive x 4 modifier sets, the "+
		"huge literal parameter on every directive",
		string(syntax12), nf, np, len(quickPairNames), len(fmtParams), len(fmtArgLists), len(core66()), len(wrappers))
}

// execCalls counts the cases this process has been given (1:1 with the
// engine's per-shard case index beyond --resume).
var execCalls int

// restartWorker: a previous case (already reported) left this interpreter
// broken. A static worker replaces itself by a fresh image that resumes at the
// case now in flight, so that no later case is judged in a broken world. (The
// partial summary of this image is lost exactly as after an engine restart;
// first failures have already been streamed.) In any other mode: carry on.
func restartWorker() {
	if len(os.Args) < 3 || os.Args[1] != "worker" {
		tainted = false
		return
	}
	resume := 0
	args := append([]string{}, os.Args...)
	ri := -1
	for i := 3; i+1 < len(args); i++ {
		if args[i] == "--resume" || args[i] == "-resume" {
			resume, _ = strconv.Atoi(args[i+1])
			ri = i + 1
		}
	}
	if ri < 0 {
		args = append(args, "--resume", "0")
		ri = len(args) - 1
	}
	args[ri] = strconv.Itoa(resume + execCalls)
	self, err := os.Executable()
	if err != nil {
		return
	}
	env := baseEnv
	if env == nil {
		env = os.Environ()
	}
	_ = os.Chdir("/")
	_ = os.RemoveAll(scratchDir)
	_ = syscall.Exec(self, args, env)
	// only reached when exec failed: keep going, later failures will not confirm
	tainted = false
}
