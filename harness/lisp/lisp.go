// Package lisp is the narrow seam through which every harness drives slip:
// source text -> slip.ReadString -> Code.Eval in a fresh scope. Results are
// rendered by a Go type switch (never by slip's printer) and side effects are
// observed through the Go-defined function (tr k v).
package lisp

import (
	"fmt"
	"math"
	"math/big"
	"sort"
	"strconv"
	"strings"

	"github.com/ohler55/slip"
	_ "github.com/ohler55/slip/pkg" // all functions
)

// Err describes how an evaluation failed.
type Err struct {
	Class   string // most specific condition class, "" if not a Lisp object
	Message string
	GoFault bool   // the message is a Go runtime fault
	Raw     string // %T of what was recovered
	Hier    []string
}

func (e *Err) String() string {
	if e == nil {
		return "<ok>"
	}
	return fmt.Sprintf("%s: %s", e.Class, e.Message)
}

// IsA reports whether the condition's hierarchy includes class.
func (e *Err) IsA(class string) bool {
	for _, h := range e.Hier {
		if h == class {
			return true
		}
	}
	return false
}

var faultMarks = []string{
	"runtime error:", "interface conversion:", "unhashable", "nil map", "reflect:", "makeslice",
	"invalid memory address", "index out of range", "slice bounds out of range", "nil pointer",
	"hash of unhashable", "assignment to entry in nil map", "negative shift amount", "integer divide by zero",
	"makechan", "close of closed channel", "close of nil channel", "all goroutines are asleep",
}

// IsGoFault says whether msg reads like a Go runtime fault.
func IsGoFault(msg string) bool {
	for _, m := range faultMarks {
		if strings.Contains(msg, m) {
			return true
		}
	}
	return false
}

// ErrFromRecovered classifies a recovered panic value.
func ErrFromRecovered(rec any) *Err {
	e := &Err{Raw: fmt.Sprintf("%T", rec)}
	switch tr := rec.(type) {
	case *slip.Panic:
		e.Message = tr.Message
		for _, h := range tr.Hierarchy() {
			e.Hier = append(e.Hier, string(h))
		}
		if tr.Condition != nil {
			if mv, has := tr.Condition.SlotValue(slip.Symbol("message")); has && mv != nil && e.Message == "" {
				e.Message = slip.ObjectString(mv)
			}
		}
	case *slip.PartialPanic:
		e.Message = tr.Message
		e.Hier = []string{"partial"}
	case slip.Instance:
		for _, h := range tr.Hierarchy() {
			e.Hier = append(e.Hier, string(h))
		}
		if mv, has := tr.SlotValue(slip.Symbol("message")); has && mv != nil {
			e.Message = slip.ObjectString(mv)
		}
	case slip.Object:
		for _, h := range tr.Hierarchy() {
			e.Hier = append(e.Hier, string(h))
		}
		e.Message = tr.String()
	case error:
		e.Message = tr.Error()
		e.Hier = []string{"go-error"}
		e.GoFault = true
	default:
		e.Message = fmt.Sprint(rec)
		e.Hier = []string{"go-panic"}
		e.GoFault = true
	}
	if 0 < len(e.Hier) {
		e.Class = e.Hier[0]
	}
	if IsGoFault(e.Message) {
		e.GoFault = true
	}
	return e
}

// --------------------------------------------------------------- tracing

var traceLog []string

// ResetTrace clears the trace log.
//
//go:norace
func ResetTrace() {
	traceLock()
	traceLog = traceLog[:0]
	traceUnlock()
}

// Trace returns a copy of the trace log.
//
//go:norace
func Trace() []string {
	traceLock()
	defer traceUnlock()
	return append([]string(nil), traceLog...)
}

// AddTrace appends directly (used by Go-side probes and by (tr k v)).
//
//go:norace
func AddTrace(s string) {
	traceLock()
	traceLog = append(traceLog, s)
	traceUnlock()
}

type trFunc struct {
	slip.Function
}

// Call (tr k v): log k, return v. (tr k) logs k and returns nil.
func (f *trFunc) Call(s *slip.Scope, args slip.List, depth int) slip.Object {
	if len(args) < 1 || 2 < len(args) {
		panic(fmt.Sprintf("harness: tr called with %d arguments", len(args)))
	}
	AddTrace(Show(args[0]))
	if len(args) == 2 {
		return args[1]
	}
	return nil
}

func init() {
	slip.Define(
		func(args slip.List) slip.Object {
			f := trFunc{Function: slip.Function{Name: "tr", Args: args}}
			f.Self = &f
			return &f
		},
		&slip.FuncDoc{
			Name:   "tr",
			Args:   []*slip.DocArg{{Name: "key", Type: "object"}, {Name: "&optional"}, {Name: "value", Type: "object"}},
			Return: "object",
			Text:   "harness trace function: logs key, returns value",
		}, &slip.UserPkg)
}

// --------------------------------------------------------------- eval

// Eval reads and evaluates src in a fresh scope. The trace log is NOT reset.
func Eval(src string) (result slip.Object, err *Err) {
	return EvalIn(slip.NewScope(), src)
}

// EvalIn reads and evaluates src in the given scope.
func EvalIn(scope *slip.Scope, src string) (result slip.Object, err *Err) {
	defer func() {
		if rec := recover(); rec != nil {
			err = ErrFromRecovered(rec)
			result = nil
		}
	}()
	code := slip.ReadString(src, scope)
	result = code.Eval(scope, nil)
	return
}

// Run evaluates src in a fresh scope with a fresh trace and returns the
// rendered value, trace and error.
func Run(src string) (val string, trace []string, err *Err) {
	ResetTrace()
	obj, err := Eval(src)
	trace = Trace()
	if err == nil {
		val = Show(obj)
	}
	return
}

// --------------------------------------------------------------- values

// Show renders an object canonically by Go type switch. Numbers carry their
// representation class so that a non-canonical result is visible.
func Show(obj slip.Object) string {
	var b strings.Builder
	show(&b, obj, 0)
	return b.String()
}

func show(b *strings.Builder, obj slip.Object, depth int) {
	if 40 < depth {
		b.WriteString("<deep>")
		return
	}
	switch v := obj.(type) {
	case nil:
		b.WriteString("nil")
	case slip.Fixnum:
		b.WriteString(strconv.FormatInt(int64(v), 10))
	case *slip.Bignum:
		b.WriteString("B")
		b.WriteString((*big.Int)(v).String())
	case *slip.Ratio:
		b.WriteString("R")
		b.WriteString((*big.Rat)(v).Num().String())
		b.WriteString("/")
		b.WriteString((*big.Rat)(v).Denom().String())
	case slip.SingleFloat:
		b.WriteString("f")
		b.WriteString(fmtFloat(float64(v), 32))
	case slip.DoubleFloat:
		b.WriteString("d")
		b.WriteString(fmtFloat(float64(v), 64))
	case *slip.LongFloat:
		b.WriteString("l")
		b.WriteString((*big.Float)(v).Text('g', 30))
	case slip.Complex:
		fmt.Fprintf(b, "#C(%v %v)", real(complex128(v)), imag(complex128(v)))
	case slip.String:
		b.WriteString(strconv.Quote(string(v)))
	case slip.Symbol:
		if len(v) == 0 {
			b.WriteString("||")
		} else {
			b.WriteString(strings.ToLower(string(v)))
		}
	case slip.Character:
		b.WriteString("#\\")
		b.WriteString(strconv.QuoteRune(rune(v)))
	case slip.Octet:
		fmt.Fprintf(b, "o%d", byte(v))
	case slip.List:
		if len(v) == 0 {
			b.WriteString("nil")
			return
		}
		b.WriteByte('(')
		for i, e := range v {
			if 0 < i {
				b.WriteByte(' ')
			}
			if t, ok := e.(slip.Tail); ok {
				b.WriteString(". ")
				show(b, t.Value, depth+1)
			} else {
				show(b, e, depth+1)
			}
		}
		b.WriteByte(')')
	case slip.Tail:
		b.WriteString(". ")
		show(b, v.Value, depth+1)
	case slip.Values:
		b.WriteString("#values(")
		for i, e := range v {
			if 0 < i {
				b.WriteByte(' ')
			}
			show(b, e, depth+1)
		}
		b.WriteByte(')')
	case *slip.Vector:
		b.WriteString("#(")
		for i, e := range v.AsList() {
			if 0 < i {
				b.WriteByte(' ')
			}
			show(b, e, depth+1)
		}
		b.WriteByte(')')
	case slip.Octets:
		fmt.Fprintf(b, "#octets%v", []byte(v))
	case *slip.Array:
		fmt.Fprintf(b, "#%dA", len(v.Dimensions()))
		show(b, v.AsList(), depth+1)
	case slip.HashTable:
		keys := make([]string, 0, len(v))
		for k, val := range v {
			keys = append(keys, Show(k)+"=>"+Show(val))
		}
		sort.Strings(keys)
		b.WriteString("#hash{")
		b.WriteString(strings.Join(keys, ","))
		b.WriteByte('}')
	default:
		if obj == slip.True {
			b.WriteString("t")
			return
		}
		h := obj.Hierarchy()
		name := "?"
		if 0 < len(h) {
			name = string(h[0])
		}
		fmt.Fprintf(b, "#<%s>", name)
	}
}

func fmtFloat(f float64, bits int) string {
	switch {
	case math.IsNaN(f):
		return "NaN"
	case math.IsInf(f, 1):
		return "+Inf"
	case math.IsInf(f, -1):
		return "-Inf"
	}
	return strconv.FormatFloat(f, 'g', -1, bits)
}

// Truthy is the Lisp notion of true.
func Truthy(obj slip.Object) bool {
	if obj == nil {
		return false
	}
	if l, ok := obj.(slip.List); ok && len(l) == 0 {
		return false
	}
	return true
}
