package c04

import (
	"strconv"
	"strings"
)

// ---------------------------------------------------------------- shapes

// shape is a lambda list: req required parameters (a b c), optional
// parameters (o1 o2; true = has a default), &rest r, key parameters (k1 k2 k3;
// true = has a default), &aux (x1 70) x2.
type shape struct {
	req  int
	opt  []bool
	rest bool
	key  []bool
	aux  bool
}

var reqNames = []string{"a", "b", "c"}

func optName(i int) string { return "o" + strconv.Itoa(i+1) }
func keyName(i int) string { return "k" + strconv.Itoa(i+1) }

const (
	optDefaultBase = 51 // o1 -> 51, o2 -> 52
	keyDefaultBase = 61 // k1 -> 61 ...
	auxValue       = 70
)

func flags(bs []bool) string {
	var b strings.Builder
	for _, x := range bs {
		if x {
			b.WriteByte('d')
		} else {
			b.WriteByte('n')
		}
	}
	if b.Len() == 0 {
		return "-"
	}
	return b.String()
}

func parseFlags(s string) []bool {
	if s == "-" {
		return nil
	}
	out := make([]bool, len(s))
	for i := range s {
		out[i] = s[i] == 'd'
	}
	return out
}

func b01(b bool) string {
	if b {
		return "1"
	}
	return "0"
}

// code is the spec rendering: req|opt|rest|key|aux
func (sh *shape) code() string {
	return strconv.Itoa(sh.req) + "|" + flags(sh.opt) + "|" + b01(sh.rest) + "|" + flags(sh.key) + "|" + b01(sh.aux)
}

// lambdaList renders the Lisp lambda list.
func (sh *shape) lambdaList() string {
	var p []string
	p = append(p, reqNames[:sh.req]...)
	if 0 < len(sh.opt) {
		p = append(p, "&optional")
		for i, d := range sh.opt {
			if d {
				p = append(p, "("+optName(i)+" "+strconv.Itoa(optDefaultBase+i)+")")
			} else {
				p = append(p, optName(i))
			}
		}
	}
	if sh.rest {
		p = append(p, "&rest", "r")
	}
	if 0 < len(sh.key) {
		p = append(p, "&key")
		for i, d := range sh.key {
			if d {
				p = append(p, "("+keyName(i)+" "+strconv.Itoa(keyDefaultBase+i)+")")
			} else {
				p = append(p, keyName(i))
			}
		}
	}
	if sh.aux {
		p = append(p, "&aux", "(x1 "+strconv.Itoa(auxValue)+")", "x2")
	}
	return "(" + strings.Join(p, " ") + ")"
}

// params lists all parameter names in lambda-list order (the body returns them as a list).
func (sh *shape) params() (names, kinds []string) {
	for i := 0; i < sh.req; i++ {
		names, kinds = append(names, reqNames[i]), append(kinds, "required")
	}
	for i := range sh.opt {
		names, kinds = append(names, optName(i)), append(kinds, "optional")
	}
	if sh.rest {
		names, kinds = append(names, "r"), append(kinds, "rest")
	}
	for i := range sh.key {
		names, kinds = append(names, keyName(i)), append(kinds, "key")
	}
	if sh.aux {
		names, kinds = append(names, "x1", "x2"), append(kinds, "aux", "aux")
	}
	return
}

// ---------------------------------------------------------------- arguments

// arg is one actual argument: a keyword (kw != "") or the fixnum 100+index.
type arg struct {
	kw    string
	val   int
	isNil bool // an explicit nil argument (token "n")
}

func (a arg) text() string {
	if a.isNil {
		return "nil"
	}
	if a.kw != "" {
		return ":" + a.kw
	}
	return strconv.Itoa(a.val)
}

// parseArgs: tokens separated by ',' : "v" = a fixnum (value 100+index), "n" = an explicit nil, anything else = keyword of that name.
func parseArgs(s string) []arg {
	if s == "" {
		return nil
	}
	toks := strings.Split(s, ",")
	out := make([]arg, len(toks))
	for i, t := range toks {
		if t == "v" {
			out[i] = arg{val: 100 + i}
		} else if t == "n" {
			out[i] = arg{isNil: true}
		} else {
			out[i] = arg{kw: t}
		}
	}
	return out
}

// ---------------------------------------------------------------- reference binder (CLHS 3.4.1)

// variant selects among the behaviours the statement leaves open (S2).
type variant struct {
	slipRest     bool // &rest with &key collects only the arguments before the first declared keyword (slip's convention) instead of all remaining arguments (CL)
	dupRight     bool // duplicate key: rightmost wins (CL: leftmost)
	unknownError bool // unknown key is an error (CL without &allow-other-keys) instead of being ignored (slip documents :allow-other-keys t)
}

// mutation selects one seeded bug of the reference (selftest only).
type mutation int

const (
	mNone mutation = iota
	mMissingRequiredAccepted
	mTooManyAccepted
	mOptionalDefaultIgnored
	mRestDropsFirst
	mKeysByPosition
	mKeywordSkipsOptional
	mKeyDefaultIgnored
	mUnknownKeyClobbersParam
	mExplicitNilIsAbsent
)

var mutationNames = map[mutation]string{
	mMissingRequiredAccepted: "missing required argument accepted (bound to nil)",
	mTooManyAccepted:         "surplus positional arguments silently dropped",
	mOptionalDefaultIgnored:  "absent &optional gets nil instead of its default",
	mRestDropsFirst:          "&rest loses its first element",
	mKeysByPosition:          "&key bound by position of the pair instead of by name",
	mKeywordSkipsOptional:    "a keyword-looking positional argument is not bound to &optional but starts the key section",
	mKeyDefaultIgnored:       "absent &key gets nil instead of its default",
	mUnknownKeyClobbersParam: "an unknown key whose name equals a parameter name overwrites that parameter",
	mExplicitNilIsAbsent:     "an explicit nil for an &optional or &key parameter counts as absent (the default is used)",
}

// outcome of a bind: err != "" (reason) or the rendered value list.
type outcome struct {
	err  string // "too-few" | "too-many" | "non-keyword-in-key-position" | "odd-key-tail" | "unknown-key"
	vals []string
}

func (o outcome) String() string {
	if o.err != "" {
		return "ERR"
	}
	if len(o.vals) == 0 {
		return "nil"
	}
	return "(" + strings.Join(o.vals, " ") + ")"
}

func renderList(as []arg) string {
	if len(as) == 0 {
		return "nil"
	}
	p := make([]string, len(as))
	for i, a := range as {
		p[i] = a.text()
	}
	return "(" + strings.Join(p, " ") + ")"
}

// bind is the reference binder.
func bind(sh *shape, args []arg, v variant, m mutation) outcome {
	bound := map[string]string{}
	if len(args) < sh.req {
		if m != mMissingRequiredAccepted {
			return outcome{err: "too-few"}
		}
	}
	ai := 0
	for i := 0; i < sh.req; i++ {
		if ai < len(args) {
			bound[reqNames[i]] = args[ai].text()
			ai++
		} else {
			bound[reqNames[i]] = "nil"
		}
	}
	for i := range sh.opt {
		if ai < len(args) {
			if m == mKeywordSkipsOptional && args[ai].kw != "" && 0 < len(sh.key) {
				break
			}
			if !(m == mExplicitNilIsAbsent && args[ai].isNil) {
				bound[optName(i)] = args[ai].text()
			}
			ai++
		}
	}
	rem := args[ai:]
	declared := func(kw string) int {
		for i := range sh.key {
			if keyName(i) == kw {
				return i
			}
		}
		return -1
	}
	switch {
	case len(sh.key) == 0 && !sh.rest:
		if 0 < len(rem) && m != mTooManyAccepted {
			return outcome{err: "too-many"}
		}
	case len(sh.key) == 0:
		bound["r"] = renderList(rem)
		if m == mRestDropsFirst && 0 < len(rem) {
			bound["r"] = renderList(rem[1:])
		}
	default:
		ks := rem
		if sh.rest {
			restPart := rem
			if v.slipRest {
				n := 0
				for n < len(rem) && !(rem[n].kw != "" && 0 <= declared(rem[n].kw)) {
					n++
				}
				restPart, ks = rem[:n], rem[n:]
			}
			bound["r"] = renderList(restPart)
			if m == mRestDropsFirst && 0 < len(restPart) {
				bound["r"] = renderList(restPart[1:])
			}
		}
		names, _ := sh.params()
		pair := 0
		for i := 0; i < len(ks); i += 2 {
			if ks[i].kw == "" {
				return outcome{err: "non-keyword-in-key-position"}
			}
			if len(ks) <= i+1 {
				return outcome{err: "odd-key-tail"}
			}
			ki := declared(ks[i].kw)
			if m == mKeysByPosition {
				ki = -1
				if pair < len(sh.key) {
					ki = pair
				}
			}
			pair++
			if ki < 0 {
				if v.unknownError {
					return outcome{err: "unknown-key"}
				}
				if m == mUnknownKeyClobbersParam {
					for _, n := range names {
						if n == ks[i].kw {
							bound[n] = ks[i+1].text()
						}
					}
				}
				continue
			}
			if _, has := bound[keyName(ki)]; has && !v.dupRight {
				continue
			}
			if m == mExplicitNilIsAbsent && ks[i+1].isNil {
				continue
			}
			bound[keyName(ki)] = ks[i+1].text()
		}
	}
	// defaults
	for i, d := range sh.opt {
		if _, has := bound[optName(i)]; !has {
			bound[optName(i)] = "nil"
			if d && m != mOptionalDefaultIgnored {
				bound[optName(i)] = strconv.Itoa(optDefaultBase + i)
			}
		}
	}
	for i, d := range sh.key {
		if _, has := bound[keyName(i)]; !has {
			bound[keyName(i)] = "nil"
			if d && m != mKeyDefaultIgnored {
				bound[keyName(i)] = strconv.Itoa(keyDefaultBase + i)
			}
		}
	}
	if sh.aux {
		if _, has := bound["x1"]; !has || m != mUnknownKeyClobbersParam {
			bound["x1"] = strconv.Itoa(auxValue)
		}
		if _, has := bound["x2"]; !has || m != mUnknownKeyClobbersParam {
			bound["x2"] = "nil"
		}
	}
	names, _ := sh.params()
	out := outcome{vals: make([]string, len(names))}
	for i, n := range names {
		out.vals[i] = bound[n]
	}
	return out
}

var allVariants = func() []variant {
	var vs []variant
	for _, sr := range []bool{false, true} {
		for _, dr := range []bool{false, true} {
			for _, ue := range []bool{false, true} {
				vs = append(vs, variant{slipRest: sr, dupRight: dr, unknownError: ue})
			}
		}
	}
	return vs
}()

// acceptable returns the set of outcomes the statement allows, keyed by rendering. errReasons
// collects the reasons of the ERR members; values holds the value outcomes (CL variant first).
type expectation struct {
	set        map[string]bool
	errReasons map[string]bool
	values     []outcome
}

func acceptable(sh *shape, args []arg) *expectation {
	e := &expectation{set: map[string]bool{}, errReasons: map[string]bool{}}
	for _, v := range allVariants {
		o := bind(sh, args, v, mNone)
		s := o.String()
		if o.err != "" {
			e.errReasons[o.err] = true
		} else if !e.set[s] {
			e.values = append(e.values, o)
		}
		e.set[s] = true
	}
	return e
}

func (e *expectation) onlyError() bool { return len(e.values) == 0 }

func (e *expectation) describe() string {
	var p []string
	for _, o := range e.values {
		p = append(p, o.String())
	}
	if e.set["ERR"] {
		var rs []string
		for _, r := range []string{"too-few", "too-many", "non-keyword-in-key-position", "odd-key-tail", "unknown-key"} {
			if e.errReasons[r] {
				rs = append(rs, r)
			}
		}
		p = append(p, "an error ("+strings.Join(rs, "/")+")")
	}
	return strings.Join(p, " or ")
}
