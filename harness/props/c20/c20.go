//go:build verif

// Package c20: REPL history, stash and settings across restarts and process
// deaths. The real History / Stash / config code runs over the in-memory vfs
// (import "os" rewritten by overlay), every operation history inside the bound
// is executed, a restart is simulated after every operation, and for every
// state-changing file-system step of the last operation a process death just
// before that step is simulated, followed by a restart, two further Adds and
// further restarts.
package c20

import (
	"encoding/json"
	"fmt"
	"strconv"
	"strings"

	"github.com/ohler55/slip"
	"github.com/ohler55/slip/pkg/repl"
	"github.com/ohler55/slip/vfs"

	"verif/engine"
	"verif/lisp"
)

const (
	histFile  = "/cfg/history"
	stashFile = "/cfg/stash.lisp"
)

// form menu: index -> text
var forms = []string{
	"(a)",             // 0 plain
	"(b\n  c)",        // 1 two lines
	"(d \"x\ty\")",    // 2 contains a TAB
	"  (e)  ",         // 3 leading / trailing blanks
	"(e \"é😀\")",      // 4 non-ASCII
	"(f 1)",           // 5 plain
	"   ",             // 6 blank
	"(g\n\n  h)",      // 7 multi-line with an empty line
}

var cleanForms = []int{0, 1, 4, 5}

type spec struct {
	K     string   `json:"k"`           // hist | stash | cfg
	L     int      `json:"L,omitempty"` // history limit
	Pre   int      `json:"pre,omitempty"`
	Ops   []string `json:"ops"`
	Mode  string   `json:"mode,omitempty"`  // r = restart after every op and continue on the reloaded instance; n = one instance
	Crash int      `json:"crash,omitempty"` // die before the k-th state-changing step of the LAST op (0 = no crash)
	// family "bigfile" (big.go): one form of the history is LONG and its filler is sized so that a chosen byte of the
	// final file sits at offset B*4096+D
	Aim  string `json:"aim,omitempty"`  // nl | tab | len | eof | u2 | u3 | u4
	V    string `json:"v,omitempty"`    // shape of the long form (longForm)
	B    int    `json:"B,omitempty"`    // which multiple of the 4096-byte read buffer
	D    int    `json:"d,omitempty"`    // distance from it
	Tear string `json:"tear,omitempty"` // torn write: the Crash-th step is a write of more than 4096 bytes of which only a page-aligned part arrives (w<j> | f<j>)

	fill int               // filler length of the long form (computed from a pilot run)
	s0   map[string]string // torn write: the files as they were just before the write
	torn string            // torn write: what arrived, for the detail texts
}

func (s *spec) death() string {
	if s.Tear != "" {
		return s.torn
	}
	return fmt.Sprintf("died before step %d", s.Crash)
}

// form returns the text of the form an Add operation (A<i>, S<i>, AL, AM, SL, SM) enters.
func (s *spec) form(op string) string {
	switch op[1:] {
	case "L":
		return longForm(s.V, s.Aim, s.fill)
	case "M":
		return midForm
	}
	i, _ := strconv.Atoi(op[1:])
	return forms[i]
}

func (s *spec) String() string {
	b, _ := json.Marshal(s)
	return string(b)
}

func init() {
	engine.Register(&engine.Prop{
		ID:    "C20",
		Level: "fault_enumeration",
		Rule: "every operation history inside the bound (History.Add over an 8-form menu incl. multi-line, TAB, blanks, non-ASCII, " +
			"blank; Clear ranges through the Go methods and through the Lisp functions clear-history / clear-stash on the session globals; SetLimit; Stash.Add/Clear; setq of watched settings) on the real pkg/repl code over an in-memory " +
			"file system, in two modes (one instance / restart after every operation); plus, for every history, a process death " +
			"before every state-changing file-system step (create, truncate, each write, rename) of the last operation, then " +
			"restart, two further Adds and restarts. Family bigfile: histories of History / Stash operations in which one form is LONG " +
			"(a string literal padded with position-dependent filler whose length is computed from the observed layout of a pilot run) " +
			"so that the newline ending the entry, the TAB between the lines of a multi-line form, each byte of a 2-, 3- and 4-byte " +
			"UTF-8 character, the end of the file and the length of the entry land on every offset d around the 4096-byte buffer " +
			"boundaries of the line reader, with short entries before and after and a second long entry; restart after every " +
			"operation, the same crash points. Torn writes: for every write step of more than 4096 bytes of the last operation, the " +
			"deaths that leave only the first j pages of that write (counted from the start of the write and from the page boundaries " +
			"of the file). A case is non-trivial when it crosses the compaction path, contains a clear, a limit change, a crash point " +
			"that was actually reached, or a big file whose aimed byte was verified to be at the aimed offset",
		Assumptions: []string{
			"process-death model: death happens between system calls; a completed write persists (page cache); a single write(2) of at most 4096 bytes is not torn; " +
				"a write of more than 4096 bytes may be cut short at a multiple of 4096 bytes (the kernel copies page by page and checks for a fatal signal in between)",
			"bigfile: the chunk boundaries aimed at are those of a reader that fills a 4096-byte buffer from the file position (multiples of 4096 in the file); d covers -3..+3 (quick) / -8..+8 (thorough) around them",
			"restart = a fresh History/Stash value loading the surviving bytes; for settings: defaults restored, ZeroMods, SetConfigDir again",
			"Clear(start,end): either index reading (0 = oldest or 0 = most recent) is accepted",
			"after a crash the reloaded history must be the pre- or post-operation state or a contiguous run of one of them",
		},
		Enumerate: enumerate,
		Exec:      exec,
		Required: append([]string{"compaction", "crash-reached", "crash-in-compaction", "clear", "lisp-level-clear", "restart", "tmp-left-behind", "stash", "settings"},
			bigRequired...),
		Selftest: selftest,
		Bound: func(tier string) string {
			if tier == engine.Thorough {
				return "L=3: all histories of length <=5 over 20 ops x 2 modes, every crash point of the last op for every one of them; L=10: 8..13 adds then all op sequences of length <=3, x 2 modes + every crash point; L=20: 19..25 adds then all op sequences of length <=2 likewise; stash histories <=5 (crash points for <=2); settings histories <=5 incl. restarts (several sessions), crash points for <=3; " + bigBound(tier)
			}
			return "L=3: all histories of length <=4 over 20 ops x 2 modes, every crash point of the last op for every one of them; L=10: 9..11 adds then all op sequences of length <=2, x 2 modes + every crash point; L=20: 21..23 adds then all op sequences of length <=2 likewise; stash histories <=4 (crash points for <=2); settings histories <=4 incl. restarts (several sessions), crash points for <=3; " + bigBound(tier)
		},
	})
}

func histOps() []string {
	ops := []string{}
	for i := range forms {
		ops = append(ops, "A"+strconv.Itoa(i))
	}
	ops = append(ops, "C0,-1", "C0,0", "C1,1", "C0,1", "C1,2", "L2", "L5")
	// K: the same clears through the user-facing Lisp function (clear-history :start s :end e) on repl.TheHistory
	ops = append(ops, "K0,-1", "K0,0", "K1,1", "K0,1", "K1,2")
	return ops
}

func seqs(ops []string, n int, f func([]string)) {
	// shortest first, so that the first failing case of a signature is a smallest one
	for l := 1; l <= n; l++ {
		var rec func(prefix []string)
		rec = func(prefix []string) {
			if len(prefix) == l {
				f(prefix)
				return
			}
			for _, op := range ops {
				rec(append(append([]string{}, prefix...), op))
			}
		}
		rec(nil)
	}
}

func enumerate(tier string, emit func(string)) {
	thorough := tier == engine.Thorough
	ops := histOps()
	// --- history, L=3
	n, nc := 4, 4
	if thorough {
		n, nc = 5, 5
	}
	seqs(ops, n, func(h []string) {
		for _, mode := range []string{"n", "r"} {
			emit((&spec{K: "hist", L: 3, Ops: h, Mode: mode}).String())
		}
		if len(h) <= nc {
			for k := 1; k <= 7; k++ {
				emit((&spec{K: "hist", L: 3, Ops: h, Mode: "n", Crash: k}).String())
			}
		}
	})
	// --- history, L=10: reach the compaction at 11 entries and leave it again
	pres := []int{9, 10, 11}
	depth := 2
	if thorough {
		pres = []int{8, 9, 10, 11, 12, 13}
		depth = 3
	}
	for _, pre := range pres {
		seqs(ops, depth, func(h []string) {
			for _, mode := range []string{"n", "r"} {
				emit((&spec{K: "hist", L: 10, Pre: pre, Ops: h, Mode: mode}).String())
			}
			for k := 1; k <= 14; k++ {
				emit((&spec{K: "hist", L: 10, Pre: pre, Ops: h, Mode: "n", Crash: k}).String())
			}
		})
	}
	// --- history, L=20 (max 22): the plain append path is used again AFTER a compaction (with L <= 19 every Add at the
	// limit compacts), so whatever an Add keeps between calls (an open handle, a cached offset) meets the renamed file
	pres20 := []int{21, 22, 23}
	depth20 := 2
	if thorough {
		pres20 = []int{19, 20, 21, 22, 23, 24, 25}
	}
	for _, pre := range pres20 {
		seqs(ops, depth20, func(h []string) {
			for _, mode := range []string{"n", "r"} {
				emit((&spec{K: "hist", L: 20, Pre: pre, Ops: h, Mode: mode}).String())
			}
			for k := 1; k <= 14; k++ {
				emit((&spec{K: "hist", L: 20, Pre: pre, Ops: h, Mode: "n", Crash: k}).String())
			}
		})
	}
	// --- stash
	sops := []string{"S0", "S1", "S2", "S3", "S4", "S5", "S7", "X0,-1", "X0,0", "X1,1", "Y0,-1", "Y0,0", "Y1,1"}
	sn := 4
	if thorough {
		sn = 5
	}
	seqs(sops, sn, func(h []string) {
		emit((&spec{K: "stash", Ops: h, Mode: "r"}).String())
		if len(h) <= 2 {
			for k := 1; k <= 4; k++ {
				emit((&spec{K: "stash", Ops: h, Mode: "n", Crash: k}).String())
			}
		}
	})
	// --- big files: chunk boundaries of the 4096-byte line reader, torn writes of more than a page (big.go)
	enumerateBig(tier, emit)
	// --- settings
	cn := 4
	if thorough {
		cn = 5
	}
	seqs(cfgOps(), cn, func(h []string) {
		emit((&spec{K: "cfg", Ops: h}).String())
		if h[len(h)-1] != "R" && len(h) <= 3 {
			for k := 1; k <= 2; k++ {
				emit((&spec{K: "cfg", Ops: h, Crash: k}).String())
			}
		}
	})
}

// ---------------------------------------------------------------- helpers

func formText(f repl.Form) string {
	lines := make([]string, len(f))
	for i, l := range f {
		lines[i] = string(l)
	}
	return strings.Join(lines, "\n")
}

type sizer interface {
	Size() int
	Nth(int) repl.Form
}

// memForms returns the in-memory forms oldest first.
func memForms(s sizer) []string {
	n := s.Size()
	out := make([]string, 0, n)
	for i := n - 1; 0 <= i; i-- {
		out = append(out, formText(s.Nth(i)))
	}
	return out
}

func eqs(a, b []string) bool {
	if len(a) != len(b) {
		return false
	}
	for i := range a {
		if a[i] != b[i] {
			return false
		}
	}
	return true
}

// isRun: is r a contiguous run of full?
func isRun(r, full []string) bool {
	if len(r) == 0 {
		return true
	}
	for i := 0; i+len(r) <= len(full); i++ {
		if eqs(r, full[i:i+len(r)]) {
			return true
		}
	}
	return false
}

func show(l []string) string {
	q := make([]string, len(l))
	for i, s := range l {
		q[i] = strconv.Quote(s)
	}
	return "[" + strings.Join(q, " ") + "]"
}

// normalise applies the two known lossy transformations of the line format
// (TAB = line break, blanks trimmed per stored line) to classify a mismatch.
func normTab(l []string) []string {
	out := make([]string, len(l))
	for i, s := range l {
		out[i] = strings.ReplaceAll(s, "\t", "\n")
	}
	return out
}

func normTrim(l []string) []string {
	out := make([]string, len(l))
	for i, s := range l {
		out[i] = strings.TrimSpace(s)
	}
	return out
}

func normEmptyLines(l []string) []string {
	out := make([]string, len(l))
	for i, s := range l {
		var keep []string
		for _, ln := range strings.Split(s, "\n") {
			if ln != "" {
				keep = append(keep, ln)
			}
		}
		out[i] = strings.Join(keep, "\n")
	}
	return out
}

// norm applies every known lossy transformation of the storage formats, so that comparisons
// that are not about them (crash states, follow-up sessions) do not re-report them.
func norm(l []string) []string { return normEmptyLines(normTrim(normTab(l))) }

func lossy(why string) bool {
	switch why {
	case "tab-in-form-becomes-line-break", "blanks-trimmed", "tab-and-blanks", "empty-line-in-form-lost", "tab-blank-emptyline":
		return true
	}
	return false
}

// classify says why loaded differs from want.
func classify(loaded, want []string) string {
	switch {
	case eqs(loaded, want):
		return ""
	case eqs(normTab(loaded), normTab(want)):
		return "tab-in-form-becomes-line-break"
	case eqs(normTrim(loaded), normTrim(want)):
		return "blanks-trimmed"
	case eqs(normTrim(normTab(loaded)), normTrim(normTab(want))):
		return "tab-and-blanks"
	case eqs(normEmptyLines(loaded), normEmptyLines(want)):
		return "empty-line-in-form-lost"
	case eqs(normEmptyLines(normTrim(normTab(loaded))), normEmptyLines(normTrim(normTab(want)))):
		return "tab-blank-emptyline"
	}
	// duplicates?
	seen := map[string]int{}
	for _, s := range loaded {
		seen[s]++
	}
	wseen := map[string]int{}
	for _, s := range want {
		wseen[s]++
	}
	for s, c := range seen {
		if wseen[s] < c && 0 < wseen[s] {
			return "entry-duplicated"
		}
	}
	for s := range seen {
		if wseen[s] == 0 {
			return "foreign-or-torn-entry"
		}
	}
	if len(loaded) < len(want) {
		return "entries-lost"
	}
	return "order-or-content-differs"
}

func hasSpecial(ops []string) string {
	var tags []string
	for _, t := range []struct{ op, tag string }{{"A2", "tab"}, {"A3", "blank-edges"}, {"A7", "empty-line"}, {"S2", "tab"}, {"S3", "blank-edges"}, {"S7", "empty-line"}} {
		for _, op := range ops {
			if op == t.op {
				tags = append(tags, t.tag)
				break
			}
		}
	}
	if len(tags) == 0 {
		return "plain-forms"
	}
	return strings.Join(tags, "+")
}

// ---------------------------------------------------------------- reference

type refHist struct {
	forms []string
	limit int
}

func blank(s string) bool {
	return strings.Trim(s, " \n") == ""
}

func (r *refHist) add(f string) {
	if r.limit <= 0 || blank(f) {
		return
	}
	if 0 < len(r.forms) && r.forms[len(r.forms)-1] == f {
		return
	}
	r.forms = append(r.forms, f)
	if r.limit+r.limit/10 <= len(r.forms) {
		r.forms = append([]string{}, r.forms[len(r.forms)-r.limit:]...)
	}
}

// clearBoth returns the two accepted results of Clear(start,end): indices
// counted from the oldest, or from the most recent entry.
func clearBoth(forms []string, start, end int) (a, b []string) {
	n := len(forms)
	if n == 0 || n <= start {
		return forms, forms
	}
	if start < 0 {
		start = 0
	}
	if end < 0 || n <= end {
		end = n - 1
	}
	if end < start {
		return forms, forms
	}
	a = append(append([]string{}, forms[:start]...), forms[end+1:]...)
	lo, hi := n-1-end, n-1-start
	b = append(append([]string{}, forms[:lo]...), forms[hi+1:]...)
	return
}

func parse2(s string) (int, int) {
	p := strings.Split(s, ",")
	a, _ := strconv.Atoi(p[0])
	b, _ := strconv.Atoi(p[1])
	return a, b
}

// ---------------------------------------------------------------- exec

type crashed struct{ step int }

// guard runs f and reports a vfs crash or a foreign panic.
func guard(f func()) (crash bool, other any) {
	defer func() {
		if rec := recover(); rec != nil {
			if _, ok := rec.(vfs.Crash); ok {
				crash = true
				return
			}
			if _, wrapped := rec.(*slip.Panic); wrapped && vfs.Dead() {
				// the death sentinel crossed the Lisp evaluator (clear-history / clear-stash), which wraps every foreign panic
				crash = true
				return
			}
			other = rec
		}
	}()
	f()
	return
}

func exec(text string) (res engine.Result) {
	var sp spec
	if err := json.Unmarshal([]byte(text), &sp); err != nil {
		res.Fail("harness:bad-spec", text)
		return
	}
	vfs.Reset()
	_ = vfs.MkdirAll("/cfg", 0o755)
	switch sp.K {
	case "hist":
		execHist(&sp, &res)
	case "stash":
		execStash(&sp, &res)
	case "cfg":
		execCfg(&sp, &res)
	case "bighist", "bigstash":
		execBig(&sp, &res)
	}
	return
}

func loadHist(limit int) *repl.History {
	checkReaderTerminates(histFile)
	h := &repl.History{}
	h.SetLimit(limit)
	h.Load(histFile)
	return h
}

func execHist(sp *spec, res *engine.Result) {
	h := loadHist(sp.L)
	ref := &refHist{limit: sp.L}
	applyRef := func(op string) (alt []string) {
		switch op[0] {
		case 'A':
			ref.add(sp.form(op))
		case 'C', 'K':
			s, e := parse2(op[1:])
			a, b := clearBoth(ref.forms, s, e)
			ref.forms = a
			alt = b
		case 'L':
			ref.limit, _ = strconv.Atoi(op[1:])
			// S2: the statement does not say when a lowered limit takes effect; trimming to the most recent
			// `limit` forms at once is accepted as well as waiting for the next Add.
			if 0 < ref.limit && ref.limit < len(ref.forms) {
				alt = append([]string{}, ref.forms[len(ref.forms)-ref.limit:]...)
			}
		}
		return
	}
	apply := func(h *repl.History, op string) {
		switch op[0] {
		case 'A':
			h.Add(repl.NewForm([]byte(sp.form(op))))
		case 'C':
			s, e := parse2(op[1:])
			h.Clear(s, e)
		case 'K':
			s, e := parse2(op[1:])
			lispClear("clear-history", s, e, func() { repl.TheHistory = *h }, func() { *h = repl.TheHistory })
		case 'L':
			l, _ := strconv.Atoi(op[1:])
			h.SetLimit(l)
		}
	}
	// prefix of clean adds (L=10 scenarios)
	for i := 0; i < sp.Pre; i++ {
		f := fmt.Sprintf("(p %d)", i)
		if i%3 == 1 {
			f = fmt.Sprintf("(p %d\n  q)", i)
		}
		h.Add(repl.NewForm([]byte(f)))
		ref.add(f)
	}
	restartCheck := func(when string, opKind string) *repl.History {
		res.Hit("restart")
		mem := memForms(h)
		var h2 *repl.History
		_, other := guard(func() { h2 = loadHist(ref.limit) })
		if other != nil {
			res.Fail(fmt.Sprintf("hist restart-panics after=%s", opKind), fmt.Sprintf("%s: Load panicked: %v", sp, other))
			return nil
		}
		loaded := memForms(h2)
		if why := classify(loaded, mem); why != "" {
			sig := "hist reload!=memory why=" + why
			if !lossy(why) {
				sig += " after=" + opKind
			}
			res.Fail(sig,
				fmt.Sprintf("%s %s: in memory %s, reloaded %s, file %q", sp, when, show(mem), show(loaded), vfs.Snapshot()[histFile]))
		}
		return h2
	}
	last := len(sp.Ops) - 1
	for i, op := range sp.Ops {
		opKind := string(op[0])
		if op[0] == 'K' {
			res.Hit("lisp-level-clear")
		}
		if op[0] == 'C' || op[0] == 'K' {
			res.Hit("clear")
			res.Nontrivial = true
			s, _ := parse2(op[1:])
			if 0 < s {
				opKind = "C-interior"
			}
		}
		if op[0] == 'L' {
			res.Nontrivial = true
		}
		pre := memForms(h)
		preRef := append([]string{}, ref.forms...)
		ref.forms = append([]string{}, pre...) // S3: expected computed from the observed pre-state
		if i == last && 0 < sp.Crash {
			execHistCrash(sp, res, h, ref, op, pre, apply, applyRef)
			return
		}
		steps0 := vfs.StepCount()
		_, other := guard(func() { apply(h, op) })
		if other != nil {
			res.Fail(fmt.Sprintf("hist op-panics op=%s", opKind), fmt.Sprintf("%s: op %d %s panicked: %v", sp, i, op, other))
			return
		}
		_ = preRef
		for _, st := range vfs.Steps()[steps0:] {
			if st.Kind == "rename" {
				res.Hit("compaction")
				res.Nontrivial = true
			}
		}
		alt := applyRef(op)
		mem := memForms(h)
		if !eqs(mem, ref.forms) && (alt == nil || !eqs(mem, alt)) {
			why := classify(mem, ref.forms)
			res.Fail(fmt.Sprintf("hist memory!=reference op=%s why=%s", opKind, why),
				fmt.Sprintf("%s: after op %d %s from %s: in memory %s, reference %s (or %s)", sp, i, op, show(pre), show(mem), show(ref.forms), show(alt)))
			return // S3: what follows would only re-report this
		}
		ref.forms = append([]string{}, mem...) // S3: continue from the observed state
		if op[0] == 'A' && !eqs(mem, pre) && ref.limit+ref.limit/10 < len(mem) && 0 < ref.limit { // an Add that added must respect the bound
			res.Fail("hist bound-exceeded", fmt.Sprintf("%s: %d forms in memory, limit %d", sp, len(mem), ref.limit))
		}
		if sp.Mode == "r" || i == last {
			if h2 := restartCheck(fmt.Sprintf("after op %d %s", i, op), opKind); h2 != nil && sp.Mode == "r" {
				h = h2
			}
		}
	}
	res.Outcome = show(memForms(h)) + "|" + vfs.Snapshot()[histFile]
}

func execHistCrash(sp *spec, res *engine.Result, h *repl.History, ref *refHist, op string, pre []string,
	apply func(*repl.History, string), applyRef func(string) []string) {
	steps0 := vfs.StepCount()
	die := steps0 + sp.Crash
	if sp.Tear != "" {
		die++ // torn write: step Crash is carried out in full, then cut back to the part that arrived (tearWrite)
	}
	vfs.DieBefore(die)
	crash, other := guard(func() { apply(h, op) })
	if other != nil {
		res.Fail(fmt.Sprintf("hist op-panics op=%c", op[0]), fmt.Sprintf("%s: %v", sp, other))
		return
	}
	if !crash && (sp.Tear == "" || len(vfs.Steps())-steps0 < sp.Crash) {
		vfs.Revive()
		res.Outcome = "crash-point-beyond-op"
		return
	}
	done := vfs.Steps()[steps0:]
	where := "first-step"
	if 0 < len(done) {
		where = "after-" + done[len(done)-1].Kind
	}
	if sp.Tear != "" {
		vfs.Revive()
		if why := tearWrite(sp, res, done[sp.Crash-1]); why != "" {
			res.Outcome = why
			return
		}
		where = "torn-write"
	}
	res.Hit("crash-reached")
	res.Nontrivial = true
	inCompaction := false
	for _, st := range done {
		if strings.HasSuffix(st.Path, ".tmp") {
			inCompaction = true
		}
	}
	if inCompaction {
		res.Hit("crash-in-compaction")
	}
	if _, has := vfs.Snapshot()[histFile+".tmp"]; has {
		res.Hit("tmp-left-behind")
	}
	alt := applyRef(op)
	post := ref.forms
	vfs.Revive()
	opKind := string(op[0])
	var h2 *repl.History
	_, other = guard(func() { h2 = loadHist(ref.limit) })
	if other != nil {
		res.Fail(fmt.Sprintf("hist crash restart-panics op=%s at=%s", opKind, where), fmt.Sprintf("%s: Load panicked: %v", sp, other))
		return
	}
	loaded := memForms(h2)
	nl := norm(loaded)
	ok := isRun(nl, norm(pre)) || isRun(nl, norm(post)) || (alt != nil && isRun(nl, norm(alt)))
	if eqs(loaded, pre) {
		res.Hit("crash-state=pre")
	} else if eqs(loaded, post) {
		res.Hit("crash-state=post")
	} else if ok {
		res.Hit("crash-state=partial-run")
	}
	if !ok {
		// classify against the closest of pre / post
		why := classify(nl, norm(post))
		res.Fail(fmt.Sprintf("hist crash-state op=%s at=%s why=%s", opKind, where, why),
			fmt.Sprintf("%s: %s (%v done); before the op %s, after it %s; reloaded %s; file %q", sp, sp.death(), done, show(pre), show(post), show(loaded), vfs.Snapshot()[histFile]))
	}
	// the crash must not poison the next session: two further adds, restart after each
	h = h2
	for j := 0; j < 2; j++ {
		f := fmt.Sprintf("(z %d)", j)
		before := memForms(h)
		_, other = guard(func() { h.Add(repl.NewForm([]byte(f))) })
		if other != nil {
			res.Fail(fmt.Sprintf("hist after-crash add-panics op=%s at=%s", opKind, where), fmt.Sprintf("%s: %v", sp, other))
			return
		}
		mem := memForms(h)
		var h3 *repl.History
		_, other = guard(func() { h3 = loadHist(ref.limit) })
		if other != nil {
			res.Fail(fmt.Sprintf("hist after-crash restart-panics op=%s at=%s", opKind, where), fmt.Sprintf("%s: %v", sp, other))
			return
		}
		l3 := memForms(h3)
		if why := classify(norm(l3), norm(mem)); why != "" {
			res.Fail(fmt.Sprintf("hist after-crash reload!=memory op=%s at=%s why=%s", opKind, where, why),
				fmt.Sprintf("%s: %s (%v done), restarted with %s, then Add %q: in memory %s, reloaded %s, file %q, tmp %q",
					sp, sp.death(), done, show(before), f, show(mem), show(l3), vfs.Snapshot()[histFile], vfs.Snapshot()[histFile+".tmp"]))
			break
		}
		h = h3
	}
	res.Outcome = "crash:" + where + ":" + show(loaded)
}

// ---------------------------------------------------------------- stash

// lispClear runs the user-facing function (clear-history / clear-stash) on the session's global object: the
// instance under test is copied into the global, the Lisp form is evaluated, the global is copied back.
func lispClear(fn string, start, end int, install, takeBack func()) {
	install()
	defer takeBack()
	src := fmt.Sprintf("(repl::%s :start %d", fn, start)
	if 0 <= end {
		src += fmt.Sprintf(" :end %d", end)
	}
	src += ")"
	// no recover here: the death sentinel of the file-system shim must reach the caller like any other panic
	scope := slip.NewScope()
	_ = slip.ReadString(src, scope).Eval(scope, nil)
}

func loadStash() *repl.Stash {
	checkReaderTerminates(stashFile)
	s := &repl.Stash{}
	s.LoadExpanded(stashFile)
	return s
}

func execStash(sp *spec, res *engine.Result) {
	res.Hit("stash")
	s := loadStash()
	last := len(sp.Ops) - 1
	apply := func(s *repl.Stash, op string) {
		switch op[0] {
		case 'S':
			s.Add(repl.NewForm([]byte(sp.form(op))))
		case 'X':
			a, b := parse2(op[1:])
			s.Clear(a, b)
		case 'Y':
			a, b := parse2(op[1:])
			lispClear("clear-stash", a, b, func() { repl.TheStash = *s }, func() { *s = repl.TheStash })
		}
	}
	for i, op := range sp.Ops {
		opKind := string(op[0])
		pre := memForms(s)
		if i == last && 0 < sp.Crash {
			steps0 := vfs.StepCount()
			die := steps0 + sp.Crash
			if sp.Tear != "" {
				die++ // torn write, as in execHistCrash
			}
			vfs.DieBefore(die)
			crash, other := guard(func() { apply(s, op) })
			if other != nil {
				res.Fail(fmt.Sprintf("stash op-panics op=%s", opKind), fmt.Sprintf("%s: %v", sp, other))
				return
			}
			if !crash && (sp.Tear == "" || len(vfs.Steps())-steps0 < sp.Crash) {
				vfs.Revive()
				res.Outcome = "crash-point-beyond-op"
				return
			}
			vfs.Revive()
			at := ""
			if sp.Tear != "" {
				if why := tearWrite(sp, res, vfs.Steps()[steps0:][sp.Crash-1]); why != "" {
					res.Outcome = why
					return
				}
				at = " at=torn-write"
			}
			res.Hit("crash-reached")
			res.Nontrivial = true
			var s2 *repl.Stash
			_, other = guard(func() { s2 = loadStash() })
			if other != nil {
				res.Fail(fmt.Sprintf("stash crash restart-panics op=%s%s", opKind, at), fmt.Sprintf("%s: LoadExpanded panicked: %v", sp, other))
				return
			}
			res.Outcome = "crash:" + show(memForms(s2))
			if sp.K == "bigstash" {
				// the statement's crash clause constrains the history only; for the stash the later sessions must start and
				// work (no panic). Whether a later Add survives the next restart is counted, not demanded.
				for j := 0; j < 2; j++ {
					f := fmt.Sprintf("(z %d)", j)
					_, other = guard(func() { s2.Add(repl.NewForm([]byte(f))) })
					if other != nil {
						res.Fail(fmt.Sprintf("stash after-crash add-panics op=%s%s", opKind, at), fmt.Sprintf("%s: %v", sp, other))
						return
					}
					mem := memForms(s2)
					var s3 *repl.Stash
					_, other = guard(func() { s3 = loadStash() })
					if other != nil {
						res.Fail(fmt.Sprintf("stash after-crash restart-panics op=%s%s", opKind, at), fmt.Sprintf("%s: LoadExpanded panicked: %v", sp, other))
						return
					}
					if eqs(norm(memForms(s3)), norm(mem)) {
						res.Hit("stash-after-crash-later-add-reloads" + at)
					} else {
						res.Hit("stash-after-crash-later-add-does-not-reload" + at)
						res.Outcome += "|later-add-lost"
					}
					s2 = s3
				}
			}
			return
		}
		_, other := guard(func() { apply(s, op) })
		if other != nil {
			res.Fail(fmt.Sprintf("stash op-panics op=%s", opKind), fmt.Sprintf("%s: op %d %s panicked: %v", sp, i, op, other))
			return
		}
		mem := memForms(s)
		if op[0] == 'S' {
			// reference: appended unless blank or equal to the last
			ft := sp.form(op)
			want := pre
			if !blank(ft) && (len(pre) == 0 || pre[len(pre)-1] != ft) {
				want = append(append([]string{}, pre...), ft)
			}
			if !eqs(mem, want) {
				res.Fail(fmt.Sprintf("stash memory!=reference op=S why=%s", classify(mem, want)),
					fmt.Sprintf("%s: after op %d from %s: in memory %s, reference %s", sp, i, show(pre), show(mem), show(want)))
			}
		} else {
			res.Hit("clear")
			a, b := parse2(op[1:])
			w1, w2 := clearBoth(pre, a, b)
			if !eqs(mem, w1) && !eqs(mem, w2) {
				k := "X"
				if 0 < a {
					k = "X-interior"
				}
				res.Fail(fmt.Sprintf("stash memory!=reference op=%s why=%s", k, classify(mem, w1)),
					fmt.Sprintf("%s: after op %d from %s: in memory %s, reference %s or %s", sp, i, show(pre), show(mem), show(w1), show(w2)))
				return
			}
		}
		res.Hit("restart")
		var s2 *repl.Stash
		_, other = guard(func() { s2 = loadStash() })
		if other != nil {
			res.Fail(fmt.Sprintf("stash restart-panics after=%s", opKind), fmt.Sprintf("%s: LoadExpanded panicked: %v", sp, other))
			return
		}
		loaded := memForms(s2)
		if why := classify(loaded, mem); why != "" {
			sig := "stash reload!=memory why=" + why
			if !lossy(why) {
				sig += " after=" + opKind
			}
			res.Fail(sig,
				fmt.Sprintf("%s after op %d %s: in memory %s, reloaded %s, file %q", sp, i, op, show(mem), show(loaded), vfs.Snapshot()[stashFile]))
		}
		if sp.Mode == "r" {
			s = s2
		}
	}
	res.Outcome = show(memForms(s))
	res.Nontrivial = res.Nontrivial || 1 < len(sp.Ops)
}

// ---------------------------------------------------------------- settings

type setting struct {
	name, def string
	vals      []string
}

var settings = []setting{
	{"*print-right-margin*", "80", []string{"100", "60"}},
	{"*print-pretty*", "t", []string{"nil", "t"}},
	{"*print-base*", "10", []string{"16", "10"}},
	{"*repl-help-box*", "t", []string{"nil"}},
	{"*print-case*", ":downcase", []string{":upcase"}},
	{"*print-length*", "nil", []string{"7"}},
	{"*repl-prompt*", "\"* \"", []string{"\"> \""}},
}

func cfgOps() []string {
	var ops []string
	for i, s := range settings {
		for j := range s.vals {
			ops = append(ops, fmt.Sprintf("V%d=%d", i, j))
		}
	}
	ops = append(ops, "R") // restart: a new session starts from the saved settings
	return ops
}

func evalRepl(src string) (slip.Object, *lisp.Err) {
	return lisp.EvalIn(repl.GetScope(), src)
}

func readSetting(name string) string {
	v, err := evalRepl(name)
	if err != nil {
		return "error:" + err.String()
	}
	return lisp.Show(v)
}

func restoreDefaults() {
	_ = vfs.Remove("/scratch-defaults/config.lisp") // never load what an earlier restore wrote
	repl.SetConfigDir("/scratch-defaults")
	for _, s := range settings {
		_, _ = evalRepl("(setq " + s.name + " " + s.def + ")")
	}
	repl.ZeroMods()
}

func execCfg(sp *spec, res *engine.Result) {
	res.Hit("settings")
	defer func() {
		vfs.Revive()
		_, _ = guard(restoreDefaults)
	}()
	if _, other := guard(restoreDefaults); other != nil {
		res.Fail("harness:cannot-restore-default-settings", fmt.Sprint(other))
		return
	}
	defaults := map[string]string{}
	for _, s := range settings {
		defaults[s.name] = readSetting(s.name)
	}
	_, other := guard(func() { repl.SetConfigDir("/cfg") })
	if other != nil {
		res.Fail("cfg first-start-panics", fmt.Sprintf("%s: %v", sp, other))
		return
	}
	want := map[string]string{}
	last := len(sp.Ops) - 1
	var kinds []string
	sessions := 1
	// restart simulates a new session: defaults, empty modified-variable list, SetConfigDir, then compare
	restart := func(when string) bool {
		res.Hit("restart")
		file := vfs.Snapshot()["/cfg/config.lisp"]
		if _, other := guard(restoreDefaults); other != nil {
			res.Fail("harness:cannot-restore-default-settings", fmt.Sprint(other))
			return false
		}
		_, other := guard(func() { repl.SetConfigDir("/cfg") })
		if other != nil {
			which := "other"
			for _, k := range kinds {
				if k == "*repl-prompt*" {
					which = "with-repl-prompt-saved"
				}
			}
			res.Fail("cfg restart-panics "+which, fmt.Sprintf("%s %s: %v; config.lisp=%q", sp, when, other, file))
			return false
		}
		for _, s := range settings {
			exp, set := want[s.name]
			if !set {
				exp = defaults[s.name]
			}
			if got := readSetting(s.name); got != exp {
				with := "single-session"
				if 1 < sessions {
					with = "set-in-an-earlier-session"
				}
				res.Fail(fmt.Sprintf("cfg setting-not-restored var=%s %s", s.name, with),
					fmt.Sprintf("%s %s: after restart %s is %s, expected %s; config.lisp=%q", sp, when, s.name, got, exp, file))
			}
		}
		sessions++
		return true
	}
	for i, op := range sp.Ops {
		if op == "R" {
			if !restart(fmt.Sprintf("at op %d", i)) {
				return
			}
			if 0 < len(res.Failures) {
				return
			}
			continue
		}
		var si, vi int
		_, _ = fmt.Sscanf(op, "V%d=%d", &si, &vi)
		s := settings[si]
		kinds = append(kinds, s.name)
		src := "(setq " + s.name + " " + s.vals[vi] + ")"
		if i == last && 0 < sp.Crash {
			steps0 := vfs.StepCount()
			vfs.DieBefore(steps0 + sp.Crash)
			crash, other := guard(func() {
				if _, err := evalRepl(src); err != nil {
					// the vfs crash sentinel may surface wrapped in a Lisp error: death is what matters
					if vfs.Dead() {
						panic(vfs.Crash{})
					}
				}
			})
			if !crash && other == nil && !vfs.Dead() {
				res.Outcome = "crash-point-beyond-op"
				return
			}
			res.Hit("crash-reached")
			res.Nontrivial = true
			vfs.Revive()
			_, _ = guard(restoreDefaults)
			_, other = guard(func() { repl.SetConfigDir("/cfg") })
			if other != nil {
				res.Fail("cfg crash restart-panics", fmt.Sprintf("%s: died before step %d of the config write; SetConfigDir then panicked: %v; config.lisp=%q",
					sp, sp.Crash, other, vfs.Snapshot()["/cfg/config.lisp"]))
			}
			res.Outcome = "crash:" + vfs.Snapshot()["/cfg/config.lisp"]
			return
		}
		if _, err := evalRepl(src); err != nil {
			res.Fail("cfg setq-fails var="+s.name, fmt.Sprintf("%s: %s => %s", sp, src, err))
			return
		}
		want[s.name] = readSetting(s.name)
	}
	if sp.Ops[last] != "R" {
		restart("at the end")
	}
	res.Nontrivial = true
	res.Outcome = vfs.Snapshot()["/cfg/config.lisp"]
}
