package c09

// state.go: objects in odd STATES.
//
// (1) Pool extension for the function sweep (family f): streams of every kind, open and closed (and open streams
// whose members are closed), an instance whose flavor was removed with undefflavor, that flavor, an instance of a
// class that was redefined with fewer slots, an instance with an unbound slot, a deleted package, a generic function
// (object and name) whose methods were all removed. They are built per case like every pool object.
//
// (2) Family u (a container changed by the callback of the function that walks it): every built-in that calls a
// function for the elements of a sequence / hash table / bag x the kinds of container it accepts x a mutation of
// that same container done by the callback x the callback's result {nil, t}. Each case runs in a process of its
// own (a walk over a container that grows under it may never end).
//
// spec: u|<fn>|<container kind>|<mutation>|<result>|<form with {C} = the container variable, {F} = the callback>

import (
	"fmt"
	"os"
	"strings"
	"sync/atomic"

	"github.com/ohler55/slip"

	"verif/engine"
)

// statePool: appended to fullPool in init (pool.go's table stays the simple objects).
var statePool = []poolEntry{
	{"soc", "other", "(let ((s (make-string-output-stream))) (close s) s)", "closed string output stream"},
	{"fin", "other", "", "open file input stream"},
	{"fout", "other", "", "open file output stream"},
	{"fio", "other", "", "open file io stream"},
	{"fic", "other", "", "closed file input stream"},
	{"foc", "other", "", "closed file output stream"},
	{"bso", "other", "(make-broadcast-stream (make-string-output-stream))", "broadcast stream"},
	{"bsc", "other", "(let ((s (make-broadcast-stream (make-string-output-stream)))) (close s) s)", "closed broadcast stream"},
	{"bsm", "other", "(let* ((o (make-string-output-stream)) (s (make-broadcast-stream o))) (close o) s)", "broadcast stream whose member is closed"},
	{"bse", "other", "(make-broadcast-stream)", "broadcast stream without members"},
	{"cso", "other", `(make-concatenated-stream (make-string-input-stream "ab (1)") (make-string-input-stream "cd"))`, "concatenated stream"},
	{"csc", "other", `(let ((s (make-concatenated-stream (make-string-input-stream "ab")))) (close s) s)`, "closed concatenated stream"},
	{"csm", "other", `(let* ((i (make-string-input-stream "ab")) (s (make-concatenated-stream i))) (close i) s)`, "concatenated stream whose member is closed"},
	{"cse", "other", "(make-concatenated-stream)", "concatenated stream without members"},
	{"eso", "other", `(make-echo-stream (make-string-input-stream "ab (1)") (make-string-output-stream))`, "echo stream"},
	{"esc", "other", `(let ((s (make-echo-stream (make-string-input-stream "ab") (make-string-output-stream)))) (close s) s)`, "closed echo stream"},
	{"esm", "other", `(let* ((o (make-string-output-stream)) (s (make-echo-stream (make-string-input-stream "ab") o))) (close o) s)`, "echo stream whose output member is closed"},
	{"two", "other", `(make-two-way-stream (make-string-input-stream "ab (1)") (make-string-output-stream))`, "two-way stream"},
	{"twc", "other", `(let ((s (make-two-way-stream (make-string-input-stream "ab") (make-string-output-stream)))) (close s) s)`, "closed two-way stream"},
	{"twm", "other", `(let* ((i (make-string-input-stream "ab")) (o (make-string-output-stream)) (s (make-two-way-stream i o))) (close i) (close o) s)`, "two-way stream whose members are closed"},
	{"syo", "other", "", "synonym stream for a variable that holds an open string input stream"},
	{"syc", "other", "", "synonym stream for a variable that holds a closed stream"},
	{"syu", "other", "", "synonym stream for an unbound variable"},
	{"syn", "other", "", "synonym stream for a variable that holds 5"},
	{"fiu", "other", "", "instance of a flavor removed with undefflavor"},
	{"flu", "other", "", "a flavor removed with undefflavor"},
	{"cir", "other", "", "instance of a class redefined with fewer slots"},
	{"cinu", "other", "", "standard-object instance with an unbound slot"},
	{"pkd", "other", "", "a deleted package"},
	{"gfe", "other", "", "generic function whose methods were all removed"},
	{"gfs", "other", "", "name of a generic function whose methods were all removed"},
	{"htb", "other", "(let ((h (make-hash-table :test 'equal))) (dotimes (i 20) (setf (gethash (format nil \"k~D\" i) h) i)) (dotimes (i 19) (remhash (format nil \"k~D\" i) h)) h)", "hash table after many removals"},
}

func init() {
	fullPool = append(fullPool, statePool...)
	for i := range fullPool {
		poolByName[fullPool[i].name] = &fullPool[i]
	}
}

// buildState constructs the pool objects of statePool that need fresh names or files; ok=false for other names.
func (w *world) buildState(name string) (obj slip.Object, ok bool) {
	switch name {
	case "fin", "fout", "fio", "fic", "foc", "syo", "syc", "syu", "syn", "fiu", "flu", "cir", "cinu", "pkd", "gfe", "gfs", "ufn", "gf", "meth":
	default:
		return nil, false
	}
	id := atomic.AddInt64(&nameCounter, 1)
	ev := func(format string, args ...any) slip.Object {
		return mustEval(slip.NewScope(), fmt.Sprintf(format, args...))
	}
	closeLater := func(o slip.Object) slip.Object {
		w.cleanups = append(w.cleanups, func() {
			if c, ok := o.(interface{ Close() error }); ok {
				_ = c.Close()
			}
		})
		return o
	}
	file := fmt.Sprintf("c09f%d.txt", id)
	mkfile := func() {
		_ = os.WriteFile(file, []byte("ab (1 2) cd\nline two\n"), 0o644)
	}
	switch name {
	case "fin":
		mkfile()
		return closeLater(ev(`(open %q :direction :input)`, file)), true
	case "fout":
		return closeLater(ev(`(open %q :direction :output :if-exists :supersede :if-does-not-exist :create)`, file)), true
	case "fio":
		mkfile()
		return closeLater(ev(`(open %q :direction :io)`, file)), true
	case "fic":
		mkfile()
		return ev(`(let ((s (open %q :direction :input))) (close s) s)`, file), true
	case "foc":
		return ev(`(let ((s (open %q :direction :output :if-exists :supersede :if-does-not-exist :create))) (close s) s)`, file), true
	case "syo", "syc", "syu", "syn":
		v := fmt.Sprintf("c09s%dv", id)
		switch name {
		case "syo":
			ev(`(defvar %s (make-string-input-stream "ab (1)"))`, v)
		case "syc":
			ev(`(defvar %s (let ((s (make-string-input-stream "ab"))) (close s) s))`, v)
		case "syn":
			ev(`(defvar %s 5)`, v)
		}
		if name != "syu" {
			w.cleanups = append(w.cleanups, func() { slip.UserPkg.Remove(v) })
		}
		return ev(`(make-synonym-stream '%s)`, v), true
	case "fiu", "flu":
		f := fmt.Sprintf("c09f%dx", id)
		ev(`(defflavor %s ((a 1)) () :gettable-instance-variables :settable-instance-variables)`, f)
		if name == "fiu" {
			return ev(`(let ((i (make-instance '%s))) (undefflavor '%s) i)`, f, f), true
		}
		return ev(`(let ((f (find-flavor '%s))) (undefflavor '%s) f)`, f, f), true
	case "cir":
		c := fmt.Sprintf("c09s%dc", id)
		return ev(`(progn (defclass %s () ((a :initarg :a :initform 1 :accessor %s-a) (b :initarg :b :initform 2 :accessor %s-b))) `+
			`(let ((i (make-instance '%s))) (defclass %s () ((b :initarg :b :accessor %s-b))) i))`, c, c, c, c, c, c), true
	case "cinu":
		ensureFixtures()
		return ev(`(make-instance 'c09class)`), true
	case "pkd":
		p := fmt.Sprintf("c09p%dd", id)
		return ev(`(let ((p (make-package %q))) (intern "X" p) (delete-package p) p)`, p), true
	case "ufn":
		g := fmt.Sprintf("c09f%du", id)
		ev(`(defun %s (&rest r) r)`, g)
		w.cleanups = append(w.cleanups, func() { slip.UserPkg.Undefine(g) })
		return ev(`(function %s)`, g), true
	case "gf", "meth":
		g := fmt.Sprintf("c09f%dm", id)
		ev(`(progn (defgeneric %s (x)) (defmethod %s ((x t)) x))`, g, g)
		w.cleanups = append(w.cleanups, func() { slip.UserPkg.Undefine(g) })
		if name == "meth" {
			return ev(`(find-method '%s nil (list t))`, g), true
		}
		return ev(`(function %s)`, g), true
	case "gfe", "gfs":
		g := fmt.Sprintf("c09f%dg", id)
		ev(`(progn (defgeneric %s (x)) (defmethod %s ((x t)) x) (remove-method (function %s) (find-method (function %s) nil (list t))))`, g, g, g, g)
		w.cleanups = append(w.cleanups, func() { slip.UserPkg.Undefine(g) })
		if name == "gfs" {
			return slip.Symbol(g), true
		}
		return ev(`(function %s)`, g), true
	}
	return nil, false
}

// ---------------------------------------------------------------- family u

type mutKind struct {
	name string
	make string   // constructor of the container
	muts []string // name=form pairs; {C} is the container
}

var mutKinds = []mutKind{
	{"list", "(list 3 1 2 1 3)", []string{
		"none=nil",
		"cut-tail=(setf (cdr {C}) nil)",
		"grow=(nconc {C} (list 9))",
		"set-car=(setf (car {C}) 9)",
		"delete=(delete 1 {C})",
		"nreverse=(nreverse {C})",
		"sort=(sort {C} #'<)",
		"fill=(fill {C} 0)",
		"setf-nth-last=(setf (nth 4 {C}) 7)",
	}},
	{"fpvector", "(make-array 5 :fill-pointer 5 :adjustable t :initial-contents (list 3 1 2 1 3))", []string{
		"none=nil",
		"pop=(if (< 0 (fill-pointer {C})) (vector-pop {C}))",
		"push=(if (< (fill-pointer {C}) 64) (vector-push-extend 9 {C}))",
		"empty=(setf (fill-pointer {C}) 0)",
		"shrink=(adjust-array {C} 1 :fill-pointer 1)",
		"enlarge=(adjust-array {C} 64)",
		"delete=(delete 1 {C})",
		"nreverse=(nreverse {C})",
		"sort=(sort {C} #'<)",
		"fill=(fill {C} 0)",
	}},
	{"string", "(make-array 5 :element-type 'character :fill-pointer 5 :adjustable t :initial-contents (list #\\c #\\a #\\b #\\a #\\c))", []string{
		"none=nil",
		"pop=(if (< 0 (fill-pointer {C})) (vector-pop {C}))",
		"push=(if (< (fill-pointer {C}) 64) (vector-push-extend #\\z {C}))",
		"empty=(setf (fill-pointer {C}) 0)",
		"shrink=(adjust-array {C} 1 :fill-pointer 1)",
		"nreverse=(nreverse {C})",
	}},
	{"hash-table", "(let ((h (make-hash-table))) (dotimes (i 5) (setf (gethash i h) (* i i))) h)", []string{
		"none=nil",
		"remhash-current=(remhash (car a) {C})",
		"remhash-other=(remhash (mod (+ 1 (if (integerp (car a)) (car a) 0)) 5) {C})",
		"clrhash=(clrhash {C})",
		"add=(if (< (hash-table-count {C}) 64) (setf (gethash (+ 100 (hash-table-count {C})) {C}) 1))",
		"replace-value=(setf (gethash (car a) {C}) 0)",
	}},
	{"bag", `(make-bag "{a:1 b:[1 2 3] c:{d:4}}")`, []string{
		"none=nil",
		`remove=(bag-remove {C} "b")`,
		`remove-element=(bag-remove {C} "b[0]")`,
		`set=(bag-set {C} 9 "e")`,
		`set-root=(bag-set {C} 9)`,
	}},
}

type mutTmpl struct {
	fn    string
	kinds string // container kinds (first letters: l f s h b)
	form  string
}

var mutTemplates = buildMutTemplates()

func buildMutTemplates() (out []mutTmpl) {
	add := func(fn, kinds, form string) { out = append(out, mutTmpl{fn, kinds, form}) }
	add("maphash", "h", "(maphash {F} {C})")
	add("map", "lfs", "(map 'list {F} {C})")
	add("map", "lfs", "(map 'vector {F} {C})")
	add("map", "lfs", "(map nil {F} {C})")
	add("map", "lfs", "(map 'list {F} {C} {C})")
	add("map-into", "l", "(map-into {C} {F} {C})")
	add("mapc", "l", "(mapc {F} {C})")
	add("mapcar", "l", "(mapcar {F} {C})")
	add("mapcar", "l", "(mapcar {F} {C} {C})")
	add("mapcan", "l", "(mapcan (lambda (&rest a) (funcall {F} (car a)) nil) {C})")
	add("mapl", "l", "(mapl {F} {C})")
	add("maplist", "l", "(maplist {F} {C})")
	add("mapcon", "l", "(mapcon (lambda (&rest a) (funcall {F} (car a)) nil) {C})")
	add("dolist", "l", "(dolist (el {C}) (funcall {F} el))")
	add("dotimes-aref", "fs", "(dotimes (i (length {C})) (funcall {F} (aref {C} i)))")
	add("dotimes-elt", "lfs", "(let ((n (length {C}))) (dotimes (i n) (funcall {F} (elt {C} i))))")
	for _, f := range []string{"some", "every", "notany", "notevery"} {
		add(f, "lfs", "("+f+" {F} {C})")
		add(f, "lfs", "("+f+" {F} {C} {C})")
	}
	add("sort", "lfs", "(sort {C} {F})")
	add("sort", "lfs", "(sort {C} (lambda (a b) nil) :key {F})")
	add("stable-sort", "lfs", "(stable-sort {C} {F})")
	add("merge", "lf", "(merge 'list {C} (list 1 2) {F})")
	add("merge", "lf", "(merge 'vector (list 1 2) {C} {F})")
	for _, f := range []string{"remove-if", "delete-if", "find-if", "position-if",
		"count-if", "member-if"} {
		kinds := "lfs"
		if f == "member-if" {
			kinds = "l"
		}
		add(f, kinds, "("+f+" {F} {C})")
		if kinds == "lfs" {
			add(f, kinds, "("+f+" {F} {C} :from-end t)")
			add(f, kinds, "("+f+" (lambda (x) x) {C} :key {F})")
		}
	}
	for _, f := range []string{"substitute-if", "nsubstitute-if"} {
		add(f, "lfs", "("+f+" 0 {F} {C})")
	}
	for _, f := range []string{"remove", "delete", "find", "position", "count", "member", "adjoin"} {
		kinds := "lfs"
		if f == "member" || f == "adjoin" {
			kinds = "l"
		}
		add(f, kinds, "("+f+" 1 {C} :test {F})")
		add(f, kinds, "("+f+" 1 {C} :key {F})")
	}
	add("substitute", "lfs", "(substitute 0 1 {C} :test {F})")
	add("nsubstitute", "lfs", "(nsubstitute 0 1 {C} :key {F})")
	add("remove-duplicates", "lfs", "(remove-duplicates {C} :test {F})")
	add("remove-duplicates", "lfs", "(remove-duplicates {C} :key {F})")
	add("delete-duplicates", "lfs", "(delete-duplicates {C} :test {F})")
	add("reduce", "lfs", "(reduce {F} {C})")
	add("reduce", "lfs", "(reduce {F} {C} :from-end t :initial-value 0)")
	add("reduce", "lfs", "(reduce #'list {C} :key {F})")
	add("mismatch", "lfs", "(mismatch {C} {C} :test {F})")
	add("search", "lfs", "(search {C} {C} :test {F})")
	add("search", "lfs", "(search (list 1 3) {C} :key {F})")
	add("union", "l", "(union {C} {C} :test {F})")
	add("intersection", "l", "(intersection {C} (list 1 2) :test {F})")
	add("set-difference", "l", "(set-difference {C} (list 1 2) :key {F})")
	add("subsetp", "l", "(subsetp {C} {C} :test {F})")
	add("tree-equal", "l", "(tree-equal {C} {C} :test {F})")
	add("subst-if", "l", "(subst-if 0 {F} {C})")
	add("sublis", "l", "(sublis (list (cons 1 0)) {C} :test {F})")
	add("apply", "l", "(apply {F} {C})")
	add("format-iteration", "l", `(format nil "~{~/c09cb/~}" {C})`)
	add("bag-walk", "b", "(bag-walk {C} {F})")
	add("bag-walk", "b", `(bag-walk {C} {F} "b[*]")`)
	add("bag-scan", "b", "(bag-scan {C} {F})")
	add("bag-modify", "b", "(bag-modify {C} {F})")
	add("bag-modify", "b", `(bag-modify {C} {F} "b")`)
	return
}

func kindLetter(k string) string { return k[:1] }

func enumMutating(tier string, emit func(string)) {
	for _, t := range mutTemplates {
		for _, k := range mutKinds {
			if !strings.Contains(t.kinds, kindLetter(k.name)) {
				continue
			}
			for _, m := range k.muts {
				mname := m[:strings.IndexByte(m, '=')]
				for _, r := range []string{"nil", "t"} {
					emit("u|" + t.fn + "|" + k.name + "|" + mname + "|" + r + "|" + t.form)
				}
			}
		}
	}
}

func execMutating(spec string) (res engine.Result) {
	parts := strings.SplitN(spec, "|", 6)
	if len(parts) != 6 {
		res.Fail("harness:bad-spec", spec)
		return
	}
	fn, kind, mname, result, form := parts[1], parts[2], parts[3], parts[4], parts[5]
	var mk *mutKind
	mut := ""
	for i := range mutKinds {
		if mutKinds[i].name == kind {
			mk = &mutKinds[i]
			for _, m := range mk.muts {
				if strings.HasPrefix(m, mname+"=") {
					mut = m[len(mname)+1:]
				}
			}
		}
	}
	if mk == nil || mut == "" || (result != "nil" && result != "t") {
		res.Fail("harness:bad-spec", spec)
		return
	}
	cb := "(lambda (&rest a) " + strings.ReplaceAll(mut, "{C}", "c09c") + " " + result + ")"
	body := strings.ReplaceAll(strings.ReplaceAll(form, "{C}", "c09c"), "{F}", "c09f")
	src := "(let* ((c09c " + mk.make + ") (c09f " + cb + ")) (defun c09cb (s &rest a) (funcall c09f (car a))) " + body + " (type-of c09c))"
	sig := "mutating-callback fn=" + fn + " container=" + kind
	if os.Getenv("C09_CHILD") == "" {
		return isolatedCase(spec, sig, src, "mutating-cases", false)
	}
	res.Hit("mutating-cases")
	leave := enter(false)
	defer leave()
	scope := slip.NewScope()
	o := observe(func() slip.Object { return slip.ReadString(src, scope).Eval(scope, nil) })
	res.Outcome = o.outcome()
	res.Nontrivial = mname != "none"
	switch o.kind {
	case "value":
		res.Hit("mutating-value")
	case "condition":
		res.Hit("mutating-condition")
		if mname == "none" {
			logLine("MUT-TEMPLATE-INVALID\t" + src + "\t" + o.describe())
			res.Hit("mutating-template-invalid")
		}
	}
	if o.catchAll {
		res.Hit("catch-all-conversions")
	}
	if fc := realClassifier.classify(o); fc != "" {
		res.Hit("faults")
		res.Fail(fmt.Sprintf("%s fault=%s at=%s", sig, fc, o.site), src+" => "+o.describe())
	} else if o.catchAll {
		res.Hit("catch-all-accepted")
		logAccepted(sig, o)
	}
	return
}
