// Package c12: CLOS classes (temporary probe skeleton).
package c12

import (
	"strings"

	"verif/engine"
	"verif/lisp"
)

func init() {
	engine.Register(&engine.Prop{
		ID:        "C12",
		Level:     "model_checking",
		Enumerate: func(tier string, emit func(string)) {},
		Exec:      exec,
	})
}

func exec(spec string) (res engine.Result) {
	if strings.HasPrefix(spec, "lisp:") {
		val, tr, err := lisp.Run(spec[5:])
		res.Outcome = val + " trace=" + strings.Join(tr, ",") + " err=" + err.String()
	}
	return
}
