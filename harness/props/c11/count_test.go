package c11

import (
	"fmt"
	"strings"
	"testing"
)

func TestCount(t *testing.T) {
	for _, tier := range []string{"quick", "thorough"} {
		groups := map[string][2]int{}
		enumerate(tier, func(spec string) {
			p := strings.Split(spec, "|")
			comps := parseDag(p[1])
			key := fmt.Sprintf("%s n=%d", p[0], len(comps))
			h := 0
			if p[0] == "m" {
				ms := parseMeths(p[2])
				key += fmt.Sprintf(" k=%d %s", len(ms), p[3])
				genOrders(comps, ms, p[3], func([]form) { h++ })
			} else {
				genFlavorOrders(comps, func([]int) { h++ })
			}
			g := groups[key]
			g[0]++
			g[1] += h
			groups[key] = g
		})
		tot := 0
		for k, g := range groups {
			fmt.Printf("%s %-22s cases=%d histories=%d\n", tier, k, g[0], g[1])
			tot += g[1]
		}
		fmt.Println(tier, "total histories", tot)
	}
}
