#!/usr/bin/env python3
"""stale-findings.py [evidence-dir ...]: development aid. Lists the open entries of known-findings.jsonl that no
signature seen in the given evidence directories (default: /verif/evidence and /verif/.build/out-thorough/evidence)
matches. Nothing is rewritten; the check itself never edits the findings file."""
import glob
import json
import re
import sys

dirs = sys.argv[1:] or ["/verif/evidence", "/verif/.build/out-thorough/evidence"]
seen = {}
for d in dirs:
    for f in glob.glob(d + "/C*.json"):
        ev = json.load(open(f))
        seen.setdefault(ev["property_id"], set()).update(ev["coverage"].get("known_findings_seen") or [])
stale = 0
for n, line in enumerate(open("/verif/known-findings.jsonl"), 1):
    if not line.startswith("{"):
        continue
    e = json.loads(line)
    sigs = seen.get(e["property"], set())
    hit = False
    if e.get("signature") and e["signature"] in sigs:
        hit = True
    if not hit and e.get("signature_re"):
        rx = re.compile("^(?:" + e["signature_re"] + ")$")
        hit = any(rx.search(s) for s in sigs)
    if not hit:
        stale += 1
        print(f"{n}\t{e['property']}\t{e.get('signature') or 're:' + e.get('signature_re', '')}")
print(f"# {stale} open entries not seen in {dirs}", file=sys.stderr)
