package c09

// selftest3.go: mutated references for the families of the eighth round (pl, sf, st): a placer whose Place method
// stores without a bounds check, a macro that walks a binding list without checking its shape, a function that
// takes a stream and asserts its direction. Each goes through the evaluation path of its family (evalPlace / sfEdit +
// sfRun / buildStream) and the real classifier; each has its guarded reference.

import (
	"io"

	"github.com/ohler55/slip"
)

// ---- (m-place n list): a place like nth
type stPlacer struct {
	slip.Function
	guarded bool
}

func (f *stPlacer) parts(s *slip.Scope, args slip.List) (int, slip.List) {
	slip.CheckArgCount(s, 0, f, args, 2, 2)
	n, ok := args[0].(slip.Fixnum)
	if !ok {
		slip.TypePanic(s, 0, "n", args[0], "fixnum")
	}
	list, ok2 := args[1].(slip.List)
	if !ok2 {
		slip.TypePanic(s, 0, "list", args[1], "list")
	}
	return int(n), list
}

func (f *stPlacer) Call(s *slip.Scope, args slip.List, depth int) slip.Object {
	n, list := f.parts(s, args)
	if n < 0 || len(list) <= n {
		return nil
	}
	return list[n]
}

// Place stores the value; the mutant forgot that the index can be beyond the list.
func (f *stPlacer) Place(s *slip.Scope, args slip.List, value slip.Object) {
	n, list := f.parts(s, args)
	if f.guarded && (n < 0 || len(list) <= n) {
		slip.ErrorPanic(s, 0, "%d is outside the list", n)
	}
	list[n] = value
}

func definePlacer(guarded bool) func(pkg *slip.Package, name string) {
	return func(pkg *slip.Package, name string) {
		slip.Define(func(args slip.List) slip.Object {
			f := stPlacer{Function: slip.Function{Name: name, Args: args}, guarded: guarded}
			f.Self = &f
			return &f
		}, &slip.FuncDoc{Name: name, Args: []*slip.DocArg{{Name: "n", Type: "fixnum"}, {Name: "list", Type: "list"}}, Return: "object", Text: "a place like nth"}, pkg)
	}
}

// ---- (m-bind ((var value)...) form...): a macro like let
type stBinder struct {
	slip.Function
	guarded bool
}

func (f *stBinder) Call(s *slip.Scope, args slip.List, depth int) (result slip.Object) {
	slip.CheckArgCount(s, depth, f, args, 1, -1)
	ns := s.NewScope()
	if f.guarded {
		bindings, ok := args[0].(slip.List)
		if !ok && args[0] != nil {
			slip.TypePanic(s, depth, "bindings", args[0], "list")
		}
		for _, b := range bindings {
			bl, ok := b.(slip.List)
			if !ok || len(bl) != 2 {
				slip.TypePanic(s, depth, "binding", b, "list of a symbol and a form")
			}
			sym, ok2 := bl[0].(slip.Symbol)
			if !ok2 {
				slip.TypePanic(s, depth, "variable", bl[0], "symbol")
			}
			ns.Let(sym, s.Eval(bl[1], depth+1))
		}
	} else {
		for _, b := range args[0].(slip.List) {
			bl := b.(slip.List)
			ns.Let(bl[0].(slip.Symbol), s.Eval(bl[1], depth+1))
		}
	}
	for _, form := range args[1:] {
		result = ns.Eval(form, depth+1)
	}
	return
}

func defineBinder(guarded bool) func(pkg *slip.Package, name string) {
	return func(pkg *slip.Package, name string) {
		slip.Define(func(args slip.List) slip.Object {
			f := stBinder{Function: slip.Function{Name: name, Args: args, SkipEval: []bool{true}}, guarded: guarded}
			f.Self = &f
			return &f
		}, &slip.FuncDoc{Name: name, Kind: slip.MacroSymbol, Args: []*slip.DocArg{{Name: "bindings", Type: "list"}, {Name: "&rest"}, {Name: "forms", Type: "form"}},
			Return: "object", Text: "a macro like let"}, pkg)
	}
}

// ---- (m-stream stream): writes one byte to the stream
func streamBody(guarded bool) func(f *stFunc) func(*slip.Scope, slip.List, int) slip.Object {
	return func(f *stFunc) func(*slip.Scope, slip.List, int) slip.Object {
		return func(s *slip.Scope, args slip.List, depth int) slip.Object {
			slip.CheckArgCount(s, depth, f, args, 1, 1)
			if guarded {
				w, ok := args[0].(io.Writer)
				if !ok {
					slip.TypePanic(s, depth, "stream", args[0], "output-stream")
				}
				if _, err := w.Write([]byte{'x'}); err != nil {
					slip.ErrorPanic(s, depth, "write failed: %s", err)
				}
				return nil
			}
			_, _ = args[0].(io.Writer).Write([]byte{'x'})
			return nil
		}
	}
}

func init() {
	stDefine["m-place-ok"], stDefine["m-place"] = definePlacer(true), definePlacer(false)
	stDefine["m-bind-ok"], stDefine["m-bind"] = defineBinder(true), defineBinder(false)
	stMutants = append(stMutants,
		stMutant{"m-place-ok", "pl", "", "reference: a place that checks its index before it stores", nil},
		stMutant{"m-place", "pl", "index-out-of-range", "a Place method that stores at the index without a bounds check", nil},
		stMutant{"m-bind-ok", "sf", "", "reference: a binding macro that checks the shape of its binding list", nil},
		stMutant{"m-bind", "sf", "interface-conversion|index-out-of-range", "a binding macro that takes each binding apart without checking its shape", nil},
		stMutant{"m-stream-ok", "st", "", "reference: a stream function that checks the direction of the stream", streamBody(true)},
		stMutant{"m-stream", "st", "interface-conversion", "a stream function that asserts an output stream without a check", streamBody(false)},
	)
}

// selftestNewFamily pushes the mutant through the evaluation path of its family.
func selftestNewFamily(m *stMutant, faults map[string]int) (ncases int) {
	fn := selftestPkgName + ":" + m.name
	leave := enter(false)
	defer leave()
	judge := func(o *obs) {
		ncases++
		if o == nil {
			faults["harness:setup-failed"]++
			return
		}
		if fc := realClassifier.classify(o); fc != "" {
			faults[fc]++
		}
	}
	switch m.family {
	case "pl":
		ensurePlaceFixtures()
		t := &placeTmpl{fn: fn, form: "(" + fn + " {I} {C})", oks: []string{"l12"}}
		for _, swept := range []string{"l12", "nil", "(1 2 3)", `"abc"`, "el"} {
			for _, opName := range []string{"setf", "incf", "push", "rotatef"} {
				op := placeOpByName(opName)
				for _, g := range gridFor(t.form, "q") {
					o, _ := evalPlace(t, op, swept, g, &placeValues[0], nil)
					judge(o)
				}
			}
		}
	case "sf":
		ensureSFFixtures()
		text := "(" + fn + " ((a 1) (b (c09tick))) (list a b))"
		root0, ok := sfRead(text, 0)
		if !ok {
			faults["harness:setup-failed"]++
			return
		}
		for _, path := range sfPaths(root0) {
			try := func(how string, repl slip.Object) {
				root, _ := sfRead(text, 0)
				form, ok := sfEdit(root, path, how, repl)
				if !ok {
					return
				}
				o, budget := sfRun(sfScope(), form)
				if !budget {
					judge(o)
				}
			}
			for _, how := range []string{"delete", "wrap", "splice", "dup", "tail"} {
				try(how, nil)
			}
			for _, a := range sfAtoms() {
				try("replace", sfCopy(a.form))
			}
		}
	case "st":
		ensureFixtures()
		for _, st := range streamStates {
			w := &world{scope: slip.NewScope()}
			var o *obs
			if setup(func() { w.scope.Let(slip.Symbol("c09s"), w.buildStream(st.name)) }) {
				o = observe(func() slip.Object { return slip.ReadString("("+fn+" c09s)", w.scope).Eval(w.scope, nil) })
			}
			judge(o)
			w.done()
		}
	}
	return
}
