package c12

// misc.go: a few hand-written situations the option alphabet of the main families cannot spell: accessor names that collide between
// classes or with a user's generic function, reader/writer of a superclass applied to an instance of a subclass that shadows the slot,
// find-class / class-name around a redefinition, standard-object or a built-in class written as a superclass.
// Every permutation of the defclass forms is run (model-free: all orders must give the same answer) and the answer must be in the
// accepted set ("ERR" = any Lisp condition; a Go runtime fault is never accepted).
//
// spec: misc|<k>

import (
	"fmt"
	"os"
	"strings"
	"sync/atomic"

	"verif/engine"
	"verif/lisp"
)

var miscCases = []struct {
	name    string
	before  string   // forms evaluated first
	classes []string // defclass forms: every order
	probe   string
	accept  []string
}{
	{"accessor-name-shared-by-unrelated-classes", "",
		[]string{"(defclass @a () ((s :initform 1 :accessor @acc)))", "(defclass @c () ((u :initform 7 :accessor @acc)))",
			"(defclass @d (@a @c) ())", "(defclass @e (@c @a) ())"},
		"(list (@acc (make-instance '@a)) (@acc (make-instance '@c)) (@acc (make-instance '@d)) (@acc (make-instance '@e)))", []string{"(1 7 1 7)"}},
	{"setf-accessor-name-shared-by-unrelated-classes", "",
		[]string{"(defclass @a () ((s :initform 1 :accessor @acc)))", "(defclass @c () ((u :initform 7 :accessor @acc)))", "(defclass @d (@a @c) ())"},
		"(let ((x (make-instance '@d))) (setf (@acc x) 50) (list (slot-value x 's) (slot-value x 'u)))", []string{"(50 7)"}},
	{"writer-of-superclass-on-instance-of-shadowing-subclass", "",
		[]string{"(defclass @a () ((s :initform 1 :writer @wr :reader @rd)))", "(defclass @b (@a) ((s :initform 3 :reader @rdb)))"},
		"(let ((x (make-instance '@b)) (y (make-instance '@b))) (@wr x 10) (list (@rd x) (@rdb x) (slot-value x 's) (@rd y)))", []string{"(10 10 10 3)"}},
	{"reader-name-at-two-levels-for-different-slots", "",
		[]string{"(defclass @a () ((s :initform 1 :reader @r)))", "(defclass @b (@a) ((u :initform 2 :reader @r)))"},
		"(list (@r (make-instance '@a)) (@r (make-instance '@b)))", []string{"(1 2)"}},
	{"reader-and-writer-of-one-name-at-two-levels", "",
		[]string{"(defclass @a () ((s :initform 1 :reader @rw)))", "(defclass @b (@a) ((s :initform 2 :accessor @rw)))"},
		"(let ((x (make-instance '@b))) (setf (@rw x) 9) (list (@rw x) (@rw (make-instance '@a))))", []string{"(9 1)"}},
	{"reader-joins-generic-function-of-the-user", "(defgeneric @foo (x)) (defmethod @foo ((x fixnum)) 'num)",
		[]string{"(defclass @h () ((s :initform 4 :reader @foo)))", "(defclass @i (@h) ())"},
		"(list (@foo (make-instance '@h)) (@foo (make-instance '@i)) (@foo 3))", []string{"(4 4 num)"}},
	{"method-of-the-user-on-an-accessor-for-a-subclass", "",
		[]string{"(defclass @a () ((s :initform 1 :accessor @acc)))", "(defclass @b (@a) ())"},
		"(progn (defmethod @acc ((x @b)) 'own) (list (@acc (make-instance '@a)) (@acc (make-instance '@b))))", []string{"(1 own)"}},
	{"find-class-and-class-name-around-a-redefinition", "",
		[]string{"(defclass @a () ((s :initform 1)))", "(defclass @b (@a) ())"},
		"(let ((c1 (find-class '@b)) (c0 (find-class '@a)) (x (make-instance '@b))) (defclass @a () ((s :initform 2))) " +
			"(let ((y (make-instance '@b))) (list (eq (find-class '@b) c1) (eq (class-of y) (find-class '@b)) (eq (class-of x) (find-class '@b)) " +
			"(class-name (find-class '@a)) (class-name (class-of y)) (slot-value y 's) (eq (class-of (make-instance '@a)) (find-class '@a)))))",
		[]string{"(t t t a b 2 t)"}},
	{"slot-functions-on-a-name-that-is-no-slot", "",
		[]string{"(defclass @a () ((s :initform 1)))", "(defclass @b (@a) ())"},
		"(slot-exists-p (make-instance '@b) 'zz)", []string{"nil"}},
	{"slot-boundp-on-a-name-that-is-no-slot", "",
		[]string{"(defclass @a () ((s :initform 1)))", "(defclass @b (@a) ())"},
		"(slot-boundp (make-instance '@b) 'zz)", []string{"ERR"}},
	{"slot-makunbound-on-a-name-that-is-no-slot", "",
		[]string{"(defclass @a () ((s :initform 1)))", "(defclass @b (@a) ())"},
		"(slot-makunbound (make-instance '@b) 'zz)", []string{"ERR"}},
	// standard-object is not a class one can find in slip ((find-class 'standard-object) is nil): a class that names it waits for it like for any
	// other undefined superclass. Common Lisp would give (b a standard-object t); the statement does not say standard-object is a class: both accepted.
	{"standard-object-written-as-superclass", "",
		[]string{"(defclass @a (standard-object) ((s :initform 1)))", "(defclass @b (@a) ())"},
		"(class-precedence '@b)", []string{"(b a standard-object t)", "nil"}},
	{"built-in-class-written-as-superclass", "",
		[]string{"(defclass @b () ())"},
		"(defclass @a (fixnum @b) ())", []string{"ERR"}},
	{"subclass-of-a-class-that-could-not-be-defined", "",
		[]string{"(defclass @b (@a) ())", "(defclass @c () ())"},
		"(list (class-precedence '@b) (class-precedence '@c))", []string{"(nil (c standard-object t))"}},
}

var miscCtr int64

func enumMisc(emit func(string)) {
	for i := range miscCases {
		emit(fmt.Sprintf("misc|%d", i))
	}
}

func permutations(n int) [][]int {
	var out [][]int
	perm := make([]int, 0, n)
	used := make([]bool, n)
	var rec func()
	rec = func() {
		if len(perm) == n {
			out = append(out, append([]int(nil), perm...))
			return
		}
		for i := 0; i < n; i++ {
			if !used[i] {
				used[i] = true
				perm = append(perm, i)
				rec()
				perm = perm[:len(perm)-1]
				used[i] = false
			}
		}
	}
	rec()
	return out
}

func execMisc(spec string) (res engine.Result) {
	var k int
	if _, err := fmt.Sscanf(spec, "misc|%d", &k); err != nil || k < 0 || len(miscCases) <= k {
		res.Fail("harness:bad-spec", spec)
		return
	}
	c := miscCases[k]
	res.Nontrivial = true
	res.Hit("misc-checked")
	first := ""
	for _, perm := range permutations(len(c.classes)) {
		tag := fmt.Sprintf("c12m%dx%dq", os.Getpid(), atomic.AddInt64(&miscCtr, 1))
		ren := func(s string) string { return strings.ReplaceAll(s, "@", tag) }
		var src []string
		if c.before != "" {
			src = append(src, c.before)
		}
		for _, p := range perm {
			src = append(src, c.classes[p])
		}
		text := ren(strings.Join(src, " "))
		got := ""
		if _, err := lisp.Eval("(progn " + text + ")"); err != nil {
			got = "ERR-in-definitions:" + err.Class
			if err.GoFault {
				got = "GO-FAULT-in-definitions"
			}
		} else if v, err := lisp.Eval(ren(c.probe)); err != nil {
			got = "ERR"
			if err.GoFault {
				got = "GO-FAULT"
			}
		} else {
			got = strings.ReplaceAll(lisp.Show(v), tag, "")
		}
		if first == "" {
			first = got
			res.Outcome = got
		}
		detail := fmt.Sprintf("%s %s => %s", text, ren(c.probe), got)
		switch {
		case !inList(got, c.accept):
			kind := "wrong-answer"
			if strings.HasPrefix(got, "GO-FAULT") {
				kind = "go-fault"
			} else if strings.HasPrefix(got, "ERR") {
				kind = "error"
			}
			res.Fail("aspect=misc case="+c.name+" kind="+kind, detail+"; accepted: "+strings.Join(c.accept, " | "))
			return
		case got != first:
			res.Fail("aspect=misc case="+c.name+" kind=differs-between-definition-orders", detail+"; the first order gave "+first)
			return
		}
	}
	return
}
