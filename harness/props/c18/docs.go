//go:build verif

package c18

import (
	"fmt"
	"sort"
	"strings"

	"github.com/ohler55/slip"
	"github.com/ohler55/slip/pkg/bag"
	"github.com/ohler55/slip/pkg/flavors"

	"verif/engine"
	"verif/lisp"
)

// ------------------------------------------------------------ enumeration

// JSON texts of the scalar alphabet.
var scalarsCore = []string{
	`null`, `true`, `false`, `0`, `-1`, `1.5`, `9007199254740993`, `100000000000000000000`,
	`""`, `"a"`, `"é"`, `"\"\n\\"`, `"12"`, `"true"`,
}

var scalarsQuick = append(append([]string{}, scalarsCore...), `9223372036854775807`, `"null"`, `"-"`)

var scalarsThoroughExtra = []string{
	`"a b"`, `"1e5"`, `-0.0`, `1e300`, `"[x"`, `"a:b"`, `"#c"`,
}

// keys of single-member objects (multi-member objects use a, b, c in order)
var singleKeysQuick = []string{`"a"`, `"a b"`}
var singleKeysThoroughExtra = []string{`"true"`, `"12"`, `""`, `"é\""`}
var multiKeys = []string{`"a"`, `"b"`, `"c"`, `"d"`}

// enumTrees emits the JSON text of every tree with 1..budget nodes, smallest
// first. A node is a scalar, an array or an object.
func enumTrees(budget int, scalars, singleKeys []string, emit func(text string, nodes int)) {
	byN := make([][]string, budget+1)
	for n := 1; n <= budget; n++ {
		last := n == budget
		var list []string
		add := func(s string) {
			emit(s, n)
			if !last {
				list = append(list, s)
			}
		}
		if n == 1 {
			for _, s := range scalars {
				add(s)
			}
			add("[]")
			add("{}")
		} else {
			// arrays and objects with k children whose sizes sum to n-1
			var comp func(rest int, parts []int)
			comp = func(rest int, parts []int) {
				if rest == 0 {
					// arrays
					var rec func(i int, acc []string)
					rec = func(i int, acc []string) {
						if i == len(parts) {
							add("[" + strings.Join(acc, ",") + "]")
							return
						}
						for _, c := range byN[parts[i]] {
							rec(i+1, append(acc, c))
						}
					}
					rec(0, nil)
					// objects
					if len(parts) == 1 {
						for _, k := range singleKeys {
							for _, c := range byN[parts[0]] {
								add("{" + k + ":" + c + "}")
							}
						}
					} else if len(parts) <= len(multiKeys) {
						var reco func(i int, acc []string)
						reco = func(i int, acc []string) {
							if i == len(parts) {
								add("{" + strings.Join(acc, ",") + "}")
								return
							}
							for _, c := range byN[parts[i]] {
								reco(i+1, append(acc, multiKeys[i]+":"+c))
							}
						}
						reco(0, nil)
					}
					return
				}
				for s := 1; s <= rest; s++ {
					comp(rest-s, append(parts, s))
				}
			}
			comp(n-1, nil)
		}
		byN[n] = list
	}
}

// docAlphabets: quick = every tree with <= 4 nodes over the 17-scalar
// alphabet; thorough = every tree with <= 4 nodes over the 24-scalar alphabet
// and 6 single-member keys, plus every tree with exactly 5 nodes over the
// 14-scalar core alphabet (the 5-node sweep over 24 scalars is 2.6 million
// documents, beyond the time budget).
type docSweep struct {
	budget, from  int
	scalars, keys []string
}

func docAlphabets(tier string) []docSweep {
	if tier == engine.Thorough {
		return []docSweep{
			{budget: 4, from: 1, scalars: append(append([]string{}, scalarsQuick...), scalarsThoroughExtra...),
				keys: append(append([]string{}, singleKeysQuick...), singleKeysThoroughExtra...)},
			{budget: 5, from: 5, scalars: scalarsCore, keys: singleKeysQuick},
		}
	}
	return []docSweep{{budget: 4, from: 1, scalars: scalarsQuick, keys: singleKeysQuick}}
}

func enumerateDocTexts(tier string, emit func(text string, nodes int)) {
	for _, sw := range docAlphabets(tier) {
		enumTrees(sw.budget, sw.scalars, sw.keys, func(text string, nodes int) {
			if sw.from <= nodes {
				emit(text, nodes)
			}
		})
	}
}

func enumerateDocs(tier string, emit func(string)) {
	enumerateDocTexts(tier, func(text string, nodes int) {
		emit("doc|j|" + text)
		emit("doc|s|" + text)
	})
}

// ------------------------------------------------------------ write options

type writeOpt struct {
	name string
	args string // appended to (bag-write b ...
	json bool   // output is documented to be JSON
	send bool   // use (send b :write ...)
}

var writeOptsQuick = []writeOpt{
	{name: "default"},
	{name: "pretty-t", args: ":pretty t"},
	{name: "pretty-nil", args: ":pretty nil"},
	{name: "depth-0", args: ":depth 0"},
	{name: "depth-1", args: ":depth 1"},
	{name: "depth-2", args: ":depth 2"},
	{name: "color-nil", args: ":color nil"},
	{name: "json", args: ":json t", json: true},
	{name: "json+depth-0", args: ":json t :depth 0", json: true},
	{name: "send-write", send: true},
}

var writeOptsThoroughExtra = []writeOpt{
	{name: "pretty-t+margin-10", args: ":pretty t :right-margin 10"},
	{name: "pretty-t+depth-1", args: ":pretty t :depth 1"},
	{name: "pretty-t+depth-3", args: ":pretty t :depth 3"},
	{name: "json+pretty-nil", args: ":json t :pretty nil", json: true},
	{name: "json+pretty-t+depth-1", args: ":json t :pretty t :depth 1", json: true},
	{name: "send-write-json", args: ":json t", json: true, send: true},
}

func writeOpts(thorough bool) []writeOpt {
	if thorough {
		return append(append([]writeOpt{}, writeOptsQuick...), writeOptsThoroughExtra...)
	}
	return writeOptsQuick
}

// newBag makes a bag instance holding tree.
func newBag(tree any) *flavors.Instance {
	inst := bag.Flavor().MakeInstance().(*flavors.Instance)
	inst.Any = tree
	return inst
}

// ------------------------------------------------------------ helpers

func countNodes(v any) int {
	n := 1
	switch tv := v.(type) {
	case []any:
		for _, e := range tv {
			n += countNodes(e)
		}
	case map[string]any:
		for _, e := range tv {
			n += countNodes(e)
		}
	}
	return n
}

func depthOf(v any) int {
	d := 0
	switch tv := v.(type) {
	case []any:
		for _, e := range tv {
			if x := depthOf(e); d < x {
				d = x
			}
		}
	case map[string]any:
		for _, e := range tv {
			if x := depthOf(e); d < x {
				d = x
			}
		}
	}
	return d + 1
}

func hasEmptyContainer(v any) bool {
	switch tv := v.(type) {
	case []any:
		if len(tv) == 0 {
			return true
		}
		for _, e := range tv {
			if hasEmptyContainer(e) {
				return true
			}
		}
	case map[string]any:
		if len(tv) == 0 {
			return true
		}
		for _, e := range tv {
			if hasEmptyContainer(e) {
				return true
			}
		}
	}
	return false
}

func leafScalars(v any, out *[]any) {
	switch tv := v.(type) {
	case []any:
		for _, e := range tv {
			leafScalars(e, out)
		}
	case map[string]any:
		for _, k := range sortedKeys(tv) {
			*out = append(*out, "key\x00"+k)
			leafScalars(tv[k], out)
		}
	default:
		*out = append(*out, v)
	}
}

func bagOf(o slip.Object) (*flavors.Instance, bool) {
	inst, ok := o.(*flavors.Instance)
	return inst, ok && inst != nil
}

func errKind(e *lisp.Err) string {
	if e.GoFault {
		return "go-fault"
	}
	return "error"
}

// failDiffs turns mismatches into failures, one per (kind, got) pair.
func failDiffs(res *engine.Result, prefix string, ms []mismatch, ctx string) {
	seen := map[string]bool{}
	for _, m := range ms {
		sig := fmt.Sprintf("%s kind=%s got=%s", prefix, m.kind, m.got)
		if seen[sig] {
			continue
		}
		seen[sig] = true
		res.Fail(sig, ctx+": "+m.what)
	}
}

// ------------------------------------------------------------ exec

func execDoc(spec string) (res engine.Result) {
	parts := strings.SplitN(spec, "|", 3)
	if len(parts) != 3 {
		res.Fail("harness:bad-spec", spec)
		return
	}
	form, jtext := parts[1], parts[2]
	model, derr := decodeJSON(jtext)
	if derr != nil {
		res.Fail("harness:bad-doc", spec+": "+derr.Error())
		return
	}
	text := jtext
	if form == "s" {
		text = senText(model)
		res.Hit("sen-input")
	} else {
		res.Hit("json-input")
	}
	nodes := countNodes(model)
	var leaves []any
	leafScalars(model, &leaves)
	hard := false
	for _, l := range leaves {
		k := kindOf(l)
		if s, ok := l.(string); ok && strings.HasPrefix(s, "key\x00") {
			k = "key:" + stringKind(s[4:])
		}
		switch k {
		case "bigint", "int64-limit", "int>2^53":
			res.Hit("large-integer")
			hard = true
		case "string-nonascii", "key:string-nonascii":
			res.Hit("non-ascii-string")
			hard = true
		case "string-escape", "key:string-escape":
			res.Hit("escaped-string")
			hard = true
		case "string-keywordlike", "string-numberlike", "string-numberprefix", "key:string-keywordlike", "key:string-numberlike":
			res.Hit("lookalike-string")
			hard = true
		case "false", "null", "float":
			hard = true
		}
	}
	if 3 <= depthOf(model) {
		res.Hit("depth>=3")
	}
	if hasEmptyContainer(model) {
		res.Hit("empty-container")
		hard = true
	}
	res.Nontrivial = 1 < nodes || hard

	scope := slip.NewScope()
	ctx := fmt.Sprintf("%s text %s", map[string]string{"j": "JSON", "s": "SEN"}[form], trunc(text, 120))

	// 1. parse
	scope.Let("txt", slip.String(text))
	o, err := lisp.EvalIn(scope, "(make-bag txt)")
	if err != nil {
		res.Fail(fmt.Sprintf("stage=parse form=%s kind=%s", form, errKind(err)), ctx+" => "+err.String())
		res.Outcome = "parse-error"
		return
	}
	b1, ok := bagOf(o)
	if !ok {
		res.Fail("stage=parse kind=not-a-bag", ctx+" => "+lisp.Show(o))
		return
	}
	scope.Let("b", b1)
	var ms []mismatch
	diffTrees(model, b1.Any, false, "$", &ms)
	failDiffs(&res, "stage=parse form="+form, ms, ctx+": parsed bag differs from the document")
	orig := copyTree(b1.Any)

	// 1b. every other way the text can be parsed into a bag gives the same bag, and a bag delivered to a callback
	// is still that document after the parser has gone on to the following documents of the same input
	routes(&res, scope, form, ctx, b1.Any)

	// 2. write with every option, parse again
	var outcome []string
	for _, wo := range writeOpts(true) {
		src := "(bag-write b nil " + wo.args + ")"
		if wo.send {
			src = "(send b :write nil " + wo.args + ")"
		}
		if wo.json {
			res.Hit("json-output")
		}
		if strings.Contains(wo.args, ":pretty t") {
			res.Hit("pretty-output")
		}
		wv, werr := lisp.EvalIn(scope, src)
		if werr != nil {
			res.Fail(fmt.Sprintf("stage=write opt=%s kind=%s", wo.name, errKind(werr)), ctx+": "+src+" => "+werr.String())
			continue
		}
		ws, isStr := wv.(slip.String)
		if !isStr {
			res.Fail(fmt.Sprintf("stage=write opt=%s kind=not-a-string", wo.name), ctx+": "+src+" => "+lisp.Show(wv))
			continue
		}
		if wo.name == "pretty-t" { // sorted members: the same text on every run
			outcome = append(outcome, string(ws))
		}
		if !equalTrees(orig, b1.Any, false) {
			res.Fail(fmt.Sprintf("stage=write opt=%s kind=mutates-bag", wo.name), ctx+": bag changed by "+src)
			b1.Any = copyTree(orig)
		}
		wctx := fmt.Sprintf("%s; %s wrote %q", ctx, src, trunc(string(ws), 160))
		reparse(&res, scope, wo, string(ws), orig, wctx)
		if wo.json {
			jv, jerr := decodeJSON(string(ws))
			if jerr != nil {
				res.Fail(fmt.Sprintf("stage=write-json opt=%s kind=invalid-json", wo.name), wctx+": encoding/json says "+jerr.Error())
			} else {
				var jm []mismatch
				diffTrees(orig, jv, false, "$", &jm)
				failDiffs(&res, "stage=write-json opt="+wo.name, jm, wctx+": JSON output read by encoding/json differs from the bag")
			}
		}
	}

	// 3. bag -> native -> bag
	for _, variant := range []string{"(bag-native b)", "(send b :native)"} {
		nv, nerr := lisp.EvalIn(scope, variant)
		if nerr != nil {
			res.Fail("stage=native kind="+errKind(nerr), ctx+": "+variant+" => "+nerr.String())
			continue
		}
		res.Hit("native-roundtrip")
		scope.Let("nat", nv)
		if variant == "(bag-native b)" {
			outcome = append(outcome, dump(lispToTree(nv), false))
		}
		// make-bag parses a string argument as text, so a bag whose whole
		// content is one string goes back through bag-set on a fresh bag
		back := "(make-bag nat)"
		if _, isStr := nv.(slip.String); isStr {
			back = "(bag-set (make-instance 'bag-flavor) nat)"
		}
		bo, berr := lisp.EvalIn(scope, back)
		if berr != nil {
			res.Fail("stage=native-roundtrip kind="+errKind(berr), ctx+": "+back+" with nat = "+lisp.Show(nv)+" => "+berr.String())
			continue
		}
		b3, ok3 := bagOf(bo)
		if !ok3 {
			res.Fail("stage=native-roundtrip kind=not-a-bag", ctx+": (make-bag "+lisp.Show(nv)+") => "+lisp.Show(bo))
			continue
		}
		var nm []mismatch
		diffTrees(orig, b3.Any, true, "$", &nm)
		failDiffs(&res, "stage=native-roundtrip", nm, fmt.Sprintf("%s: %s => %s, make-bag of that => %s", ctx, variant, trunc(lisp.Show(nv), 120), trunc(dump(b3.Any, false), 120)))
		if !equalTrees(orig, b1.Any, false) {
			res.Fail("stage=native kind=mutates-bag", ctx+": bag changed by "+variant)
			b1.Any = copyTree(orig)
		}
	}
	res.Outcome = strings.Join(outcome, "\x00")
	return
}

// reparse parses written text again and compares with the original bag. When
// the text does not parse, the failure is attributed to the scalar kinds that
// fail on their own (written alone inside an array with the same options).
func reparse(res *engine.Result, scope *slip.Scope, wo writeOpt, written string, orig any, wctx string) {
	scope.Let("txt2", slip.String(written))
	o, err := lisp.EvalIn(scope, "(make-bag txt2)")
	prefix := "stage=write-reparse opt=" + wo.name
	if err == nil {
		b2, ok := bagOf(o)
		if !ok {
			res.Fail(prefix+" kind=not-a-bag", wctx)
			return
		}
		var ms []mismatch
		diffTrees(orig, b2.Any, false, "$", &ms)
		failDiffs(res, prefix, ms, wctx+": parsing the written text gives a different bag")
		return
	}
	// culprit attribution
	var leaves []any
	leafScalars(orig, &leaves)
	culprits := map[string]bool{}
	seen := map[string]bool{}
	for _, l := range leaves {
		var single any = []any{l}
		kind := kindOf(l)
		if s, ok := l.(string); ok && strings.HasPrefix(s, "key\x00") {
			single = map[string]any{s[4:]: int64(1)}
			kind = "key:" + stringKind(s[4:])
		}
		d := dump(single, false)
		if seen[d] {
			continue
		}
		seen[d] = true
		inst := newBag(single)
		sc := slip.NewScope()
		sc.Let("b", inst)
		src := "(bag-write b nil " + wo.args + ")"
		if wo.send {
			src = "(send b :write nil " + wo.args + ")"
		}
		wv, werr := lisp.EvalIn(sc, src)
		if werr != nil {
			continue
		}
		sc.Let("txt2", wv)
		if _, perr := lisp.EvalIn(sc, "(make-bag txt2)"); perr != nil {
			culprits[kind] = true
		}
	}
	if len(culprits) == 0 {
		res.Fail(prefix+" kind=combination got=parse-"+errKind(err), wctx+": written text does not parse: "+err.String())
		return
	}
	var ks []string
	for k := range culprits {
		ks = append(ks, k)
	}
	sort.Strings(ks)
	for _, k := range ks {
		res.Fail(prefix+" kind="+k+" got=parse-"+errKind(err), wctx+": written text does not parse: "+err.String())
	}
}

// routes: the parse entry points besides make-bag. The multi-document inputs put the document between two copies
// of a fixed other document and look at the kept bags only after the whole input was parsed.
func routes(res *engine.Result, scope *slip.Scope, form, ctx string, want any) {
	const other = `{zz:[1 {q:2}] n:{x:1}}`
	scope.Let("otxt", slip.String(other))
	wantDump := dump(want, false)
	single := []struct{ name, src string }{
		{"bag-parse", "(let ((x (make-instance 'bag-flavor))) (bag-parse x txt) x)"},
		{":parse", "(let ((x (make-instance 'bag-flavor))) (send x :parse txt) x)"},
		{"make-instance:parse", "(make-instance 'bag-flavor :parse txt)"},
		{"bag-read", "(let ((x (make-instance 'bag-flavor))) (bag-read x (make-string-input-stream txt)) x)"},
	}
	for _, r := range single {
		o, err := lisp.EvalIn(scope, r.src)
		if err != nil {
			res.Fail(fmt.Sprintf("stage=route via=%s form=%s kind=%s", r.name, form, errKind(err)), ctx+": "+r.src+" => "+err.String())
			continue
		}
		b, ok := bagOf(o)
		if !ok {
			res.Fail(fmt.Sprintf("stage=route via=%s kind=not-a-bag", r.name), ctx+": "+r.src+" => "+lisp.Show(o))
			continue
		}
		res.Hit("route:" + r.name)
		if got := dump(b.Any, false); got != wantDump {
			res.Fail(fmt.Sprintf("stage=route via=%s form=%s kind=differs-from-make-bag", r.name, form),
				fmt.Sprintf("%s: %s gives %s, make-bag gives %s", ctx, r.src, trunc(got, 160), trunc(wantDump, 160)))
		}
	}
	strict := ""
	if form == "j" {
		strict = " t"
	}
	multi := []struct{ name, src string }{
		{"json-parse", "(let ((acc nil)) (json-parse (lambda (x) (setq acc (cons x acc))) (concatenate 'string otxt \" \" txt \" \" otxt)) (reverse acc))"},
		{"json-parse-strict", "(let ((acc nil)) (json-parse (lambda (x) (setq acc (cons x acc))) txt" + strict + ") (reverse acc))"},
	}
	otherBag, oerr := lisp.EvalIn(scope, "(make-bag otxt)")
	ob, _ := bagOf(otherBag)
	if oerr != nil || ob == nil {
		res.Fail("harness:route-other-document", other)
		return
	}
	otherDump := dump(ob.Any, false)
	for _, r := range multi {
		o, err := lisp.EvalIn(scope, r.src)
		if err != nil {
			res.Fail(fmt.Sprintf("stage=route via=%s form=%s kind=%s", r.name, form, errKind(err)), ctx+": "+r.src+" => "+err.String())
			continue
		}
		list, _ := o.(slip.List)
		wantDumps := []string{otherDump, wantDump, otherDump}
		if r.name == "json-parse-strict" {
			wantDumps = []string{wantDump}
		}
		if len(list) != len(wantDumps) {
			res.Fail(fmt.Sprintf("stage=route via=%s form=%s kind=document-count", r.name, form),
				fmt.Sprintf("%s: %s delivered %d bags, %d documents", ctx, r.src, len(list), len(wantDumps)))
			continue
		}
		res.Hit("route:" + r.name)
		for i, x := range list {
			b, ok := bagOf(x)
			if !ok {
				res.Fail(fmt.Sprintf("stage=route via=%s kind=not-a-bag", r.name), ctx+": "+lisp.Show(x))
				break
			}
			if got := dump(b.Any, false); got != wantDumps[i] {
				res.Fail(fmt.Sprintf("stage=route via=%s form=%s kind=kept-bag-differs document=%d-of-%d", r.name, form, i+1, len(list)),
					fmt.Sprintf("%s: after the whole input was parsed the bag delivered for document %d is %s, that document is %s", ctx, i+1, trunc(got, 160), trunc(wantDumps[i], 160)))
				break
			}
		}
	}
}
