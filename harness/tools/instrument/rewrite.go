package main

import (
	"bytes"
	"fmt"
	"go/ast"
	"go/parser"
	"go/printer"
	"go/token"
	"os"
	"path/filepath"
	"strconv"
	"strings"
)

// harnessRoot is where the shim packages live.
func harnessRoot() string {
	wd, _ := os.Getwd()
	return wd // bin/build runs the tool from /verif/harness
}

// mountShim maps every .go file of harness/shim/<name> into <repo>/<name>/ (a virtual package
// github.com/ohler55/slip/<name>).
func mountShim(name, repo string, replace map[string]string) ([]string, error) {
	dir := filepath.Join(harnessRoot(), "shim", name)
	ents, err := os.ReadDir(dir)
	if err != nil {
		return nil, err
	}
	var rep []string
	for _, e := range ents {
		if e.IsDir() || !strings.HasSuffix(e.Name(), ".go") || strings.HasSuffix(e.Name(), "_test.go") {
			continue
		}
		target := filepath.Join(repo, name, e.Name())
		if _, serr := os.Stat(target); serr == nil {
			return nil, fmt.Errorf("shim file would replace existing %s", target)
		}
		replace[target] = filepath.Join(dir, e.Name())
		rep = append(rep, "mount "+name+"/"+e.Name())
	}
	return rep, nil
}

// rewriteImport parses file, and if it imports `from`, changes that import to
// `alias "to"`; returns the new source or nil when nothing changed.
func rewriteImport(fset *token.FileSet, f *ast.File, from, alias, to string) bool {
	changed := false
	for _, imp := range f.Imports {
		p, _ := strconv.Unquote(imp.Path.Value)
		if p != from {
			continue
		}
		if imp.Name != nil && imp.Name.Name != alias {
			// keep the file's own alias
			imp.Path.Value = strconv.Quote(to)
		} else {
			imp.Name = ast.NewIdent(alias)
			imp.Path.Value = strconv.Quote(to)
		}
		changed = true
	}
	return changed
}

func writeOut(fset *token.FileSet, f *ast.File, repo, out, path string, replace map[string]string) error {
	var buf bytes.Buffer
	if err := (&printer.Config{Mode: printer.UseSpaces | printer.TabIndent, Tabwidth: 8}).Fprint(&buf, fset, f); err != nil {
		return err
	}
	rel, _ := filepath.Rel(repo, path)
	dst := filepath.Join(out, "src", rel)
	if err := os.MkdirAll(filepath.Dir(dst), 0o755); err != nil {
		return err
	}
	if err := os.WriteFile(dst, buf.Bytes(), 0o644); err != nil {
		return err
	}
	replace[path] = dst
	return nil
}

func goFiles(dir string) []string {
	ents, _ := os.ReadDir(dir)
	var out []string
	for _, e := range ents {
		n := e.Name()
		if e.IsDir() || !strings.HasSuffix(n, ".go") || strings.HasSuffix(n, "_test.go") {
			continue
		}
		out = append(out, filepath.Join(dir, n))
	}
	return out
}

// vfsSkip lists pkg/repl files that keep the real os (terminal handling only).
var vfsSkip = map[string]bool{"bindings.go": true, "edit-stash.go": true, "editor.go": true}

func rewrite(engine, repo, out string, replace map[string]string) ([]string, error) {
	switch engine {
	case "vfs":
		rep, err := mountShim("vfs", repo, replace)
		if err != nil {
			return nil, err
		}
		for _, path := range goFiles(filepath.Join(repo, "pkg", "repl")) {
			if vfsSkip[filepath.Base(path)] {
				rep = append(rep, "keep-os pkg/repl/"+filepath.Base(path))
				continue
			}
			fset := token.NewFileSet()
			f, perr := parser.ParseFile(fset, path, nil, parser.ParseComments)
			if perr != nil {
				return nil, perr
			}
			if rewriteImport(fset, f, "os", "os", "github.com/ohler55/slip/vfs") {
				if err = writeOut(fset, f, repo, out, path, replace); err != nil {
					return nil, err
				}
				rep = append(rep, "os->vfs pkg/repl/"+filepath.Base(path))
			}
		}
		return rep, nil
	case "sched":
		return rewriteSched(repo, out, replace)
	}
	return nil, fmt.Errorf("engine %q not implemented", engine)
}
