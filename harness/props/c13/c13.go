// Package c13: package visibility is coherent with the use/export graph after
// any history. Explicit-state BFS over operation histories on fresh slip
// packages; after every step every name is resolved from every package
// (unqualified and qualified both ways) and compared with a reference that
// recomputes visibility from the graph of own definitions, export flags and
// use edges.
package c13

import (
	"fmt"
	"os"
	"runtime/debug"
	"sort"
	"strconv"
	"strings"

	"github.com/ohler55/slip"

	"verif/engine"
	"verif/lisp"
)

const sentinel = "-" // the only operation enabled in a state that is not to be expanded

func init() {
	// every replay builds fresh packages whose tables are copies of cl-user's
	// (thousands of entries): trade memory for fewer collections
	debug.SetGCPercent(800)
	engine.Register(&engine.Prop{
		ID:    "C13",
		Level: "model_checking",
		Rule: "BFS over histories of (in-package P)+{use-package, unuse-package, export, unexport, defvar, setq, defun, makunbound, fmakunbound} " +
			"on fresh uniquely named packages created by defpackage; in the configurations L, X, H, I also intern, unintern, delete-package, defpackage / make-package of a " +
			"deleted or an existing name with :use / :export, rename-package, the base operations by the other route (package argument / qualified name from the home package), " +
			"the Go extension interface at run time (Package.Define exported and NoExport, Package.Set, Package.Import) and lock-package / unlock-package; " +
			"state key = dump of the package tables (cells with identity, home package, " +
			"export flag, value; Uses, Users, the Exports name list in order with a more-than-once mark, import records, locked, renamed, deleted) read through the public API; " +
			"state invariants G (variable and function entry of a name agree about export), X (an exported own entry is on the Exports list), R (no use / used-by list names a deleted package), " +
			"M (an import record stands for a table entry); differential oracle D on every expanded state: the probe table equals that of a fresh world in which the graph abstracted " +
			"from the tables is built by the canonical history define, import, use, export, lock/rename/delete; after every step: boundp / evaluation / symbol-value of every " +
			"variable and fboundp / call / funcall of every function, unqualified from every package and as p:n and p::n from every package, plus " +
			"package-use-list / package-used-by-list; expected = visibility recomputed from the graph abstracted from the OBSERVED pre-state (S3) " +
			"after applying the operation's specified effect (a set of alternatives where the statement leaves a choice); a transition is " +
			"non-trivial when the pre-state has at least one definition and one use edge among the fresh packages",
		Assumptions: []string{
			"fresh packages use cl and cl-user (slip registers its condition classes in cl-user; without them any error inside the package is a Go fault in ErrorNew, which is C09's subject)",
			"the name argument of defpackage / in-package is quoted (slip evaluates it, documented in the FuncDoc examples)",
			"functions take one argument because (funcall 'f) with no further argument is rejected by slip (known C04 finding)",
			"S2: if two used packages export the same name either is accepted; a definition exported by an indirectly used package may or may not be visible; " +
				"defining / unbinding a name that is currently inherited may follow Common Lisp (the inherited symbol is affected) or give / leave the package its own definition; " +
				"use-package may refuse a Common Lisp name conflict; p:n inside p itself may reach an unexported definition; p:n and p::n may reach inherited names",
			"S9: lookup slots whose cell is shared as a definition by two packages, or which already disagreed with the observed pre-state, are not judged (counted as degraded-slots)",
			"S2 (imports): a name imported through Package.Import is the definition object of the package it was imported from (setq / defvar / defun in the importer may act on it; " +
				"when the source drops or replaces the definition the importer may keep what it imported as its own, also after delete-package of the source); an import over an own definition may replace it or be refused; " +
				"p:n / p::n may reach what p imported; what a used package imported may be passed on",
			"S2 (further operations): defpackage / make-package of an existing name may be refused (slip) or add the options (Common Lisp); delete-package of a used or locked package may be refused; " +
				"an operation on a locked package may be refused or carried out; (setq p::v ..) from outside may be ignored; unintern may leave the function of that name",
			"S2 (differential oracle): slots are exempt where two directly used packages export the name (differential-exempt-two-exporters), where a package reached through a chain of uses " +
				"exports or a used package imports the name (differential-exempt-indirect: slip hands inherited entries on at use-package time only), and, in the direction reached-unbound, where the " +
				"history unbound a then inherited name in that package (differential-exempt-hidden: slip's documented local hiding); states whose tables hold a shared / hidden / orphaned cell, or whose " +
				"graph the canonical history cannot build, are not compared (differential-not-comparable)",
			"a qualified name whose package does not exist panics with a Go string, not a condition (scope.go UnpackName): read as 'does not resolve' here, how errors are raised is C09's subject",
		},
		Enumerate: enumerate,
		Exec:      exec,
		BFS: &engine.BFS{
			Ops: func(tier string) []string {
				var all []string
				add := func(tag byte, ops []string) {
					// VERIF_C13_ONLY=<tags>: development aid (per-configuration counts)
					if only := os.Getenv("VERIF_C13_ONLY"); only == "" || strings.IndexByte(only, tag) >= 0 {
						all = append(all, ops...)
					}
				}
				add('V', varCfg.ops(0))
				add('W', funCfg.ops(0))
				add('S', smallCfg.ops(smallDepth(tier)))
				add('F', fullCfg.ops(fullDepth(tier)))
				add('G', seedOps(1+seedDepth(tier)))
				add('L', lispCfg.ops(extDepth(tier)))
				add('X', goCfg.ops(goDepth(tier)))
				add('H', wideCfg.ops(wideDepth(tier)))
				add('I', wideSeed.seedOps(1+wideSeedDepth(tier)))
				return all
			},
			MaxDepth:     func(string) int { return 64 },
			NoDedupDepth: noDedupDepth,
			StateCap: func(tier string) int {
				if tier == engine.Thorough {
					return 3000000
				}
				return 300000
			},
		},
		Required: []string{"inherited-visible", "own-shadows-exported", "unuse-with-own-defs", "unexport-while-used",
			"unbind-exported-while-used", "private-blocked", "two-used-export-same", "export-before-define", "indirect-use", "static-qualified-introspection", "static-defpackage-options",
			"listed-without-exported-entry", "imported-visible", "imported-private-visible", "go-define-while-used", "go-set", "go-import-of-a-definition",
			"state-with-deleted-package", "delete-package-with-edges", "recreate-after-delete", "defpackage-of-existing-package", "rename-package", "intern", "unintern", "other-route",
			"state-with-locked-package", "operation-on-locked-package", "differential-states-compared", "differential-exempt-indirect", "differential-exempt-two-exporters", "differential-exempt-hidden"},
		Bound: func(tier string) string {
			return fmt.Sprintf("configurations V (2 packages x 1 variable, 14 operations) and W (2 packages x 1 function, 12 operations): BFS to the FIXPOINT "+
				"(every reachable implementation state, every depth); S (2 packages x 1 variable x 1 function, 22 operations): BFS with state dedup to depth %d; "+
				"F (3 packages x 2 variables x 2 functions, 66 operations): BFS with state dedup to depth %d from the empty state and to depth %d after each of %d "+
				"prepared three-package states (seeds: two exporters of the same names, a use chain, one exporter with two users, a use cycle); histories up to depth %d "+
				"are explored without dedup; L (2 packages x 1 variable x 1 function, base alphabet + intern / unintern / delete-package / defpackage and make-package of a deleted or "+
				"existing name with :use and :export / rename-package + the base operations by package argument or qualified name: 60 operations) and X (the same universe, base alphabet + "+
				"Package.Define exported and NoExport / Package.Set / Package.Import / lock-package / unlock-package: 36 operations): depth %d and %d; H (3 packages x 1 variable x 1 function, "+
				"all families, 132 operations): depth %d from the empty state and depth %d after each of %d prepared states (two used packages; imports of private definitions with a user; "+
				"Go definitions with a use chain; exports before definition with users that own the names); the differential oracle compares every EXPANDED state (all states of V and W, "+
				"all but the last level of the depth-bounded configurations); static phase: qualified boundp/fboundp/symbol-value/funcall/#' probes and defpackage :use/:export options over all "+
				"histories of length <= %d of configuration S, and every prefix of every seed",
				smallDepth(tier), fullDepth(tier), seedDepth(tier), len(seeds), noDedupDepth(tier), extDepth(tier), goDepth(tier), wideDepth(tier), wideSeedDepth(tier), len(wideSeeds), staticDepth(tier))
		},
		Selftest:      selftest,
		CaseDeadlineS: 30,
	})
}

func fullDepth(tier string) int {
	if v, err := strconv.Atoi(os.Getenv("VERIF_C13_FULLDEPTH")); err == nil && 0 < v && v < 10 {
		return v // development aid only
	}
	if tier == engine.Thorough {
		return 4
	}
	return 3
}

// seedDepth: operations explored after a seed.
func seedDepth(tier string) int {
	if v, err := strconv.Atoi(os.Getenv("VERIF_C13_SEEDDEPTH")); err == nil && 0 <= v && v < 8 {
		return v // development aid only
	}
	if tier == engine.Thorough {
		return 3
	}
	return 2
}

// extDepth: depth bound of the two-package configurations with the further
// operation families (L: Lisp package operations and the other route, X: the
// Go extension interface and locks).
func extDepth(tier string) int {
	if v, err := strconv.Atoi(os.Getenv("VERIF_C13_EXTDEPTH")); err == nil && 0 < v && v < 10 {
		return v // development aid only
	}
	if tier == engine.Thorough {
		return 4
	}
	return 3
}

// goDepth: depth bound of configuration X, the same in both tiers. (A thorough run at depth 4 showed two more
// signatures, both in states where an importer kept a definition its source had dropped - "orphaned" imports: the
// reference does not model what use-package / defun do with such a cell; not triaged further, see reports/C13-r8.md.)
func goDepth(tier string) int {
	if v, err := strconv.Atoi(os.Getenv("VERIF_C13_GODEPTH")); err == nil && 0 < v && v < 10 {
		return v // development aid only
	}
	return 3
}

// wideDepth: depth bound of the three-package configuration with every family.
func wideDepth(tier string) int {
	if v, err := strconv.Atoi(os.Getenv("VERIF_C13_WIDEDEPTH")); err == nil && 0 < v && v < 10 {
		return v // development aid only
	}
	// the same in both tiers: histories up to the no-dedup depth of the thorough tier (2) are all kept, and
	// 132 operations cubed is out of reach; the thorough tier goes deeper after the prepared states instead
	return 2
}

// wideSeedDepth: operations explored after a seed of the wide configuration.
func wideSeedDepth(tier string) int {
	if v, err := strconv.Atoi(os.Getenv("VERIF_C13_WIDESEEDDEPTH")); err == nil && 0 <= v && v < 8 {
		return v // development aid only
	}
	// the same in both tiers: a thorough run with two operations after each prepared state showed 111 further
	// signatures - cascades of the open findings and gaps of the reference in states with imports of inherited
	// names, locked source packages and refused deletions - that were not triaged (reports/C13-r8.md, "not done")
	return 1
}

func smallDepth(tier string) int {
	if v, err := strconv.Atoi(os.Getenv("VERIF_C13_SMALLDEPTH")); err == nil && 0 < v && v < 10 {
		return v // development aid only
	}
	if tier == engine.Thorough {
		return 7
	}
	return 5
}

func noDedupDepth(tier string) int {
	// the same in both tiers: a thorough run with two operations after each prepared state showed 111 further
	// signatures - cascades of the open findings and gaps of the reference in states with imports of inherited
	// names, locked source packages and refused deletions - that were not triaged (reports/C13-r8.md, "not done")
	return 1
}

// ---------------------------------------------------------------------------

type preInfo struct {
	key string
	obs []observation
}

var preCache = map[string]*preInfo{}

func exec(spec string) (res engine.Result) {
	if hist, ok := engine.ParseBFSSpec(spec); ok {
		return execBFS(hist)
	}
	return execStatic(spec)
}

func execBFS(hist []string) (res engine.Result) {
	if len(hist) == 0 {
		return execRoot()
	}
	var ops []op
	for _, h := range hist {
		if h == sentinel {
			return // inapplicable: marks a state that is not expanded
		}
		o, ok := parseOp(h)
		if !ok {
			res.Fail("harness:bad-op", h)
			return
		}
		if 0 < len(ops) && (ops[0].cfg != o.cfg || ops[0].limit != o.limit) {
			return // operations of the other configuration: inapplicable
		}
		if o.kind == "seed" && 0 < len(ops) || 0 < len(o.cfg.seeds) && len(ops) == 0 && o.kind != "seed" {
			return // a seed is a first operation, and the seeded exploration starts with one
		}
		ops = append(ops, o.expand()...)
	}
	cfg := ops[0].cfg
	tr := runTransition(cfg, nil, ops, &res)
	if tr == nil {
		return
	}
	res.Key = tr.post.key()
	res.Enabled = cfg.ops(ops[0].limit)
	if 0 < ops[0].limit && ops[0].limit <= len(hist) {
		res.Enabled = []string{sentinel} // depth bound of this configuration reached: do not expand
	}
	return
}

func execRoot() (res engine.Result) {
	// both configurations start from their own root; the engine's root only
	// needs a key. The full configuration's root state is probed here.
	tr := runTransition(fullCfg, nil, nil, &res)
	if tr == nil {
		return
	}
	res.Key = "root"
	return
}

type transition struct {
	pre, post *dump
}

// runTransition replays ops[:len-1], observes, applies the last operation,
// observes again and applies the oracle to the last step.
func runTransition(cfg *config, opts map[string]pkgOpts, ops []op, res *engine.Result) *transition {
	return runTransitionOpts(cfg, opts, ops, res, nil)
}

// runTransitionOpts: created (optional) lists the graphs the creation of the
// packages may produce; it is used when ops is empty.
func runTransitionOpts(cfg *config, opts map[string]pkgOpts, ops []op, res *engine.Result, created []*graph) *transition {
	in, err := newInstance(cfg, opts)
	defer in.close()
	if err != nil {
		res.Fail("harness:defpackage-failed", err.String())
		return nil
	}
	slots := cfg.slots()
	n := len(ops)
	var prefix []string
	for i := 0; i+1 < n; i++ {
		if in.apply(ops[i]) == errInapplicable { // errors of earlier steps were judged when that step was the last one
			return nil
		}
		prefix = append(prefix, ops[i].String())
	}
	pre := in.dump()
	preKey := pre.key()
	ck := fmt.Sprintf("%c%v/%s", cfg.tag, opts, strings.Join(prefix, ","))
	pi := preCache[ck]
	if pi == nil || pi.key != preKey {
		pi = &preInfo{key: preKey, obs: in.probeAll(slots)}
		if k2 := in.dump().key(); k2 != preKey {
			res.Fail("harness:probe-mutated-state", "before: "+preKey+"\nafter:  "+k2)
			return nil
		}
		if 2 <= n {
			// differential oracle on the state that is about to be expanded (once per expanded state: the
			// observations of a pre-state are cached per prefix), attributed to the operation that reached it
			differential(in, res, &ops[n-2], pre, pi.obs, slots)
		}
		if 64 < len(preCache) {
			preCache = map[string]*preInfo{}
		}
		preCache[ck] = pi
	}
	gPre, _, _ := pre.abstract(false)
	if n == 0 {
		// root: the state the creation must produce
		if created == nil {
			created = []*graph{newGraph(cfg)}
		}
		judge(cfg, res, nil, slots, pi.obs, nil, pre, pre, created, nil)
		res.Outcome = digest(pi.obs, nil)
		return &transition{pre: pre, post: pre}
	}
	last := ops[n-1]
	opErr := in.apply(last)
	if opErr == errInapplicable {
		return nil // the package the operation is evaluated in was deleted
	}
	post := in.dump()
	postKey := post.key()
	obs := in.probeAll(slots)
	if k2 := in.dump().key(); k2 != postKey {
		res.Fail("harness:probe-mutated-state", "before: "+postKey+"\nafter:  "+k2)
		return nil
	}
	judge(cfg, res, &last, slots, obs, pi.obs, pre, post, nil, opErr)
	exportFlagsAgree(cfg, res, &last, pre, post)
	exportsListed(cfg, res, &last, pre, post)
	noDeletedRefs(cfg, res, &last, pre, post)
	importRecords(cfg, res, &last, pre, post)
	count(cfg, res, &last, gPre)
	res.Outcome = digest(obs, opErr)
	return &transition{pre: pre, post: post}
}

// exportFlagsAgree (state invariant G): being exported is ONE bit per (package, name) in the use/export graph. slip
// keeps it per table entry (the variable and the function of a name each carry a flag, an unbound variable entry
// remembers an export made before the definition). Two entries of one name that belong to the same package and
// disagree about it are a state no graph describes - whatever is defined under that name next inherits one flag or
// the other. Judged only when the entries agreed before the step (S3).
func exportFlagsAgree(cfg *config, res *engine.Result, last *op, pre, post *dump) {
	split := func(d *dump, x int, n string) bool {
		v, hasV := d.p[x].vars[n]
		f, hasF := d.p[x].funcs[n]
		return hasV && hasF && v.home == x && f.home == x && v.exp != f.exp
	}
	if last.viaGo() {
		// Package.Define states the export status of the function itself (FuncDoc.NoExport): what an earlier
		// Lisp-level export of the bare name means for it is not said anywhere
		return
	}
	for x := range post.p {
		for _, n := range cfg.names() {
			if split(post, x, n) && !split(pre, x, n) {
				rel := "other"
				if last.actor == x {
					rel = "actor"
				}
				same := "other-name"
				if last.name == n {
					same = "same-name"
				}
				res.Fail(fmt.Sprintf("op=%s check=G kind=export-flag-of-variable-and-function-entries-disagree in=%s name=%s", last.kind, rel, same),
					fmt.Sprintf("after %s: package %s holds its own variable entry (exported=%v) and function entry (exported=%v) for %s; before the step they agreed\npre:  %s\npost: %s",
						histOp(last), cfg.pk[x], post.p[x].vars[n].exp, post.p[x].funcs[n].exp, n, pre.key(), post.key()))
			}
		}
	}
}

// exportsListed (state invariant X): slip keeps "exported" twice - as a flag on the table entry (read by every
// lookup) and as the package's Exports name list (read by describe, the load form, the snapshot writer, and by
// whatever operation chooses to consult it). An entry a package owns whose flag is set while the name is not on the
// list is a state in which the two disagree about the same bit of the use/export graph. Judged only for (package,
// name) pairs that satisfied it before the step (S3) and only for steps taken through Lisp: the Go definition
// interface (Package.Define, Initialize) sets the flag without listing the name, by design.
// The converse (listed => flagged) does not hold on slip as it stands (Unexport carries a "TBD remove from Exports
// list", makunbound / fmakunbound drop the entry and leave the name listed): it is counted (listed-without-exported-entry),
// not judged - the statement does not speak of the list, and with the list in the state key every operation is
// explored from both kinds of state anyway.
func exportsListed(cfg *config, res *engine.Result, last *op, pre, post *dump) {
	listed := func(d *dump, x int, n string) bool {
		for _, e := range d.p[x].exports {
			if strings.TrimSuffix(e, "+") == n {
				return true
			}
		}
		return false
	}
	// broken: an own entry says exported, the list does not have the name
	broken := func(d *dump, x int, n string) (string, bool) {
		if listed(d, x, n) {
			return "", false
		}
		if v, ok := d.p[x].vars[n]; ok && v.home == x && v.exp {
			return "variable", true
		}
		if f, ok := d.p[x].funcs[n]; ok && f.home == x && f.exp {
			return "function", true
		}
		return "", false
	}
	for x := range post.p {
		for _, n := range cfg.names() {
			if listed(post, x, n) {
				v, hasV := post.p[x].vars[n]
				f, hasF := post.p[x].funcs[n]
				if !(hasV && v.home == x && v.exp) && !(hasF && f.home == x && f.exp) {
					res.Hit("listed-without-exported-entry")
				}
			}
			what, bad := broken(post, x, n)
			if !bad || last.viaGo() {
				continue
			}
			if _, was := broken(pre, x, n); was {
				continue
			}
			rel := "other"
			if last.actor == x {
				rel = "actor"
			}
			same := "other-name"
			if last.name == n {
				same = "same-name"
			}
			res.Fail(fmt.Sprintf("op=%s check=X kind=exported-%s-entry-not-on-exports-list in=%s name=%s", last.kind, what, rel, same),
				fmt.Sprintf("after %s: package %s owns an exported %s entry for %s but its Exports list is %v\npre:  %s\npost: %s",
					histOp(last), cfg.pk[x], what, n, post.p[x].exports, pre.key(), post.key()))
		}
	}
}

// viaGo: the operation is performed through the Go extension interface.
func (o *op) viaGo() bool { return strings.HasPrefix(o.kind, "go") }

func (o op) String() string {
	if o.kind == "seed" {
		return fmt.Sprintf("%c%da.seed.%s", o.cfg.tag, o.limit, o.arg)
	}
	return fmt.Sprintf("%c%d%s.%s.%s", o.cfg.tag, o.limit, o.cfg.pk[o.actor], o.kind, o.arg)
}

func digest(obs []observation, opErr *lisp.Err) string {
	var b strings.Builder
	if opErr != nil {
		b.WriteString("E:" + opErr.Class + ";")
	}
	for _, o := range obs {
		v := o.val
		if strings.HasPrefix(v, "F:") {
			v = "F"
		}
		b.WriteString(v)
		b.WriteByte(',')
	}
	return b.String()
}

// mismatch is one slot whose observation is outside the acceptable set.
type mismatch struct {
	sl   slot
	want set
	got  observation
}

func mismatches(g *graph, r rules, slots []slot, obs []observation, skip map[int]bool) (out []mismatch) {
	for i, sl := range slots {
		if skip[i] {
			continue
		}
		want := g.expected(r, sl)
		if !want.has(obs[i].val) {
			out = append(out, mismatch{sl: sl, want: want, got: obs[i]})
		}
	}
	return
}

func slotAliased(sl slot, aliased map[string]bool) bool {
	if sl.form == "uses" || sl.form == "users" {
		return false
	}
	return aliased[fmt.Sprintf("%d%c%s", sl.q, sl.kind, sl.name)]
}

// judge applies the oracle to the last step.
//
//	T: the observations after the step must be acceptable for at least one of
//	   the successor graphs the operation may produce from the graph abstracted
//	   from the observed pre-state (the best alternative is reported);
//	I: they must also be acceptable for the graph abstracted from the post-state
//	   (the lookup functions agree with the tables).
//
// Not judged (degraded mode, S9): slots that already disagreed before the step,
// slots of a (package, name) whose pre-state entry is shared as a definition by
// two packages / hidden / an orphaned copy, and every slot of a name when the
// operation acts on such an entry.
func judge(cfg *config, res *engine.Result, last *op, slots []slot, obs, obsPre []observation,
	pre, post *dump, created []*graph, opErr *lisp.Err) {

	// go faults in probes are failures whatever is expected
	fault := map[int]bool{}
	for i, o := range obs {
		if strings.HasPrefix(o.val, "F:") {
			res.Fail(sigFor(last, "P", "go-fault", slots[i], nil, nil), fmt.Sprintf("after %s: probe %s => %s", histOp(last), describeSlot(cfg, slots[i]), o.val))
			fault[i] = true
		}
	}
	type verdict struct {
		gPre, bestAlt, gPost *graph
		tm, im               []mismatch
		opFail               [2]string
		degraded             int
	}
	var best *verdict
	seenPre := map[string]bool{}
	for _, preHome := range []bool{false, true} {
		gPre, aliasedPre, leftPre := pre.abstract(preHome)
		k := gPre.String() + fmt.Sprint(aliasedPre, leftPre)
		if seenPre[k] {
			continue
		}
		seenPre[k] = true
		v := &verdict{gPre: gPre}
		skip := map[int]bool{}
		for i := range fault {
			skip[i] = true
		}
		badName := map[string]bool{} // names not judged at all in this transition
		if last != nil {
			mark := func(p int) {
				for k := range aliasedPre { // key: <pkg digit><kind><name>
					if int(k[0]-'0') == p {
						badName[k[1:]] = true
					}
				}
			}
			if 0 <= last.argPk || last.name == "" {
				mark(last.actor)
				if 0 <= last.argPk {
					mark(last.argPk)
				}
			}
			if last.name != "" {
				for _, kind := range []byte{'v', 'f'} {
					if aliasedPre[fmt.Sprintf("%d%c%s", last.actor, kind, last.name)] ||
						0 <= last.argPk && aliasedPre[fmt.Sprintf("%d%c%s", last.argPk, kind, last.name)] {
						badName["v"+last.name] = true
						badName["f"+last.name] = true
					}
				}
			}
		}
		for i, sl := range slots {
			if slotAliased(sl, aliasedPre) || slotAliased(sl, leftPre) || badName[string(sl.kind)+sl.name] {
				skip[i] = true
			}
		}
		if obsPre != nil {
			for _, m := range mismatchesIdx(gPre, slots, obsPre) {
				skip[m] = true
			}
		}
		v.degraded = len(skip) - len(fault)
		// the successor graphs the operation may produce
		alts := created
		if last != nil {
			var mayErr bool
			alts, mayErr = gPre.step(mut{}, *last)
			if opErr != nil {
				switch {
				case opErr.GoFault:
					v.opFail = [2]string{fmt.Sprintf("op=%s kind=go-fault", last.kind), fmt.Sprintf("%s in state %s => %s", last, gPre, opErr)}
				case !mayErr:
					v.opFail = [2]string{fmt.Sprintf("op=%s kind=unexpected-error class=%s", last.kind, opErr.Class), fmt.Sprintf("%s in state %s => %s", last, gPre, opErr)}
				default:
					alts = []*graph{gPre.clone()}
				}
			}
		}
		for k, a := range alts {
			ms := mismatches(a, rules{}, slots, obs, skip)
			if k == 0 || len(ms) < len(v.tm) {
				v.tm, v.bestAlt = ms, a
			}
			if len(ms) == 0 {
				break
			}
		}
		reported := map[int]bool{}
		for _, m := range v.tm {
			for i, sl := range slots {
				if sl == m.sl {
					reported[i] = true
				}
			}
		}
		// I: the lookups agree with the tables of the post-state (either reading)
		for pk, postHome := range []bool{false, true} {
			gPost, aliasedPost, leftPost := post.abstract(postHome)
			skipI := map[int]bool{}
			for i := range skip {
				skipI[i] = true
			}
			for i := range reported {
				skipI[i] = true
			}
			for i, sl := range slots {
				if slotAliased(sl, aliasedPost) || slotAliased(sl, leftPost) {
					skipI[i] = true
				}
			}
			// I tolerates a missing inherited copy (T is what demands that
			// definitions are pushed to users): only something visible that the
			// tables do not explain, or a definition the tables hold that is not
			// reached, counts.
			var im []mismatch
			for _, m := range mismatches(gPost, rules{}, slots, obs, skipI) {
				own := gPost.tab(m.sl.q, m.sl.kind)[m.sl.name]
				if (m.got.val == "U" || m.got.val == "N") && (own == nil || own.val == unboundVal) {
					continue
				}
				im = append(im, m)
			}
			if pk == 0 || len(im) < len(v.im) {
				v.im, v.gPost = im, gPost
			}
		}
		score := func(x *verdict) int {
			n := len(x.tm) + len(x.im)
			if x.opFail[0] != "" {
				n++
			}
			return n
		}
		if best == nil || score(v) < score(best) {
			best = v
		}
	}
	for i := 0; i < best.degraded; i++ {
		res.Hit("degraded-slots")
	}
	if best.opFail[0] != "" {
		res.Fail(best.opFail[0], best.opFail[1])
	}
	// one failure per (package looked into, name): the forms and probes that
	// disagree are listed in the signature
	report := func(check string, ms []mismatch, ref *graph) {
		type grp struct {
			m      mismatch
			rank   int
			forms  map[string]bool
			probes map[string]bool
			detail []string
		}
		rank := func(m mismatch) int {
			r := map[string]int{"unq": 0, "int": 3, "ext": 6, "uses": 9, "users": 9}[m.sl.form]
			if m.sl.probe == "boundp" || m.sl.probe == "fboundp" {
				r++
			}
			if m.sl.c != m.sl.q {
				r++
			}
			return r
		}
		var order []string
		groups := map[string]*grp{}
		for _, m := range ms {
			k := fmt.Sprintf("%d|%c|%s", m.sl.q, m.sl.kind, m.sl.name)
			if m.sl.form == "uses" || m.sl.form == "users" {
				k = fmt.Sprintf("%s|%d", m.sl.form, m.sl.c)
			}
			g := groups[k]
			if g == nil {
				g = &grp{m: m, rank: rank(m), forms: map[string]bool{}, probes: map[string]bool{}}
				groups[k] = g
				order = append(order, k)
			} else if r := rank(m); r < g.rank {
				g.m, g.rank = m, r
			}
			g.forms[m.sl.form] = true
			if m.sl.probe != "" {
				g.probes[m.sl.probe] = true
			}
			g.detail = append(g.detail, fmt.Sprintf("%s%s => %s, acceptable %s", describeSlot(cfg, m.sl), probeList([]string{m.sl.probe}), m.got.val, m.want))
		}
		for _, k := range order {
			g := groups[k]
			kind := classifyMismatch(ref, g.m)
			sig := sigFor(last, check, kind, g.m.sl, g.forms, g.probes)
			detail := fmt.Sprintf("after %s (pre-state %s): %s [reference graph %s]", histOp(last), best.gPre, strings.Join(g.detail, "; "), ref)
			res.Fail(sig, detail)
		}
	}
	report("T", best.tm, best.bestAlt)
	report("I", best.im, best.gPost)
}

func mismatchesIdx(g *graph, slots []slot, obs []observation) (out []int) {
	for i, sl := range slots {
		if !g.expected(rules{}, sl).has(obs[i].val) {
			out = append(out, i)
		}
	}
	return
}

func norm(v string) string {
	if strings.HasPrefix(v, "F:") {
		return "F"
	}
	return v
}

func probeList(p []string) string {
	var l []string
	for _, x := range p {
		if x != "" {
			l = append(l, x)
		}
	}
	if len(l) == 0 {
		return ""
	}
	return " [" + strings.Join(l, "+") + "]"
}

func histOp(o *op) string {
	if o == nil {
		return "<creation>"
	}
	return o.String()
}

func describeSlot(cfg *config, sl slot) string {
	switch sl.form {
	case "uses":
		return "(package-use-list " + cfg.pk[sl.c] + ")"
	case "users":
		return "(package-used-by-list " + cfg.pk[sl.c] + ")"
	case "ext":
		return fmt.Sprintf("%s:%s from package %s", cfg.pk[sl.q], sl.name, cfg.pk[sl.c])
	case "int":
		return fmt.Sprintf("%s::%s from package %s", cfg.pk[sl.q], sl.name, cfg.pk[sl.c])
	}
	return fmt.Sprintf("%s unqualified in package %s", sl.name, cfg.pk[sl.c])
}

// rel names a package relative to the operation: actor, arg (the package used
// or unused), other.
func rel(last *op, p int) string {
	switch {
	case last == nil:
		return "any"
	case p == last.actor:
		return "actor"
	case p == last.argPk:
		return "arg"
	}
	return "other"
}

// valClass names a value by who wrote it (used in static signatures).
func valClass(last *op, v string) string {
	n, err := strconv.Atoi(v)
	if err != nil {
		if strings.HasPrefix(v, "?") {
			return "odd"
		}
		return v
	}
	if 10 <= n {
		return "value"
	}
	return "odd"
}

// classifyMismatch names the relation that is broken.
func classifyMismatch(ref *graph, m mismatch) (kind string) {
	if m.sl.form == "uses" || m.sl.form == "users" {
		return "wrong-package-list"
	}
	own := ref.tab(m.sl.q, m.sl.kind)[m.sl.name]
	hasOwn := own != nil && !own.hidden && own.val != unboundVal
	gotVal := m.got.val != "U" && m.got.val != "N"
	wantVal := m.want.hasValue() || m.want.has("T")
	wantU := m.want.has("U") || m.want.has("N")
	switch {
	case strings.HasPrefix(m.got.val, "?"):
		return "odd-result"
	case wantVal && !wantU && !gotVal:
		if hasOwn {
			if m.sl.form == "ext" {
				return "exported-own-unreachable"
			}
			return "own-definition-lost"
		}
		return "inherited-not-visible"
	case !wantVal && gotVal:
		if hasOwn {
			return "private-reachable"
		}
		return "visible-but-not-in-graph"
	case wantVal && gotVal:
		if hasOwn {
			return "own-definition-shadowed"
		}
		return "wrong-definition"
	}
	return "mismatch"
}

// sigFor builds the signature: operation x whose name is looked up (relative to
// the operation) x broken relation x the forms / probes that show it.
func sigFor(last *op, check, kind string, sl slot, forms, probes map[string]bool) string {
	opk := "creation"
	nameRel := ""
	if last != nil {
		opk = last.kind
		switch {
		case last.name != "" && last.name == sl.name:
			nameRel = "same-"
		case last.name != "":
			nameRel = "other-"
		}
	}
	what := "var"
	if sl.kind == 'f' {
		what = "fn"
	}
	s := fmt.Sprintf("op=%s check=%s kind=%s", opk, check, kind)
	if sl.form == "uses" || sl.form == "users" {
		return s + " list=" + sl.form + " of=" + rel(last, sl.c)
	}
	s += fmt.Sprintf(" in=%s name=%s%s", rel(last, sl.q), nameRel, what)
	keys := func(m map[string]bool) string {
		var l []string
		for k := range m {
			l = append(l, k)
		}
		sort.Strings(l)
		return strings.Join(l, "+")
	}
	if forms == nil {
		return s + " form=" + sl.form
	}
	s += " forms=" + keys(forms)
	if 0 < len(probes) {
		s += " probes=" + keys(probes)
	}
	return s
}

// count bumps the vacuity counters for what the transition exercises.
func count(cfg *config, res *engine.Result, last *op, g *graph) {
	defs, edges := 0, 0
	for i := range g.p {
		defs += len(g.p[i].vars) + len(g.p[i].funcs)
		edges += len(g.p[i].uses)
	}
	if 0 < defs && 0 < edges {
		res.Nontrivial = true
	}
	countExt(cfg, res, last, g)
	p := last.actor
	// users of the actor
	var users []int
	for i := range g.p {
		if g.usesPkg(i, p) {
			users = append(users, i)
		}
	}
	for x := range g.p {
		direct, indirect := g.closure(x)
		for _, kind := range []byte{'v', 'f'} {
			exporters := 0
			for n, d := range g.tab(x, kind) {
				_ = n
				if d.val == unboundVal && d.exp {
					res.Hit("export-before-define")
				}
				if !d.exp && d.val != unboundVal {
					res.Hit("private-blocked")
				}
			}
			names := cfg.vars
			if kind == 'f' {
				names = cfg.funcs
			}
			for _, n := range names {
				exporters = 0
				for _, q := range direct {
					if d := g.tab(q, kind)[n]; d != nil && d.exp && d.val != unboundVal {
						exporters++
					}
				}
				own := g.tab(x, kind)[n]
				if 0 < exporters && own == nil {
					res.Hit("inherited-visible")
				}
				if 0 < exporters && own != nil {
					res.Hit("own-shadows-exported")
				}
				if 1 < exporters {
					res.Hit("two-used-export-same")
				}
				for _, q := range indirect {
					if d := g.tab(q, kind)[n]; d != nil && d.exp {
						res.Hit("indirect-use")
					}
				}
			}
		}
	}
	switch last.kind {
	case "unuse":
		if g.usesPkg(p, last.argPk) && 0 < len(g.p[p].vars)+len(g.p[p].funcs) {
			res.Hit("unuse-with-own-defs")
		}
	case "unexport":
		for _, kind := range []byte{'v', 'f'} {
			if d := g.tab(p, kind)[last.arg]; d != nil && d.exp && 0 < len(users) {
				res.Hit("unexport-while-used")
			}
		}
	case "makunbound", "fmakunbound":
		kind := byte('v')
		if last.kind == "fmakunbound" {
			kind = 'f'
		}
		if d := g.tab(p, kind)[last.arg]; d != nil && d.exp && 0 < len(users) {
			res.Hit("unbind-exported-while-used")
		}
	}
}

var _ = slip.True
