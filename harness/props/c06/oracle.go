package c06

import (
	"crypto/sha256"
	"encoding/hex"
	"fmt"
	"os"
	"sort"
	"strconv"
	"strings"

	"verif/engine"
)

// sliceInfo is the Go-level identity of one slice-backed list.
type sliceInfo struct {
	ptr      uintptr // address of element 0
	len, cap int
	esize    uintptr // element size in bytes
}

func (s sliceInfo) lo() uintptr { return s.ptr }
func (s sliceInfo) hi() uintptr { return s.ptr + uintptr(s.cap)*s.esize } // end of the capacity

// segment is one slice of the (possibly Tail-chained) representation.
type segment struct {
	si    sliceInfo
	elems []int64
}

// obsVar is what is observed of one variable after a step.
type obsVar struct {
	elems   []int64   // flattened contents (a trailing Tail{List} is spliced in)
	bad     string    // non-empty: representation outside the model (non-list, non-fixnum element, dotted, Tail{nil})
	segs    []segment // Go-level shape (empty for models without slices)
	present bool      // the variable holds a list object (possibly of length 0) rather than nil
}

func (o *obsVar) empty() bool { return len(o.elems) == 0 }

func sameElems(a, b []int64) bool {
	if len(a) != len(b) {
		return false
	}
	for i := range a {
		if a[i] != b[i] {
			return false
		}
	}
	return true
}

func showElems(e []int64) string {
	if len(e) == 0 {
		return "nil"
	}
	var b strings.Builder
	b.WriteByte('(')
	for i, x := range e {
		if 0 < i {
			b.WriteByte(' ')
		}
		b.WriteString(strconv.FormatInt(x, 10))
	}
	b.WriteByte(')')
	return b.String()
}

func showObs(o *obsVar) string {
	if o.bad != "" {
		return "<" + o.bad + ">"
	}
	return showElems(o.elems)
}

func showState(st *state) string {
	out := fmt.Sprintf("a=%s b=%s c=%s", showObs(&st[0]), showObs(&st[1]), showObs(&st[2]))
	for i := 3; i < nLoc; i++ {
		if st[i].present || st[i].bad != "" {
			out += " " + varNames[i] + "=" + showObs(&st[i])
		}
	}
	return out
}

// overlap: do the capacity ranges of any two slices of x and y intersect?
func overlap(x, y *obsVar) bool {
	for _, sx := range x.segs {
		if sx.si.cap == 0 {
			continue
		}
		for _, sy := range y.segs {
			if sy.si.cap == 0 {
				continue
			}
			if sx.si.lo() < sy.si.hi() && sy.si.lo() < sx.si.hi() {
				return true
			}
		}
	}
	return false
}

// execErr is an error raised by the implementation while executing an op.
type execErr struct {
	class   string
	msg     string
	goFault bool
}

// impl is an implementation of the three-variable list machine: the real
// slip, the cons-cell reference, or a (mutated) slice model.
type impl interface {
	reset(hist []*opDef)
	exec(o *opDef, n int64) *execErr
	observe() state
}

// track is the model-side bookkeeping carried along a history.
type track struct {
	cls     [nLoc]int         // sharing class by the language rules (0: empty list, shares with nothing)
	nextCls int               // next fresh class id
	origin  map[[2]int]string // var pair -> family that created a physical alias the language rules do not allow
}

func newTrack() *track { return &track{cls: [nLoc]int{1}, nextCls: 2, origin: map[[2]int]string{}} }

func pair(i, j int) [2]int {
	if j < i {
		i, j = j, i
	}
	return [2]int{i, j}
}

func sameClass(t *track, i, j int) bool { return t.cls[i] != 0 && t.cls[i] == t.cls[j] }

// applicable decides, from the OBSERVED pre-state, whether op has a defined
// outcome in the reference semantics.
func applicable(o *opDef, pre *state, t *track) bool {
	for _, v := range []int{o.s, o.t} {
		if 0 <= v && pre[v].bad != "" {
			return false
		}
	}
	if 0 <= o.s && len(pre[o.s].elems) < o.minS {
		return false
	}
	if o.needT && pre[o.t].empty() {
		return false
	}
	if 0 <= o.t && len(pre[o.t].elems) < o.minT {
		return false
	}
	if o.okS != nil && 0 <= o.s && !o.okS(pre[o.s].elems) {
		return false
	}
	if o.okST != nil && 0 <= o.s && 0 <= o.t && !o.okST(pre[o.s].elems, pre[o.t].elems) {
		return false
	}
	if o.anyST && pre[o.s].empty() && pre[o.t].empty() {
		return false
	}
	if o.distinct && (o.s == o.t || sameClass(t, o.s, o.t)) {
		return false // would build a circular list in a cons-cell Lisp
	}
	return true
}

func freshNumber(pre *state) int64 {
	n := int64(4)
	for i := range pre {
		for _, e := range pre[i].elems {
			if n < e {
				n = e
			}
		}
	}
	return n + 1
}

// advance updates classes and alias origins after op was executed.
func (t *track) advance(o *opDef, pre, post *state) {
	old := *t
	oldOrigin := t.origin
	_ = pre
	fresh := func() int { t.nextCls++; return t.nextCls - 1 }
	var res int
	switch o.share {
	case shareNone:
		res = fresh()
	case shareS:
		if res = old.cls[o.s]; res == 0 {
			res = fresh()
		}
	case shareT:
		if res = old.cls[o.t]; res == 0 {
			res = fresh()
		}
	case shareMerge:
		cs, ct := old.cls[o.s], old.cls[o.t]
		switch {
		case cs == 0 && ct == 0:
			res = fresh()
		case cs == 0:
			res = ct
		case ct == 0:
			res = cs
		default:
			res = cs
			for i := range t.cls {
				if t.cls[i] == ct {
					t.cls[i] = cs
				}
			}
		}
	}
	if 0 <= o.dst {
		if post[o.dst].empty() {
			t.cls[o.dst] = 0
		} else {
			t.cls[o.dst] = res
		}
	}
	// physical aliases that the language rules do not allow: remember which family created them
	t.origin = map[[2]int]string{}
	for i := 0; i < nLoc; i++ {
		for j := i + 1; j < nLoc; j++ {
			if sameClass(t, i, j) || !overlap(&post[i], &post[j]) {
				continue
			}
			p := pair(i, j)
			if from, has := oldOrigin[p]; has && o.dst != i && o.dst != j {
				t.origin[p] = from
				continue
			}
			// a pair with the assigned variable inherits the origin of (operand, other): the result is derived from the operand
			inherited := ""
			if o.dst == i || o.dst == j {
				other := i + j - o.dst
				for _, src := range []int{o.s, o.t} {
					if 0 <= src && src != other {
						if from, has := oldOrigin[pair(src, other)]; has {
							inherited = from
						}
					}
				}
			}
			if inherited != "" {
				t.origin[p] = inherited
			} else {
				t.origin[p] = o.fn
			}
		}
	}
}

func (t *track) canon() string {
	ren := map[int]int{}
	var b strings.Builder
	for i, c := range t.cls {
		if 0 < i {
			b.WriteByte(',')
		}
		if c == 0 {
			b.WriteByte('0')
			continue
		}
		if _, has := ren[c]; !has {
			ren[c] = len(ren) + 1
		}
		b.WriteString(strconv.Itoa(ren[c]))
	}
	var keys []string
	for p, from := range t.origin {
		keys = append(keys, varNames[p[0]]+varNames[p[1]]+":"+from)
	}
	sort.Strings(keys)
	return b.String() + " " + strings.Join(keys, ",")
}

// stateKey dumps the implementation state: contents plus slice identity
// (backing array renamed by first appearance, offset, len, cap) of every list
// reachable from a, b, c.
func stateKey(st *state) string {
	type rng struct{ lo, hi uintptr }
	var rs []rng
	for i := range st {
		for _, sg := range st[i].segs {
			if 0 < sg.si.cap {
				rs = append(rs, rng{sg.si.lo(), sg.si.hi()})
			}
		}
	}
	sort.Slice(rs, func(i, j int) bool { return rs[i].lo < rs[j].lo })
	var arrays []rng // merged overlapping ranges = backing arrays (as far as reachable)
	for _, r := range rs {
		if n := len(arrays); 0 < n && r.lo < arrays[n-1].hi {
			if arrays[n-1].hi < r.hi {
				arrays[n-1].hi = r.hi
			}
			continue
		}
		arrays = append(arrays, r)
	}
	ids := map[uintptr]int{}
	var b strings.Builder
	for i := range st {
		o := &st[i]
		b.WriteString(varNames[i])
		b.WriteByte('=')
		switch {
		case o.bad != "":
			b.WriteString("<" + o.bad + ">")
		case !o.present:
			b.WriteString("-")
		case len(o.segs) == 0:
			b.WriteString(showElems(o.elems))
		}
		for _, sg := range o.segs {
			if sg.si.cap == 0 {
				b.WriteString("[z]")
				continue
			}
			k := sort.Search(len(arrays), func(k int) bool { return sg.si.lo() < arrays[k].hi })
			base := arrays[k].lo
			if _, has := ids[base]; !has {
				ids[base] = len(ids)
			}
			fmt.Fprintf(&b, "[%d+%d,%d,%d|", ids[base], (sg.si.lo()-base)/sg.si.esize, sg.si.len, sg.si.cap)
			for k, e := range sg.elems {
				if 0 < k {
					b.WriteByte(' ')
				}
				b.WriteString(strconv.FormatInt(e, 10))
			}
			b.WriteByte(']')
		}
		b.WriteByte(' ')
	}
	return b.String()
}

var rawKey = os.Getenv("VERIF_C06_RAWKEY") != ""

func digest(s string) string {
	if rawKey {
		return s
	}
	h := sha256.Sum256([]byte(s))
	return hex.EncodeToString(h[:12])
}

// runHistory replays hist on im and applies the oracle to the LAST step.
// wantKey: also compute the BFS state key and the enabled set.
func runHistory(im impl, hist []*opDef, wantKey bool) (res engine.Result) {
	im.reset(hist)
	t := newTrack()
	post := im.observe()
	for i := range post {
		if post[i].bad != "" {
			res.Fail("harness:bad-initial-state", showState(&post))
			return
		}
	}
	if len(hist) == 0 {
		res.Outcome = showState(&post)
		if wantKey {
			res.Key = digest(stateKey(&post) + "| " + t.canon())
		}
		return
	}
	var pre state
	for step, o := range hist {
		last := step == len(hist)-1
		pre = post
		if !applicable(o, &pre, t) {
			res.Outcome = "inapplicable"
			return // Key "" and no failure: dropped by the engine
		}
		n := freshNumber(&pre)
		err := im.exec(o, n)
		post = im.observe()
		if !last {
			if err != nil {
				res.Outcome = "prefix-error"
				return // reported by the shorter history
			}
			for i := range post {
				if post[i].bad != "" {
					res.Outcome = "prefix-malformed"
					return
				}
			}
			t.advance(o, &pre, &post)
			continue
		}
		check(&res, o, n, &pre, &post, t, err, hist)
		if err != nil {
			res.Outcome = "err:" + err.class
			return // no key: never extended
		}
		for i := range post {
			if post[i].bad != "" {
				// the state is outside the model (a finding was reported, or the unspecified target of a destructive
				// call is malformed): it gets no key and is never extended; counted so that the masked part is visible
				res.Outcome = "malformed:" + post[i].bad
				res.Hit("masked-malformed-state")
				return
			}
		}
		t.advance(o, &pre, &post)
	}
	res.Outcome = showState(&post)
	if 64 < len(res.Outcome) {
		res.Outcome = digest(res.Outcome)
	}
	if wantKey {
		res.Key = digest(stateKey(&post) + "| " + t.canon())
		if list, all := enabledAfter(hist); !all {
			res.Enabled = list
		}
	}
	return
}

func diffKind(got, want []int64) string {
	switch {
	case len(got) < len(want):
		return "shorter"
	case len(want) < len(got):
		return "longer"
	}
	return "elements"
}

func histText(hist []*opDef) string {
	var parts []string
	for _, o := range hist {
		parts = append(parts, o.code)
	}
	return strings.Join(parts, " ; ")
}

// check applies frame / independence / value to the last step.
func check(res *engine.Result, o *opDef, n int64, pre, post *state, t *track, err *execErr, hist []*opDef) {
	ctx := func() string {
		return fmt.Sprintf("history [%s], last step %s with fresh element %d: before %s, after %s", histText(hist), o.lisp(n),
			n, showState(pre), showState(post))
	}
	seen := map[string]bool{}
	fail := func(sig, detail string) {
		if !seen[sig] {
			seen[sig] = true
			res.Fail(sig, detail)
		}
	}
	// ---- vacuity counters and the non-triviality rule
	res.Hit("judged") // histories with an inapplicable step are executed up to that step and judge nothing
	shared := false
	for i := 0; i < nLoc; i++ {
		for j := i + 1; j < nLoc; j++ {
			if overlap(&pre[i], &pre[j]) {
				shared = true
			}
		}
	}
	if shared {
		res.Hit("shared-backing")
	}
	for _, v := range []int{o.s, o.t} {
		if v < 0 {
			continue
		}
		for w := 0; w < nLoc; w++ {
			if w != v && o.destr && overlap(&pre[v], &pre[w]) {
				res.Hit("destructive-on-shared")
				break
			}
		}
		if o.ext && 0 < len(pre[v].segs) && pre[v].segs[0].si.len < pre[v].segs[0].si.cap {
			res.Hit("extend-with-spare-cap")
		}
	}
	if 0 < len(t.origin) {
		res.Hit("illegal-alias-live")
	}
	if o.group != "" && err == nil {
		res.Hit("fam:" + o.name) // every family of the second generation must be judged at least once
		if o.base != nil && o.want != nil {
			var sv, tv []int64
			if 0 <= o.s {
				sv = pre[o.s].elems
			}
			if 0 <= o.t {
				tv = pre[o.t].elems
			}
			if !sameElems(o.want(sv, tv, n), o.base(sv, tv, n)) {
				res.Hit("kw:" + o.name) // the keyword selected another result than the keyword-free form
			}
		}
	}

	if err != nil {
		kind := "error"
		if err.goFault {
			kind = "go-fault"
		}
		fail(fmt.Sprintf("inv=%s op=%s class=%s", kind, o.fn, err.class),
			fmt.Sprintf("%s: raised %s: %s; the reference semantics define a result", ctx(), err.class, err.msg))
	}
	// ---- which variables must be unchanged
	affected := map[int]bool{}
	if o.destr {
		for _, v := range []int{o.s, o.t} {
			if v == o.s && o.keepS || v == o.t && o.keepT {
				continue // this operand is only read
			}
			if 0 <= v && t.cls[v] != 0 {
				affected[t.cls[v]] = true
			}
		}
	}
	inv := "frame"
	if o.destr {
		inv = "independence"
	}
	for v := 0; v < nLoc; v++ {
		if v == o.dst {
			continue
		}
		if o.destr && (v == o.s && !o.keepS || v == o.t && !o.keepT || affected[t.cls[v]]) {
			continue // may share with the target by the language rules: contents not compared (S2)
		}
		if !pre[v].empty() {
			res.Nontrivial = true
		}
		if post[v].bad == "" && sameElems(pre[v].elems, post[v].elems) {
			continue
		}
		from := "none"
		for _, src := range []int{o.s, o.t} {
			if 0 <= src && src != v {
				if f, has := t.origin[pair(src, v)]; has {
					from = f
				}
			}
		}
		what := "which shares nothing with the operands by the language rules"
		if !o.destr {
			what = "although " + o.name + " is not a destructive operation"
		}
		fail(fmt.Sprintf("inv=%s op=%s alias-from=%s", inv, o.fn, from),
			fmt.Sprintf("%s: variable %s changed from %s to %s %s (physical alias created by: %s)", ctx(), varNames[v],
				showObs(&pre[v]), showObs(&post[v]), what, from))
	}
	if err != nil {
		return
	}
	// ---- value of the result / of the target of an element replacement
	var sv, tv []int64
	if 0 <= o.s {
		sv = pre[o.s].elems
	}
	if 0 <= o.t {
		tv = pre[o.t].elems
	}
	if o.want != nil && 0 <= o.dst {
		want := o.want(sv, tv, n)
		got := &post[o.dst]
		switch {
		case got.bad != "":
			fail(fmt.Sprintf("inv=malformed op=%s what=%s", o.fn, got.bad),
				fmt.Sprintf("%s: the result is not a list of the elements given: %s; expected %s", ctx(), got.bad, showElems(want)))
		case o.setEq && sameSet(got.elems, want):
		case o.alt != nil && sameElems(got.elems, o.alt(sv, tv, n)):
		case !sameElems(got.elems, want):
			fail(fmt.Sprintf("inv=value op=%s diff=%s", o.fn, diffKind(got.elems, want)),
				fmt.Sprintf("%s: %s is %s; the reference result is %s", ctx(), varNames[o.dst], showObs(got), showElems(want)))
		}
	}
	if o.wantS != nil || o.wantS2 != nil {
		var want []int64
		if o.wantS != nil {
			want = o.wantS(sv, n)
		} else {
			want = o.wantS2(sv, tv, n)
		}
		got := &post[o.s]
		switch {
		case got.bad != "":
			fail(fmt.Sprintf("inv=malformed op=%s what=%s", o.fn, got.bad),
				fmt.Sprintf("%s: the target is no longer a list of fixnums: %s; expected %s", ctx(), got.bad, showElems(want)))
		case !sameElems(got.elems, want):
			fail(fmt.Sprintf("inv=target-value op=%s diff=%s", o.fn, diffKind(got.elems, want)),
				fmt.Sprintf("%s: %s is %s; replacing one element must give %s", ctx(), varNames[o.s], showObs(got), showElems(want)))
		}
	}
}
