#!/usr/bin/env python3-vt
"""Regenerates /verif/MANIFEST.json from the table below and validates it against the schema.
A property is claimed only when its harness package exists and is listed in CLAIMED."""
import json, os, sys

CLAIMED = {
    # id: (engine, category, technique, text, note, design_ref)
    "C05": ("choice", "exploration",
            "exhaustive enumeration of operator x operand tuples over a boundary grid, executed on the real interpreter, math/big oracle",
            "Every operator x every operand tuple (all pairs, selected triples, expt/ash sweeps, integer-vs-adjacent-float comparisons) over the boundary grid of the property is executed through ReadString+Eval and compared exactly with math/big, including canonical representation and operand immutability. Exhaustive inside the stated grid; nothing sampled.",
            "Trusted: math/big, the harness' type-switch value reader. Outside the grid nothing is claimed. Float arithmetic is not checked (outside the statement).",
            "DESIGN.md §5 C05"),
    "C08": ("choice", "exploration",
            "exhaustive enumeration of multi-definition programs x every order of their definitions x evaluation modes, executed on the real interpreter, compared with an order- and mode-independent reference evaluator and differentially across orders/modes",
            "Every program of the alphabet (call graphs chain/join/mutual/fan/recursive/diamond x 19 call contexts x 0-3 traced arguments; macro, variable, closure and quoted-data families) is run in every order of its top-level definitions and in every mode (read+eval per form, whole, Code.Compile then eval, load, the same code object evaluated 3-5 times, redefinition between evaluations, caller evaluated before the callee exists and again after); value and trace of every evaluation are compared with an independent late-binding reference. Exhaustive inside the bound (quick 3.8e4 cases, thorough 2.3e5).",
            "Trusted: the reference evaluator props/c08/ref.go (~850 lines; its discriminating power is measured by 9 mutated references on every run). What an early evaluation signals while a callee is missing is not constrained (only Go faults count).",
            "DESIGN.md §5 C08, §10.4; reports/C08.md"),
    "C20": ("crash", "fault_enumeration",
            "exhaustive enumeration of operation histories x restart points x process-death points at every file-system step, on the real pkg/repl code over an in-memory file system injected by build overlay",
            "Every history inside the bound (History.Add/Clear/SetLimit, Stash.Add/Clear, setq of watched settings; forms with line breaks, TABs, blanks, non-ASCII) is executed on the real code with import \"os\" rewritten to an in-memory file system; a restart is simulated after every operation (reloaded == in-memory == reference), and for the last operation of every history a process death before every state-changing file-system step (create, truncate, each write, rename) is simulated, followed by restart, two more Adds and restarts. Exhaustive inside the bound.",
            "Trusted: the vfs shim's model of process death (death between system calls, completed writes persist, a single write is not torn, rename atomic), the boring reference list model. Power loss (lost page cache) and torn single writes are not modelled.",
            "DESIGN.md §5 C20, §2.5"),
    "C17": ("sched", "model_checking",
            "stateless model checking of the implementation: preemption-bounded exhaustive DFS over the schedules of the real goroutines under a cooperative scheduler injected by build overlay, plus the race detector as a per-schedule oracle in a second -race build whose hand-off is invisible to the detector",
            "For 14 closed Lisp scenarios (producers/consumers over buffered and unbuffered channels with close+range, mutex-guarded counters with normal/return-from/error exits, hash of counters, synchronised instance, concurrent defvar, concurrent pretty printing, and a negative control) every schedule of the real interpreter goroutines up to the stated preemption bound (unbounded for the small channel scenarios) is executed; scheduling points are generated from /repo's working tree (every mutex Lock, channel send/receive/close/range, go statement, optional Lisp call boundaries). Each execution is checked for exactly-once delivery, per-producer FIFO, mutual exclusion, mutex released on every exit, no lost update, no deadlock, and for equality with the outcome of some non-preemptive execution. A second pass repeats the exploration in a -race binary and reports every unordered conflicting access pair inside interpreter code.",
            "Trusted: the scheduler shim (vsched/vsync, ~600 lines), the AST instrumenter, sequentially consistent interleaving at synchronisation granularity. select/time channels/sleep are outside the alphabet; N<=3 routines, not 8; preemption-bounded, not all schedules, for the larger scenarios.",
            "DESIGN.md §5 C17, §2.4"),
}

PENDING_REASON = "check not built yet in this session (the technique applies; see DESIGN.md §5 and §9) — not claimed until its harness exists and has been shown to detect seeded changes"

ALL = ["C%02d" % i for i in range(1, 21)]


def main():
    checks = []
    for pid in ALL:
        if pid not in CLAIMED:
            continue
        eng, cat, tech, text, note, ref = CLAIMED[pid]
        checks.append({
            "property_id": pid,
            "quick_cmd": "bin/check %s quick" % pid,
            "thorough_cmd": "bin/check %s thorough" % pid,
            "evidence_file": "/verif/evidence/%s.json" % pid,
            "replay_cmd_template": "bin/check --replay {path}",
            "engine": eng,
            "level_claimed": {"category": cat, "text": text, "design_ref": ref},
            "level_note": note,
            "technique": tech,
        })
    man = {
        "version": 1,
        "setup_cmd": "bin/setup",
        "hooks": {
            "guard": "verif",
            "enable": "bin/build <ID>: go build -tags verif (plus, for the scheduler and crash-point engines, -overlay /verif/.build/overlay-*/overlay.json generated by harness/tools/instrument from /repo's current working tree: import rewrite sync->vsync, os->vfs, go/chan statements -> vsched calls). No hook is committed to /repo.",
            "baseline_off_cmd": "cd /repo && go test -mod=mod -json -vet=off -count=1 -timeout 25m ./...",
            "source_commits": [],
            "add_only": True,
        },
        "engines": [
            {"name": "choice", "path": "harness/engine", "serves_properties": [p for p in ALL if p in CLAIMED and CLAIMED[p][0] == "choice"],
             "kind_free_text": "E1: deterministic exhaustive enumeration of a bounded choice space (programs / inputs / configurations), sharded by case hash over worker processes, each case executed on the real interpreter and compared with an independent oracle; failures re-confirmed 5x in fresh processes"},
            {"name": "bfs", "path": "harness/engine", "serves_properties": [p for p in ALL if p in CLAIMED and CLAIMED[p][0] == "bfs"],
             "kind_free_text": "E2: level-synchronous explicit-state BFS over operation histories; successor = replay history on a fresh instance + one operation; dedup on a dump of the implementation's own state; oracle after every transition"},
            {"name": "sched", "path": "harness/engine", "serves_properties": [p for p in ALL if p in CLAIMED and CLAIMED[p][0] == "sched"],
             "kind_free_text": "E3: stateless schedule exploration (preemption-bounded DFS) of real goroutines under a cooperative scheduler injected by build overlay"},
            {"name": "crash", "path": "harness/engine", "serves_properties": [p for p in ALL if p in CLAIMED and CLAIMED[p][0] == "crash"],
             "kind_free_text": "E4: crash-point and torn-write enumeration over an in-memory file system injected by build overlay"},
        ],
        "checks": checks,
        "not_applicable": [{"property_id": p, "reason": PENDING_REASON} for p in ALL if p not in CLAIMED],
        "notes": "All checks rebuild their binary from /repo's working tree on every invocation (bin/build). Known genuine defects of the pinned tree are listed in /verif/known-findings.jsonl and reported as KNOWN-FINDING lines; see DESIGN.md §4 and §10.",
    }
    out = os.path.join(os.path.dirname(os.path.dirname(os.path.abspath(__file__))), "MANIFEST.json")
    with open(out, "w") as f:
        json.dump(man, f, indent=1)
        f.write("\n")
    try:
        import jsonschema
        jsonschema.validate(man, json.load(open("/root/.vp/MANIFEST.schema.json")))
        print("MANIFEST.json valid;", len(checks), "checks claimed")
    except ImportError:
        print("jsonschema not available; written without validation")


if __name__ == "__main__":
    main()
