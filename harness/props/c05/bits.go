package c05

// Sixth round: the rest of the bitwise vocabulary (logandc1 logandc2 logeqv lognand lognor logorc1 logorc2 logtest
// logcount logbitp integer-length boole), the byte operations (byte byte-size byte-position ldb ldb-test dpb
// mask-field deposit-field) and the n-ary forms (0, 1 and 3 arguments) of the associative operators and comparisons.
//
// The reference is math/big: And / Or / Xor / Not / Rsh of big.Int work on the infinite two's complement
// representation of a negative integer, which is exactly how Common Lisp (and slip's documentation of these functions)
// defines the bitwise operations. Every reference function takes a mutation number (mutNone = the reference); the other
// values encode one realistic bug each and are used by the self-test only.

import (
	"fmt"
	"math"
	"math/big"
	"strings"

	"github.com/ohler55/slip"

	"verif/engine"
	"verif/lisp"
)

const (
	mutNone                = iota
	mutAndc1IsAndc2        // logandc1 complements the second operand
	mutLogtestMagnitude    // logtest looks at the magnitudes (sign-magnitude instead of two's complement)
	mutEqvFiniteWidth      // logeqv complements only as many bits as the longer operand has
	mutLogcountMagnitude   // logcount of a negative integer counts the one bits of the magnitude
	mutIntLenMagnitude     // integer-length of a negative integer is the bit length of the magnitude
	mutLogbitpNoSignExt    // logbitp beyond the 64th bit of a negative integer is false
	mutLdbNoSignExt        // ldb reads zeros beyond the width of a negative integer
	mutDpbUnmasked         // dpb does not cut newbyte down to the size of the field
	mutDepositIsDpb        // deposit-field takes the low bits of newbyte (what dpb does)
	mutMaskFieldIsLdb      // mask-field returns the field shifted down (what ldb does)
	mutBooleOrc2NotSwapped // boole-orc2 complements integer-1
	mutNotEqualAdjacent    // /= compares neighbours only
	mutMinusRightAssoc     // (- a b c) computed as a - (b - c)
	mutGcdTwoOnly          // gcd ignores the third argument
	mutCompareAsDouble     // a comparison with a float rounds the rational to a double first
	mutLogandIdentityZero  // (logand) returns 0
	mutLast
)

// mutOp: the operator whose cases must tell the mutant from the reference.
var mutOp = map[int]string{
	mutAndc1IsAndc2:        "logandc1",
	mutLogtestMagnitude:    "logtest",
	mutEqvFiniteWidth:      "logeqv",
	mutLogcountMagnitude:   "logcount",
	mutIntLenMagnitude:     "integer-length",
	mutLogbitpNoSignExt:    "logbitp",
	mutLdbNoSignExt:        "ldb",
	mutDpbUnmasked:         "dpb",
	mutDepositIsDpb:        "deposit-field",
	mutMaskFieldIsLdb:      "mask-field",
	mutBooleOrc2NotSwapped: "boole-orc2",
	mutNotEqualAdjacent:    "/=",
	mutMinusRightAssoc:     "-",
	mutGcdTwoOnly:          "gcd",
	mutCompareAsDouble:     "=",
	mutLogandIdentityZero:  "logand",
}

var mutNames = map[int]string{
	mutAndc1IsAndc2:        "logandc1 complements the second operand",
	mutLogtestMagnitude:    "logtest works on magnitudes",
	mutEqvFiniteWidth:      "logeqv complements a finite number of bits",
	mutLogcountMagnitude:   "logcount of a negative integer counts the ones of the magnitude",
	mutIntLenMagnitude:     "integer-length of a negative integer is the length of the magnitude",
	mutLogbitpNoSignExt:    "logbitp beyond bit 63 of a negative integer is false",
	mutLdbNoSignExt:        "ldb reads zeros beyond the width of a negative integer",
	mutDpbUnmasked:         "dpb does not mask newbyte",
	mutDepositIsDpb:        "deposit-field behaves as dpb",
	mutMaskFieldIsLdb:      "mask-field behaves as ldb",
	mutBooleOrc2NotSwapped: "boole-orc2 complements integer-1",
	mutNotEqualAdjacent:    "/= compares adjacent arguments only",
	mutMinusRightAssoc:     "- of three arguments associates to the right",
	mutGcdTwoOnly:          "gcd ignores its third argument",
	mutCompareAsDouble:     "n-ary comparison rounds the rational to a double",
	mutLogandIdentityZero:  "(logand) is 0",
}

// ---------------------------------------------------------------------------------------------------------------
// references

var bitBinOps = []string{"logandc1", "logandc2", "logeqv", "lognand", "lognor", "logorc1", "logorc2", "logtest"}

var booleOps = []string{"boole-1", "boole-2", "boole-and", "boole-andc1", "boole-andc2", "boole-c1", "boole-c2", "boole-clr",
	"boole-eqv", "boole-ior", "boole-nand", "boole-nor", "boole-orc1", "boole-orc2", "boole-set", "boole-xor"}

func isBitBin(op string) bool {
	for _, o := range bitBinOps {
		if o == op {
			return true
		}
	}
	return strings.HasPrefix(op, "boole-") || op == "logbitp"
}

func bnot(x *big.Int) *big.Int    { return new(big.Int).Not(x) }
func band(x, y *big.Int) *big.Int { return new(big.Int).And(x, y) }
func bor(x, y *big.Int) *big.Int  { return new(big.Int).Or(x, y) }
func bxor(x, y *big.Int) *big.Int { return new(big.Int).Xor(x, y) }

// intLen is the two's complement length of x: the number of bits needed without the sign bit.
func intLen(x *big.Int) int {
	if x.Sign() < 0 {
		return bnot(x).BitLen()
	}
	return x.BitLen()
}

// bitRef2 is the reference for the two-argument bitwise functions. Exactly one of val / b is set.
func bitRef2(op string, x, y *big.Int, mut int) (val *big.Int, b *bool) {
	switch op {
	case "logandc1", "boole-andc1":
		if mut == mutAndc1IsAndc2 && op == "logandc1" {
			return band(x, bnot(y)), nil
		}
		return band(bnot(x), y), nil
	case "logandc2", "boole-andc2":
		return band(x, bnot(y)), nil
	case "logeqv", "boole-eqv":
		if mut == mutEqvFiniteWidth && op == "logeqv" {
			n := x.BitLen()
			if n < y.BitLen() {
				n = y.BitLen()
			}
			mask := new(big.Int).Sub(pow2(uint(n)), big.NewInt(1))
			return bxor(bxor(x, y), mask), nil
		}
		return bnot(bxor(x, y)), nil
	case "lognand", "boole-nand":
		return bnot(band(x, y)), nil
	case "lognor", "boole-nor":
		return bnot(bor(x, y)), nil
	case "logorc1", "boole-orc1":
		return bor(bnot(x), y), nil
	case "logorc2", "boole-orc2":
		if mut == mutBooleOrc2NotSwapped && op == "boole-orc2" {
			return bor(bnot(x), y), nil
		}
		return bor(x, bnot(y)), nil
	case "logtest":
		if mut == mutLogtestMagnitude {
			return nil, boolp(band(new(big.Int).Abs(x), new(big.Int).Abs(y)).Sign() != 0)
		}
		return nil, boolp(band(x, y).Sign() != 0)
	case "logbitp": // (logbitp index integer)
		if !x.IsInt64() || x.Sign() < 0 {
			return nil, nil
		}
		i := uint(x.Int64())
		if mut == mutLogbitpNoSignExt && 64 <= i && y.Sign() < 0 {
			return nil, boolp(false)
		}
		return nil, boolp(band(new(big.Int).Rsh(y, i), big.NewInt(1)).Sign() != 0)
	case "boole-1":
		return new(big.Int).Set(x), nil
	case "boole-2":
		return new(big.Int).Set(y), nil
	case "boole-and":
		return band(x, y), nil
	case "boole-ior":
		return bor(x, y), nil
	case "boole-xor":
		return bxor(x, y), nil
	case "boole-c1":
		return bnot(x), nil
	case "boole-c2":
		return bnot(y), nil
	case "boole-clr":
		return big.NewInt(0), nil
	case "boole-set":
		return big.NewInt(-1), nil
	}
	return nil, nil
}

func expectedBit2(op string, x, y *big.Rat) expect {
	if !x.IsInt() || !y.IsInt() {
		return expect{skip: true}
	}
	v, b := bitRef2(op, x.Num(), y.Num(), mutNone)
	switch {
	case v != nil:
		return expect{vals: []*big.Rat{new(big.Rat).SetInt(v)}}
	case b != nil:
		return expect{bval: b}
	}
	return expect{skip: true}
}

func popcount(x *big.Int) int {
	n := 0
	for _, w := range x.Bits() {
		for ; w != 0; w &= w - 1 {
			n++
		}
	}
	return n
}

// bitRef1 is the reference for logcount and integer-length.
func bitRef1(op string, x *big.Int, mut int) *big.Int {
	switch op {
	case "logcount":
		if x.Sign() < 0 {
			if mut == mutLogcountMagnitude {
				return big.NewInt(int64(popcount(new(big.Int).Abs(x))))
			}
			return big.NewInt(int64(popcount(bnot(x)))) // the zero bits of a negative integer are the one bits of its complement
		}
		return big.NewInt(int64(popcount(x)))
	case "integer-length":
		if mut == mutIntLenMagnitude {
			return big.NewInt(int64(x.BitLen()))
		}
		return big.NewInt(int64(intLen(x)))
	}
	return nil
}

var byteOps = []string{"ldb", "ldb-test", "mask-field", "dpb", "deposit-field"}

// byteRef is the reference for the byte operations on the field of `size` bits at `pos`. nb is the newbyte of dpb and
// deposit-field.
func byteRef(op string, size, pos uint, x, nb *big.Int, mut int) (val *big.Int, b *bool) {
	mask := new(big.Int).Sub(pow2(size), big.NewInt(1))
	field := new(big.Int).Lsh(mask, pos)
	ldb := func() *big.Int {
		if mut == mutLdbNoSignExt && x.Sign() < 0 {
			w := uint(intLen(x) + 1)
			low := band(x, new(big.Int).Sub(pow2(w), big.NewInt(1)))
			return band(new(big.Int).Rsh(low, pos), mask)
		}
		return band(new(big.Int).Rsh(x, pos), mask) // Rsh of a negative big.Int is the arithmetic shift
	}
	switch op {
	case "ldb":
		return ldb(), nil
	case "ldb-test":
		return nil, boolp(ldb().Sign() != 0)
	case "mask-field":
		if mut == mutMaskFieldIsLdb {
			return ldb(), nil
		}
		return band(x, field), nil
	case "dpb":
		rest := new(big.Int).AndNot(x, field)
		if mut == mutDpbUnmasked {
			return bor(rest, new(big.Int).Lsh(nb, pos)), nil
		}
		return bor(rest, new(big.Int).Lsh(band(nb, mask), pos)), nil
	case "deposit-field":
		rest := new(big.Int).AndNot(x, field)
		if mut == mutDepositIsDpb {
			return bor(rest, new(big.Int).Lsh(band(nb, mask), pos)), nil
		}
		return bor(rest, band(nb, field)), nil
	}
	return nil, nil
}

var naryIntOps = []string{"logand", "logior", "logxor", "logeqv", "gcd", "lcm"}
var naryRatOps = []string{"+", "*", "-", "/", "max", "min"}

func isCmp(op string) bool {
	for _, o := range cmpOps {
		if o == op {
			return true
		}
	}
	return false
}

func isNaryInt(op string) bool {
	for _, o := range naryIntOps {
		if o == op {
			return true
		}
	}
	return false
}

// naryRef is the reference for a call with any number of exact arguments (floats are passed by their exact value;
// they are used with the comparisons only). any=true: the statement does not determine the outcome (no arguments to an
// operator without an identity); only a Go fault is a failure there.
func naryRef(op string, v []*big.Rat, mut int) (ex expect, any bool) {
	ri := func(i *big.Int) *big.Rat { return new(big.Rat).SetInt(i) }
	one := func(r *big.Rat) expect { return expect{vals: []*big.Rat{r}} }
	if isNaryInt(op) {
		var acc *big.Int
		switch op {
		case "logand", "logeqv":
			acc = big.NewInt(-1)
			if mut == mutLogandIdentityZero && op == "logand" && len(v) == 0 {
				acc = big.NewInt(0)
			}
		case "logior", "logxor", "gcd":
			acc = big.NewInt(0)
		case "lcm":
			acc = big.NewInt(1)
		}
		for i, r := range v {
			if !r.IsInt() {
				return expect{skip: true}, false
			}
			x := r.Num()
			switch op {
			case "logand":
				acc = band(acc, x)
			case "logior":
				acc = bor(acc, x)
			case "logxor":
				acc = bxor(acc, x)
			case "logeqv":
				acc = bnot(bxor(acc, x))
			case "gcd":
				if mut == mutGcdTwoOnly && i == 2 {
					continue
				}
				acc = new(big.Int).GCD(nil, nil, new(big.Int).Abs(acc), new(big.Int).Abs(x))
			case "lcm":
				a, b := new(big.Int).Abs(acc), new(big.Int).Abs(x)
				if a.Sign() == 0 || b.Sign() == 0 {
					acc = big.NewInt(0)
				} else {
					g := new(big.Int).GCD(nil, nil, a, b)
					acc = new(big.Int).Mul(new(big.Int).Quo(a, g), b)
				}
			}
		}
		return one(ri(acc)), false
	}
	switch op {
	case "+":
		acc := new(big.Rat)
		for _, r := range v {
			acc = new(big.Rat).Add(acc, r)
		}
		return one(acc), false
	case "*":
		acc := big.NewRat(1, 1)
		for _, r := range v {
			acc = new(big.Rat).Mul(acc, r)
		}
		return one(acc), false
	case "-":
		switch len(v) {
		case 0:
			return expect{}, true
		case 1:
			return one(new(big.Rat).Neg(v[0])), false
		}
		if mut == mutMinusRightAssoc && len(v) == 3 {
			return one(new(big.Rat).Sub(v[0], new(big.Rat).Sub(v[1], v[2]))), false
		}
		acc := v[0]
		for _, r := range v[1:] {
			acc = new(big.Rat).Sub(acc, r)
		}
		return one(acc), false
	case "/":
		switch len(v) {
		case 0:
			return expect{}, true
		case 1:
			if v[0].Sign() == 0 {
				return expect{err: true}, false
			}
			return one(new(big.Rat).Inv(v[0])), false
		}
		acc := v[0]
		for _, r := range v[1:] {
			if r.Sign() == 0 {
				return expect{err: true}, false
			}
			acc = new(big.Rat).Quo(acc, r)
		}
		return one(acc), false
	case "max", "min":
		if len(v) == 0 {
			return expect{}, true
		}
		m := v[0]
		for _, r := range v[1:] {
			if (op == "max" && m.Cmp(r) < 0) || (op == "min" && m.Cmp(r) > 0) {
				m = r
			}
		}
		return one(m), false
	}
	if !isCmp(op) {
		return expect{skip: true}, false
	}
	if len(v) == 0 {
		return expect{}, true
	}
	cmp := func(a, b *big.Rat) int { return a.Cmp(b) }
	if mut == mutCompareAsDouble {
		cmp = func(a, b *big.Rat) int {
			fa, _ := a.Float64()
			fb, _ := b.Float64()
			switch {
			case fa < fb:
				return -1
			case fa > fb:
				return 1
			}
			return 0
		}
	}
	ok := true
	if op == "/=" {
		for i := range v {
			for j := i + 1; j < len(v); j++ {
				if mut == mutNotEqualAdjacent && j != i+1 {
					continue
				}
				ok = ok && cmp(v[i], v[j]) != 0
			}
		}
		return expect{bval: boolp(ok)}, false
	}
	for i := 0; i+1 < len(v); i++ {
		c := cmp(v[i], v[i+1])
		switch op {
		case "=":
			ok = ok && c == 0
		case "<":
			ok = ok && c < 0
		case "<=":
			ok = ok && c <= 0
		case ">":
			ok = ok && c > 0
		case ">=":
			ok = ok && c >= 0
		}
	}
	return expect{bval: boolp(ok)}, false
}

// ---------------------------------------------------------------------------------------------------------------
// operands

type operand struct {
	text string
	val  *big.Rat // exact value
	obj  slip.Object
	cls  string // fixnum bignum ratio single double long
	flt  bool
}

// floatNear builds the float of the given kind (d f l) equal to (eq), just below (lo) or just above (hi) the rational
// `near`. ok is false when the format has no finite number there.
func floatNear(kind, adj string, near *big.Rat) (fobj slip.Object, fval *big.Rat, ok bool) {
	nf := new(big.Float).SetPrec(256).SetRat(near)
	switch kind {
	case "d":
		f, _ := nf.Float64()
		if math.IsInf(f, 0) {
			return nil, nil, false // an infinity is not a number to compare with
		}
		switch adj {
		case "lo":
			f = math.Nextafter(f, math.Inf(-1))
		case "hi":
			f = math.Nextafter(f, math.Inf(1))
		}
		if math.IsInf(f, 0) {
			return nil, nil, false
		}
		return slip.DoubleFloat(f), new(big.Rat).SetFloat64(f), true
	case "f":
		f64, _ := nf.Float64()
		f := float32(f64)
		if math.IsInf(float64(f), 0) {
			return nil, nil, false
		}
		switch adj {
		case "lo":
			f = math.Nextafter32(f, float32(math.Inf(-1)))
		case "hi":
			f = math.Nextafter32(f, float32(math.Inf(1)))
		}
		return slip.SingleFloat(f), new(big.Rat).SetFloat64(float64(f)), true
	case "l":
		bf := new(big.Float).SetPrec(300).SetRat(near)
		eps := new(big.Float).SetPrec(300).SetMantExp(big.NewFloat(1), -40)
		switch adj {
		case "lo":
			bf.Sub(bf, eps)
		case "hi":
			bf.Add(bf, eps)
		}
		fval, _ = new(big.Float).Copy(bf).Rat(nil)
		return (*slip.LongFloat)(bf), fval, true
	}
	return nil, nil, false
}

// parseOperand: a rational in text form, or kind:adj:integer for a float (d f l : eq lo hi).
func parseOperand(tok string) (o operand, ok bool) {
	o.text = tok
	if p := strings.Split(tok, ":"); len(p) == 3 {
		o.flt = true
		o.cls = map[string]string{"d": "double", "f": "single", "l": "long"}[p[0]]
		o.obj, o.val, ok = floatNear(p[0], p[1], parseRat(p[2]))
		if ok && math.IsInf(floatOf(o.obj), 0) {
			ok = false
		}
		return
	}
	o.val = parseRat(tok)
	o.obj = toObj(o.val)
	o.cls = class(o.val)
	return o, true
}

func floatOf(o slip.Object) float64 {
	switch v := o.(type) {
	case slip.DoubleFloat:
		return float64(v)
	case slip.SingleFloat:
		return float64(v)
	}
	return 0
}

// exactOf reads back the exact value of any real the harness binds (for the operand-unchanged check).
func exactOf(o slip.Object) *big.Rat {
	switch v := o.(type) {
	case slip.DoubleFloat:
		return new(big.Rat).SetFloat64(float64(v))
	case slip.SingleFloat:
		return new(big.Rat).SetFloat64(float64(v))
	case *slip.LongFloat:
		r, _ := (*big.Float)(v).Rat(nil)
		return r
	}
	r, _, _ := intRat(o)
	return r
}

// intRat is objRat extended with slip's two other integer representations. They hold the exact value (two's
// complement, big endian) but are never the canonical representation of the result of an operation on fixnums and
// bignums: logand and the other bitwise functions reject them, (typep x 'bignum) is false.
func intRat(o slip.Object) (*big.Rat, string, bool) {
	switch v := o.(type) {
	case *slip.UnsignedByte:
		return new(big.Rat).SetInt(new(big.Int).SetBytes(v.Bytes)), "unsigned-byte", false
	case *slip.SignedByte:
		n := new(big.Int).SetBytes(v.Bytes)
		if 0 < len(v.Bytes) && v.Bytes[0]&0x80 != 0 {
			n.Sub(n, pow2(uint(8*len(v.Bytes))))
		}
		return new(big.Rat).SetInt(n), "signed-byte", false
	}
	return objRat(o)
}

func showNum(o slip.Object) string {
	switch o.(type) {
	case *slip.UnsignedByte, *slip.SignedByte:
		r, c, _ := intRat(o)
		return "#<" + c + " " + ratText(r) + ">"
	}
	return lisp.Show(o)
}

func signedClass(x *big.Int) string {
	c := class(new(big.Rat).SetInt(x))
	if x.Sign() < 0 {
		return "neg-" + c
	}
	return c
}

// ---------------------------------------------------------------------------------------------------------------
// enumeration

var byteSizes = []uint{0, 1, 7, 8, 31, 32, 63, 64, 65, 128}
var bytePositions = []uint{0, 1, 31, 32, 63, 64, 100}

func newbyteGrid() []string {
	a, _ := new(big.Int).SetString("-1234567890123456789012345678901234567890123456789012345678901", 10)
	return []string{"0", "1", "-1", "-2", pow2(31).String(), new(big.Int).Sub(pow2(63), big.NewInt(1)).String(),
		new(big.Int).Neg(pow2(63)).String(), new(big.Int).Add(pow2(64), big.NewInt(1)).String(),
		new(big.Int).Neg(new(big.Int).Add(pow2(64), big.NewInt(1))).String(), a.String()}
}

func naryIntGrid(tier string) []string {
	g := []string{"0", "1", "-1", "3", "-2", pow2(62).String(), new(big.Int).Neg(pow2(62)).String(),
		new(big.Int).Sub(pow2(63), big.NewInt(1)).String(), new(big.Int).Neg(pow2(63)).String(), pow2(63).String(),
		new(big.Int).Neg(new(big.Int).Add(pow2(63), big.NewInt(1))).String(), pow2(64).String(),
		new(big.Int).Neg(pow2(64)).String()}
	if tier == engine.Thorough {
		g = append(g, new(big.Int).Add(pow2(64), big.NewInt(1)).String(),
			"-1234567890123456789012345678901234567890123456789012345678901", pow2(32).String(), "-4294967297", "12")
	}
	return g
}

func naryRatGrid(tier string) []string {
	g := []string{"0", "1", "-1", pow2(62).String(), new(big.Int).Sub(pow2(63), big.NewInt(1)).String(),
		new(big.Int).Neg(pow2(63)).String(), pow2(64).String(), new(big.Int).Neg(pow2(64)).String(), "1/2", "-2/3"}
	if tier == engine.Thorough {
		g = append(g, "2", new(big.Int).Neg(pow2(62)).String(), pow2(63).String(), "9223372036854775809/2",
			"-1/18446744073709551616")
	}
	return g
}

// naryFloatAlphabets: around each anchor integer n the integers n-1, n, n+1 and the floats equal / adjacent to n.
func naryFloatAlphabets(tier string) [][]string {
	anchors := []*big.Int{big.NewInt(1), new(big.Int).Add(pow2(53), big.NewInt(1)), new(big.Int).Sub(pow2(63), big.NewInt(1)),
		new(big.Int).Add(pow2(64), big.NewInt(1))}
	if tier == engine.Thorough {
		anchors = append(anchors, big.NewInt(0), big.NewInt(1<<24+1), new(big.Int).Neg(pow2(63)), pow2(100))
	}
	var out [][]string
	for _, n := range anchors {
		s := n.String()
		out = append(out, []string{new(big.Int).Sub(n, big.NewInt(1)).String(), s, new(big.Int).Add(n, big.NewInt(1)).String(),
			"d:eq:" + s, "d:lo:" + s, "d:hi:" + s, "f:eq:" + s, "l:eq:" + s, "l:lo:" + s})
	}
	return out
}

// enumerateBits emits the sixth-round families; only != "" restricts it to one operator (used by the self-test).
func enumerateBits(tier string, only string, emit func(string)) {
	sel := func(ops []string) []string {
		if only == "" {
			return ops
		}
		for _, o := range ops {
			if o == only {
				return []string{o}
			}
		}
		return nil
	}
	var ints []string
	for _, i := range intGrid(tier) {
		ints = append(ints, i.String())
	}
	// unary
	for _, op := range sel([]string{"logcount", "integer-length"}) {
		for _, a := range ints {
			emit("u|" + op + "|" + a)
		}
	}
	// binary: all pairs
	for _, op := range sel(bitBinOps) {
		for _, a := range ints {
			for _, b := range ints {
				emit("b|" + op + "|" + a + "|" + b)
			}
		}
	}
	// logbitp: index grid x integers
	idx := []int{0, 1, 7, 8, 31, 32, 62, 63, 64, 65, 100, 127, 128, 200, 1099, 1100, 1101}
	if tier == engine.Thorough {
		idx = idx[:0]
		for i := 0; i <= 200; i++ {
			idx = append(idx, i)
		}
		idx = append(idx, 1099, 1100, 1101)
	}
	for range sel([]string{"logbitp"}) {
		for _, a := range ints {
			for _, i := range idx {
				emit(fmt.Sprintf("b|logbitp|%d|%s", i, a))
			}
		}
	}
	// boole: all 16 operations x all pairs
	for _, op := range sel(booleOps) {
		for _, a := range ints {
			for _, b := range ints {
				emit("b|" + op + "|" + a + "|" + b)
			}
		}
	}
	// byte specifiers
	for range sel([]string{"byte"}) {
		for _, s := range byteSizes {
			for _, p := range bytePositions {
				emit(fmt.Sprintf("y|byte|%d|%d", s, p))
			}
		}
	}
	for _, op := range sel([]string{"ldb", "ldb-test", "mask-field"}) {
		for _, s := range byteSizes {
			for _, p := range bytePositions {
				for _, a := range ints {
					emit(fmt.Sprintf("y|%s|%d|%d|%s", op, s, p, a))
				}
			}
		}
	}
	for _, op := range sel([]string{"dpb", "deposit-field"}) {
		for _, nb := range newbyteGrid() {
			for _, s := range byteSizes {
				for _, p := range bytePositions {
					for _, a := range ints {
						emit(fmt.Sprintf("y|%s|%d|%d|%s|%s", op, s, p, a, nb))
					}
				}
			}
		}
	}
	// n-ary: no argument, one argument
	var rats []string
	for _, r := range ratGrid() {
		rats = append(rats, ratText(r))
	}
	all := append(append([]string{}, naryIntOps...), naryRatOps...)
	all = sel(append(all, cmpOps...))
	for _, op := range all {
		emit("t|" + op)
	}
	for _, op := range all {
		for _, a := range ints {
			emit("t|" + op + "|" + a)
		}
		if !isNaryInt(op) {
			for _, a := range rats {
				emit("t|" + op + "|" + a)
			}
		}
	}
	for _, op := range sel(cmpOps) {
		for _, alpha := range naryFloatAlphabets(tier) {
			for _, a := range alpha[3:] {
				emit("t|" + op + "|" + a)
			}
		}
	}
	// n-ary: all triples
	triples := func(ops, g []string, keep func(a, b, c string) bool) {
		for _, op := range sel(ops) {
			for _, a := range g {
				for _, b := range g {
					for _, c := range g {
						if keep == nil || keep(a, b, c) {
							emit("t|" + op + "|" + a + "|" + b + "|" + c)
						}
					}
				}
			}
		}
	}
	triples(naryIntOps, naryIntGrid(tier), nil)
	triples(append(append([]string{}, naryRatOps...), cmpOps...), naryRatGrid(tier), nil)
	isF := func(s string) bool { return strings.Contains(s, ":") }
	for _, alpha := range naryFloatAlphabets(tier) {
		triples(cmpOps, alpha, func(a, b, c string) bool { return isF(a) || isF(b) || isF(c) })
	}
}

// ---------------------------------------------------------------------------------------------------------------
// execution of the byte family:  y|op|size|pos|integer[|newbyte]   and   y|byte|size|pos

func execByte(parts []string) (res engine.Result) {
	op := parts[1]
	var size, pos uint
	if _, err := fmt.Sscan(parts[2], &size); err != nil {
		res.Fail("harness:bad-spec", strings.Join(parts, "|"))
		return
	}
	if _, err := fmt.Sscan(parts[3], &pos); err != nil {
		res.Fail("harness:bad-spec", strings.Join(parts, "|"))
		return
	}
	scope := slip.NewScope()
	scope.Let("s", slip.Fixnum(size))
	scope.Let("p", slip.Fixnum(pos))
	if op == "byte" {
		// a byte specifier gives back its size and position
		val, err := lisp.EvalIn(scope, "(let ((b (byte s p))) (list (byte-size b) (byte-position b)))")
		res.Hit("byte-spec")
		want := fmt.Sprintf("(%d %d)", size, pos)
		switch {
		case err != nil && err.GoFault:
			res.Fail("op=byte kind=go-fault", fmt.Sprintf("(byte %d %d) => %s", size, pos, err.String()))
		case err != nil:
			res.Fail("op=byte kind=error-instead-of-value", fmt.Sprintf("(byte %d %d) => %s", size, pos, err.String()))
		case lisp.Show(val) != want:
			res.Fail("op=byte kind=wrong-value", fmt.Sprintf("(list (byte-size b) (byte-position b)) of (byte %d %d) => %s; expected %s", size, pos, lisp.Show(val), want))
		}
		if err != nil {
			res.Outcome = "err:" + err.Class
		} else {
			res.Outcome = lisp.Show(val)
		}
		return
	}
	x := parseRat(parts[4]).Num()
	var nb *big.Int
	src := "(" + op + " (byte s p) x)"
	args := signedClass(x)
	names := []string{"x"}
	vals := []*big.Int{x}
	if op == "dpb" || op == "deposit-field" {
		nb = parseRat(parts[5]).Num()
		src = "(" + op + " y (byte s p) x)"
		// the newbyte enters the signature by its sign only: its low `size` bits are what counts
		if nb.Sign() < 0 {
			args = "neg," + args
		} else {
			args = "nonneg," + args
		}
		names = append(names, "y")
		vals = append(vals, nb)
	}
	var objs []slip.Object
	for i, v := range vals {
		o := toObj(new(big.Rat).SetInt(v))
		objs = append(objs, o)
		scope.Let(slip.Symbol(names[i]), o)
		if !v.IsInt64() {
			res.Hit("big-operand")
			if v.Sign() < 0 {
				res.Hit("bit-negative-bignum")
			}
		}
	}
	res.Nontrivial = true
	// where the field lies relative to the width of the integer
	l := uint(intLen(x))
	field := "inside"
	switch {
	case size == 0:
		field = "empty"
	case l <= pos:
		field = "beyond"
	case l < pos+size:
		field = "straddles"
	}
	if x.Sign() < 0 && field != "inside" && field != "empty" {
		res.Hit("byte-beyond-width-of-negative")
	}
	if (pos < 64 && 64 < pos+size) || (64 <= pos && 0 < size) {
		res.Hit("byte-beyond-first-word")
	}
	wv, wb := byteRef(op, size, pos, x, nb, mutNone)
	sig := func(kind string) string { return fmt.Sprintf("op=%s args=%s field=%s kind=%s", op, args, field, kind) }
	desc := fmt.Sprintf("%s with s=%d p=%d x=%s", src, size, pos, x)
	if nb != nil {
		desc += " y=" + nb.String()
	}
	val, err := lisp.EvalIn(scope, src)
	switch {
	case err != nil && err.GoFault:
		res.Fail(sig("go-fault"), desc+" => "+err.String())
	case err != nil:
		res.Fail(sig("error-instead-of-value"), desc+" => "+err.String())
	case wb != nil:
		if lisp.Truthy(val) != *wb {
			res.Fail(sig("wrong-answer"), fmt.Sprintf("%s => %s; expected %v", desc, showNum(val), *wb))
		}
	default:
		r, _, canon := intRat(val)
		switch {
		case r == nil:
			res.Fail(sig("not-an-integer"), fmt.Sprintf("%s => %s; expected %s", desc, showNum(val), wv))
		case !r.IsInt() || r.Num().Cmp(wv) != 0:
			res.Fail(sig("wrong-value"), fmt.Sprintf("%s => %s; expected %s", desc, showNum(val), wv))
		case !canon:
			res.Fail(sig("non-canonical"), fmt.Sprintf("%s => %s (the value is right, the representation is not the canonical fixnum / bignum)", desc, showNum(val)))
		}
	}
	for i, v := range vals {
		cur := scope.Get(slip.Symbol(names[i]))
		cr, _, _ := intRat(cur)
		or, _, _ := intRat(objs[i])
		want := new(big.Rat).SetInt(v)
		if cr == nil || cr.Cmp(want) != 0 || or == nil || or.Cmp(want) != 0 {
			res.Fail(sig("operand-mutated"), fmt.Sprintf("%s: operand %s was %s, now %s", desc, names[i], v, showNum(cur)))
		}
	}
	if err != nil {
		res.Outcome = "err:" + err.Class
	} else {
		res.Outcome = showNum(val)
	}
	return
}

// ---------------------------------------------------------------------------------------------------------------
// execution of the n-ary family:  t|op|operand...   (any number of operands, floats as kind:adj:integer)

func execNary(parts []string) (res engine.Result) {
	op := parts[1]
	var ops []operand
	for _, tok := range parts[2:] {
		o, ok := parseOperand(tok)
		if !ok {
			res.Outcome = "skip"
			return
		}
		ops = append(ops, o)
	}
	scope := slip.NewScope()
	names := []string{"x", "y", "z", "w"}
	var vals []*big.Rat
	var cls []string
	src := "(" + op
	floats := false
	for i, o := range ops {
		scope.Let(slip.Symbol(names[i]), o.obj)
		vals = append(vals, o.val)
		cls = append(cls, o.cls)
		src += " " + names[i]
		switch o.cls {
		case "bignum":
			res.Hit("big-operand")
			res.Nontrivial = true
			if o.val.Sign() < 0 && isNaryInt(op) && op != "gcd" && op != "lcm" {
				res.Hit("bit-negative-bignum")
			}
		case "ratio":
			res.Hit("ratio-operand")
			res.Nontrivial = true
		}
		if o.flt {
			floats = true
		}
	}
	src += ")"
	if floats && !isCmp(op) {
		res.Fail("harness:bad-spec", "floats are for the comparisons only: "+strings.Join(parts, "|"))
		return
	}
	ex, any := naryRef(op, vals, mutNone)
	if ex.skip {
		res.Outcome = "skip"
		return
	}
	sigArgs := strings.Join(cls, ",")
	switch len(ops) {
	case 0:
		sigArgs = "none"
		res.Hit("nary-no-argument")
		res.Nontrivial = true
	case 1:
		res.Hit("nary-one-argument")
	default:
		mixed := false
		for _, c := range cls[1:] {
			mixed = mixed || c != cls[0]
		}
		if mixed {
			res.Hit("nary-mixed-representations")
		}
	}
	if floats {
		res.Hit("nary-float-compare")
		res.Nontrivial = true
	}
	want := "bool"
	switch {
	case any:
		want = "unspecified"
	case ex.err:
		want = "error"
	case 0 < len(ex.vals):
		want = class(ex.vals[0])
		if want != "fixnum" {
			res.Nontrivial = true
		}
		allFix := 0 < len(ops)
		for _, c := range cls {
			allFix = allFix && c == "fixnum"
		}
		if allFix && want == "bignum" {
			res.Hit("overflow-boundary")
		}
	}
	sig := func(kind string) string { return fmt.Sprintf("op=%s args=%s want=%s kind=%s", op, sigArgs, want, kind) }
	desc := fmt.Sprintf("%s with %s", src, strings.Join(parts[2:], " , "))
	val, err := lisp.EvalIn(scope, src)
	switch {
	case err != nil && err.GoFault:
		res.Fail(sig("go-fault"), desc+" => "+err.String())
	case any:
		// no argument and no identity: the statement does not say what happens
	case err != nil && !ex.err:
		res.Fail(sig("error-instead-of-value"), desc+" => "+err.String()+"; expected "+showExpect(ex))
	case err == nil && ex.err:
		res.Fail(sig("value-instead-of-error"), desc+" => "+showNum(val)+"; expected an error")
	case err == nil && ex.bval != nil:
		if lisp.Truthy(val) != *ex.bval {
			res.Fail(sig("wrong-answer"), desc+" => "+showNum(val)+"; expected "+showExpect(ex))
		}
	case err == nil:
		r, _, canon := intRat(val)
		switch {
		case r == nil:
			res.Fail(sig("not-a-rational"), desc+" => "+showNum(val)+"; expected "+showExpect(ex))
		case r.Cmp(ex.vals[0]) != 0:
			res.Fail(sig("wrong-value"), desc+" => "+showNum(val)+"; expected "+showExpect(ex))
		case !canon:
			res.Fail(sig("non-canonical"), desc+" => "+showNum(val)+" (representation not canonical)")
		}
	}
	for i, o := range ops {
		cur := scope.Get(slip.Symbol(names[i]))
		cr, or := exactOf(cur), exactOf(o.obj)
		if cr == nil || cr.Cmp(o.val) != 0 || or == nil || or.Cmp(o.val) != 0 {
			res.Fail(sig("operand-mutated"), fmt.Sprintf("%s: operand %s was %s, now %s", desc, names[i], o.text, showNum(cur)))
		}
	}
	if err != nil {
		res.Outcome = "err:" + err.Class
	} else {
		res.Outcome = showNum(val)
	}
	return
}

// ---------------------------------------------------------------------------------------------------------------
// self-test: every mutated reference must differ from the reference on at least one enumerated case of its family

func selftest(tier string) (killed, total int, notes []string) {
	type stop struct{}
	for mut := mutNone + 1; mut < mutLast; mut++ {
		total++
		witness := ""
		n := 0
		func() {
			defer func() {
				if r := recover(); r != nil {
					if _, ok := r.(stop); !ok {
						panic(r)
					}
				}
			}()
			enumerateBits(tier, mutOp[mut], func(spec string) {
				parts := strings.Split(spec, "|")
				differ := false
				switch parts[0] {
				case "u":
					x := parseRat(parts[2]).Num()
					a, b := bitRef1(parts[1], x, mutNone), bitRef1(parts[1], x, mut)
					differ = a != nil && a.Cmp(b) != 0
				case "b":
					x, y := parseRat(parts[2]).Num(), parseRat(parts[3]).Num()
					av, ab := bitRef2(parts[1], x, y, mutNone)
					bv, bb := bitRef2(parts[1], x, y, mut)
					differ = (av != nil && av.Cmp(bv) != 0) || (ab != nil && *ab != *bb)
				case "y":
					if parts[1] == "byte" {
						return
					}
					var s, p uint
					fmt.Sscan(parts[2], &s)
					fmt.Sscan(parts[3], &p)
					x := parseRat(parts[4]).Num()
					var nb *big.Int
					if 5 < len(parts) {
						nb = parseRat(parts[5]).Num()
					}
					av, ab := byteRef(parts[1], s, p, x, nb, mutNone)
					bv, bb := byteRef(parts[1], s, p, x, nb, mut)
					differ = (av != nil && av.Cmp(bv) != 0) || (ab != nil && *ab != *bb)
				case "t":
					var vals []*big.Rat
					for _, tok := range parts[2:] {
						o, ok := parseOperand(tok)
						if !ok {
							return
						}
						vals = append(vals, o.val)
					}
					a, _ := naryRef(parts[1], vals, mutNone)
					b, _ := naryRef(parts[1], vals, mut)
					differ = showExpect(a) != showExpect(b)
				}
				n++
				if differ {
					witness = spec
					panic(stop{})
				}
			})
		}()
		if witness != "" {
			killed++
			notes = append(notes, fmt.Sprintf("killed: %s (case %d: %s)", mutNames[mut], n, witness))
		} else {
			notes = append(notes, fmt.Sprintf("SURVIVED: %s (%d cases)", mutNames[mut], n))
		}
	}
	return
}

// words64 is the number of 64-bit words of the two's complement representation of x (sign bit included).
func words64(x *big.Int) int { return intLen(x)/64 + 1 }

func bitCounters(res *engine.Result, op string, operands []*big.Rat) {
	res.Hit("bit-op")
	if strings.HasPrefix(op, "boole-") {
		res.Hit("boole")
	}
	ints := operands
	if op == "logbitp" {
		ints = operands[1:]
		if 64 <= operands[0].Num().Int64() && operands[1].Sign() < 0 {
			res.Hit("bit-sign-extension")
		}
	}
	for _, r := range ints {
		if r.IsInt() && r.Sign() < 0 && !r.Num().IsInt64() {
			res.Hit("bit-negative-bignum")
		}
	}
	if len(ints) == 2 && ints[0].IsInt() && ints[1].IsInt() {
		x, y := ints[0].Num(), ints[1].Num()
		// the shorter operand is negative: its sign has to be extended across a 64-bit word boundary
		if (words64(x) < words64(y) && x.Sign() < 0) || (words64(y) < words64(x) && y.Sign() < 0) {
			res.Hit("bit-sign-extension")
		}
	}
}
