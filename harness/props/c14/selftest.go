package c14

import "fmt"

type stop struct{}

// selftest (S6): every mutated reference must be told apart from the real
// reference by at least one enumerated case of the tier.
func selftest(tier string) (killed, total int, notes []string) {
	fnOf := map[int]string{
		mutFromEndCountFront: "remove",
		mutEndInclusive:      "find",
		mutStableUnstable:    "stable-sort",
		mutKeyNotOnString:    "position",
		mutSearchFromEndLeft: "search",
		mutMergeSecondFirst:  "merge",
		mutCountVisits:       "substitute",
		mutDupsKeepFirst:     "remove-duplicates",
		mutReduceFromEndArgs: "reduce",
		mutTailAsElement:     "maplist",
		mutMapFirstLength:    "map",
		mutMapcanKeepsNil:    "mapcan",
		mutXorKeyFirstOnly:   "set-exclusive-or",
		mutXorConsumes:       "set-exclusive-or",
		mutAdjoinIgnoresTest: "pushnew",
		mutAdjoinTestSwapped: "adjoin",
		mutSelfForward:       "replace-self",
		mutEltEndIsNil:       "elt",
		mutSubseqClamps:      "subseq",
		mutMapIntoClears:     "map-into",
		mutNreverseStorage:   "nreverse",
		mutMakeSeqOffByOne:   "make-sequence",
		mutQuant3First2:      "every",
		mutQuantBehindFill:   "some",
	}
	for mut := mutNone + 1; mut < mutLast; mut++ {
		total++
		witness := ""
		n := 0
		func() {
			defer func() {
				if r := recover(); r != nil {
					if _, ok := r.(stop); !ok {
						panic(r)
					}
				}
			}()
			enumerateFn(tier, fnOf[mut], func(spec string) {
				n++
				c, err := parseSpec(spec)
				if err != nil {
					panic(err)
				}
				wr, wm := expect(c, mutNone), expect(c, mut)
				switch {
				case wr.truthy != nil && wm.truthy != nil:
					if *wr.truthy != *wm.truthy {
						witness = fmt.Sprintf("%s: reference %v, mutant %v", c.form(), *wr.truthy, *wm.truthy)
						panic(stop{})
					}
				case wr.mustErr != wm.mustErr:
					witness = fmt.Sprintf("%s: reference %s, mutant %s", c.form(), wr.desc, wm.desc)
					panic(stop{})
				case wr.truthy == nil && wm.truthy == nil && wr.show != "" && wm.show != "" && wr.show != wm.show:
					// (wants with an acceptance function carry a representative rendering in show)
					witness = fmt.Sprintf("%s: reference %s, mutant %s", c.form(), wr.show, wm.show)
					panic(stop{})
				}
			})
		}()
		if witness != "" {
			killed++
			notes = append(notes, fmt.Sprintf("killed: %s — case %d of %s: %s", mutNames[mut], n, fnOf[mut], witness))
		} else {
			notes = append(notes, fmt.Sprintf("SURVIVED: %s (%d cases of %s)", mutNames[mut], n, fnOf[mut]))
		}
	}
	return
}
