// Package engine holds the exploration drivers shared by every property check:
// a statically enumerated choice space (E1), a level-synchronous BFS over
// operation histories (E2), worker processes, fresh-process confirmation,
// known-finding matching and evidence writing.
package engine

import (
	"sort"
	"sync"
)

// Failure is one oracle verdict on one case.
type Failure struct {
	Sig    string `json:"sig"`    // canonical signature: *what* fails
	Detail string `json:"detail"` // expected / observed
	// Spec, when set, is the spec of the failing SUB-case (a case may explore many executions, e.g. all
	// schedules of a subtree); it is what gets confirmed in fresh processes and written to the replay file.
	Spec string `json:"spec,omitempty"`
}

// Result of executing one case against the real code.
type Result struct {
	Failures   []Failure      `json:"failures,omitempty"`
	Outcome    string         `json:"outcome,omitempty"` // digest of what was observed (distinct outcomes are counted)
	Nontrivial bool           `json:"nontrivial,omitempty"`
	Counters   map[string]int `json:"counters,omitempty"` // vacuity guards
	Key        string         `json:"key,omitempty"`      // implementation-state key (BFS only)
	Enabled    []string       `json:"enabled"`            // BFS: operations enabled in the reached state (nil = all, empty = none)
}

// Fail appends a failure.
func (r *Result) Fail(sig, detail string) {
	r.Failures = append(r.Failures, Failure{Sig: sig, Detail: detail})
}

// Hit bumps a vacuity counter.
func (r *Result) Hit(name string) {
	if r.Counters == nil {
		r.Counters = map[string]int{}
	}
	r.Counters[name]++
}

// Tier names.
const (
	Quick    = "quick"
	Thorough = "thorough"
)

// BFS describes an explicit-state search over operation histories. A state
// is the history reaching it; successors are built by replaying the history
// on a fresh instance and applying one more operation. A case spec is the
// JSON list of operations.
type BFS struct {
	// Ops returns the operation alphabet (ordered simplest first).
	Ops func(tier string) []string
	// MaxDepth is the history length bound.
	MaxDepth func(tier string) int
	// NoDedupDepth: histories up to this length are explored without
	// state-key deduplication (cross-check of the key).
	NoDedupDepth func(tier string) int
	// StateCap bounds the number of distinct states (0 = none).
	StateCap func(tier string) int
}

// Prop is a property check.
type Prop struct {
	ID          string
	Level       string // exploration | model_checking | fault_enumeration
	Rule        string
	Assumptions []string
	// Enumerate emits every case spec of the tier, deterministically.
	Enumerate func(tier string, emit func(spec string))
	// Exec runs one case on the real code and applies the oracle.
	Exec func(spec string) Result
	// BFS, when set, adds an explicit-state search phase whose cases are
	// JSON op lists executed through Exec with spec "bfs:[...]".
	BFS *BFS
	// Required counters: zero in any of them makes the run a harness error.
	Required []string
	// Isolate: run every case in its own process (used for cases that
	// mutate process-global state irreversibly).
	Isolate bool
	// CaseDeadlineS is the per-case watchdog (default 20 s).
	CaseDeadlineS int
	// Bound describes the bound completed, per tier (goes to evidence).
	Bound func(tier string) string
	// Selftest, when set, is run once by the parent before exploring: it
	// returns the oracle-sensitivity results (mutated references killed).
	Selftest func(tier string) (killed, total int, notes []string)
	// RoundRobin deals the cases to the workers by enumeration index instead of by hash(spec): for properties with
	// few, heavy, unique cases (schedule subtrees) the load is even; duplicate specs are then not guaranteed to meet
	// in one worker, so the enumerator must not emit duplicates.
	RoundRobin bool
	// Workers overrides the worker count (0 = NumCPU).
	Workers int
	// Coverage, when set, adds/overrides evidence coverage keys computed from the merged hit counters
	// (e.g. states / transitions / traces for stateless schedule exploration).
	Coverage func(tier string, counters map[string]int) map[string]any
}

var (
	regMu sync.Mutex
	reg   = map[string]*Prop{}
)

// Register a property.
func Register(p *Prop) {
	regMu.Lock()
	reg[p.ID] = p
	regMu.Unlock()
}

// Lookup a property.
func Lookup(id string) *Prop {
	regMu.Lock()
	defer regMu.Unlock()
	return reg[id]
}

// IDs lists registered properties.
func IDs() []string {
	regMu.Lock()
	defer regMu.Unlock()
	var ids []string
	for id := range reg {
		ids = append(ids, id)
	}
	sort.Strings(ids)
	return ids
}
