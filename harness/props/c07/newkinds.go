package c07

// newkinds.go (round 6): every other form of slip that evaluates a list of body forms and can therefore be crossed
// by an exit, found by reading pkg/cl, pkg/gi, pkg/clos, pkg/flavors and pkg/generic for special forms (SkipEval)
// that evaluate their arguments themselves, plus the ordinary functions prog1 and prog2, whose arguments are body
// forms by the language definition. They are context kinds of the same nesting enumeration as the kinds of c07.go,
// so exits cross pairs and triples of old and new kinds.
//
// Not kinds, with the reason:
//   - the, time, nth-value, multiple-value-list, multiple-value-call, multiple-value-setq: one value form or
//     argument forms, no body (the statement speaks of body positions; see DESIGN.md §6 "Exits in non-body positions").
//   - do-all-symbols: the number of iterations is the number of symbols of every package of the running image,
//     which the reference cannot know.
//   - run (another thread), select (channels), deftest / assert-panic (pkg/test, the test framework),
//     defmacro bodies (expansion time).
//   - return-from out of a flavors method body to the message name: slip documents no such block (a method body of a
//     generic function is in a block of the function's name, as in Common Lisp, and that one is a kind).
//
// Exits inside a cleanup form (positions cn/ce/cr/cg of unwind-protect) are built here as well.

import (
	"bytes"
	"compress/gzip"
	"fmt"
	"strings"
	"sync"

	"github.com/ohler55/slip"

	"verif/engine"
	"verif/lisp"
	"verif/ref/eval"
)

var newKinds = []kindInfo{
	{"do*", "do*", loopPos},
	{"case", "case", bodyPos},
	{"ecase", "ecase", bodyPos},
	{"typecase", "typecase", bodyPos},
	{"etypecase", "etypecase", bodyPos},
	{"and", "and", bodyPos},
	{"or", "or", bodyPos},
	{"prog", "prog", bodyPos},
	{"prog*", "prog*", bodyPos},
	{"prog1", "prog1", bodyPos}, // f: the slot is the value form
	{"prog2", "prog2", bodyPos}, // f: first form, m: the value form, l: a later form
	{"multiple-value-prog1", "multiple-value-prog1", bodyPos},
	{"progv", "progv", bodyPos},
	{"multiple-value-bind", "multiple-value-bind", bodyPos},
	{"loop", "loop", loopPos},
	{"dovector", "dovector", loopPos},
	{"do-symbols", "do-symbols", loopPos},
	{"do-external-symbols", "do-external-symbols", loopPos},
	{"with-output-to-string", "with-output-to-string", bodyPos},
	{"with-input-from-string", "with-input-from-string", bodyPos},
	{"with-open-stream", "with-open-stream", bodyPos},
	{"with-standard-io-syntax", "with-standard-io-syntax", bodyPos},
	{"with-input-from-octets", "with-input-from-octets", bodyPos},
	{"with-zip-writer", "with-zip-writer", bodyPos},
	{"with-zip-reader", "with-zip-reader", bodyPos},
	{"with-slots", "with-slots", bodyPos},
	{"flavor-method", "flavor-method", bodyPos},   // (defflavor F) (defmethod (F :m) () BODY) at top level, (send (make-instance 'F) :m) in place
	{"whopper", "whopper", bodyPos},               // ... (defwhopper (F :m) () BODY with (continue-whopper)) around a primary method that is one marker
	{"generic-method", "generic-method", bodyPos}, // (defmethod G ((o C)) BODY) at top level, (G (make-instance 'C)) in place
	// closures called in place: transparent, every block, tag and function block outside is visible in BODY (the kind
	// "lambda" of the first rounds is (funcall (lambda (z) BODY) 0))
	{"funcall-lambda", "funcall-lambda", bodyPos}, // (funcall (lambda () BODY))
	{"lambda-form", "lambda-form", bodyPos},       // ((lambda () BODY))
	{"apply-lambda", "apply-lambda", bodyPos},     // (apply (lambda (z) BODY) '(1))
	{"let-lambda", "let-lambda", bodyPos},         // (let ((f (lambda () BODY))) (funcall f))
}

// isClosure: anonymous functions called in place.
func isClosure(k *kindInfo) bool {
	switch k.name {
	case "lambda", "funcall-lambda", "lambda-form", "apply-lambda", "let-lambda":
		return true
	}
	return false
}

var newKindSet = func() map[string]bool {
	m := map[string]bool{}
	for _, k := range newKinds {
		m[k.name] = true
	}
	return m
}()

// noSplice: parents whose forms are all tests or values, so that a (defun ..) cannot be put in front of the slot.
// loop: slip resolves every body form of a loop before the first pass, so a call of a function that an earlier body
// form defines is "not defined" - a matter of definition order (C08), not of exits, and not part of this statement.
var noSplice = map[string]bool{"and": true, "or": true, "prog1": true, "prog2": true, "multiple-value-prog1": true, "loop": true}

// preValued: the marker in front of the slot has to yield a true value (and) or is the value form (prog1).
var preValued = map[string]bool{"and": true, "prog1": true, "multiple-value-prog1": true}

// swallowKinds / goDropKinds: the kinds with a mutated reference of their own (selftest).
var swallowKinds = []string{"case", "ecase", "typecase", "etypecase", "and", "or", "prog1", "prog2", "multiple-value-prog1", "progv",
	"multiple-value-bind", "with-output-to-string", "with-input-from-string", "with-open-stream", "with-standard-io-syntax",
	"with-input-from-octets", "with-zip-writer", "with-zip-reader", "with-slots"}
var goDropKinds = []string{"do*", "loop", "dovector", "do-symbols", "do-external-symbols", "prog", "prog*"}

func hasNewKind(ctxs []ctx) bool {
	for _, c := range ctxs {
		if newKindSet[c.kind.name] || cleanupSlot(c) {
			return true
		}
	}
	return false
}

// laterTest is the test that is true on the second pass of the loop at `level`.
func laterTest(k *kindInfo, level int) eval.Node {
	switch k.name {
	case "dolist", "dovector":
		return eval.L(eval.Sym("eql"), lv("i", level), eval.Int(2))
	case "loop":
		return eval.L(eval.Sym("eql"), lv("n", level), eval.Int(2))
	case "do-symbols", "do-external-symbols":
		return eval.L(eval.Sym("eql"), lv("i", level), eval.Q(eval.Sym("bb")))
	}
	return eval.L(eval.Sym("eql"), lv("i", level), eval.Int(1))
}

func (b *built) flavorName(level int) string { return fmt.Sprintf("c07fl-%s-%d", b.unique, level+1) }
func (b *built) genericClass() string        { return "c07-generic-class" }
func (b *built) bodyForm(head string, level int, front ...eval.Node) eval.Node {
	return form(head, append(front, b.body(level)...)...)
}

// buildNew returns the form of a context of one of the new kinds (nil: not one of them).
func (b *built) buildNew(level int) eval.Node {
	c := b.p.ctxs[level]
	S := func(s string) eval.Sym { return eval.Sym(s) }
	switch c.kind.name {
	case "do*":
		body := b.body(level)
		vars := eval.L(eval.L(lv("i", level), eval.Int(0), eval.L(S("+"), lv("i", level), eval.Int(1))), eval.L(lv("j", level), lv("i", level)))
		end := eval.L(eval.L(S(">="), lv("i", level), eval.Int(2)), b.mark(level, "result", true))
		return form("do*", append([]eval.Node{vars, end}, body...)...)
	case "case":
		first := eval.L(eval.Int(1), b.mark(level, "other", true))
		second := append(eval.List{eval.L(eval.Int(5), eval.Int(2))}, b.body(level)...)
		third := eval.L(S("t"), b.mark(level, "other", true))
		return form("case", eval.L(S("+"), eval.Int(1), eval.Int(1)), first, second, third)
	case "ecase":
		first := eval.L(eval.Int(1), b.mark(level, "other", true))
		second := append(eval.List{eval.Int(2)}, b.body(level)...)
		return form("ecase", eval.L(S("+"), eval.Int(1), eval.Int(1)), first, second)
	case "typecase":
		first := eval.L(S("string"), b.mark(level, "other", true))
		second := append(eval.List{S("integer")}, b.body(level)...)
		third := eval.L(S("t"), b.mark(level, "other", true))
		return form("typecase", eval.L(S("+"), eval.Int(1), eval.Int(1)), first, second, third)
	case "etypecase":
		first := eval.L(S("string"), b.mark(level, "other", true))
		second := append(eval.List{S("integer")}, b.body(level)...)
		return form("etypecase", eval.L(S("+"), eval.Int(1), eval.Int(1)), first, second)
	case "and", "or", "prog1", "multiple-value-prog1", "with-standard-io-syntax":
		return b.bodyForm(c.kind.name, level)
	case "prog2":
		var stmts []eval.Node
		switch c.pos {
		case "f":
			slot := b.build(level + 1)
			stmts = []eval.Node{slot, b.mark(level, "value", true), b.mark(level, "post", true)}
		case "m":
			pre := b.mark(level, "pre", false)
			stmts = []eval.Node{pre, b.build(level + 1), b.mark(level, "post", true)}
		default:
			pre := b.mark(level, "pre", false)
			val := b.mark(level, "value", true)
			stmts = []eval.Node{pre, val, b.build(level + 1)}
		}
		return form("prog2", stmts...)
	case "prog", "prog*":
		vars := eval.L(eval.L(lv("v", level), eval.Int(1)))
		if c.kind.name == "prog*" {
			vars = append(vars, eval.L(lv("w", level), lv("v", level)))
		}
		stmts := []eval.Node{vars, b.mark(level, "head", false), tagOf(c.kind, level, false),
			eval.L(S("setq"), lv("n", level), eval.L(S("+"), lv("n", level), eval.Int(1)))}
		stmts = append(stmts, b.body(level)...)
		stmts = append(stmts, tagOf(c.kind, level, true), b.mark(level, "tail", false))
		return form(c.kind.name, stmts...)
	case "progv":
		return b.bodyForm("progv", level, eval.Q(eval.L(lv("pv", level))), eval.Q(eval.L(eval.Int(1))))
	case "multiple-value-bind":
		return b.bodyForm("multiple-value-bind", level, eval.L(lv("v", level), lv("w", level)), eval.L(S("values"), eval.Int(1), eval.Int(2)))
	case "loop":
		body := b.body(level)
		count := eval.L(S("setq"), lv("n", level), eval.L(S("+"), lv("n", level), eval.Int(1)))
		end := eval.L(S("when"), eval.L(S(">"), lv("n", level), eval.Int(2)), eval.L(S("return"), b.mark(level, "result", true)))
		return form("loop", append([]eval.Node{count, end}, body...)...)
	case "dovector":
		body := b.body(level)
		head := eval.L(lv("i", level), eval.Q(eval.L(eval.Int(1), eval.Int(2))), b.mark(level, "result", true))
		return form("dovector", append([]eval.Node{head}, body...)...)
	case "do-symbols", "do-external-symbols":
		body := b.body(level)
		head := eval.L(lv("i", level), lv("pk", level), b.mark(level, "result", true))
		return form(c.kind.name, append([]eval.Node{head}, body...)...)
	case "with-output-to-string":
		return b.bodyForm(c.kind.name, level, eval.L(lv("os", level)))
	case "with-input-from-string":
		return b.bodyForm(c.kind.name, level, eval.L(lv("is", level), eval.Str("abc")))
	case "with-open-stream":
		return b.bodyForm(c.kind.name, level, eval.L(lv("ws", level), eval.L(S("make-string-input-stream"), eval.Str("x"))))
	case "with-input-from-octets":
		return b.bodyForm(c.kind.name, level, eval.L(lv("io", level), lv("oc", level)))
	case "with-zip-writer":
		return b.bodyForm(c.kind.name, level, eval.L(lv("zw", level), eval.L(S("make-string-output-stream")), eval.Int(0)))
	case "with-zip-reader":
		inner := b.bodyForm("with-zip-reader", level, eval.L(lv("zr", level), lv("zi", level)))
		return form("with-input-from-octets", eval.L(lv("zi", level), lv("gz", level)), inner)
	case "with-slots":
		return b.bodyForm("with-slots", level, eval.L(S("sx")), lv("wsi", level))
	case "flavor-method", "whopper":
		fl := b.flavorName(level)
		b.flavors = append(b.flavors, fl)
		target := eval.L(S(fl), S(":m"))
		var defs []eval.Node
		if c.kind.name == "whopper" {
			body := b.body(level)
			primary := form("defmethod", target, nil, b.mark(level, "primary", true))
			cont := eval.L(S("continue-whopper"))
			if c.pos == "l" {
				body = append([]eval.Node{cont}, body...)
			} else {
				body = append(body, cont)
			}
			defs = []eval.Node{primary, form("defwhopper", append([]eval.Node{target, nil}, body...)...)}
		} else {
			defs = []eval.Node{form("defmethod", append([]eval.Node{target, nil}, b.body(level)...)...)}
		}
		b.forms = append(b.forms, form("defflavor", S(fl), nil, nil))
		b.forms = append(b.forms, defs...)
		return eval.L(S("send"), eval.L(S("make-instance"), eval.Q(S(fl))), S(":m"))
	case "funcall-lambda":
		return eval.L(S("funcall"), b.bodyForm("lambda", level, nil))
	case "lambda-form":
		return eval.L(b.bodyForm("lambda", level, nil))
	case "apply-lambda":
		return eval.L(S("apply"), b.bodyForm("lambda", level, eval.L(lv("z", level))), eval.Q(eval.L(eval.Int(1))))
	case "let-lambda":
		lam := b.bodyForm("lambda", level, nil)
		return form("let", eval.L(eval.L(lv("f", level), lam)), eval.L(S("funcall"), lv("f", level)))
	case "generic-method":
		name := b.fnName(level)
		b.fnNames = append(b.fnNames, name)
		b.usesGeneric = true
		params := eval.L(eval.L(lv("o", level), S(b.genericClass())))
		b.forms = append(b.forms, form("defmethod", append([]eval.Node{S(name), params}, b.body(level)...)...))
		return eval.L(S(name), eval.L(S("make-instance"), eval.Q(S(b.genericClass()))))
	}
	return nil
}

// buildCleanupSlot: an unwind-protect whose slot is the second of three cleanup forms.
func (b *built) buildCleanupSlot(level int) eval.Node {
	c := b.p.ctxs[level]
	S := func(s string) eval.Sym { return eval.Sym(s) }
	up := func(protected eval.Node) eval.Node {
		c1 := b.mark(level, "cleanup1", false)
		slot := b.build(level + 1)
		return form("unwind-protect", protected, c1, slot, b.mark(level, "cleanup2", false))
	}
	switch c.pos {
	case "cn":
		return up(b.mark(level, "protected", true))
	case "ce":
		return up(errorForm("err-error"))
	case "cr":
		name := lv("cu", level)
		val := b.mark(level, "own-value", true)
		inner := up(eval.L(S("return-from"), name, val))
		return form("block", name, inner, b.mark(level, "own-skipped", true))
	default: // cg
		tag := eval.Int(10*(level+1) + 5)
		inner := up(eval.L(S("go"), tag))
		return form("tagbody", inner, b.mark(level, "own-skipped", false), tag, b.mark(level, "own-landed", false))
	}
}

// ---------------------------------------------------------------- objects the new kinds need

var (
	envOnce    sync.Once
	envProblem string
	envPackage slip.Object
	envGzip    []byte
)

// prepareProcess defines, once per process, the package do-symbols iterates over, the class of with-slots and the
// class the generic methods specialize on, and the gzip data with-zip-reader reads.
func prepareProcess() string {
	envOnce.Do(func() {
		for _, src := range []string{
			"(defpackage c07-symbols (:export aa bb))",
			"(defvar c07-symbols::aa 1)",
			"(defvar c07-symbols::bb 2)",
			"(defclass c07-slots-class () ((sx :initform 1)))",
			"(defclass c07-generic-class () ())",
			// round 8: the user-defined condition classes of the error-class family; the output of time and warn
			// goes to string streams
			"(define-condition c07-user-error (error) ((x :initarg :x)))",
			"(define-condition c07-user-arith (arithmetic-error) ())",
			"(setq *trace-output* (make-string-output-stream))",
			"(setq *error-output* (make-string-output-stream))",
		} {
			if _, err := lisp.Eval(src); err != nil {
				envProblem = src + ": " + err.String()
				return
			}
		}
		var err *lisp.Err
		if envPackage, err = lisp.Eval("(find-package 'c07-symbols)"); err != nil || envPackage == nil {
			envProblem = "find-package c07-symbols failed"
			return
		}
		var buf bytes.Buffer
		z := gzip.NewWriter(&buf)
		_, _ = z.Write([]byte("c07"))
		_ = z.Close()
		envGzip = buf.Bytes()
	})
	return envProblem
}

// setupSlip binds the per-level objects of the new kinds in the scope the program runs in.
func setupSlip(scope *slip.Scope, p *program) string {
	for i, c := range p.ctxs {
		switch c.kind.name {
		case "do-symbols", "do-external-symbols", "with-slots", "with-zip-reader", "generic-method":
			if problem := prepareProcess(); problem != "" {
				return problem
			}
		}
		switch c.kind.name {
		case "do-symbols", "do-external-symbols":
			scope.Let(slip.Symbol(lv("pk", i)), envPackage)
		case "with-slots":
			inst, err := lisp.Eval("(make-instance 'c07-slots-class)")
			if err != nil {
				return "make-instance c07-slots-class: " + err.String()
			}
			scope.Let(slip.Symbol(lv("wsi", i)), inst)
		case "with-input-from-octets":
			scope.Let(slip.Symbol(lv("oc", i)), slip.Octets("abc"))
		case "with-zip-reader":
			scope.Let(slip.Symbol(lv("gz", i)), slip.Octets(append([]byte(nil), envGzip...)))
		}
	}
	return ""
}

// setupRef binds the same names in the reference interpreter.
func setupRef(in *eval.Interp, p *program) {
	for i, c := range p.ctxs {
		switch c.kind.name {
		case "do-symbols", "do-external-symbols":
			in.SetGlobal(string(lv("pk", i)), &eval.Package{Name: "c07-symbols", Symbols: []string{"aa", "bb"}, External: []string{"aa", "bb"}})
		case "with-slots":
			in.SetGlobal(string(lv("wsi", i)), &eval.Instance{Class: "c07-slots-class"})
		case "with-input-from-octets":
			in.SetGlobal(string(lv("oc", i)), &eval.Opaque{Kind: "octets"})
		case "with-zip-reader":
			in.SetGlobal(string(lv("gz", i)), &eval.Opaque{Kind: "octets"})
		}
	}
}

// flowTarget is effectiveTarget for programs with a slot inside a cleanup form. It follows what is in flight from
// the slot outward: the exit itself (until its target or, for an error, a handler absorbs it), an error raised by
// a failing cleanup (which replaces everything and decides the answer, as in effectiveTarget), and what the
// protected form of a cn/ce/cr/cg unwind-protect had started, which is taken up again when the cleanup slot ends
// normally and is dropped when an exit leaves the cleanup slot. The answer names the first transfer that is
// completed: its end (a context index, -1 = top level, -2 = none) and a name for signatures.
func flowTarget(p *program) (idx int, sig string, cleanupErr bool) {
	otgt, osig := target(p)
	const (
		none = iota
		exit
		failure
	)
	fl, to := none, -2
	switch {
	case p.exit == "norm":
	case osig == "error":
		fl = failure
	default:
		fl, to = exit, otgt
	}
	sig = osig
	idx, done := -2, false
	absorb := func(at int) {
		if !done {
			idx, done = at, true
		}
	}
	for l := len(p.ctxs) - 1; 0 <= l; l-- {
		c := p.ctxs[l]
		switch {
		case fl == exit && to == l:
			absorb(l)
			fl = none
		case fl == failure && isHandler(c.kind):
			if cleanupErr {
				return l, sig, true
			}
			absorb(l)
			fl = none
		case failingCleanup(c):
			if !cleanupErr {
				sig += "+cleanup-error"
			}
			fl, cleanupErr = failure, true
		case cleanupSlot(c) && fl != none:
			// an exit or error leaves the cleanup slot: what the protected form had started is dropped
			if !done {
				sig += map[string]string{"cn": "+from-cleanup", "ce": "+from-cleanup-over-error", "cr": "+from-cleanup-over-return", "cg": "+from-cleanup-over-go"}[c.pos]
			}
		case cleanupSlot(c):
			switch c.pos {
			case "ce":
				if !done {
					sig += "+resumed-error"
				}
				fl = failure
			case "cr", "cg":
				if !done {
					sig += map[string]string{"cr": "+resumed-return", "cg": "+resumed-go"}[c.pos]
				}
				absorb(l)
			}
		}
	}
	if fl == failure {
		if cleanupErr {
			return -1, sig, true
		}
		absorb(-1)
	}
	return idx, sig, cleanupErr
}

// ---------------------------------------------------------------- vacuity counters of the new kinds

func isControl(exitSig string) bool {
	return strings.HasPrefix(exitSig, "return") || strings.HasPrefix(exitSig, "go-")
}

// countNew: which new kinds the exit crosses (tgt is the exit's own target).
func countNew(res *engine.Result, p *program, tgt int, exitSig string) {
	control := isControl(exitSig)
	crossedNew, crossedOld, leftCleanup := false, false, false
	for i := len(p.ctxs) - 1; tgt < i && 0 <= i; i-- {
		c := p.ctxs[i]
		switch {
		case newKindSet[c.kind.name] && control:
			res.Hit("crossed:" + c.kind.name)
			crossedNew = true
		case newKindSet[c.kind.name]:
			res.Hit("error-through:" + c.kind.name)
		case control:
			crossedOld = true
		}
		if c.kind.name == "unwind-protect" && leftCleanup {
			res.Hit("exit-from-cleanup-form-through-outer-cleanup")
		}
		if cleanupSlot(c) {
			leftCleanup = true
			if control {
				res.Hit("exit-leaves-cleanup-form:" + c.pos)
			} else {
				res.Hit("error-leaves-cleanup-form:" + c.pos)
			}
		}
	}
	if crossedNew && crossedOld {
		res.Hit("crossed-new-and-old-kind")
	}
	if 0 <= tgt && newKindSet[p.ctxs[tgt].kind.name] && control {
		res.Hit("target:" + p.ctxs[tgt].kind.name)
		if strings.HasPrefix(exitSig, "go-") {
			res.Hit("go-to-a-tag-of-prog")
		}
	}
}

func requiredNew() (out []string) {
	for _, k := range newKinds {
		if isBoundary(&k) {
			out = append(out, "error-through:"+k.name)
			continue
		}
		out = append(out, "crossed:"+k.name, "error-through:"+k.name)
		if isNilBlock(&k) {
			out = append(out, "target:"+k.name)
		}
	}
	out = append(out, "target:generic-method", "go-to-a-tag-of-prog", "crossed-new-and-old-kind",
		"exit-leaves-cleanup-form:cn", "exit-leaves-cleanup-form:ce", "exit-leaves-cleanup-form:cr", "exit-leaves-cleanup-form:cg",
		"error-leaves-cleanup-form:ce", "exit-from-cleanup-form-through-outer-cleanup")
	return
}
