//go:build verif

package c10

import (
	"strings"

	"verif/engine"
	"verif/props/c17"
)

// The concurrent half of C10: calls and defmethod / remove-method issued from concurrent routines.
// The scenarios (d3 defmethod vs first call, d4 remove-method vs call, d5 daemon added during a call,
// d6 two callers and a defmethod) and the schedule explorer live in props/c17 (engine E3: every
// schedule of the real goroutines up to a preemption bound under the cooperative scheduler, plus the
// race-detector pass); here they are enumerated and judged under property C10: after the join every
// call must dispatch by the final method table, every call made during the race must see the table
// before or after the concurrent change, and no unordered access pair inside the dispatch code.

func init() {
	c17.RaceBinary = "C10" // the -race pass runs in this property's own race binary
}

func concEnumerate(tier string, emit func(string)) {
	reentEnumerate(emit)
	stepsEnumerate(emit)
	for _, spec := range c17.GenericScenarioSpecs(tier) {
		emit(spec)
	}
}

func isConc(spec string) bool {
	return strings.HasPrefix(spec, "explore|") || strings.HasPrefix(spec, "replay|") || strings.HasPrefix(spec, "race|")
}

func execAny(spec string) engine.Result {
	if isConc(spec) {
		return c17.ExecSpec(spec)
	}
	if strings.HasPrefix(spec, "reent|") {
		return execReent(spec)
	}
	if strings.HasPrefix(spec, "steps|") {
		return execSteps(spec)
	}
	if strings.HasPrefix(spec, "eql|") {
		return execEql(spec)
	}
	return exec(spec)
}
