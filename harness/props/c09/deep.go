package c09

// deep.go: the resource side of the property for DEPTH and LENGTH.
//
// Family d (reader): texts made of n openers (with and without their closers) and tokens of n characters, through
// Read, ReadStream and read-from-string. Family e (evaluation / data depth): programs that recurse without end,
// deeply nested data (built by a loop) and self-containing data handed to every built-in that walks a structure.
//
// Every case runs in the helper process (8 s, 3 GiB address space) whose Go stack limit is set to 250 MB - the
// default of the 32-bit Go hosts, a quarter of the 64-bit default - so that a recursion without end is met in a
// fraction of a second. The outcome must be a value, a partial read or a Lisp condition: Go's `fatal error: stack
// overflow` / `out of memory` cannot be recovered and kills the host.
//
// spec: d|<api>|<shape>|<n>|<open|closed>
//       e|<data>|<op>            data = name or name:N
//       e|program|<name>

import (
	"bytes"
	"fmt"
	"os"
	"runtime/debug"
	"strconv"
	"strings"

	"github.com/ohler55/slip"

	"verif/engine"
)

// childStackLimit: see the header.
const childStackLimit = 250_000_000

// ---------------------------------------------------------------- family d: the reader

type nestShape struct{ name, open, atom, close string }

var nestShapes = []nestShape{
	{"paren", "(", "a", ")"},
	{"vector", "#(", "a", ")"},
	{"quote", "'", "a", ""},
	{"backquote", "`", "a", ""},
	{"function", "#'", "a", ""},
	{"backquote-comma", "`,", "a", ""},
	{"backquote-paren-comma", "`(,", "a", ")"},
	{"comma-at", "`(,@", "a", ")"},
	{"pipe", "|", "", "|"},
	{"dquote", `"`, "", `"`},
	{"block-comment", "#|", "a", "|#"},
	{"dotted", "(a . ", "b", ")"},
	{"complex", "#c(", "1", ")"},
	{"array", "#2A(", "1", ")"},
	{"array-rank-0", "#0A", "1", ""},
	{"backslash", `\`, "a", ""},
	{"char", `#\`, "", ""},
	{"read-eval", "#.", "1", ""},
	{"feature", "#+a ", "1", ""},
	{"quote-paren", "'(", "a", ")"},
	{"line-comment", ";\n", "a", ""},
}

// token shapes: n is the number of repeated characters
type tokenShape struct {
	name string
	text func(n int) string
}

func rep(s string, n int) string { return strings.Repeat(s, n) }

var tokenShapes = []tokenShape{
	{"digits", func(n int) string { return rep("7", n) }},
	{"negative-digits", func(n int) string { return "-" + rep("7", n) }},
	{"symbol", func(n int) string { return rep("a", n) }},
	{"keyword", func(n int) string { return ":" + rep("a", n) }},
	{"package-markers", func(n int) string { return rep("a:", n) + "a" }},
	{"string", func(n int) string { return `"` + rep("a", n) + `"` }},
	{"string-of-escapes", func(n int) string { return `"` + rep(`\"`, n) + `"` }},
	{"piped-symbol", func(n int) string { return "|" + rep("a", n) + "|" }},
	{"ratio-zero-denominator", func(n int) string { return "1/" + rep("0", n) }},
	{"ratio-zero-numerator", func(n int) string { return rep("0", n) + "/" + rep("0", n) }},
	{"ratio", func(n int) string { return rep("7", n) + "/" + rep("3", n) }},
	{"float-fraction", func(n int) string { return "1." + rep("7", n) }},
	{"float-integer-part", func(n int) string { return rep("7", n) + ".5" }},
	{"float-exponent", func(n int) string { return "1e" + rep("9", n) }},
	{"float-negative-exponent", func(n int) string { return "1e-" + rep("9", n) }},
	{"double-exponent", func(n int) string { return "1d" + rep("9", n) }},
	{"long-exponent", func(n int) string { return "1l" + rep("9", n) }},
	{"short-exponent", func(n int) string { return "1s" + rep("9", n) }},
	{"hex", func(n int) string { return "#x" + rep("f", n) }},
	{"binary", func(n int) string { return "#b" + rep("1", n) }},
	{"octal", func(n int) string { return "#o" + rep("7", n) }},
	{"bit-vector", func(n int) string { return "#*" + rep("1", n) }},
	{"character-name", func(n int) string { return `#\` + rep("a", n) }},
	{"character-code", func(n int) string { return `#\x` + rep("F", n) }},
	{"character-unicode", func(n int) string { return `#\u+` + rep("9", n) }},
	{"sharp-n-A", func(n int) string { return "#" + rep("9", n) + "A()" }},
	{"sharp-n-A-data", func(n int) string { return "#" + rep("9", n) + "A((1))" }},
	{"sharp-1-zeros-A", func(n int) string { return "#1" + rep("0", n) + "A()" }},
	{"sharp-n-R", func(n int) string { return "#" + rep("9", n) + "r10" }},
	{"sharp-1-zeros-R", func(n int) string { return "#1" + rep("0", n) + "r10" }},
	{"sharp-n-R-long", func(n int) string { return "#36r" + rep("z", n) }},
	{"sharp-n-star", func(n int) string { return "#" + rep("9", n) + "*" }},
	{"sharp-n-star-data", func(n int) string { return "#" + rep("9", n) + "*101" }},
	{"sharp-n-paren", func(n int) string { return "#" + rep("9", n) + "(1 2)" }},
	{"sharp-n-equal", func(n int) string { return "#" + rep("9", n) + "=(a)" }},
	{"sharp-n-sharp", func(n int) string { return "#" + rep("9", n) + "#" }},
	{"sharp-n-alone", func(n int) string { return "#" + rep("9", n) }},
	{"sharp-n-c", func(n int) string { return "#" + rep("9", n) + "c(1 2)" }},
	{"sharp-n-x", func(n int) string { return "#" + rep("9", n) + "x10" }},
	{"sharp-n-quote", func(n int) string { return "#" + rep("9", n) + "'car" }},
	{"sharp-n-bar", func(n int) string { return "#" + rep("9", n) + "|x|#" }},
	{"sharp-n-backslash", func(n int) string { return "#" + rep("9", n) + `\a` }},
	{"complex-zero-denominator", func(n int) string { return "#c(1/" + rep("0", n) + " 1)" }},
	{"list-of-atoms", func(n int) string { return "(" + rep("a ", n) + ")" }},
	{"vector-of-atoms", func(n int) string { return "#(" + rep("1 ", n) + ")" }},
	{"array-row", func(n int) string { return "#2A((" + rep("1 ", n) + "))" }},
	{"array-rows", func(n int) string { return "#2A(" + rep("(1)", n) + ")" }},
	{"top-level-forms", func(n int) string { return rep("a ", n) }},
	{"closers", func(n int) string { return rep(")", n) }},
	{"dots", func(n int) string { return rep(".", n) }},
	{"commas", func(n int) string { return rep(",", n) + "a" }},
	{"ats", func(n int) string { return "`(," + rep("@", n) + "a)" }},
	{"sharps", func(n int) string { return rep("#", n) }},
	{"newlines", func(n int) string { return rep("\n", n) + "a" }},
}

func nestSizes(tier string) []int {
	if tier == engine.Thorough {
		return []int{1000, 10000, 100000, 1000000}
	}
	return []int{1000, 10000, 100000}
}

func tokenSizes(tier string) []int {
	if tier == engine.Thorough {
		return []int{1, 2, 3, 5, 10, 18, 19, 20, 21, 40, 1000, 100000, 1000000}
	}
	return []int{1, 2, 3, 5, 10, 18, 19, 20, 21, 40, 1000, 100000}
}

const deepAPIs = "stl"

// cheapNest: the nest shapes that are read in a fraction of a second at a million levels on the unchanged tree; only
// these get n = 10^6 (the others need one to two seconds there when the machine is idle - too close to the deadline of
// a loaded one for a verdict that must never be a matter of timing).
var cheapNest = map[string]bool{"paren": true, "vector": true, "pipe": true, "dquote": true, "block-comment": true, "line-comment": true,
	"backslash": true, "char": true}

// numericToken: shapes whose text is converted to a number. math/big needs time quadratic in the number of digits: a
// million digits take longer than the deadline on a loaded machine although the work is bounded, so these shapes stop at
// 10^5 in both tiers.
func numericToken(name string) bool {
	switch name {
	case "digits", "negative-digits", "ratio-zero-denominator", "ratio-zero-numerator", "ratio", "float-fraction", "float-integer-part",
		"float-exponent", "float-negative-exponent", "double-exponent", "long-exponent", "short-exponent", "hex", "binary", "octal",
		"sharp-n-R-long", "complex-zero-denominator", "bit-vector":
		return true
	}
	return false
}

func enumDeepReader(tier string, emit func(string)) {
	for _, n := range tokenSizes(tier) {
		for _, sh := range tokenShapes {
			if 100000 < n && numericToken(sh.name) {
				continue
			}
			for _, api := range deepAPIs {
				emit(fmt.Sprintf("d|%c|%s|%d|token", api, sh.name, n))
			}
		}
	}
	for _, n := range nestSizes(tier) {
		for _, sh := range nestShapes {
			if 100000 < n && !cheapNest[sh.name] {
				continue
			}
			for _, api := range deepAPIs {
				emit(fmt.Sprintf("d|%c|%s|%d|open", api, sh.name, n))
				if sh.close != "" {
					emit(fmt.Sprintf("d|%c|%s|%d|closed", api, sh.name, n))
				}
			}
		}
	}
}

func deepText(shape string, n int, form string) (string, bool) {
	if form == "token" {
		for _, sh := range tokenShapes {
			if sh.name == shape {
				return sh.text(n), true
			}
		}
		return "", false
	}
	for _, sh := range nestShapes {
		if sh.name == shape {
			t := rep(sh.open, n) + sh.atom
			if form == "closed" {
				t += rep(sh.close, n)
			}
			return t, true
		}
	}
	return "", false
}

func sizeClass(n int) string {
	switch {
	case n <= 40:
		return "short"
	}
	return "long"
}

func execDeepReader(spec string) (res engine.Result) {
	parts := strings.Split(spec, "|")
	if len(parts) != 5 || len(parts[1]) != 1 || !strings.Contains(deepAPIs, parts[1]) {
		res.Fail("harness:bad-spec", spec)
		return
	}
	api, shape, form := parts[1], parts[2], parts[4]
	n, err := strconv.Atoi(parts[3])
	text, ok := deepText(shape, n, form)
	if err != nil || !ok {
		res.Fail("harness:bad-spec", spec)
		return
	}
	what := fmt.Sprintf("reading the %s text of shape %s with n=%d (%d bytes, starts %s) through %s",
		form, shape, n, len(text), strconv.QuoteToASCII(head(text, 24)), apiNames[api])
	sig := fmt.Sprintf("reader-depth api=%s shape=%s", apiNames[api], shape)
	if os.Getenv("C09_CHILD") == "" {
		return isolatedCase(spec, sig, what, "deep-reader-cases", false)
	}
	res.Hit("deep-reader-cases")
	debug.SetMaxStack(childStackLimit)
	src := []byte(text)
	scope := slip.NewScope()
	var o *obs
	switch api {
	case "s":
		o = observe(func() slip.Object { return slip.Fixnum(len(slip.Read(src, scope))) })
	case "t":
		o = observe(func() slip.Object { c, _ := slip.ReadStream(bytes.NewReader(src), scope); return slip.Fixnum(len(c)) })
	case "l":
		saved := slip.CurrentPackage
		defer func() { slip.CurrentPackage = saved }()
		scope.Let(slip.Symbol("c09a0"), slip.String(src))
		o = observe(func() slip.Object {
			// only the kind of the result leaves the evaluation: the object itself may be a million levels deep
			return slip.ReadString("(type-of (read-from-string c09a0))", scope).Eval(scope, nil)
		})
	}
	res.Nontrivial = true
	res.Outcome = o.kind + ":" + o.class
	switch o.kind {
	case "value":
		res.Outcome = digest("v:"+slip.ObjectString(o.val), 60)
		res.Hit("reader-value")
		res.Hit("deep-reader-value")
	case "partial":
		res.Hit("reader-partial")
	case "condition":
		res.Outcome = "c:" + o.class + ":" + digest(head(o.msg, 60), 60)
		res.Hit("reader-condition")
		res.Hit("deep-reader-condition")
	}
	if o.catchAll {
		res.Hit("catch-all-conversions")
	}
	if fc := realClassifier.classify(o); fc != "" {
		res.Hit("faults")
		res.Fail(fmt.Sprintf("%s fault=%s at=%s", sig, fc, o.site), what+" => "+headObs(o))
	} else if o.catchAll {
		res.Hit("catch-all-accepted")
		logAccepted(sig, o)
	}
	return
}

func head(s string, n int) string {
	if n < len(s) {
		return s[:n] + "..."
	}
	return s
}

// headObs: describe() with the message cut (it may quote a text of a million characters).
func headObs(o *obs) string {
	cp := *o
	cp.msg = head(o.msg, 300)
	if cp.kind == "value" {
		return "value " + head(slip.ObjectString(cp.val), 200)
	}
	return cp.describe()
}

// ---------------------------------------------------------------- family e: evaluation and data depth

type deepDatum struct {
	name  string
	class string // nested | self
	form  string // builds ONE such object; N = the depth
}

var deepData = []deepDatum{
	{"nested-list", "nested", "(let ((l nil)) (dotimes (i N) (setq l (list l))) l)"},
	{"nested-list-3", "nested", "(let ((l nil)) (dotimes (i N) (setq l (list 1 l 2))) l)"},
	{"nested-vector", "nested", "(let ((l nil)) (dotimes (i N) (setq l (vector l))) l)"},
	{"nested-dotted", "nested", "(let ((l nil)) (dotimes (i N) (setq l (cons l 1))) l)"},
	{"nested-quote", "nested", "(let ((l 1)) (dotimes (i N) (setq l (list 'quote l))) l)"},
	{"nested-alist", "nested", "(let ((l nil)) (dotimes (i N) (setq l (list (cons 'a l)))) l)"},
	{"long-list", "nested", "(make-list N :initial-element 1)"},
	{"self-car", "self", "(let ((l (list 1 2 3))) (setf (car l) l) l)"},
	{"self-nth", "self", "(let ((l (list 1 2 3))) (setf (nth 1 l) l) l)"},
	{"self-rplaca", "self", "(let ((l (list 1 2 3))) (rplaca l l) l)"},
	{"self-last", "self", "(let ((l (list 1 2 3))) (setf (nth 2 l) l) l)"},
	{"cycle-rplacd", "self", "(let ((l (list 1 2 3))) (rplacd (cddr l) l) l)"},
	{"cycle-nconc", "self", "(let ((l (list 1 2 3))) (nconc l l) l)"},
	{"self-cons-cdr", "self", "(let ((c (cons 1 2))) (rplacd c c) c)"},
	{"self-cons-car", "self", "(let ((c (cons 1 2))) (rplaca c c) c)"},
	{"self-vector", "self", "(let ((v (vector 1 2 3))) (setf (aref v 0) v) v)"},
	{"self-fill-pointer-vector", "self", "(let ((v (make-array 1 :fill-pointer 0 :adjustable t))) (vector-push-extend v v) v)"},
	{"self-array", "self", "(let ((a (make-array (list 2 2) :initial-element 0))) (setf (aref a 1 1) a) a)"},
	{"self-hash-value", "self", "(let ((h (make-hash-table))) (setf (gethash 'a h) h) h)"},
	{"list-vector-cycle", "self", "(let* ((l (list 1 2)) (v (vector l))) (setf (car l) v) l)"},
	{"list-hash-cycle", "self", "(let* ((l (list 1 2)) (h (make-hash-table))) (setf (gethash 'a h) l) (setf (car l) h) l)"},
	{"self-slot", "self", "(progn (defclass c09self () ((a :initarg :a))) (let ((i (make-instance 'c09self :a 1))) (setf (slot-value i 'a) i) i))"},
	{"self-instance-variable", "self", "(progn (defflavor c09selff ((a 1)) () :settable-instance-variables) (let ((i (make-instance 'c09selff))) (send i :set-a i) i))"},
	{"list-in-slot-cycle", "self", "(progn (defclass c09self2 () ((a :initarg :a))) (let* ((l (list 1 2)) (i (make-instance 'c09self2 :a l))) (setf (car l) i) l))"},
}

type deepOp struct {
	name string
	form string // uses x (the object) and y (a second object built the same way); the result is small
}

var deepOps = []deepOp{
	{"princ-to-string", "(length (princ-to-string x))"},
	{"prin1-to-string", "(length (prin1-to-string x))"},
	{"format-A", `(length (format nil "~A" x))`},
	{"format-S", `(length (format nil "~S" x))`},
	{"format-W", `(length (format nil "~W" x))`},
	{"format-iteration", `(length (format nil "~{~A~}" (list x)))`},
	{"write-pretty", "(length (write-to-string x :pretty t))"},
	{"write-circle", "(length (write-to-string x :circle t))"},
	{"write-circle-pretty", "(length (write-to-string x :circle t :pretty t))"},
	{"write-level-2", "(length (write-to-string x :level 2 :length 4))"},
	{"write-readably", "(length (write-to-string x :readably t))"},
	{"pprint", "(let ((s (make-string-output-stream))) (pprint x s) (length (get-output-stream-string s)))"},
	{"print-stream", "(let ((s (make-string-output-stream))) (print x s) (length (get-output-stream-string s)))"},
	{"describe", "(let ((s (make-string-output-stream))) (describe x s) (length (get-output-stream-string s)))"},
	{"sxhash", "(integerp (sxhash x))"},
	{"equal-twin", "(equal x y)"},
	{"equalp-twin", "(equalp x y)"},
	{"equal-self", "(equal x x)"},
	{"eql-self", "(eql x x)"},
	{"tree-equal", "(tree-equal x y)"},
	{"copy-tree", "(null (copy-tree x))"},
	{"copy-list", "(null (copy-list x))"},
	{"copy-seq", "(null (copy-seq x))"},
	{"length", "(length x)"},
	{"list-length", "(list-length x)"},
	{"reverse", "(null (reverse x))"},
	{"coerce-vector", "(null (coerce x 'vector))"},
	{"coerce-list", "(null (coerce x 'list))"},
	{"subst", "(null (subst 0 1 x))"},
	{"sublis", "(null (sublis (list (cons 1 0)) x))"},
	{"member-equal", "(null (member x (list y) :test #'equal))"},
	{"find-equalp", "(null (find x (vector y) :test #'equalp))"},
	{"remove-duplicates-equal", "(length (remove-duplicates (list x y) :test #'equal))"},
	{"assoc-equal", "(null (assoc x (list (cons y 1)) :test #'equal))"},
	{"equal-hash-key", "(let ((h (make-hash-table :test 'equal))) (setf (gethash x h) 1) (gethash y h))"},
	{"equalp-hash-key", "(let ((h (make-hash-table :test 'equalp))) (setf (gethash x h) 1) (gethash y h))"},
	{"eval-quoted", "(null (eval (list 'quote x)))"},
	{"eval", "(null (eval x))"},
	{"apply-list", "(null (apply #'list x))"},
	{"type-of", "(type-of x)"},
	{"typep-list", "(typep x 'list)"},
	{"make-bag", "(null (make-bag x))"},
	{"bag-set", `(null (bag-set (make-bag "{a:1}") x "a"))`},
	{"make-load-form", "(null (make-load-form x))"},
	{"constantp", "(constantp x)"},
	{"macroexpand-1", "(null (macroexpand-1 x))"},
	{"sort-by-equal", "(length (sort (list x y) (lambda (a b) (equal a b))))"},
	{"concatenate", "(length (concatenate 'list x x))"},
	{"append", "(length (append x x))"},
	{"flatten-mapcan", "(length (mapcan #'list x))"},
	{"reduce", "(null (reduce (lambda (a b) b) x))"},
	{"string", "(length (string x))"},
	{"throw-value", "(null (catch 'k (throw 'k x)))"},
	{"error-argument", `(handler-case (error "~A" x) (error (c) (length (princ-to-string c))))`},
	{"type-error-datum", "(handler-case (car (vector x)) (error (c) (length (princ-to-string c))))"},
	{"plus-argument", "(handler-case (+ x 1) (error (c) (length (princ-to-string c))))"},
}

// recursive programs: each must end in a condition (or a value), never in the death of the host.
var deepPrograms = []struct{ name, src string }{
	{"defun-self", "(progn (defun c09rec (x) (c09rec x)) (c09rec 1))"},
	{"defun-self-non-tail", "(progn (defun c09rec (x) (+ 1 (c09rec x))) (c09rec 1))"},
	{"defun-mutual", "(progn (defun c09ev (x) (c09od x)) (defun c09od (x) (c09ev x)) (c09ev 1))"},
	{"lambda-funcall", "(let ((f nil)) (setq f (lambda (x) (funcall f x))) (funcall f 1))"},
	{"apply", "(progn (defun c09rec (x) (apply #'c09rec (list x))) (c09rec 1))"},
	{"mapcar", "(progn (defun c09rec (x) (mapcar #'c09rec (list x))) (c09rec 1))"},
	{"flet-outer", "(progn (defun c09rec (x) (flet ((g (y) (c09rec y))) (g x))) (c09rec 1))"},
	{"generic-method", "(progn (defgeneric c09gen (x)) (defmethod c09gen ((x t)) (c09gen x)) (c09gen 1))"},
	{"around-method", "(progn (defgeneric c09gen2 (x)) (defmethod c09gen2 ((x t)) x) (defmethod c09gen2 :around ((x t)) (c09gen2 x)) (c09gen2 1))"},
	{"flavor-method", "(progn (defflavor c09recf () ()) (defmethod (c09recf :m) () (send self :m)) (send (make-instance 'c09recf) :m))"},
	{"macro-self", "(progn (defmacro c09mac (x) (list 'c09mac x)) (eval '(c09mac 1)))"},
	{"macro-self-in-function", "(progn (defmacro c09mac2 (x) (list 'progn (list 'c09mac2 x))) (defun c09usemac () (c09mac2 1)) (c09usemac))"},
	{"eval-self", "(progn (defvar c09form nil) (setq c09form '(eval c09form)) (eval c09form))"},
	{"handler-resignals", "(progn (defun c09h () (handler-case (error \"x\") (error (c) (c09h)))) (c09h))"},
	{"unwind-protect-cleanup", "(progn (defun c09u () (unwind-protect 1 (c09u))) (c09u))"},
	{"print-object-self", "(progn (defclass c09po () ()) (defmethod print-object ((o c09po) s) (princ o s)) (princ-to-string (make-instance 'c09po)))"},
	{"format-recursive", `(progn (defun c09fmt (s a) (format s "~/c09fmt/" 1)) (format nil "~/c09fmt/" 1))`},
	{"sort-predicate", "(progn (defun c09lt (a b) (sort (list 2 1) #'c09lt)) (sort (list 2 1) #'c09lt))"},
	{"reduce-function", "(progn (defun c09red (a b) (reduce #'c09red (list 1 2))) (c09red 1 2))"},
	{"maphash-function", "(progn (defvar c09ht (make-hash-table)) (setf (gethash 1 c09ht) 1) (defun c09mh (k v) (maphash #'c09mh c09ht)) (c09mh 1 1))"},
	{"defstruct-like-accessor", "(progn (defclass c09acc () ((a :accessor c09acc-a :initform 1))) (defmethod c09acc-a :around ((o c09acc)) (c09acc-a o)) (c09acc-a (make-instance 'c09acc)))"},
	{"initialize-instance", "(progn (defclass c09ii () ()) (defmethod initialize-instance :after ((o c09ii) &rest r) (make-instance 'c09ii)) (null (make-instance 'c09ii)))"},
	{"flavor-init", "(progn (defflavor c09fi () ()) (defmethod (c09fi :init) (plist) (make-instance 'c09fi)) (null (make-instance 'c09fi)))"},
	{"read-eval", `(progn (defvar c09txt "#.(read-from-string c09txt)") (read-from-string c09txt))`},
	{"let-closure-chain", "(let ((f (lambda (x) x))) (dotimes (i 10000) (let ((g f)) (setq f (lambda (x) (funcall g x))))) (funcall f 1))"},
	{"deep-progn-form", "(let ((f 1)) (dotimes (i 10000) (setq f (list 'progn f))) (eval f))"},
	{"deep-plus-form", "(let ((f 1)) (dotimes (i 10000) (setq f (list '+ 1 f))) (eval f))"},
	{"deep-let-form", "(let ((f 1)) (dotimes (i 10000) (setq f (list 'let (list (list 'a 1)) f))) (eval f))"},
	{"deep-lambda-text", "(let ((f 1)) (dotimes (i 10000) (setq f (list 'funcall (list 'lambda nil f)))) (eval f))"},
	{"deep-if-form-read", `(eval (read-from-string (concatenate 'string (string-repeat "(if t " 10000) "1" (string-repeat ")" 10000))))`},
}

// The quick tier keeps one representative per Go routine that walks a structure and per way a program can recurse
// (every case that meets a missing guard costs a process and most of a second); the thorough tier runs the full
// tables. Nested data stays at the depth at which every built-in still finishes well inside the deadline on the
// unchanged tree (printing a list that is nested in the MIDDLE of its parent takes time quadratic in the depth).
var quickDeepData = []string{"self-car", "self-vector", "self-hash-value", "nested-list", "nested-vector"}

var quickDeepOps = []string{"princ-to-string", "format-A", "write-pretty", "write-circle", "write-level-2", "describe", "sxhash", "equal-twin",
	"equalp-twin", "equal-self", "tree-equal", "copy-tree", "copy-list", "length", "subst", "equal-hash-key", "eval", "make-bag", "make-load-form",
	"string", "type-error-datum", "type-of"}

var quickDeepPrograms = []string{"defun-self", "lambda-funcall", "generic-method", "flavor-method", "macro-self",
	"handler-resignals", "print-object-self", "deep-plus-form", "let-closure-chain"}

func inList(l []string, s string) bool {
	for _, x := range l {
		if x == s {
			return true
		}
	}
	return false
}

// nestedDepth: see the comment above.
func nestedDepth(tier string) int {
	if tier == engine.Thorough {
		return 10000
	}
	return 3000
}

func enumDeepEval(tier string, emit func(string)) {
	quick := tier != engine.Thorough
	for _, p := range deepPrograms {
		if !quick || inList(quickDeepPrograms, p.name) {
			emit("e|program|" + p.name)
		}
	}
	for _, class := range []string{"self", "nested"} {
		for _, op := range deepOps {
			if quick && !inList(quickDeepOps, op.name) {
				continue
			}
			for _, d := range deepData {
				if d.class != class || quick && !inList(quickDeepData, d.name) {
					continue
				}
				if class == "self" {
					emit("e|" + d.name + "|" + op.name)
				} else {
					emit(fmt.Sprintf("e|%s:%d|%s", d.name, nestedDepth(tier), op.name))
				}
			}
		}
	}
}

func execDeepEval(spec string) (res engine.Result) {
	parts := strings.SplitN(spec, "|", 3)
	if len(parts) != 3 {
		res.Fail("harness:bad-spec", spec)
		return
	}
	var src, sig string
	if parts[1] == "program" {
		for _, p := range deepPrograms {
			if p.name == parts[2] {
				src = p.src
			}
		}
		sig = "recursion via=" + parts[2]
	} else {
		name, n := parts[1], 0
		if i := strings.IndexByte(name, ':'); 0 <= i {
			n, _ = strconv.Atoi(name[i+1:])
			name = name[:i]
		}
		var d *deepDatum
		for i := range deepData {
			if deepData[i].name == name {
				d = &deepData[i]
			}
		}
		op := selftestDeepOp(parts[2])
		for i := range deepOps {
			if deepOps[i].name == parts[2] {
				op = &deepOps[i]
			}
		}
		if d != nil && op != nil && (d.class == "self") == (n == 0) {
			form := strings.ReplaceAll(d.form, "N", strconv.Itoa(n))
			src = "(let ((x " + form + ") (y " + form + ")) " + op.form + ")"
			sig = "deep-data op=" + op.name + " data=" + d.class
		}
	}
	if src == "" {
		res.Fail("harness:bad-spec", spec)
		return
	}
	if os.Getenv("C09_CHILD") == "" {
		return isolatedCase(spec, sig, src, "deep-eval-cases", parts[1] == "program")
	}
	res.Hit("deep-eval-cases")
	debug.SetMaxStack(childStackLimit)
	if strings.Contains(src, selftestPkgName) {
		defineSelftestFunctions()
	}
	leave := enter(false)
	defer leave()
	scope := slip.NewScope()
	o := observe(func() slip.Object { return slip.ReadString(src, scope).Eval(scope, nil) })
	res.Nontrivial = true
	switch o.kind {
	case "value":
		res.Outcome = digest("v:"+head(showCapped(o.val), 60), 80)
		res.Hit("deep-eval-value")
	case "condition":
		res.Outcome = "c:" + o.class + ":" + digest(head(o.msg, 60), 60)
		res.Hit("deep-eval-condition")
	default:
		res.Outcome = o.kind
	}
	if o.catchAll {
		res.Hit("catch-all-conversions")
	}
	if fc := realClassifier.classify(o); fc != "" {
		res.Hit("faults")
		res.Fail(fmt.Sprintf("%s fault=%s at=%s", sig, fc, o.site), src+" => "+headObs(o))
	} else if o.catchAll {
		res.Hit("catch-all-accepted")
		logAccepted(sig, o)
	}
	return
}
