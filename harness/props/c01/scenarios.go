//go:build verif

package c01

import (
	"fmt"
	"strings"

	"github.com/ohler55/slip"

	"verif/engine"
)

// The scenario family: complete small programs about the points of the
// statement that need a global definition (defvar) or that the language
// definition leaves open, each with trace leaves (?i ?a ...) in every
// evaluated position, judged against the reference evaluator.
//
//   - special variables (defvar): a let / let* binding is seen by a called
//     function, nests, is undone after a normal exit and after return-from;
//     setq by a called function assigns the innermost dynamic binding;
//   - closures and special variables: the language definition says a special
//     variable is never closed over (the closure reads the dynamic value at
//     call time); the property statement says "a closure sees and updates the
//     variables of the binding it was created in" and slip's documentation
//     says nothing about special variables. Both outcomes are accepted (alt
//     special-captured), anything else is a failure;
//   - closures made in dolist / dotimes: the language definition leaves open
//     whether the variable is bound once or once per iteration, slip's
//     documentation says nothing: both outcomes are accepted (alt
//     loop-fresh-binding). For do / do* the language definition fixes one
//     binding that is assigned by the steps: demanded;
//   - setq of a variable that is bound nowhere, from inside a closure: the
//     language definition gives no meaning, slip documents none: only a Go
//     fault or a hang is a failure (weak).
//
// F1..F3 are function names, *V1* a special variable, U1 an undeclared
// variable, all unique to the run; BIND is let or let* (two variants).
type scenario struct {
	name  string
	forms []string
	alts  [][]string // accepted alternatives of the reference (sets of ref.keep switches)
	weak  bool       // the language definition gives no meaning: only a Go fault or a hang fails
	need  []string   // reference hit counters this scenario must raise (checked in exec: vacuity of the scenario itself)
}

const (
	spDefs = "(defvar *V1* ?i) (defun F1 () *V1*) (defun F2 (v) (setq *V1* v))"
)

var scenarios = []scenario{
	{name: "special-binding-seen-by-called-function-and-undone",
		forms: []string{spDefs, "(list (F1) (BIND ((*V1* ?i)) ?a (list (F1) *V1* ?a)) (F1) *V1*)"},
		need:  []string{"special-dynamic-binding-seen", "special-binding-undone"}},
	{name: "special-binding-order-let-parallel-let*-sequential",
		forms: []string{spDefs, "(list (let ((*V1* ?i) (y *V1*) (z (F1))) (list y z (F1))) (let* ((*V1* ?i) (y *V1*) (z (F1))) (list y z (F1))) (F1))"},
		need:  []string{"special-dynamic-binding-seen"}},
	{name: "special-binding-undone-after-return-from",
		forms: []string{spDefs, "(list (block b (BIND ((*V1* ?i)) (if ?t (return-from b (list (F1) ?a))) ?a)) (F1) (block b (BIND ((*V1* ?i)) (if ?f (return-from b (list (F1) ?a))) (list (F1) ?a))) (F1))"},
		need:  []string{"non-local-exit", "special-binding-undone"}},
	{name: "special-binding-undone-after-return-from-a-called-function",
		forms: []string{spDefs, "(defun F3 (n) (BIND ((*V1* (+ *V1* n))) (if (= n 0) (F1) (list (F1) (block b (BIND ((*V1* ?i)) (return-from b (F3 (- n 1))))) (F1)))))", "(list (F3 2) (F1))"},
		need:  []string{"non-local-exit", "recursive-call"}},
	{name: "special-nested-bindings-and-setq-by-called-function",
		forms: []string{spDefs, "(list (BIND ((*V1* ?i)) (F2 ?i) (list *V1* (F1) (BIND ((*V1* ?i)) (F2 ?i) (list (F1) *V1*)) (F1))) (F1) *V1*)"},
		need:  []string{"special-dynamic-binding-seen"}},
	{name: "special-global-value-set-by-called-function",
		forms: []string{spDefs, "(list (F1) (F2 ?i) (F1) *V1* (setq *V1* ?i) (F1))"}},
	{name: "special-binding-seen-through-funcall-apply-mapcar",
		forms: []string{spDefs, "(BIND ((*V1* ?i)) (list (funcall 'F1) (funcall #'F1) (apply #'F1 nil) (mapcar (lambda (a) (list a (F1))) (list ?a ?a)) (funcall (lambda () (F1)))))"},
		need:  []string{"special-dynamic-binding-seen"}},
	{name: "special-rebound-at-every-level-of-a-recursion",
		forms: []string{spDefs, "(defun F3 (n) (if (= n 0) (list (F1)) (cons (F1) (BIND ((*V1* (+ *V1* ?i))) (cons (F1) (F3 (- n 1)))))))", "(list (F3 2) (F1))"},
		need:  []string{"recursive-call", "special-dynamic-binding-seen"}},
	{name: "special-binding-in-loop-bodies",
		forms: []string{spDefs, "(list (dotimes (i 2 (F1)) (BIND ((*V1* (+ i ?i))) (tr 'seen (F1)))) (let ((acc nil)) (dolist (el (list ?i ?i) acc) (BIND ((*V1* el)) (setq acc (cons (F1) acc))))) (F1))"},
		need:  []string{"special-dynamic-binding-seen", "loop-second-iteration"}},
	{name: "closure-over-lexical-variable-called-under-rebinding",
		forms: []string{"(let ((g (BIND ((x ?i)) (lambda () x)))) (list (funcall g) (BIND ((x ?i)) (list (funcall g) x))))"}},
	{name: "closure-over-special-variable-called-after-the-binding-form-exited",
		forms: []string{spDefs, "(let ((g (BIND ((*V1* ?i)) (lambda () *V1*)))) (list (funcall g) (BIND ((*V1* ?i)) (list (funcall g) (F1))) (F1)))"},
		alts:  [][]string{{"special-captured"}}},
	{name: "closure-over-special-variable-called-under-an-inner-rebinding",
		forms: []string{spDefs, "(BIND ((*V1* ?i)) (let ((g (lambda () *V1*))) (list (funcall g) (BIND ((*V1* ?i)) (list (funcall g) (F1))) (funcall g))))"},
		alts:  [][]string{{"special-captured"}}},
	{name: "closure-sets-special-variable-after-the-binding-form-exited",
		forms: []string{spDefs, "(let ((g (BIND ((*V1* ?i)) (lambda (v) (setq *V1* v))))) (list (funcall g ?i) *V1* (BIND ((*V1* ?i)) (list (funcall g ?i) *V1* (F1))) *V1* (F1)))"},
		alts:  [][]string{{"special-captured"}}},
	{name: "closure-sets-closed-over-variable-after-the-binding-form-exited",
		forms: []string{"(let ((g (BIND ((x ?i) (y ?i)) (list (lambda (v) (setq x (+ x v))) (lambda () (list x y)))))) (list (funcall (car g) ?i) (funcall (car (cdr g))) (let ((x ?i)) (list (funcall (car g) ?i) x)) (funcall (car (cdr g)))))"}},
	{name: "closure-sets-undeclared-variable",
		forms: []string{"(let ((g (lambda (v) (setq U1 v)))) (list (funcall g ?i) U1 (funcall g ?i) U1))"},
		weak:  true},
	{name: "closures-made-in-dolist-called-after-the-loop",
		forms: []string{"(let ((fs nil)) (dolist (i (list ?a ?a ?a)) (setq fs (cons (lambda () i) fs))) (list (funcall (car fs)) (funcall (car (cdr fs))) (funcall (car (cdr (cdr fs))))))"},
		alts:  [][]string{{"loop-fresh-binding"}}},
	{name: "closures-made-in-dotimes-called-after-the-loop",
		forms: []string{"(let ((fs nil)) (dotimes (i 3) (setq fs (cons (lambda () i) fs))) (list (funcall (car fs)) (funcall (car (cdr fs))) (funcall (car (cdr (cdr fs))))))"},
		alts:  [][]string{{"loop-fresh-binding"}}},
	{name: "closures-made-in-dolist-called-inside-the-iteration",
		forms: []string{"(let ((acc nil)) (dolist (i (list ?a ?a)) (let ((g (lambda (v) (list i v)))) (setq acc (cons (funcall g ?a) acc)))) acc)"}},
	{name: "closures-made-in-dotimes-called-inside-the-iteration",
		forms: []string{"(let ((acc nil)) (dotimes (i 2) (let ((g (lambda (v) (list i v)))) (setq acc (cons (funcall g ?a) acc)))) acc)"}},
	{name: "closures-made-in-do-share-one-binding-and-update-it",
		forms: []string{"(let ((fs nil)) (list (do ((u 0 (+ u 1)) (v 10 (+ v u))) ((<= 2 u) (list u v)) (setq fs (cons (lambda (k) (setq u (+ u k)) (list u v)) fs))) (funcall (car fs) ?i) (funcall (car (cdr fs)) ?i)))"}},
	{name: "closures-made-in-do*-share-one-binding-and-update-it",
		forms: []string{"(let ((fs nil)) (list (do* ((u 0 (+ u 1)) (v 10 (+ v u))) ((<= 2 u) (list u v)) (setq fs (cons (lambda (k) (setq u (+ u k)) (list u v)) fs))) (funcall (car fs) ?i) (funcall (car (cdr fs)) ?i)))"}},
	{name: "closure-made-in-do-changes-the-variable-during-the-loop",
		forms: []string{"(do ((u 0 (+ u 1)) (g nil (lambda (k) (setq u (+ u k))))) ((<= 4 u) u) (if g (funcall g ?1)) ?a)"}},
}

func scenarioVariants(sc *scenario) []string {
	for _, f := range sc.forms {
		if strings.Contains(f, "BIND") {
			return []string{"let", "let*"}
		}
	}
	return []string{"-"}
}

func enumerateScenarios(emit func(string)) {
	for i := range scenarios {
		for _, b := range scenarioVariants(&scenarios[i]) {
			emit(fmt.Sprintf("s|%s|%s", scenarios[i].name, b))
		}
	}
}

func scenarioBound() string {
	n := 0
	for i := range scenarios {
		n += len(scenarioVariants(&scenarios[i]))
	}
	return fmt.Sprintf("scenario family: %d programs (special variables bound by let / let*, closures over special variables, closures made in loops, setq from closures)", n)
}

// buildScenario renders the forms: holes become trace leaves numbered through the whole program.
func buildScenario(sc *scenario, binder, prefix string) (forms []*node, funcs, vars []string) {
	leaves := 0
	seenF, seenV := map[string]bool{}, map[string]bool{}
	var fill func(n *node) *node
	fill = func(n *node) *node {
		switch n.kind {
		case 's':
			switch {
			case strings.HasPrefix(n.s, "?"):
				h := parseHole(n.s)
				leaves++
				var v *node
				switch h.kind {
				case 't':
					v = nSym("t")
				case 'f', 'n':
					v = nSym("nil")
				case 'c':
					v = nInt(2)
				case '0', '1', '2', '3', '4', '5', '6', '7', '8', '9':
					v = nInt(int64(h.kind - '0'))
				case 'l':
					v = nList(nSym("list"), nInt(int64(leaves)), nInt(0))
				default:
					v = nInt(int64(leaves))
				}
				return nList(nSym("tr"), nQuote(nSym(fmt.Sprintf("k%d", leaves))), v)
			case n.s == "BIND":
				return nSym(binder)
			case len(n.s) == 2 && n.s[0] == 'F' && '1' <= n.s[1] && n.s[1] <= '9':
				name := prefix + "n" + n.s[1:]
				if !seenF[name] {
					seenF[name] = true
					funcs = append(funcs, name)
				}
				return nSym(name)
			case n.s == "*V1*" || n.s == "U1":
				name := "*" + prefix + "v1*"
				if n.s == "U1" {
					name = prefix + "u1"
				}
				if !seenV[name] {
					seenV[name] = true
					vars = append(vars, name)
				}
				return nSym(name)
			}
			return n
		case 'l':
			cp := &node{kind: 'l', short: n.short, l: make([]*node, len(n.l))}
			for i, e := range n.l {
				cp.l[i] = fill(e)
			}
			return cp
		}
		return n
	}
	for _, src := range sc.forms {
		p := &sparser{src: src}
		for {
			p.ws()
			if len(p.src) <= p.pos {
				break
			}
			forms = append(forms, fill(p.form()))
		}
	}
	return
}

func execScenario(spec string) (res engine.Result) {
	parts := strings.Split(spec, "|")
	var sc *scenario
	if len(parts) == 3 {
		for i := range scenarios {
			if scenarios[i].name == parts[1] {
				sc = &scenarios[i]
			}
		}
	}
	if sc == nil || (parts[2] != "let" && parts[2] != "let*" && parts[2] != "-") {
		res.Fail("harness:bad-spec", spec)
		return
	}
	prefix := fmt.Sprintf("c01s%x", engine.Hash64(spec))
	forms, funcs, vars := buildScenario(sc, parts[2], prefix)
	texts := make([]string, len(forms))
	for i, f := range forms {
		texts[i] = f.String()
	}
	text := strings.Join(texts, " ")
	r := newRef("", refBudgetSteps)
	r.globalsOK = sc.weak
	want, rerr := r.run(forms)
	if rerr != "" {
		res.Fail("harness:scenario-not-evaluated-by-the-reference", text+" :: "+rerr)
		return
	}
	for _, h := range sc.need {
		if r.hits[h] == 0 {
			res.Fail("harness:scenario-does-not-reach-"+h, text)
			return
		}
	}
	got := runSlip(text, slipLimit(r.steps))
	for _, f := range funcs {
		forgetFunction(f)
	}
	for _, v := range vars {
		slip.CurrentPackage.Remove(v)
	}
	res.Nontrivial = true
	res.Hit("scenario:case")
	for k, n := range r.hits {
		if 0 < n && (strings.HasPrefix(k, "special-") || k == "non-local-exit" || k == "setq-makes-global") {
			res.Hit("scenario:" + k)
		}
	}
	if got.err != nil {
		res.Outcome = "err:" + got.err.Class + "|" + clip(got.trace)
	} else {
		res.Outcome = got.val + "|" + clip(got.trace)
	}
	wantS := showVal(want)
	kind := ""
	switch {
	case got.runaway:
		kind = "runaway"
	case got.err != nil && got.err.GoFault:
		kind = "go-fault"
	case sc.weak:
		res.Hit("scenario:no-meaning-in-the-language-definition-only-faults-count")
		return
	case got.err != nil:
		kind = "error:" + got.err.Class
	case !sameTrace(r.trace, got.trace):
		kind = traceKind(r.trace, got.trace)
	case wantS != got.val:
		kind = "value"
	default:
		res.Hit("scenario:outcome=language-definition")
		return
	}
	accepted := []string{wantS + " with trace [" + clip(r.trace) + "]"}
	if got.err == nil && !got.runaway {
		for _, alt := range sc.alts {
			ar := newRef("", refBudgetSteps)
			ar.keep = map[string]bool{}
			for _, k := range alt {
				ar.keep[k] = true
			}
			av, aerr := ar.run(forms)
			if aerr != "" {
				res.Fail("harness:scenario-not-evaluated-by-the-reference", text+" :: alt "+strings.Join(alt, "+")+": "+aerr)
				return
			}
			if showVal(av) == got.val && sameTrace(ar.trace, got.trace) {
				res.Hit("accepted:" + strings.Join(alt, "+"))
				res.Hit("scenario:outcome=" + strings.Join(alt, "+"))
				return
			}
			accepted = append(accepted, fmt.Sprintf("%s with trace [%s] (%s)", showVal(av), clip(ar.trace), strings.Join(alt, "+")))
		}
	}
	gotS := got.val + " with trace [" + clip(got.trace) + "]"
	if got.err != nil {
		gotS = "signals " + got.err.String() + " after trace [" + clip(got.trace) + "]"
	}
	if got.runaway {
		gotS = "still running after 4x the reference's evaluation count (+2000)"
	}
	res.Fail(fmt.Sprintf("scenario=%s kind=%s", sc.name, kind),
		fmt.Sprintf("%s => slip: %s; accepted: %s", text, gotS, strings.Join(accepted, " or ")))
	return
}
