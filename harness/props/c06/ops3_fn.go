package c06

// Functions that take or return lists and were not in the alphabet (inventory: `vcheck-C06 exec C06 --spec
// 'funcs:cl,gi,bag,flavors,clos'`). Every one that is not documented destructive is a non-destructive operation
// (frame + independence of the result), every documented destructive one is destructive.

func all0(s []int64) int { return 0 }

func init() {
	neq := func(a, b []int64) bool { return !sameElems(a, b) }
	_ = neq
	un := func(name, fn, form string, share shareMode, minS int, pats string, want func(s []int64, n int64) []int64, tail func([]int64) int) *fam {
		return &fam{name: name, fn: fn, group: "fn", form: form, share: share, minS: minS, pats: pats, tail: tail,
			want: func(s, _ []int64, n int64) []int64 { return want(s, n) }}
	}
	same := func(s []int64, _ int64) []int64 { return s }

	// ---- tails and accessors
	addFam(un("cddr", "cddr", "(cddr {S})", shareS, 2, patProd, func(s []int64, _ int64) []int64 { return from(s, 2) }, func([]int64) int { return 2 }))
	addFam(un("cdddr", "cdddr", "(cdddr {S})", shareS, 3, patProd4, func(s []int64, _ int64) []int64 { return from(s, 3) }, func([]int64) int { return 3 }))
	addFam(un("nthcdr1", "nthcdr", "(nthcdr 1 {S})", shareS, 1, patProd4, func(s []int64, _ int64) []int64 { return from(s, 1) }, func([]int64) int { return 1 }))
	addFam(un("nthcdr-len", "nthcdr", "(nthcdr (length {S}) {S})", shareS, 1, patProd4, func(s []int64, _ int64) []int64 { return nil }, func(s []int64) int { return len(s) }))
	addFam(un("last-all", "last", "(last {S} 99)", shareS, 1, patProd, same, all0))
	addFam(un("last0", "last", "(last {S} 0)", shareS, 1, patProd4, func(s []int64, _ int64) []int64 { return nil }, func(s []int64) int { return len(s) }))
	addFam(un("last3", "last", "(last {S} 3)", shareS, 3, patProd4, func(s []int64, _ int64) []int64 { return s[len(s)-3:] }, func(s []int64) int { return len(s) - 3 }))
	addFam(un("butlast0", "butlast", "(butlast {S} 0)", shareNone, 1, patProd4, same, nil))
	addFam(un("butlast-all", "butlast", "(butlast {S} 99)", shareNone, 1, patProd4, func(s []int64, _ int64) []int64 { return nil }, nil))
	addFam(un("get-properties", "get-properties", "(multiple-value-bind (k v tl) (get-properties {S} (list (nth 2 {S}))) tl)", shareS, 4, patProd4,
		func(s []int64, _ int64) []int64 {
			for i := 0; i+1 < len(s); i += 2 {
				if s[i] == s[2] {
					return s[i:]
				}
			}
			return nil
		}, func(s []int64) int {
			for i := 0; i+1 < len(s); i += 2 {
				if s[i] == s[2] {
					return i
				}
			}
			return len(s)
		}))
	// ---- nbutlast (documented destructive in CL; slip copies)
	for _, d := range []struct {
		name, form string
		k          int
	}{{"nbutlast", "(nbutlast {S})", 1}, {"nbutlast2", "(nbutlast {S} 2)", 2}} {
		d := d
		addFam(&fam{name: d.name, fn: "nbutlast", group: "fn", form: d.form, share: shareS, destr: true, minS: 1, pats: patSelf + " ba ca",
			want: func(s, _ []int64, _ int64) []int64 {
				if len(s) <= d.k {
					return nil
				}
				return s[:len(s)-d.k]
			}})
	}
	// ---- element replacement through other places
	type rp struct {
		name, fn, form string
		idx            int
	}
	for _, r := range []rp{
		{"setf-first", "setf-first", "(setf (first {S}) {N})", 0},
		{"setf-second", "setf-second", "(setf (second {S}) {N})", 1},
		{"setf-third", "setf-third", "(setf (third {S}) {N})", 2},
		{"setf-cadr", "setf-cadr", "(setf (cadr {S}) {N})", 1},
		{"setf-caddr", "setf-caddr", "(setf (caddr {S}) {N})", 2},
		{"setf-car-nthcdr", "setf-car", "(setf (car (nthcdr 1 {S})) {N})", 1},
		{"setf-nth0-nthcdr2", "setf-nth", "(setf (nth 0 (nthcdr 2 {S})) {N})", 2},
		{"setf-car-cdr", "setf-car", "(setf (car (cdr {S})) {N})", 1},
		{"setf-car-last", "setf-car", "(setf (car (last {S} 99)) {N})", 0},
		{"rplaca-cdr", "rplaca", "(rplaca (cdr {S}) {N})", 1},
		{"incf-car", "incf", "(incf (car {S}) (- {N} (car {S})))", 0},
		{"rotatef", "rotatef", "(progn (rotatef (car {S}) (cadr {S})) (setf (car {S}) {N}))", -1},
		{"psetf", "psetf", "(psetf (car {S}) {N} (cadr {S}) (car {S}))", -2},
	} {
		r := r
		ms := r.idx + 1
		if r.idx < 0 {
			ms = 2
		}
		addFam(&fam{name: r.name, fn: r.fn, group: "fn", form: r.form, bare: true, share: shareKeep, destr: true, minS: ms, pats: patBare,
			wantS: func(s []int64, n int64) []int64 {
				switch r.idx {
				case -1: // rotatef swaps the first two, then the first is replaced
					return cat(sl(n, s[0]), s[2:])
				case -2: // psetf: parallel
					return cat(sl(n, s[0]), s[2:])
				}
				return replaced(s, r.idx, n)
			}})
	}
	// ---- (setf subseq), fill, replace, map-into: documented as modifying their first sequence
	addFam(&fam{name: "setf-subseq", fn: "setf-subseq", group: "fn", form: "(setf (subseq {S} 1 3) (list {N} {M}))", bare: true, share: shareKeep,
		destr: true, minS: 3, pats: patBare, wantS: func(s []int64, n int64) []int64 { return cat(s[:1], sl(n, n+1), s[3:]) }})
	addFam(&fam{name: "setf-subseq-short", fn: "setf-subseq", group: "fn", form: "(setf (subseq {S} 0) (list {N}))", bare: true, share: shareKeep,
		destr: true, minS: 2, pats: patBare, wantS: func(s []int64, n int64) []int64 { return cat(sl(n), s[1:]) }})
	addFam(&fam{name: "setf-subseq-from", fn: "setf-subseq", group: "fn", form: "(setf (subseq {S} 0 2) {T})", bare: true, share: shareKeep,
		destr: true, keepT: true, dist: true, minS: 2, minT: 1, needT: true, pats: patBareT,
		wantS2: func(s, t []int64, _ int64) []int64 {
			k := minInt(2, len(t))
			return cat(t[:k], s[k:])
		}})
	type fv struct {
		name, args string
		lo, hi     int // hi < 0: to the end
		ms         int
		kw         bool
	}
	for _, v := range []fv{{"fill", "", 0, -1, 1, false}, {"fill-start", ":start 1", 1, -1, 2, true}, {"fill-start-end", ":start 1 :end 2", 1, 2, 3, true}, {"fill-end", ":end 1", 0, 1, 2, true}} {
		v := v
		w := func(s []int64, n int64) []int64 {
			out := append([]int64(nil), s...)
			hi := v.hi
			if hi < 0 {
				hi = len(s)
			}
			for i := v.lo; i < hi; i++ {
				out[i] = n
			}
			return out
		}
		f := &fam{name: v.name, fn: "fill", group: "fn", form: "(fill {S} {N} " + v.args + ")", bare: true, share: shareKeep, destr: true,
			minS: v.ms, pats: patBare, wantS: w}
		if v.kw {
			f.group = "kw"
		}
		addFam(f)
		// the value returned by fill is its argument
		addFam(&fam{name: v.name + "-value", fn: "fill", group: f.group, form: "(fill {S} {N} " + v.args + ")", share: shareS, destr: true, minS: v.ms,
			pats: "ba ca", want: func(s, _ []int64, n int64) []int64 { return w(s, n) }})
	}
	type rv struct {
		name, args         string
		s1, e1, s2, e2, ms int
		kw                 bool
	}
	repl := func(s, t []int64, s1, e1, s2, e2 int) []int64 {
		out := append([]int64(nil), s...)
		if e1 < 0 {
			e1 = len(s)
		}
		if e2 < 0 {
			e2 = len(t)
		}
		src := append([]int64(nil), t...)
		for i, j := s1, s2; i < e1 && j < e2; i, j = i+1, j+1 {
			out[i] = src[j]
		}
		return out
	}
	for _, v := range []rv{
		{"replace", "", 0, -1, 0, -1, 1, false},
		{"replace-start1", ":start1 1", 1, -1, 0, -1, 2, true},
		{"replace-end1", ":end1 1", 0, 1, 0, -1, 2, true},
		{"replace-start2", ":start2 1", 0, -1, 1, -1, 2, true},
		{"replace-end2", ":end2 1", 0, -1, 0, 1, 2, true},
	} {
		v := v
		f := &fam{name: v.name, fn: "replace", group: "fn", form: "(replace {S} {T} " + v.args + ")", bare: true, share: shareKeep, destr: true,
			keepT: true, dist: true, minS: v.ms, minT: 2, needT: true, pats: patBareT,
			wantS2: func(s, t []int64, _ int64) []int64 { return repl(s, t, v.s1, v.e1, v.s2, v.e2) }}
		if v.kw {
			f.group = "kw"
		}
		addFam(f)
	}
	// replace of a list into itself: the same object, the language says "as if the region were copied first"
	addFam(&fam{name: "replace-self-start1", fn: "replace", group: "kw", form: "(replace {S} {S} :start1 1)", bare: true, share: shareKeep, destr: true,
		minS: 2, pats: patBare, wantS: func(s []int64, _ int64) []int64 { return repl(s, s, 1, -1, 0, -1) }})
	addFam(&fam{name: "replace-self-start2", fn: "replace", group: "kw", form: "(replace {S} {S} :start2 1)", bare: true, share: shareKeep, destr: true,
		minS: 2, pats: patBare, wantS: func(s []int64, _ int64) []int64 { return repl(s, s, 0, -1, 1, -1) }})
	addFam(&fam{name: "map-into", fn: "map-into", group: "fn", form: "(map-into {S} #'1+ {T})", bare: true, share: shareKeep, destr: true, keepT: true,
		dist: true, minS: 1, needT: true, pats: patBareT, wantS2: func(s, t []int64, _ int64) []int64 {
			out := append([]int64(nil), s...)
			for i := 0; i < len(s) && i < len(t); i++ {
				out[i] = t[i] + 1
			}
			return out
		}})
	addFam(&fam{name: "map-into-self", fn: "map-into", group: "fn", form: "(map-into {S} #'1+ {S})", bare: true, share: shareKeep, destr: true,
		minS: 1, pats: patBare, wantS: func(s []int64, _ int64) []int64 {
			out := make([]int64, len(s))
			for i, x := range s {
				out[i] = x + 1
			}
			return out
		}})
	// ---- sorting: stable-sort, :key
	desc := func(a, b int64) bool { return a > b }
	for _, v := range []struct{ name, fn, form string }{
		{"sort-key", "sort", "(sort {S} #'< :key #'-)"},
		{"stable-sort", "stable-sort", "(stable-sort {S} #'>)"},
		{"stable-sort-key", "stable-sort", "(stable-sort {S} #'< :key #'-)"},
	} {
		addFam(&fam{name: v.name, fn: v.fn, group: "fn", form: v.form, share: shareS, destr: true, minS: 1, pats: patSelf + " ba ca",
			want: func(s, _ []int64, _ int64) []int64 { return sortedBy(s, desc) }})
	}
	addFam(&fam{name: "stable-sort-parity", fn: "stable-sort", group: "kw", form: "(stable-sort {S} #'< :key (lambda (x) (mod x 2)))", share: shareS, destr: true,
		minS: 2, pats: patSelf + " ba ca", want: func(s, _ []int64, _ int64) []int64 {
			return sortedBy(s, func(a, b int64) bool { return mod2(a) < mod2(b) })
		},
		base: func(s, _ []int64, _ int64) []int64 { return sortedBy(s, func(a, b int64) bool { return a < b }) }})
	// ---- mapping functions
	addFam(un("mapc", "mapc", "(mapc (lambda (x) x) {S})", shareS, 1, patProd4, same, all0))
	addFam(un("mapl", "mapl", "(mapl (lambda (x) x) {S})", shareS, 1, patProd4, same, all0))
	addFam(un("maplist-first", "maplist", "(car (maplist (lambda (x) x) {S}))", shareS, 1, patProd4, same, all0))
	addFam(un("maplist-second", "maplist", "(cadr (maplist (lambda (x) x) {S}))", shareS, 2, patProd4, func(s []int64, _ int64) []int64 { return s[1:] }, func([]int64) int { return 1 }))
	addFam(un("maplist-car", "maplist", "(maplist #'car {S})", shareNone, 1, patProd4, same, nil))
	addFam(un("mapcan-fresh", "mapcan", "(mapcan (lambda (x) (list x x)) {S})", shareNone, 1, patProd4, func(s []int64, _ int64) []int64 {
		var out []int64
		for _, x := range s {
			out = append(out, x, x)
		}
		return out
	}, nil))
	addFam(un("mapcon-fresh", "mapcon", "(mapcon (lambda (x) (list (car x))) {S})", shareNone, 1, patProd4, same, nil))
	addFam(un("mapcon-copy", "mapcon", "(mapcon (lambda (x) (copy-list x)) {S})", shareNone, 1, patProd4, func(s []int64, _ int64) []int64 {
		var out []int64
		for i := range s {
			out = append(out, s[i:]...)
		}
		return out
	}, nil))
	addFam(un("mapcar2", "mapcar", "(mapcar #'+ {S} (cdr {S}))", shareNone, 2, patProd4, func(s []int64, _ int64) []int64 {
		var out []int64
		for i := 0; i+1 < len(s); i++ {
			out = append(out, s[i]+s[i+1])
		}
		return out
	}, nil))
	addFam(un("map-list2", "map", "(map 'list #'+ {S} {S})", shareNone, 1, patProd4, func(s []int64, _ int64) []int64 {
		out := make([]int64, len(s))
		for i, x := range s {
			out[i] = 2 * x
		}
		return out
	}, nil))
	addFam(un("dolist-push", "dolist", "(let ((acc nil)) (dolist (x {S}) (push x acc)) acc)", shareNone, 1, patProd4, func(s []int64, _ int64) []int64 { return rev(s) }, nil))
	// mapcan / mapcon are nconc-based in the language: a list the function RETURNS may be modified and shared
	addFam(&fam{name: "mapcan-pool", fn: "mapcan", group: "fn", form: "(mapcan (lambda (x) (if (eql x (car {S})) {T} (list x))) {S})", share: shareT, destr: true,
		keepS: true, dist: true, minS: 1, needT: true, pats: patBin, okS: func(s []int64) bool { return indexOf(s[1:], s[0]) < 0 },
		want: func(s, t []int64, _ int64) []int64 { return cat(t, s[1:]) }, tailT: func([]int64) int { return 0 }})
	// ---- constructors
	addFam(un("make-list", "make-list", "(make-list 2 :initial-element (car {S}))", shareNone, 1, patProd4, func(s []int64, _ int64) []int64 { return sl(s[0], s[0]) }, nil))
	addFam(un("make-sequence", "make-sequence", "(make-sequence 'list 2 :initial-element (car {S}))", shareNone, 1, patProd4, func(s []int64, _ int64) []int64 { return sl(s[0], s[0]) }, nil))
	addFam(un("list-of", "list", "(list (car {S}) {N})", shareNone, 1, patProd4, func(s []int64, n int64) []int64 { return sl(s[0], n) }, nil))
	addFam(un("list*1", "list*", "(list* {S})", shareS, 1, patProd4, same, all0))
	addFam(un("cons-nil", "cons", "(cons (car {S}) nil)", shareNone, 1, patProd4, func(s []int64, _ int64) []int64 { return sl(s[0]) }, nil))
	addFam(un("coerce-list", "coerce", "(coerce {S} 'list)", shareS, 1, patProd4, same, all0))
	addFam(un("subst", "subst", "(subst {N} (nth 1 {S}) {S})", shareS, 2, patProd, func(s []int64, n int64) []int64 {
		return substWhere(s, n, func(y int64) bool { return y == s[1] }, 0, -1, -1, false)
	}, nil))
	addFam(un("subst-absent", "subst", "(subst {M} {N} {S})", shareS, 1, patProd4, same, nil))
	addFam(un("subst-if", "subst-if", "(subst-if {N} (lambda (x) (and (integerp x) (evenp x))) {S})", shareS, 1, patProd4, func(s []int64, n int64) []int64 {
		return substWhere(s, n, even, 0, -1, -1, false)
	}, nil))
	addFam(un("subst-key", "subst", "(subst {N} (1+ (nth 1 {S})) {S} :key (lambda (x) (if (integerp x) (1+ x) x)))", shareS, 2, patProd4, func(s []int64, n int64) []int64 {
		return substWhere(s, n, func(y int64) bool { return y == s[1] }, 0, -1, -1, false)
	}, nil))
	addFam(un("sublis", "sublis", "(sublis (list (cons (nth 1 {S}) {N})) {S})", shareS, 2, patProd4, func(s []int64, n int64) []int64 {
		return substWhere(s, n, func(y int64) bool { return y == s[1] }, 0, -1, -1, false)
	}, nil))
	for _, v := range []struct{ name, fn, form string }{
		{"nsubst", "nsubst", "(nsubst {N} (nth 1 {S}) {S})"},
		{"nsubst-if", "nsubst-if", "(let ((k (nth 1 {S}))) (nsubst-if {N} (lambda (x) (eql x k)) {S}))"},
		{"nsublis", "nsublis", "(nsublis (list (cons (nth 1 {S}) {N})) {S})"},
	} {
		addFam(&fam{name: v.name, fn: v.fn, group: "fn", form: v.form, share: shareS, destr: true, minS: 2, pats: patSelf + " ba ca",
			want: func(s, _ []int64, n int64) []int64 {
				return substWhere(s, n, func(y int64) bool { return y == s[1] }, 0, -1, -1, false)
			}})
	}
	addFam(un("tree-equal", "tree-equal", "(list (if (tree-equal {S} (copy-tree {S})) 1 0))", shareNone, 1, patProd4, func([]int64, int64) []int64 { return one(1) }, nil))
	addFam(un("equal-copy", "equal", "(list (if (and (equal {S} (copy-list {S})) (equalp {S} {S})) 1 0))", shareNone, 1, patProd4, func([]int64, int64) []int64 { return one(1) }, nil))
	// ---- property lists (a flat list of even length IS a property list)
	evenLen := func(s []int64) bool { return len(s)%2 == 0 && indexOf(s[2:], s[0]) != 0 }
	addFam(&fam{name: "getf", fn: "getf", group: "fn", form: "(list (getf {S} (car {S})) (getf {S} {M} {N}))", share: shareNone, minS: 2, pats: patProd4, okS: evenLen,
		want: func(s, _ []int64, n int64) []int64 { return sl(s[1], n) }})
	addFam(&fam{name: "setf-getf-present", fn: "setf-getf", group: "fn", form: "(setf (getf {S} (car {S})) {N})", bare: true, share: shareKeep, destr: true, minS: 2,
		pats: patBare, okS: evenLen, wantS: func(s []int64, n int64) []int64 { return replaced(s, 1, n) }})
	// absent indicator: the language lets (setf getf) push the pair in front or modify the structure; slip appends it
	addFam(&fam{name: "setf-getf-absent", fn: "setf-getf", group: "fn", form: "(setf (getf {S} {N}) {M})", bare: true, dstS: true, share: shareS, destr: true, ext: true,
		minS: 2, pats: "aa bb cc", okS: evenLen, want: func(s, _ []int64, n int64) []int64 { return cat(sl(n, n+1), s) },
		alt: func(s, _ []int64, n int64) []int64 { return cat(s, sl(n, n+1)) }})
	addFam(&fam{name: "remf-first", fn: "remf", group: "fn", form: "(remf {S} (car {S}))", bare: true, dstS: true, share: shareS, destr: true, minS: 2, pats: "aa bb cc",
		okS: evenLen, want: func(s, _ []int64, _ int64) []int64 { return from(s, 2) }})
	addFam(&fam{name: "remf-second", fn: "remf", group: "fn", form: "(remf {S} (nth 2 {S}))", bare: true, dstS: true, share: shareS, destr: true, minS: 4, pats: "aa bb cc",
		okS: func(s []int64) bool { return len(s)%2 == 0 && s[0] != s[2] }, want: func(s, _ []int64, _ int64) []int64 { return cat(s[:2], s[4:]) }})
	addFam(&fam{name: "remf-absent", fn: "remf", group: "fn", form: "(remf {S} {N})", bare: true, dstS: true, share: shareS, destr: true, minS: 2, pats: "aa bb cc",
		okS: evenLen, want: func(s, _ []int64, _ int64) []int64 { return s }})
	// ---- adjoin / pushnew / addf / addnew
	addFam(un("adjoin-new", "adjoin", "(adjoin {N} {S})", shareS, 1, patProd, func(s []int64, n int64) []int64 { return cat(sl(n), s) }, all0))
	addFam(un("adjoin-present", "adjoin", "(adjoin (nth 1 {S}) {S})", shareS, 2, patProd4, same, all0))
	addFam(&fam{name: "adjoin-key", fn: "adjoin", group: "kw", form: "(adjoin {N} {S} :key (lambda (x) 0))", share: shareS, minS: 1, pats: patProd4, tail: all0,
		want: func(s, _ []int64, _ int64) []int64 { return s }, base: func(s, _ []int64, n int64) []int64 { return cat(sl(n), s) }})
	addFam(&fam{name: "adjoin-test", fn: "adjoin", group: "kw", form: "(adjoin {N} {S} :test #'>)", share: shareS, minS: 1, pats: patProd4, tail: all0,
		want: func(s, _ []int64, _ int64) []int64 { return s }, base: func(s, _ []int64, n int64) []int64 { return cat(sl(n), s) }})
	type pv struct {
		name, fn, form string
		want           func(s []int64, n int64) []int64
		kw             bool
		destr          bool
	}
	for _, v := range []pv{
		{"pushnew-new", "pushnew", "(pushnew {N} {S})", func(s []int64, n int64) []int64 { return cat(sl(n), s) }, false, false},
		{"pushnew-present", "pushnew", "(pushnew (nth 1 {S}) {S})", func(s []int64, _ int64) []int64 { return s }, false, false},
		{"pushnew-test", "pushnew", "(pushnew {N} {S} :test #'>)", func(s []int64, _ int64) []int64 { return s }, true, false},
		{"pushnew-test-not", "pushnew", "(pushnew {N} {S} :test-not #'>)", func(s []int64, n int64) []int64 { return cat(sl(n), s) }, false, false},
		{"pushnew-key", "pushnew", "(pushnew {N} {S} :key (lambda (x) 0))", func(s []int64, _ int64) []int64 { return s }, true, false},
		{"addf", "addf", "(addf {S} {N})", func(s []int64, n int64) []int64 { return cat(s, sl(n)) }, false, true},
		{"addf2", "addf", "(addf {S} {N} {M})", func(s []int64, n int64) []int64 { return cat(s, sl(n, n+1)) }, false, true},
		{"addnew-new", "addnew", "(addnew {N} {S})", func(s []int64, n int64) []int64 { return cat(s, sl(n)) }, false, true},
		{"addnew-present", "addnew", "(addnew (nth 1 {S}) {S})", func(s []int64, _ int64) []int64 { return s }, false, true},
		{"addnew-test", "addnew", "(addnew {N} {S} :test #'>)", func(s []int64, _ int64) []int64 { return s }, true, true},
	} {
		v := v
		f := &fam{name: v.name, fn: v.fn, group: "fn", form: v.form, bare: true, dstS: true, share: shareS, destr: v.destr, ext: true, minS: 2, pats: "aa bb cc",
			want: func(s, _ []int64, n int64) []int64 { return v.want(s, n) }, tail: all0}
		if v.kw {
			f.group = "kw"
			f.base = func(s, _ []int64, n int64) []int64 {
				if v.destr {
					return cat(s, sl(n))
				}
				return cat(sl(n), s)
			}
		}
		if v.destr {
			f.tail = nil
		}
		addFam(f)
	}
	// ---- apply / funcall / &rest / multiple values: the &rest list may share with the last argument of apply
	addFam(un("rest-apply", "apply", "(apply (lambda (&rest r) r) {S})", shareS, 1, patProd, same, all0))
	addFam(un("rest-apply-front", "apply", "(apply (lambda (&rest r) r) {N} {S})", shareS, 1, patProd, func(s []int64, n int64) []int64 { return cat(sl(n), s) }, all0))
	addFam(un("rest-apply-cdr", "apply", "(apply (lambda (x &rest r) r) {S})", shareS, 1, patProd4, func(s []int64, _ int64) []int64 { return from(s, 1) }, func([]int64) int { return 1 }))
	addFam(un("rest-apply-cons", "apply", "(apply (lambda (&rest r) r) (cons {N} {S}))", shareS, 1, patProd4, func(s []int64, n int64) []int64 { return cat(sl(n), s) }, all0))
	addFam(un("rest-apply-tail", "apply", "(apply (lambda (&rest r) r) (car {S}) (cdr {S}))", shareS, 2, patProd4, same, func([]int64) int { return 1 }))
	addFam(un("rest-funcall", "funcall", "(funcall (lambda (&rest r) r) (car {S}) (cadr {S}))", shareNone, 2, patProd4, func(s []int64, _ int64) []int64 { return s[:2] }, nil))
	addFam(un("rest-optional", "apply", "(apply (lambda (x &optional y &rest r) (list* y x r)) {S})", shareS, 2, patProd4, func(s []int64, _ int64) []int64 { return cat(sl(s[1], s[0]), s[2:]) }, func([]int64) int { return 2 }))
	addFam(un("apply-list", "apply", "(apply #'list {S})", shareNone, 1, patProd, same, nil))
	addFam(un("apply-append", "apply", "(apply #'append (list {S} nil))", shareNone, 1, patProd4, same, nil))
	addFam(un("apply-cons", "apply", "(apply #'cons {N} (list {S}))", shareS, 1, patProd4, func(s []int64, n int64) []int64 { return cat(sl(n), s) }, all0))
	addFam(un("apply-nthcdr", "apply", "(apply #'nthcdr 1 (list {S}))", shareS, 1, patProd4, func(s []int64, _ int64) []int64 { return from(s, 1) }, func([]int64) int { return 1 }))
	addFam(un("mv-list-values", "multiple-value-list", "(multiple-value-list (values (car {S}) (cadr {S})))", shareNone, 2, patProd4, func(s []int64, _ int64) []int64 { return s[:2] }, nil))
	addFam(un("mv-call", "multiple-value-call", "(multiple-value-call (lambda (&rest r) r) (values-list {S}) (values-list {S}))", shareNone, 1, patProd4, func(s []int64, _ int64) []int64 { return cat(s, s) }, nil))
	addFam(un("mv-call-list", "multiple-value-call", "(multiple-value-call #'list (values-list {S}) {N})", shareNone, 1, patProd4, func(s []int64, n int64) []int64 { return cat(s, sl(n)) }, nil))
	addFam(un("mv-bind", "multiple-value-bind", "(multiple-value-bind (x y) (values {S} (cdr {S})) y)", shareS, 1, patProd4, func(s []int64, _ int64) []int64 { return from(s, 1) }, func([]int64) int { return 1 }))
	addFam(un("values-first", "values", "(values {S} {N})", shareS, 1, patProd4, same, all0))
	addFam(un("let-alias", "let", "(let ((x {S})) (let* ((y x)) y))", shareS, 1, patProd4, same, all0))
	// ---- the same list sent through a channel, a flavors instance, a hash table, a slot, a closure and back
	addFam(un("via-channel", "channel-pop", "(let ((ch (make-channel 2))) (channel-push ch {S}) (channel-pop ch))", shareS, 1, patProd, same, all0))
	addFam(un("via-hash", "gethash", "(let ((ht (make-hash-table))) (setf (gethash 1 ht) {S}) (values (gethash 1 ht)))", shareS, 1, patProd4, same, all0))
	addFam(un("via-maphash", "maphash", "(let ((ht (make-hash-table)) (r nil)) (setf (gethash 1 ht) {S}) (maphash (lambda (k v) (setq r v)) ht) r)", shareS, 1, patProd4, same, all0))
	addFam(un("via-closure", "funcall", "(funcall (let ((x {S})) (lambda () x)))", shareS, 1, patProd4, same, all0))
	addFam(un("via-bag", "bag-native", "(bag-native (make-bag {S}))", shareNone, 1, patProd4, same, nil))
	addFam(un("via-vector-list", "coerce", "(let ((v (coerce {S} 'vector))) (setf (aref v 0) {N}) (list (aref v 0) (car {S})))", shareNone, 1, patProd4, func(s []int64, n int64) []int64 { return sl(n, s[0]) }, nil))
	// push / pop / pushnew on a place inside another list
	addFam(un("push-car-place", "push", "(let ((x (list {S} 0))) (push {N} (car x)) (car x))", shareS, 1, patProd4, func(s []int64, n int64) []int64 { return cat(sl(n), s) }, all0))
	addFam(un("push-nth-place", "push", "(let ((x (list 0 {S}))) (push {N} (nth 1 x)) (nth 1 x))", shareS, 1, patProd4, func(s []int64, n int64) []int64 { return cat(sl(n), s) }, all0))
	addFam(un("pop-car-place", "pop", "(let ((x (list {S} 0))) (pop (car x)) (car x))", shareS, 1, patProd4, func(s []int64, _ int64) []int64 { return from(s, 1) }, func([]int64) int { return 1 }))
	addFam(un("pushnew-car-place", "pushnew", "(let ((x (list {S} 0))) (pushnew {N} (car x)) (pushnew {N} (car x)) (car x))", shareS, 1, patProd4, func(s []int64, n int64) []int64 { return cat(sl(n), s) }, all0))
	addFam(un("push-aref-place", "push", "(let ((x (vector {S}))) (push {N} (aref x 0)) (aref x 0))", shareS, 1, patProd4, func(s []int64, n int64) []int64 { return cat(sl(n), s) }, all0))
}
