package c04

import (
	"strings"

	"github.com/ohler55/slip"

	"verif/engine"
	"verif/lisp"
)

// Default FORMS (as opposed to literal defaults): CLHS 3.4.1.2/3.4.1.4 — the init-form of an absent
// &optional / &key parameter is evaluated at call time. A small fixed family, separate signatures.
var defaultForms = map[string][2]string{ // form id -> {form text, expected rendering}
	"call":  {"(+ 1 2)", "3"},
	"quote": {"'q", "q"},
	"list":  {"(list 1 2)", "(1 2)"},
	// sixth round
	"var":   {"a", "1"},        // a bare symbol: the value of the required parameter
	"call0": {"(list)", "nil"}, // a call without arguments
}

var defaultFormCases = func() []string {
	var out []string
	for _, via := range []string{"defun", "funcall"} {
		for _, param := range []string{"optional", "key"} {
			for _, form := range []string{"call", "quote", "list"} {
				for _, supplied := range []string{"absent", "supplied"} {
					out = append(out, "D|"+via+"|"+param+"|"+form+"|"+supplied)
				}
			}
		}
	}
	// sixth round: a bare symbol and a call without arguments as init-form; the init-forms of &aux (never supplied)
	for _, via := range []string{"defun", "funcall"} {
		for _, param := range []string{"optional", "key"} {
			for _, form := range []string{"var", "call0"} {
				for _, supplied := range []string{"absent", "supplied"} {
					out = append(out, "D|"+via+"|"+param+"|"+form+"|"+supplied)
				}
			}
		}
		for _, form := range []string{"call", "quote", "list", "var", "call0"} {
			out = append(out, "D|"+via+"|aux|"+form+"|absent")
		}
	}
	return out
}()

func execD(spec string) (res engine.Result) {
	f := strings.Split(spec, "|")
	if len(f) != 5 {
		res.Fail("harness:bad-spec", spec)
		return
	}
	via, param, form, supplied := f[1], f[2], f[3], f[4]
	df, ok := defaultForms[form]
	if !ok {
		res.Fail("harness:bad-spec", spec)
		return
	}
	ll := "(a &optional (p " + df[0] + "))"
	callArgs := "1"
	want := "(1 " + df[1] + ")"
	if param == "key" {
		ll = "(a &key (p " + df[0] + "))"
	}
	if param == "aux" {
		ll = "(a &aux (p " + df[0] + "))"
	}
	if supplied == "supplied" {
		want = "(1 7)"
		if param == "key" {
			callArgs = "1 :p 7"
		} else {
			callArgs = "1 7"
		}
	}
	name := freshName()
	scope := slip.NewScope()
	var src string
	var val slip.Object
	var err *lisp.Err
	if via == "defun" {
		def := "(defun " + name + " " + ll + " (list a p))"
		defer slip.UserPkg.Undefine(name)
		if _, derr := lisp.EvalIn(scope, def); derr != nil {
			res.Fail("A via="+via+" kind=definition-rejected default-form="+form+" err="+derr.Class, def+" => "+derr.String())
			return
		}
		call := "(" + name + " " + callArgs + ")"
		src = def + " " + call
		val, err = lisp.EvalIn(scope, call)
	} else {
		src = "(funcall (lambda " + ll + " (list a p)) " + callArgs + ")"
		val, err = lisp.EvalIn(scope, src)
	}
	res.Nontrivial = true
	res.Hit("A:default-form")
	sig := "A via=" + via + " kind=default-form-not-evaluated param=" + param + " form=" + form
	if supplied == "supplied" {
		sig = "A via=" + via + " kind=default-form-shape-breaks-supplied-argument param=" + param + " form=" + form
	}
	switch {
	case err != nil:
		res.Outcome = "ERR:" + err.Class
		res.Fail(sig+" err="+err.Class, src+" => error "+err.String()+"; required: "+want)
	default:
		got := lisp.Show(val)
		res.Outcome = got
		if got != want {
			res.Fail(sig, src+" => "+got+"; required: "+want+" (the init-form of an absent parameter is evaluated when the function is called)")
		}
	}
	return
}
