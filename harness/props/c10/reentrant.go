//go:build verif

package c10

// reentrant.go: a generic function that is called again - on another argument class or on the same one - while a call
// of it is still running (from a primary, from an :around method before and after call-next-method, from a :before
// daemon). The BFS families call the generic function from top level only; here the dispatch machinery (effective
// method, the location that call-next-method walks) is re-entered. Expected value and trace are written by hand
// from the statement: all :around most specific first, then :before most specific first, the most specific primary,
// :after least specific first, call-next-method walking the same order, separately for every call. (call-next-method is used in :around methods only and is given its arguments: slip documents both.)
//
// spec: reent|<k>

import (
	"fmt"
	"os"
	"strings"
	"sync/atomic"

	"verif/engine"
	"verif/lisp"
)

var reentCases = []struct{ name, defs, probe, want, trace string }{
	{"primary-recurses-same-class",
		"(defgeneric @g (n)) (defmethod @g :around ((n integer)) (tr 'ar n) (list 'a n (call-next-method n))) (defmethod @g ((n integer)) (tr 'p n) (if (< 0 n) (list n (@g (- n 1))) 'done))",
		"(@g 2)", "(a 2 (2 (a 1 (1 (a 0 done)))))", "ar,p,ar,p,ar,p"},
	{"primary-recurses-twice",
		"(defgeneric @g (n)) (defmethod @g :around ((n integer)) (let ((r (call-next-method n))) (list 'a n r))) (defmethod @g :before ((n integer)) (tr 'b n)) (defmethod @g ((n integer)) (if (< 0 n) (list (@g (- n 1)) (@g (- n 1))) 'd))",
		"(@g 1)", "(a 1 ((a 0 d) (a 0 d)))", "b,b,b"},
	{"around-calls-generic-on-other-class-before-next",
		"(defgeneric @g (x)) (defmethod @g :around ((x integer)) (tr 'ai) (list (@g \"s\") (call-next-method x))) (defmethod @g ((x integer)) (tr 'pi) 'int) (defmethod @g :around ((x string)) (tr 'as) (list 'as (call-next-method x))) (defmethod @g ((x string)) (tr 'ps) 'str)",
		"(@g 1)", "((as str) int)", "ai,as,ps,pi"},
	{"around-calls-generic-on-other-class-after-next",
		"(defgeneric @g (x)) (defmethod @g :around ((x integer)) (let ((r (call-next-method x))) (list r (@g \"s\") (call-next-method x)))) (defmethod @g ((x integer)) (tr 'pi) 'int) (defmethod @g ((x string)) (tr 'ps) 'str)",
		"(@g 1)", "(int str int)", "pi,ps,pi"},
	{"before-daemon-calls-generic",
		"(defgeneric @g (x)) (defmethod @g :before ((x integer)) (tr 'bi) (@g \"s\")) (defmethod @g :after ((x integer)) (tr 'afi)) (defmethod @g ((x integer)) (tr 'pi) 'int) (defmethod @g :before ((x string)) (tr 'bs)) (defmethod @g ((x string)) (tr 'ps) 'str)",
		"(@g 1)", "int", "bi,bs,ps,pi,afi"},
	{"around-chain-with-recursion-in-the-middle",
		"(defgeneric @g (x)) (defmethod @g :around ((x integer)) (tr 'ai) (list 'i (call-next-method x))) (defmethod @g :around ((x real)) (tr 'ar) (list 'r (if (< 0 x) (@g (- x 1)) 'end) (call-next-method x))) (defmethod @g :around ((x t)) (tr 'at) (list 't (call-next-method x))) (defmethod @g ((x t)) (tr 'p) 'p)",
		"(@g 1)", "(i (r (i (r end (t p))) (t p)))", "ai,ar,ai,ar,at,p,at,p"},
	// the method table is changed by a daemon of the running call: the running call finishes with the methods it
	// started with, the next call sees the change (the only applicable specializer tuple, so nothing else hides a
	// shared table entry)
	{"before-daemon-redefines-the-primary-of-the-running-call",
		"(defgeneric @g (x)) (defmethod @g ((x integer)) (tr 'old) 'old) (defmethod @g :before ((x integer)) (tr 'b) (defmethod @g ((x integer)) (tr 'new) 'new))",
		"(list (@g 1) (@g 1))", "(old new)", "b,old,b,new"},
	{"before-daemon-removes-the-after-daemon-of-the-running-call",
		"(defgeneric @g (x y)) (defmethod @g ((x integer) (y integer)) (tr 'p) 'p) (defmethod @g :after ((x integer) (y integer)) (tr 'a)) (defmethod @g :before ((x integer) (y integer)) (tr 'b) (let ((m (find-method #'@g '(:after) '(integer integer) nil))) (when m (remove-method #'@g m))))",
		"(list (@g 1 2) (@g 1 2))", "(p p)", "b,p,a,b,p"},
	{"two-arguments-recursion-swaps-classes",
		"(defgeneric @g (a b)) (defmethod @g ((a integer) (b string)) (tr 'is) (list 'is (@g b a))) (defmethod @g ((a string) (b integer)) (tr 'si) 'si) (defmethod @g :around ((a t) (b t)) (tr 'ar) (list 'ar (call-next-method a b)))",
		"(@g 1 \"s\")", "(ar (is (ar si)))", "ar,is,ar,si"},
}

var reentCtr int64

func reentEnumerate(emit func(string)) {
	for i := range reentCases {
		emit(fmt.Sprintf("reent|%d", i))
	}
}

func execReent(spec string) (res engine.Result) {
	var k int
	if _, err := fmt.Sscanf(spec, "reent|%d", &k); err != nil || k < 0 || len(reentCases) <= k {
		res.Fail("harness:bad-spec", spec)
		return
	}
	c := reentCases[k]
	tag := fmt.Sprintf("c10r%dx%d", os.Getpid(), atomic.AddInt64(&reentCtr, 1))
	ren := func(s string) string { return strings.ReplaceAll(s, "@g", tag) }
	res.Nontrivial = true
	res.Hit("reentrant-dispatch")
	defer func() { _, _ = lisp.Eval("(fmakunbound '" + tag + ")") }()
	if _, err := lisp.Eval("(progn " + ren(c.defs) + ")"); err != nil {
		res.Fail("reentrant case="+c.name+" kind=definition-error:"+err.Class, ren(c.defs)+" => "+err.String())
		return
	}
	reps := 2
	if strings.HasPrefix(c.name, "before-daemon-re") {
		reps = 1 // the probe itself changes the method table
	}
	for rep := 1; rep <= reps; rep++ { // the second call runs on the warm dispatch cache
		lisp.ResetTrace()
		v, err := lisp.Eval(ren(c.probe))
		var tr []string
		for _, t := range lisp.Trace() {
			tr = append(tr, t)
		}
		got := strings.Join(tr, ",")
		path := "cold"
		if rep == 2 {
			path = "warm"
		}
		switch {
		case err != nil:
			res.Fail(fmt.Sprintf("reentrant case=%s path=%s kind=error:%s", c.name, path, err.Class), ren(c.defs)+" "+ren(c.probe)+" => "+err.String())
		case lisp.Show(v) != c.want:
			res.Fail(fmt.Sprintf("reentrant case=%s path=%s kind=wrong-value", c.name, path),
				fmt.Sprintf("%s %s => %s, required %s", ren(c.defs), ren(c.probe), lisp.Show(v), c.want))
		case got != c.trace:
			res.Fail(fmt.Sprintf("reentrant case=%s path=%s kind=wrong-method-sequence", c.name, path),
				fmt.Sprintf("%s %s ran [%s], required [%s]", ren(c.defs), ren(c.probe), got, c.trace))
		}
	}
	res.Outcome = "ok"
	return
}
