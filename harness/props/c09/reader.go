package c09

import (
	"bytes"
	"encoding/hex"
	"fmt"
	"strconv"
	"strings"
	"testing/iotest"

	"github.com/ohler55/slip"

	"verif/engine"
)

// syntax12: the bytes that drive the reader's mode table.
var syntax12 = []byte{'(', ')', '"', '\\', '#', '|', '\'', ',', '@', 'a', '1', ' '}

// syntax48: every byte that has a meaning of its own to the reader plus one
// representative of each plain class.
var syntax48 = []byte("()\"\\#|',@`;:.+-/*=<>&%!?~_^$[]{} \t\n\r01789aeExXbBoOrRcC")

func init() {
	// keep syntax48 at 48 distinct bytes (a harness bug otherwise)
	seen := map[byte]bool{}
	var out []byte
	for _, b := range syntax48 {
		if !seen[b] {
			seen[b] = true
			out = append(out, b)
		}
	}
	syntax48 = out
	if 48 < len(syntax48) {
		syntax48 = syntax48[:48]
	}
}

// byteStrings emits every string over alpha with length lo..hi.
func byteStrings(alpha []byte, lo, hi int, emit func([]byte)) {
	for n := lo; n <= hi; n++ {
		cur := make([]byte, n)
		var rec func(i int)
		rec = func(i int) {
			if i == n {
				emit(cur)
				return
			}
			for _, b := range alpha {
				cur[i] = b
				rec(i + 1)
			}
		}
		rec(0)
	}
}

func allBytes() []byte {
	a := make([]byte, 256)
	for i := range a {
		a[i] = byte(i)
	}
	return a
}

func enumReader(tier string, emit func(string)) {
	one := func(apis string) func([]byte) {
		return func(b []byte) {
			h := hex.EncodeToString(b)
			for _, api := range apis {
				emit("r|" + string(api) + "|" + h)
			}
		}
	}
	if tier == engine.Thorough {
		byteStrings(allBytes(), 0, 2, one("stol"))
		byteStrings(syntax12, 3, 6, one("stol"))
		byteStrings(syntax48, 3, 4, one("st"))
		byteStrings(allBytes(), 3, 3, one("s"))
		return
	}
	byteStrings(allBytes(), 0, 2, one("stol"))
	byteStrings(syntax12, 3, 5, one("st"))
	byteStrings(syntax12, 3, 4, one("ol"))
}

var apiNames = map[string]string{"s": "Read", "t": "ReadStream", "o": "ReadStream/1-byte-chunks", "l": "read-from-string"}

func execReader(spec string) (res engine.Result) {
	parts := strings.SplitN(spec, "|", 3)
	if len(parts) != 3 || apiNames[parts[1]] == "" {
		res.Fail("harness:bad-spec", spec)
		return
	}
	src, err := hex.DecodeString(parts[2])
	if err != nil {
		res.Fail("harness:bad-spec", spec)
		return
	}
	api := parts[1]
	scope := slip.NewScope()
	var o *obs
	switch api {
	case "s":
		o = observe(func() slip.Object { return slip.List(slip.Read(src, scope)) })
	case "t":
		o = observe(func() slip.Object { c, _ := slip.ReadStream(bytes.NewReader(src), scope); return slip.List(c) })
	case "o":
		o = observe(func() slip.Object {
			c, _ := slip.ReadStream(iotest.OneByteReader(bytes.NewReader(src)), scope)
			return slip.List(c)
		})
	case "l":
		saved := slip.CurrentPackage
		defer func() { slip.CurrentPackage = saved }()
		scope.Let(slip.Symbol("c09a0"), slip.String(src))
		o = observe(func() slip.Object {
			return slip.ReadString("(read-from-string c09a0)", scope).Eval(scope, nil)
		})
	}
	judgeRead(&res, o, &realClassifier, api, src)
	return
}

func judgeRead(res *engine.Result, o *obs, c *classifier, api string, src []byte) {
	res.Outcome = o.outcome()
	res.Hit("reader-cases")
	switch o.kind {
	case "value":
		res.Hit("reader-value")
	case "partial":
		res.Hit("reader-partial")
	case "condition":
		res.Hit("reader-condition")
	}
	// non-trivial: the text contains at least one byte with a syntactic role
	if 0 < len(src) && bytes.ContainsAny(src, "()\"\\#|',@`;:") {
		res.Nontrivial = true
	}
	if fc := c.classify(o); fc != "" {
		res.Hit("faults")
		res.Fail(fmt.Sprintf("reader api=%s fault=%s at=%s", apiNames[api], fc, o.site),
			fmt.Sprintf("reading %s through %s => %s", strconv.QuoteToASCII(string(src)), apiNames[api], o.describe()))
	} else if o.catchAll {
		res.Hit("catch-all-accepted")
		logAccepted("reader api="+apiNames[api], o)
	}
}
