package c09

// places.go: family pl - PLACES. `(setf (F args...) V)` is not a call of F: the interpreter runs F's Place method,
// which the function x tuple families never reach. The family is complete by construction: the case pl|inventory asks
// slip for every function object that implements slip.Placer (all packages, exported or not, plus the accessors that
// defstruct / defclass generate for the harness's fixtures, plus every function named "(setf ...)") and fails as a
// harness error when one of them has no template here, when a template names a function that is not a placer (any
// more), or when the designated valid evaluation of a template does not end in a value.
//
// One case = (template, swept object). Inside the case EVERY storing operator x EVERY combination of the template's index holes
// ({I} {J}: the size grid, {B}: every (byte size position) pair over the byte grid) and EVERY new value of the
// operator's value list is evaluated, each on freshly built objects in a fresh scope. The oracle is the family's
// usual one: a value or a genuine Lisp condition; a condition manufactured from a Go runtime error or a raw Go panic is
// a failure (signature: function x operator x fault class x Go function that raised it).
//
// spec: pl|<bound>|<fn>|<swept object>|<place form>       bound: q (quick grids and value lists) | t (thorough ones)

import (
	"fmt"
	"os"
	"sort"
	"strings"
	"sync"
	"sync/atomic"
	"time"

	"github.com/ohler55/slip"

	"verif/engine"
	"verif/lisp"
)

func nextID() int64 { return atomic.AddInt64(&nameCounter, 1) }

func lispEvalIn(scope *slip.Scope, src string) (slip.Object, *lisp.Err) {
	return lisp.EvalIn(scope, src)
}

// placeGrid: the index / size / position values (the brief's size grid).
var placeGrid = []string{"0", "1", "7", "8", "9", "63", "64", "65", "-1", "2147483648", "4611686018427387904",
	"18446744073709551616", "1000000000000000000000000000000"}

// placeGridPair: the values of each hole of a two-hole template in the quick tier (the thorough tier uses placeGrid^2).
var placeGridPair = []string{"0", "1", "8", "64", "-1", "2147483648", "18446744073709551616"}

// byteGrid: size and position of (byte size position): every ordered pair.
var byteGrid = []string{"0", "1", "7", "8", "9", "15", "16", "17", "63", "64", "65", "128"}

type placeValue struct {
	name string
	src  string // "" = built in Go
	mut  bool   // must be rebuilt for every evaluation
}

// placeValues: the new values. "self" is the swept object itself.
var placeValues = []placeValue{
	{"7", "7", false},
	{"nil", "nil", false},
	{"-1", "-1", false},
	{"2^64", "18446744073709551616", false},
	{"1/2", "1/2", false},
	{"1.5", "1.5d0", false},
	{`#\a`, `#\a`, false},
	{`"s"`, `(copy-seq "s")`, true},
	{"sym", "'c09vsym", false},
	{"list", "(list 1 2 3 4 5)", true},
	{"vector", "(vector 1 2 3 4 5)", true},
	{"octets", "(make-octets 5 1)", true},
	{"bits", "(make-array 5 :element-type 'bit :initial-element 1)", true},
	{"self", "", true},
}

// placeValuesGrid: for templates whose NEW VALUE is a size (fill-pointer) or an integer field (ldb, mask-field): the
// values above plus the size grid.
var placeValuesGrid = func() []placeValue {
	out := append([]placeValue{}, placeValues...)
	for _, g := range []string{"0", "1", "8", "9", "63", "64", "65", "2147483648", "4611686018427387904", "1000000000000000000000000000000",
		"-9223372036854775808", "255", "256"} {
		out = append(out, placeValue{"n" + g, g, false})
	}
	return out
}()

// okObjects: objects on which a template is valid; they are swept in addition to the pool by the templates that name
// them.
var okObjects = map[string]string{
	"nest":   "", // built in Go: lists of 5 nested 4 deep (every c[ad]{1,4}r path exists)
	"l12":    "(list 0 1 2 3 4 5 6 7 8 9 10 11)",
	"v12":    "(vector 0 1 2 3 4 5 6 7 8 9 10 11)",
	"a44":    "(make-array (list 4 4) :initial-element 0)",
	"a0":     "(make-array '() :initial-element 0)",
	"bv12":   "(make-array 12 :element-type 'bit :initial-element 0)",
	"bv44":   "(make-array (list 4 4) :element-type 'bit :initial-element 0)",
	"oct12":  "(make-octets 12 1)",
	"str12":  `(copy-seq "abcdefghijkl")`,
	"fp12":   "(make-array 12 :fill-pointer 6 :adjustable t :initial-element 0)",
	"plist":  "(list :a 1 :b 2)",
	"psym":   "", // built in Go: a fresh symbol bound (in the scope of the evaluation) to a property list
	"sb8":    "(coerce #*1010 'signed-byte)",
	"sbneg":  "(coerce -7 'signed-byte)",
	"ub8":    "(coerce #*1010 'unsigned-byte)",
	"big+":   "(+ 18446744073709551616 1)",
	"st":     "(make-c09st :x 1 :y 2)",
	"sl":     "(make-c09sl :x 1 :y 2)",
	"sv":     "(make-c09sv :x 1 :y 2)",
	"sock":   "", // built in Go: an unbound unix-domain socket, closed after the evaluation
	"cinst":  "(make-instance 'c09class :a 1)",
	"finst":  "(make-instance 'c09flavor)",
	"ht":     "(let ((h (make-hash-table))) (setf (gethash 'a h) 1) h)",
	"fsym":   "", // pool object
	"fixnum": "'fixnum",
	"t":      "t",
	"1":      "1",
	":a":     ":a",
	"'a":     "'a",
	"b31":    "(byte 3 1)",
	"func":   "'function",
	"reuse":  ":reuse-address",
}

type placeTmpl struct {
	fn    string   // function as discovered: "<package>:<name>"
	form  string   // the place; {C} = the swept object, {O} = the template's own valid object, {I} {J} {B} index holes
	oks   []string // okObjects swept in addition to the pool; the first one is the designated valid object
	o     string   // okObject bound to {O}
	okc   string   // swept object of the designated valid evaluation when it is not oks[0] (forms with {O})
	okv   string   // new value of the designated valid evaluation (default "7")
	vals  string   // "" = placeValues, "grid" = placeValuesGrid
	lit   bool     // the place is given as a list-building expression and evaluated with (eval (list 'op place ...))
	noOK  string   // reason why no evaluation of this template can end in a value
	okOps string   // operators (comma separated) besides setf / psetf that must reach a value on the designated object
}

var (
	placeOnce      sync.Once
	placeTemplates []placeTmpl
)

func ensurePlaceFixtures() {
	ensureFixtures()
	if slip.UserPkg.GetFunc("make-c09st") == nil {
		mustEval(slip.NewScope(), "(defstruct c09st (x 0) (y 0) (ro 3 :read-only t))")
	}
	if slip.UserPkg.GetFunc("make-c09sl") == nil {
		mustEval(slip.NewScope(), "(defstruct (c09sl (:type list)) (x 0) (y 0) (ro 3 :read-only t))")
	}
	if slip.UserPkg.GetFunc("make-c09sv") == nil {
		mustEval(slip.NewScope(), "(defstruct (c09sv (:type vector)) (x 0) (y 0) (ro 3 :read-only t))")
	}
}

func allPlaceTemplates() []placeTmpl {
	placeOnce.Do(func() {
		add := func(t placeTmpl) { placeTemplates = append(placeTemplates, t) }
		cl := func(n string) string { return "common-lisp:" + n }
		// ---- car ... cddddr, first ... tenth, rest
		var cxr []string
		for n := 1; n <= 4; n++ {
			tuples([]string{"a", "d"}, n, func(t []string) { cxr = append(cxr, "c"+strings.Join(t, "")+"r") })
		}
		cxr = append(cxr, "first", "second", "third", "fourth", "fifth", "sixth", "seventh", "eighth", "ninth", "tenth", "rest")
		for _, f := range cxr {
			if f == "cdddar" {
				continue // slip does not define it (every other c[ad]{1,4}r exists)
			}
			t := placeTmpl{fn: cl(f), form: "(" + f + " {C})", oks: []string{"nest", "l12"}}
			switch {
			case f == "rest" || strings.HasPrefix(f, "cd"):
				t.noOK = "slip refuses to store into the cdr of a list (lists are slices): a condition by design"
			case !strings.HasPrefix(f, "c"):
				t.oks = []string{"l12", "nest"}
			}
			add(t)
		}
		// ---- indexed
		add(placeTmpl{fn: cl("nth"), form: "(nth {I} {C})", oks: []string{"l12", "nest"}, okOps: "incf,decf"})
		add(placeTmpl{fn: cl("nth"), form: "(nth {C} {O=l12})", o: "l12", okc: "1"})
		add(placeTmpl{fn: cl("elt"), form: "(elt {C} {I})", oks: []string{"l12", "v12", "str12", "oct12", "bv12", "fp12"}, okOps: "incf"})
		add(placeTmpl{fn: cl("elt"), form: "(elt {O=l12} {C})", o: "l12", okc: "1"})
		add(placeTmpl{fn: cl("elt"), form: "(elt {O=v12} {C})", o: "v12", okc: "1"})
		for _, f := range []string{"aref", "row-major-aref", "svref"} {
			add(placeTmpl{fn: cl(f), form: "(" + f + " {C} {I})", oks: []string{"v12", "fp12", "str12", "oct12", "bv12", "a44"}, okOps: "incf"})
			add(placeTmpl{fn: cl(f), form: "(" + f + " {O=v12} {C})", o: "v12", okc: "1"})
		}
		add(placeTmpl{fn: cl("aref"), form: "(aref {C} {I} {J})", oks: []string{"a44", "bv44", "v12"}})
		add(placeTmpl{fn: cl("aref"), form: "(aref {C})", oks: []string{"a0", "v12"}})
		add(placeTmpl{fn: cl("aref"), form: "(aref {O=a44} 1 {C})", o: "a44", okc: "1"})
		add(placeTmpl{fn: cl("aref"), form: "(aref {C} 1 1 1)", oks: []string{"a44"}, noOK: "three subscripts never fit the objects swept: the rank check is what is reached"})
		add(placeTmpl{fn: cl("row-major-aref"), form: "(row-major-aref {C} {I})", oks: []string{"a44", "bv44"}})
		for _, f := range []string{"bit", "sbit"} {
			add(placeTmpl{fn: cl(f), form: "(" + f + " {C} {I})", oks: []string{"bv12", "v12", "bv44"}, okv: "n1", vals: "grid"})
			add(placeTmpl{fn: cl(f), form: "(" + f + " {C} {I} {J})", oks: []string{"bv44", "a44", "bv12"}, okv: "n1", vals: "grid"})
			add(placeTmpl{fn: cl(f), form: "(" + f + " {O=bv12} {C})", o: "bv12", okc: "1", okv: "n1", vals: "grid"})
			add(placeTmpl{fn: cl(f), form: "(" + f + " {C})", oks: []string{"bv12"}, noOK: "a bit array of rank 0 cannot be made: the rank check is what is reached"})
		}
		add(placeTmpl{fn: cl("subseq"), form: "(subseq {C} {I})", oks: []string{"l12", "v12", "str12", "oct12", "bv12", "fp12"}, okv: "list"})
		add(placeTmpl{fn: cl("subseq"), form: "(subseq {C} {I} {J})", oks: []string{"l12", "v12", "str12", "oct12", "bv12", "fp12"}, okv: "list"})
		add(placeTmpl{fn: cl("subseq"), form: "(subseq {C} 1 nil)", oks: []string{"l12", "v12", "oct12", "bv12"}, okv: "list"})
		add(placeTmpl{fn: cl("subseq"), form: "(subseq {O=l12} {C})", o: "l12", okc: "1", okv: "list"})
		add(placeTmpl{fn: cl("subseq"), form: "(subseq {O=v12} 1 {C})", o: "v12", okc: "5", okv: "vector"})
		add(placeTmpl{fn: cl("fill-pointer"), form: "(fill-pointer {C})", oks: []string{"fp12"}, vals: "grid", okOps: "incf,decf"})
		// ---- keyed
		add(placeTmpl{fn: cl("gethash"), form: "(gethash 'a {C})", oks: []string{"ht"}, okOps: "incf,push,pop"})
		add(placeTmpl{fn: cl("gethash"), form: "(gethash {C} {O=ht})", o: "ht", okc: "5"})
		add(placeTmpl{fn: cl("gethash"), form: "(gethash 'a {C} 0)", oks: []string{"ht"}, noOK: "the place takes two arguments: the count check is what is reached"})
		add(placeTmpl{fn: cl("getf"), form: "(getf {C} :a)", oks: []string{"plist"}, noOK: "getf evaluates its first argument and then demands a symbol or a place form there: with a variable the place is the variable (reached by the next template)"})
		add(placeTmpl{fn: cl("getf"), form: "(list 'getf 'c09o {C})", lit: true, o: "plist", okc: ":a", okOps: "incf"})
		add(placeTmpl{fn: cl("getf"), form: "(list 'getf {C} :a)", lit: true, oks: []string{"psym"}})
		add(placeTmpl{fn: cl("getf"), form: "(list 'getf (list 'car {C}) :a)", lit: true, okc: "sym", noOK: "the inner place names the swept object as a variable"})
		add(placeTmpl{fn: cl("getf"), form: "(getf (car {C}) :a)", oks: []string{"nest"}})
		add(placeTmpl{fn: cl("getf"), form: "(getf (cadr {C}) :a 0)", oks: []string{"nest"}})
		add(placeTmpl{fn: cl("get"), form: "(list 'get {C} :a)", lit: true, oks: []string{"psym"}, okOps: "incf"})
		add(placeTmpl{fn: cl("get"), form: "(list 'get 'c09o {C})", lit: true, o: "plist", okc: ":a"})
		add(placeTmpl{fn: cl("get"), form: "(get {C} :a)", oks: []string{"plist"}, noOK: "get does not evaluate its first argument: the place is the variable that holds the swept object (a value only when that object is a property list)"})
		add(placeTmpl{fn: "clos:slot-value", form: "(slot-value {C} 'a)", oks: []string{"cinst", "finst", "st"}, okOps: "incf,push,pop"})
		add(placeTmpl{fn: "clos:slot-value", form: "(slot-value {O=cinst} {C})", o: "cinst", okc: "'a"})
		add(placeTmpl{fn: "clos:slot-value", form: "(slot-value {O=finst} {C})", o: "finst", okc: "'a"})
		add(placeTmpl{fn: "flavors:send", form: "(send {C} :a)", oks: []string{"finst"}, okOps: "incf,push,pop"})
		add(placeTmpl{fn: "flavors:send", form: "(send {O=finst} {C})", o: "finst", okc: ":a"})
		add(placeTmpl{fn: "flavors:send", form: "(send {O=finst} :a {C})", o: "finst", okc: "1", noOK: ":set-a takes one argument"})
		add(placeTmpl{fn: "flavors:send", form: "(send {C})", oks: []string{"finst"}, noOK: "a message is required"})
		// ---- fields of integers
		for _, f := range []string{"ldb", "mask-field"} {
			add(placeTmpl{fn: cl(f), form: "(" + f + " {B} {C})", oks: []string{"sb8", "sbneg", "ub8", "big+"}, vals: "grid", okOps: "incf,decf"})
			add(placeTmpl{fn: cl(f), form: "(" + f + " {C} {O=sb8})", o: "sb8", okc: "b31"})
			add(placeTmpl{fn: cl(f), form: "(" + f + " (byte {C} 1) {O=sb8})", o: "sb8", okc: "1"})
			add(placeTmpl{fn: cl(f), form: "(" + f + " (byte 3 {C}) {O=ub8})", o: "ub8", okc: "1"})
			add(placeTmpl{fn: cl(f), form: "(" + f + " (cons {C} 1) {O=big+})", o: "big+", okc: "1"})
		}
		// ---- the
		add(placeTmpl{fn: cl("the"), form: "(list 'the 'fixnum {C})", lit: true, okc: "sym"})
		add(placeTmpl{fn: cl("the"), form: "(list 'the {C} 'c09x)", lit: true, okc: "fixnum"})
		add(placeTmpl{fn: cl("the"), form: "(the fixnum (car {C}))", oks: []string{"nest"}, okOps: "incf"})
		add(placeTmpl{fn: cl("the"), form: "(the list (car {C}))", oks: []string{"nest"}, okv: "list"})
		// ---- documentation
		add(placeTmpl{fn: cl("documentation"), form: "(documentation {C} 'function)", okc: "fsym", okv: `"s"`})
		add(placeTmpl{fn: cl("documentation"), form: "(documentation {C} 'variable)", okc: "sym", okv: `"s"`})
		add(placeTmpl{fn: cl("documentation"), form: "(documentation {C} 'type)", okc: "sym", okv: `"s"`})
		add(placeTmpl{fn: cl("documentation"), form: "(documentation {C} t)", okc: "ufn", okv: `"s"`})
		add(placeTmpl{fn: cl("documentation"), form: "(documentation {O=fsym} {C})", o: "fsym", okc: "func", okv: `"s"`})
		// ---- socket options
		add(placeTmpl{fn: "net:socket-option", form: "(socket-option {C} :reuse-address)", oks: []string{"sock"}, okv: "nil"})
		add(placeTmpl{fn: "net:socket-option", form: "(socket-option {O=sock} {C})", o: "sock", okc: "reuse", okv: "nil"})
		for _, f := range []string{"broadcast", "debug", "keep-alive", "oob-inline", "reuse-address", "tcp-nodelay"} {
			add(placeTmpl{fn: "net:sockopt-" + f, form: "(sockopt-" + f + " {C})", oks: []string{"sock"}, okv: "nil"})
		}
		// ---- accessors generated by defstruct / defclass (fixtures of the harness)
		for _, k := range []string{"st", "sl", "sv"} {
			for _, slot := range []string{"x", "y"} {
				add(placeTmpl{fn: "common-lisp-user:c09" + k + "-" + slot, form: "(c09" + k + "-" + slot + " {C})", oks: []string{k, "st", "sl", "sv", "l12", "v12"}, okOps: "incf,push,pop"})
			}
			add(placeTmpl{fn: "common-lisp-user:c09" + k + "-ro", form: "(c09" + k + "-ro {C})", oks: []string{k}, noOK: "a read-only slot"})
		}
		add(placeTmpl{fn: "common-lisp-user:(setf c09class-a)", form: "(c09class-a {C})", oks: []string{"cinst", "finst", "st"}, okOps: "incf,push,pop"})
	})
	return placeTemplates
}

// ---------------------------------------------------------------- operators

type placeOp struct {
	name  string
	fn    string // the macro that must exist for the operator to be enumerated
	form  string // {P} = the place, {V} = the new value (a variable)
	lit   string // the same as arguments of (list ...) for templates given as list-building expressions; {V} is quoted
	withV bool
	quick string // values used in the quick tier: "all" or "7"
}

// placeOps: every macro of slip that stores through a place (grep slip.Placer in pkg/: setf psetf incf decf push pop
// pushnew rotatef shiftf remf getf addnew). The place is also nested in another place (getf of a place).
var placeOps = []placeOp{
	{"setf", "common-lisp:setf", "(setf {P} {V})", "'setf {P} (list 'quote {V})", true, "all"},
	{"psetf", "common-lisp:psetf", "(psetf {P} {V})", "'psetf {P} (list 'quote {V})", true, "7"},
	{"incf", "common-lisp:incf", "(incf {P})", "'incf {P}", false, ""},
	{"decf", "common-lisp:decf", "(decf {P})", "'decf {P}", false, ""},
	{"incf-by", "common-lisp:incf", "(incf {P} {V})", "'incf {P} (list 'quote {V})", true, "7"},
	{"decf-by", "common-lisp:decf", "(decf {P} {V})", "'decf {P} (list 'quote {V})", true, "7"},
	{"push", "common-lisp:push", "(push {V} {P})", "'push (list 'quote {V}) {P}", true, "7"},
	{"pushnew", "common-lisp:pushnew", "(pushnew {V} {P})", "'pushnew (list 'quote {V}) {P}", true, "7"},
	{"pushnew-test", "common-lisp:pushnew", "(pushnew {V} {P} :test 'equal)", "'pushnew (list 'quote {V}) {P} :test ''equal", true, "7"},
	{"pop", "common-lisp:pop", "(pop {P})", "'pop {P}", false, ""},
	{"rotatef", "common-lisp:rotatef", "(rotatef {P} (car c09w))", "'rotatef {P} '(car c09w)", true, "7"},
	{"rotatef-self", "common-lisp:rotatef", "(rotatef {P} {P})", "'rotatef {P} {P}", false, ""},
	{"rotatef-one", "common-lisp:rotatef", "(rotatef {P})", "'rotatef {P}", false, ""},
	{"shiftf", "common-lisp:shiftf", "(shiftf {P} (car c09w))", "'shiftf {P} '(car c09w)", true, "7"},
	{"shiftf-value", "common-lisp:shiftf", "(shiftf {P} {V})", "'shiftf {P} (list 'quote {V})", true, "7"},
	{"remf", "common-lisp:remf", "(remf {P} :a)", "'remf {P} :a", false, ""},
	{"setf-getf", "common-lisp:getf", "(setf (getf {P} :a) {V})", "'setf (list 'getf {P} :a) (list 'quote {V})", true, "7"},
	{"addnew", "gi:addnew", "(addnew {V} {P})", "'addnew (list 'quote {V}) {P}", true, "7"},
	{"setf-two", "common-lisp:setf", "(setf {P} {V} {P} 7)", "'setf {P} (list 'quote {V}) {P} 7", true, "7"},
	{"setf-odd", "common-lisp:setf", "(setf {P})", "'setf {P}", false, ""},
}

func placeOpByName(n string) *placeOp {
	for i := range placeOps {
		if placeOps[i].name == n {
			return &placeOps[i]
		}
	}
	return nil
}

func fnDefined(name string) bool {
	for _, f := range allFunctions() {
		if f.name == name {
			return true
		}
	}
	return false
}

// ---------------------------------------------------------------- enumeration

func (t *placeTmpl) swept() []string {
	names := append([]string{}, t.oks...)
	if t.okc != "" && poolByName[t.okc] == nil {
		names = append(names, t.okc)
	}
	return append(names, poolNames()...)
}

func enumPlaces(tier string, emit func(string)) {
	emit("pl|inventory")
	b := "q"
	if tier == engine.Thorough {
		b = "t"
	}
	ts := allPlaceTemplates()
	for ti := range ts {
		t := &ts[ti]
		for _, c := range t.swept() {
			emit("pl|" + b + "|" + t.fn + "|" + c + "|" + t.form)
		}
	}
}

// ---------------------------------------------------------------- discovery

// discoverPlacers lists every function of every package whose object implements slip.Placer, and every function
// named "(setf ...)" (how defclass accessors and (defun (setf f) ...) are stored).
func discoverPlacers() (out []string) {
	ensurePlaceFixtures()
	for _, p := range slip.AllPackages() {
		p.EachFuncInfo(func(fi *slip.FuncInfo) {
			if fi.Pkg != p {
				return
			}
			if p == &slip.UserPkg && !placeFixtureName(fi.Name) || p.Name == selftestPkgName {
				return // other harness definitions and leftovers of earlier cases
			}
			name := p.Name + ":" + fi.Name
			if strings.HasPrefix(fi.Name, "(setf ") {
				out = append(out, name)
				return
			}
			func() {
				defer func() { _ = recover() }()
				if _, ok := fi.Create(nil).(slip.Placer); ok {
					out = append(out, name)
				}
			}()
		})
	}
	sort.Strings(out)
	return
}

// placeFixtureName: the functions of cl-user that belong to the fixtures of this family.
func placeFixtureName(n string) bool {
	for _, pre := range []string{"c09st-", "c09sl-", "c09sv-"} {
		if strings.HasPrefix(n, pre) {
			return true
		}
	}
	return n == "(setf c09class-a)"
}

// ---------------------------------------------------------------- execution

func gridFor(form, bound string) (tuplesOut [][3]string) {
	nI := strings.Contains(form, "{I}")
	nJ := strings.Contains(form, "{J}")
	nB := strings.Contains(form, "{B}")
	switch {
	case nB:
		for _, s := range byteGrid {
			for _, p := range byteGrid {
				tuplesOut = append(tuplesOut, [3]string{"", "", "(byte " + s + " " + p + ")"})
			}
		}
	case nI && nJ:
		g := placeGrid
		if bound == "q" {
			g = placeGridPair
		}
		for _, i := range g {
			for _, j := range g {
				tuplesOut = append(tuplesOut, [3]string{i, j, ""})
			}
		}
	case nI:
		for _, i := range placeGrid {
			tuplesOut = append(tuplesOut, [3]string{i, "", ""})
		}
	default:
		tuplesOut = append(tuplesOut, [3]string{"", "", ""})
	}
	return
}

func (t *placeTmpl) values(op *placeOp, bound string) []placeValue {
	if !op.withV {
		return []placeValue{{"-", "nil", false}}
	}
	vals := placeValues
	if t.vals == "grid" {
		vals = placeValuesGrid
	}
	if bound == "q" && op.quick != "all" {
		return vals[:1]
	}
	return vals
}

func findPlaceTmpl(fn, form string) *placeTmpl {
	ts := allPlaceTemplates()
	for i := range ts {
		if ts[i].fn == fn && ts[i].form == form {
			return &ts[i]
		}
	}
	return nil
}

var valueCache = map[string]slip.Object{}

// buildOK constructs one of the okObjects (or a pool object of that name).
func (w *world) buildOK(name string) slip.Object {
	src, ok := okObjects[name]
	if !ok {
		return w.build(name)
	}
	switch name {
	case "nest":
		var mk func(d int) slip.Object
		mk = func(d int) slip.Object {
			l := make(slip.List, 5)
			for i := range l {
				if d == 0 {
					l[i] = slip.Fixnum(i)
				} else {
					l[i] = mk(d - 1)
				}
			}
			return l
		}
		return mk(4)
	case "psym":
		sym := slip.Symbol(fmt.Sprintf("c09s%dq", nextID()))
		w.scope.Let(sym, slip.List{slip.Symbol(":a"), slip.Fixnum(1), slip.Symbol(":b"), slip.Fixnum(2)})
		return sym
	case "sock":
		s := mustEval(slip.NewScope(), "(make-socket :domain :unix :type :stream)")
		w.cleanups = append(w.cleanups, func() {
			sc := slip.NewScope()
			sc.Let("c09sock", s)
			_, _ = lispEvalIn(sc, "(send c09sock :close)")
		})
		return s
	case "fsym":
		return w.build("fsym")
	case "st", "sl", "sv", "cinst", "finst":
		ensurePlaceFixtures()
	}
	return mustEval(slip.NewScope(), src)
}

func (w *world) buildValue(v *placeValue, swept slip.Object) slip.Object {
	if v.name == "self" {
		return swept
	}
	if !v.mut {
		if o, ok := valueCache[v.name]; ok {
			return o
		}
		o := mustEval(slip.NewScope(), v.src)
		valueCache[v.name] = o
		return o
	}
	return mustEval(slip.NewScope(), v.src)
}

func renderPlace(t *placeTmpl, g [3]string) string {
	p := strings.ReplaceAll(t.form, "{C}", "c09c")
	if t.o != "" {
		p = strings.ReplaceAll(p, "{O="+t.o+"}", "c09o")
	}
	p = strings.ReplaceAll(p, "{I}", g[0])
	p = strings.ReplaceAll(p, "{J}", g[1])
	p = strings.ReplaceAll(p, "{B}", g[2])
	return p
}

func renderOp(t *placeTmpl, op *placeOp, place string) string {
	if t.lit {
		return "(eval (list " + strings.ReplaceAll(strings.ReplaceAll(op.lit, "{P}", place), "{V}", "c09v") + "))"
	}
	return strings.ReplaceAll(strings.ReplaceAll(op.form, "{P}", place), "{V}", "c09v")
}

// sweptCache keeps the swept object of a case between evaluations: it is rebuilt after every evaluation that did not
// end in a type-error (a place that rejects its argument has not touched it; anything else may have).
type sweptCache struct {
	obj slip.Object
	w   *world
}

func (sc *sweptCache) drop() {
	if sc != nil && sc.w != nil {
		sc.w.done()
		sc.w, sc.obj = nil, nil
	}
}

func isTypeError(o *obs) bool {
	if o.kind != "condition" || o.catchAll {
		return false
	}
	for _, h := range o.hier {
		if h == "type-error" {
			return true
		}
	}
	return false
}

// evalPlace runs ONE evaluation in a fresh scope; every object is built for it (the swept one: see sweptCache).
func evalPlace(t *placeTmpl, op *placeOp, swept string, g [3]string, v *placeValue, sc *sweptCache) (o *obs, src string) {
	w := &world{scope: slip.NewScope()}
	defer w.done()
	src = renderOp(t, op, renderPlace(t, g))
	own := sc == nil || swept == "psym" // psym lives in the scope of the evaluation
	built := setup(func() {
		var c slip.Object
		switch {
		case own:
			c = w.buildOK(swept)
		case sc.w != nil:
			c = sc.obj
		default:
			sc.w = &world{scope: w.scope}
			sc.obj = sc.w.buildOK(swept)
			c = sc.obj
		}
		w.scope.Let(slip.Symbol("c09c"), c)
		if t.o != "" {
			w.scope.Let(slip.Symbol("c09o"), w.buildOK(t.o))
		}
		val := w.buildValue(v, c)
		w.scope.Let(slip.Symbol("c09v"), val)
		w.scope.Let(slip.Symbol("c09w"), slip.List{val})
		w.scope.Let(slip.Symbol("c09x"), slip.Fixnum(3))
	})
	if !built {
		sc.drop()
		return nil, src
	}
	o = observe(func() slip.Object {
		return slip.ReadString(src, w.scope).Eval(w.scope, nil)
	})
	if !own && !isTypeError(o) {
		sc.drop()
	}
	return
}

func execPlace(spec string) (res engine.Result) {
	if spec == "pl|inventory" {
		return execPlaceInventory()
	}
	parts := strings.SplitN(spec, "|", 5)
	if len(parts) != 5 {
		res.Fail("harness:bad-spec", spec)
		return
	}
	bound, fn, swept, form := parts[1], parts[2], parts[3], parts[4]
	t := findPlaceTmpl(fn, form)
	if t == nil || (bound != "q" && bound != "t") || (poolByName[swept] == nil && okObjects[swept] == "" && !isGoOK(swept)) {
		res.Fail("harness:bad-spec", spec)
		return
	}
	res.Hit("place-cases")
	if os.Getenv("C09_TIMING") != "" { // development aid: where does the time go
		t0 := time.Now()
		defer func() {
			logLine(fmt.Sprintf("TIMING\t%d\t%d\t%s", time.Since(t0).Microseconds(), res.Counters["place-evals"], spec))
		}()
	}
	leave := enter(false)
	defer leave()
	ensurePlaceFixtures()
	outcomes := map[string]int{}
	seen := map[string]bool{}
	cache := &sweptCache{}
	defer cache.drop()
	failed := false
	// one evaluation; false when the objects could not be built
	one := func(op *placeOp, g [3]string, v *placeValue) *obs {
		o, src := evalPlace(t, op, swept, g, v, cache)
		if o == nil {
			tainted = true
			failed = true
			res.Hit("setup-failed")
			res.Fail("harness:setup-failed", spec+" building the objects of "+src)
			return nil
		}
		sigPrefix := "place fn=" + fn + " op=" + op.name
		res.Hit("place-evals")
		switch o.kind {
		case "value":
			res.Hit("place-value")
			res.Hit("place-value-" + op.name)
			outcomes["v"]++
		case "condition":
			res.Hit("place-condition")
			outcomes["c:"+o.class]++
			if isTypeError(o) {
				res.Hit("place-type-error")
			}
		default:
			outcomes[o.kind]++
		}
		if o.catchAll {
			res.Hit("catch-all-conversions")
		}
		if fc := realClassifier.classify(o); fc != "" {
			res.Hit("faults")
			sig := fmt.Sprintf("%s fault=%s at=%s", sigPrefix, fc, o.site)
			if !seen[sig] {
				seen[sig] = true
				res.Fail(sig, fmt.Sprintf("%s with c09c=%s c09v=%s%s => %s", src, swept, v.name, okNote(t), o.describe()))
			}
		} else if o.catchAll {
			res.Hit("catch-all-accepted")
			logAccepted(sigPrefix, o)
		}
		return o
	}
	var ops []*placeOp
	for oi := range placeOps {
		if fnDefined(placeOps[oi].fn) {
			ops = append(ops, &placeOps[oi])
		} else {
			res.Hit("place-operator-undefined")
		}
	}
	// phase A: every operator x every value at the benign index tuple. An object that setf rejects with a type-error
	// whatever the new value, and with which no operator reaches a value, is not a thing this place stores into:
	rejected := true
	for _, op := range ops {
		vals := t.values(op, bound)
		for vi := range vals {
			o := one(op, benignTuple, &vals[vi])
			if failed {
				return
			}
			rejected = rejected && o.kind != "value" && (op.name != "setf" || isTypeError(o))
		}
	}
	grid := gridFor(t.form, bound)
	if 1 < len(grid) || grid[0] != [3]string{} {
		if rejected {
			// phase B (rejected object): (setf place 7) at every index tuple
			res.Hit("place-swept-rejected")
			vals := t.values(ops[0], bound)
			for _, g := range grid {
				if one(ops[0], g, &vals[0]); failed {
					return
				}
			}
		} else {
			// phase B (accepted object): the full product
			res.Hit("place-swept-accepted")
			for _, op := range ops {
				vals := t.values(op, bound)
				for _, g := range grid {
					for vi := range vals {
						if one(op, g, &vals[vi]); failed {
							return
						}
					}
				}
			}
		}
	}
	res.Nontrivial = 0 < outcomes["v"] || 1 < len(outcomes) || 0 < len(res.Failures)
	res.Outcome = digestCounts(outcomes)
	checkPoison(&res, "place fn="+fn, spec)
	return
}

// benignTuple: the index tuple at which every template's designated object is valid.
var benignTuple = [3]string{"1", "1", "(byte 3 1)"}

func okNote(t *placeTmpl) string {
	if t.o != "" {
		return " c09o=" + t.o
	}
	return ""
}

func isGoOK(name string) bool {
	_, ok := okObjects[name]
	return ok
}

func digestCounts(m map[string]int) string {
	keys := make([]string, 0, len(m))
	for k := range m {
		keys = append(keys, k)
	}
	sort.Strings(keys)
	var b strings.Builder
	for _, k := range keys {
		fmt.Fprintf(&b, "%s=%d ", k, m[k])
	}
	return b.String()
}

// checkPoison: did the case poison the interpreter? A plain type error must still be a plain type error.
func checkPoison(res *engine.Result, sigPrefix, what string) {
	slip.CurrentPackage = &slip.UserPkg
	probe := observe(func() slip.Object {
		s := slip.NewScope()
		return slip.ReadString("(funcall (lambda (x) (car x)) (if t 5 nil))", s).Eval(s, nil)
	})
	if fc := realClassifier.classify(probe); fc != "" {
		res.Hit("poisoned")
		res.Fail(fmt.Sprintf("%s kind=poisons-interpreter then=%s at=%s", sigPrefix, fc, probe.site),
			what+"; AFTERWARDS (funcall (lambda (x) (car x)) 5) in a fresh scope => "+probe.describe())
		tainted = true
	} else if probe.kind != "condition" || probe.class != "type-error" {
		res.Hit("world-changed")
		tainted = true
		logLine("WORLD-CHANGED\t" + what + "\t" + probe.describe())
	}
}

// execPlaceInventory: the completeness case.
func execPlaceInventory() (res engine.Result) {
	leave := enter(false)
	defer leave()
	ts := allPlaceTemplates()
	have := map[string]bool{}
	for i := range ts {
		have[ts[i].fn] = true
	}
	found := map[string]bool{}
	var missing, stale, invalid []string
	for _, name := range discoverPlacers() {
		found[name] = true
		res.Hit("placers-discovered")
		if !have[name] {
			missing = append(missing, name)
		}
	}
	for fn := range have {
		if !found[fn] {
			stale = append(stale, fn)
		}
	}
	// placers that do not evaluate an argument need a template that hands the objects over as literal operands
	for i := range ts {
		t := &ts[i]
		op := placeOpByName("setf")
		if t.noOK != "" {
			res.Hit("place-templates-excused")
			continue
		}
		swept := t.okc
		if swept == "" && 0 < len(t.oks) {
			swept = t.oks[0]
		}
		okv := t.okv
		if okv == "" {
			okv = "7"
		}
		var v *placeValue
		for vi := range placeValuesGrid {
			if placeValuesGrid[vi].name == okv {
				v = &placeValuesGrid[vi]
			}
		}
		g := benignTuple
		ops := []*placeOp{op}
		for _, o1 := range ops {
			if swept == "" || v == nil || o1 == nil {
				invalid = append(invalid, t.fn+" "+t.form+" (no designated valid evaluation)")
				break
			}
			o, src := evalPlace(t, o1, swept, g, v, nil)
			if o == nil || o.kind != "value" {
				d := "objects could not be built"
				if o != nil {
					d = o.describe()
				}
				invalid = append(invalid, fmt.Sprintf("%s with c09c=%s c09v=%s => %s", src, swept, okv, digest(d, 160)))
			} else {
				res.Hit("place-templates-valid")
			}
		}
	}
	for _, f := range discoverSkipping() {
		lit := false
		for i := range ts {
			lit = lit || ts[i].fn == f && ts[i].lit
		}
		if !lit {
			missing = append(missing, f+" (skips argument evaluation: needs a template with literal operands)")
		}
	}
	sort.Strings(missing)
	sort.Strings(stale)
	res.Nontrivial = true
	res.Outcome = fmt.Sprintf("placers=%d templates=%d missing=%v stale=%v invalid=%d", len(found), len(ts), missing, stale, len(invalid))
	if 0 < len(missing) {
		res.Fail("harness:place-without-template", "functions that implement slip.Placer (or are named (setf ...)) without a template in places.go: "+strings.Join(missing, " "))
	}
	if 0 < len(stale) {
		res.Fail("harness:place-template-stale", "templates for functions that are not placers: "+strings.Join(stale, " "))
	}
	if 0 < len(invalid) {
		res.Fail("harness:place-template-invalid", "the designated valid evaluation does not end in a value: "+strings.Join(invalid, " ;; "))
	}
	return
}

// discoverSkipping: the placers that skip the evaluation of one of their first four arguments.
func discoverSkipping() (out []string) {
	for _, name := range discoverPlacers() {
		i := strings.IndexByte(name, ':')
		p := slip.FindPackage(name[:i])
		if p == nil {
			continue
		}
		fi := p.GetFunc(name[i+1:])
		if fi == nil {
			continue
		}
		func() {
			defer func() { _ = recover() }()
			if pl, ok := fi.Create(nil).(slip.Placer); ok {
				for k := 0; k < 4; k++ {
					if pl.SkipArgEval(k) {
						out = append(out, name)
						return
					}
				}
			}
		}()
	}
	return
}

// placeCounts: templates, cases and evaluations of the family in a tier (arithmetic only).
func placeCounts(tier string) (templates, cases, evals int) {
	b := "q"
	if tier == engine.Thorough {
		b = "t"
	}
	ts := allPlaceTemplates()
	for ti := range ts {
		t := &ts[ti]
		per := 0
		g := len(gridFor(t.form, b))
		for oi := range placeOps {
			if fnDefined(placeOps[oi].fn) {
				per += g * len(t.values(&placeOps[oi], b))
			}
		}
		n := len(t.swept())
		cases += n
		evals += n * per
	}
	return len(ts), cases, evals
}
