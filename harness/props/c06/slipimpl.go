package c06

import (
	"fmt"
	"unsafe"

	"github.com/ohler55/slip"

	"verif/lisp"
)

// slipImpl drives the real interpreter: a fresh scope with the local
// variables a, b, c; every step is source text -> ReadString -> Eval.
type slipImpl struct {
	scope *slip.Scope
}

func (m *slipImpl) reset() {
	m.scope = slip.NewScope()
	for _, v := range varNames {
		m.scope.Let(slip.Symbol(v), nil)
	}
	if _, err := lisp.EvalIn(m.scope, "(setq a (list 1 2 3 4))"); err != nil {
		panic("c06: cannot build the initial state: " + err.String())
	}
}

func (m *slipImpl) exec(o *opDef, n int64) *execErr {
	_, err := lisp.EvalIn(m.scope, o.lisp(n))
	if err != nil {
		return &execErr{class: err.Class, msg: err.Message, goFault: err.GoFault}
	}
	return nil
}

func (m *slipImpl) observe() (st [3]obsVar) {
	for i, v := range varNames {
		st[i] = observeObject(m.scope.Get(slip.Symbol(v)))
	}
	return
}

var objSize = unsafe.Sizeof(slip.Object(nil))

func observeObject(obj slip.Object) (o obsVar) {
	switch t := obj.(type) {
	case nil:
	case slip.List:
		o.present = true
		walkList(t, &o, 0)
	default:
		o.bad = fmt.Sprintf("non-list:%T", obj)
	}
	return
}

func walkList(l slip.List, o *obsVar, depth int) {
	if 50 < depth {
		o.bad = "tail-chain-too-deep"
		return
	}
	seg := segment{si: sliceInfo{ptr: uintptr(unsafe.Pointer(unsafe.SliceData(l))), len: len(l), cap: cap(l), esize: objSize}}
	idx := len(o.segs)
	o.segs = append(o.segs, seg)
	for i, e := range l {
		switch te := e.(type) {
		case slip.Fixnum:
			o.elems = append(o.elems, int64(te))
			o.segs[idx].elems = append(o.segs[idx].elems, int64(te))
		case slip.Tail:
			if i != len(l)-1 {
				o.bad = "tail-not-last"
				return
			}
			switch tv := te.Value.(type) {
			case nil:
				o.bad = "tail-nil"
			case slip.List:
				// (list* 8 9 '(1 2)) must be (8 9 1 2); slip itself sees a Tail holding a list as a dotted
				// pair (length 3, printed "(8 9 . (1 2))"): outside the model, reported and not extended
				walkList(tv, o, depth+1)
				if o.bad == "" {
					o.bad = "tail-list"
				}
			default:
				o.bad = fmt.Sprintf("dotted:%T", tv)
			}
			return
		case nil:
			o.bad = "elem-nil"
			return
		default:
			o.bad = fmt.Sprintf("elem:%T", e)
			return
		}
	}
}
