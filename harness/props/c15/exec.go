package c15

import (
	"bytes"
	"encoding/json"
	"fmt"
	"math/big"
	"regexp"
	"strings"

	"github.com/ohler55/slip"

	"verif/engine"
	"verif/lisp"
)

// A case is  family ; environment ; JSON [control, arg1-as-lisp-text, ...]
// Environments: "" (default printer variables), "pb2", "pb16" (*print-base* bound around the call).

func mkSpec(fam, env, control string, args ...string) string {
	var b bytes.Buffer
	enc := json.NewEncoder(&b)
	enc.SetEscapeHTML(false)
	_ = enc.Encode(append([]string{control}, args...))
	return fam + ";" + env + ";" + strings.TrimSpace(b.String())
}

func parseSpec(spec string) (fam, env, control string, args []string, ok bool) {
	parts := strings.SplitN(spec, ";", 3)
	if len(parts) != 3 {
		return
	}
	var l []string
	if err := json.Unmarshal([]byte(parts[2]), &l); err != nil || len(l) == 0 {
		return
	}
	return parts[0], parts[1], l[0], l[1:], true
}

func envWrap(env, form string) string {
	switch env {
	case "pb2":
		return "(let ((*print-base* 2)) " + form + ")"
	case "pb16":
		return "(let ((*print-base* 16)) " + form + ")"
	}
	return form
}

// toVal converts a slip object to the reference's value type by type switch.
func toVal(o slip.Object) *Val {
	switch t := o.(type) {
	case nil:
		return &Val{Kind: 'l', Ref: o}
	case slip.Fixnum:
		return &Val{Kind: 'i', I: big.NewInt(int64(t)), Ref: o}
	case *slip.Bignum:
		return &Val{Kind: 'i', I: new(big.Int).Set((*big.Int)(t)), Ref: o}
	case slip.String:
		return &Val{Kind: 's', S: string(t), Ref: o}
	case slip.Character:
		return &Val{Kind: 'c', C: rune(t), Ref: o}
	case slip.List:
		v := &Val{Kind: 'l', Ref: o}
		for _, e := range t {
			if _, isTail := e.(slip.Tail); isTail {
				return &Val{Kind: 'o', Ref: o}
			}
			v.L = append(v.L, toVal(e))
		}
		return v
	}
	return &Val{Kind: 'o', Ref: o}
}

// observation of one destination.
type obs struct {
	text string
	err  *lisp.Err
	ret  string // rendering of the value format returned (t / stream destinations)
}

type caseRun struct {
	control string
	args    []slip.Object
	env     string
}

// slipFormat runs the real format for the three destinations.
func (cr *caseRun) slipFormat() (o [3]obs) {
	scope := slip.NewScope()
	scope.Let(slip.Symbol("c15-control"), slip.String(cr.control))
	var names []string
	for i, a := range cr.args {
		n := fmt.Sprintf("c15-a%d", i)
		scope.Let(slip.Symbol(n), a)
		names = append(names, n)
	}
	call := func(dest string) string {
		return "(format " + dest + " c15-control " + strings.Join(names, " ") + ")"
	}
	// nil
	v, err := lisp.EvalIn(scope, envWrap(cr.env, call("nil")))
	o[0].err = err
	if err == nil {
		if s, isStr := v.(slip.String); isStr {
			o[0].text = string(s)
		} else {
			o[0].err = &lisp.Err{Class: "harness", Message: "format nil returned " + lisp.Show(v)}
		}
	}
	two := func(k int, src string) {
		v, err := lisp.EvalIn(scope, envWrap(cr.env, src))
		o[k].err = err
		if err != nil {
			return
		}
		l, isList := v.(slip.List)
		if !isList || len(l) != 2 {
			o[k].err = &lisp.Err{Class: "harness", Message: "unexpected " + lisp.Show(v)}
			return
		}
		o[k].ret = lisp.Show(l[0])
		if s, isStr := l[1].(slip.String); isStr {
			o[k].text = string(s)
		}
	}
	two(1, "(let ((*standard-output* (make-string-output-stream))) (list "+call("t")+" (get-output-stream-string *standard-output*)))")
	two(2, "(let ((c15-s (make-string-output-stream))) (list "+call("c15-s")+" (get-output-stream-string c15-s)))")
	return
}

func (cr *caseRun) printWith(fn string, v *Val) string {
	scope := slip.NewScope()
	var obj slip.Object
	if v.Ref != nil {
		obj = v.Ref.(slip.Object)
	}
	scope.Let(slip.Symbol("c15-p"), obj)
	// princ / prin1 themselves (the statement names them), written to a string stream; not the
	// -to-string variants, which are separate functions.
	r, err := lisp.EvalIn(scope, envWrap(cr.env, "(let ((c15-s (make-string-output-stream))) ("+fn+" c15-p c15-s) (get-output-stream-string c15-s))"))
	if err != nil {
		undef("%s failed: %s", fn, err.String())
	}
	s, isStr := r.(slip.String)
	if !isStr {
		undef("%s returned %s", fn, lisp.Show(r))
	}
	return string(s)
}

func (cr *caseRun) newRef(mut int) *Ref {
	return &Ref{
		Mut:   mut,
		Princ: func(v *Val) string { return cr.printWith("princ", v) },
		Prin1: func(v *Val) string { return cr.printWith("prin1", v) },
		CharName: func(c rune) string {
			if c == ' ' {
				return "Space"
			}
			s := cr.printWith("prin1", &Val{Kind: 'c', C: c, Ref: slip.Character(c)})
			return strings.TrimPrefix(s, `#\`)
		},
	}
}

// verdict of one case.
type verdict struct {
	defined  bool
	why      string // why undefined
	want     string // reference text (default variants)
	variant  bool   // accepted only through a non-default variant
	obs      [3]obs
	kind     string // "" = pass; else failure kind
	category string // coarse failure category used while reducing
	detail   string
}

const maxVariantRuns = 256

// refTexts returns every text the reference accepts (default first).
func refTexts(r *Ref, control string, vals []*Val) (texts []string, ok bool, why string) {
	tried := map[uint32]bool{}
	var universe uint32
	r.Mask = 0
	t0, ok0, why0 := r.Format(control, vals)
	tried[0] = true
	universe = r.Touched
	if !ok0 {
		// undefined under the default reading: try the other readings only if flags were consulted
		why = why0
	} else {
		texts = append(texts, t0)
	}
	for runs := 1; runs < maxVariantRuns; {
		progressed := false
		for m := universe; ; m = (m - 1) & universe {
			if !tried[m] {
				tried[m] = true
				runs++
				r.Mask = m
				t, okm, _ := r.Format(control, vals)
				if r.Touched&^universe != 0 {
					universe |= r.Touched
					progressed = true
				}
				if okm {
					dup := false
					for _, e := range texts {
						dup = dup || e == t
					}
					if !dup {
						texts = append(texts, t)
					}
				}
			}
			if m == 0 {
				break
			}
		}
		if !progressed {
			break
		}
	}
	r.Mask = 0
	if !ok0 {
		return nil, false, why
	}
	return texts, true, ""
}

var (
	reDigits = regexp.MustCompile(`[0-9]+`)
	reQuoted = regexp.MustCompile(`"(\\.|[^"\\])*"`)
)

func normMsg(m string) string {
	m = reQuoted.ReplaceAllString(m, `""`)
	m = reDigits.ReplaceAllString(m, "N")
	if 70 < len(m) {
		m = m[:70]
	}
	return m
}

func (cr *caseRun) judge(mut int) (v verdict) {
	vals := make([]*Val, len(cr.args))
	for i, a := range cr.args {
		vals[i] = toVal(a)
	}
	r := cr.newRef(mut)
	texts, ok, why := refTexts(r, cr.control, vals)
	if !ok {
		// The definitions do not determine this call (it may not even terminate, e.g. an iteration
		// whose body consumes nothing): slip is not run.
		v.why = why
		return
	}
	v.obs = cr.slipFormat()
	v.defined = true
	v.want = texts[0]
	o := v.obs
	show := func() string {
		var as []string
		for _, a := range cr.args {
			if l, isList := a.(slip.List); isList && len(l) == 0 {
				as = append(as, "'()") // the empty list object, as opposed to the symbol nil
			} else {
				as = append(as, lisp.Show(a))
			}
		}
		e := ""
		if cr.env != "" {
			e = " [" + cr.env + "]"
		}
		return fmt.Sprintf("(format nil %q %s)%s", cr.control, strings.Join(as, " "), e)
	}
	if v.defined {
		switch {
		case o[0].err != nil && o[0].err.GoFault:
			v.category = "go-fault"
			v.kind = "go-fault:" + normMsg(o[0].err.Message)
			v.detail = fmt.Sprintf("%s => Go fault %s; the definitions give %q", show(), o[0].err.String(), v.want)
		case o[0].err != nil:
			v.category = "error"
			v.kind = "error:" + normMsg(o[0].err.Message)
			v.detail = fmt.Sprintf("%s => %s; the definitions give %q", show(), o[0].err.String(), v.want)
		default:
			match := -1
			for i, t := range texts {
				if t == o[0].text {
					match = i
					break
				}
			}
			if match < 0 {
				v.category = "wrong-text"
				v.kind = refineKind(cr, o[0].text, v.want)
				alt := ""
				if 1 < len(texts) {
					alt = fmt.Sprintf(" (or one of %d accepted readings)", len(texts))
				}
				v.detail = fmt.Sprintf("%s => %q; the definitions give %q%s", show(), o[0].text, v.want, alt)
			} else if 0 < match {
				v.variant = true
			}
		}
		if v.kind != "" {
			return
		}
	}
	// Same text for every destination (checked whenever format nil returned a text).
	if o[0].err == nil {
		for k, name := range []string{"", "t", "stream"} {
			if k == 0 {
				continue
			}
			switch {
			case o[k].err != nil:
				v.category = "dest"
				v.kind = "dest=" + name + " error-but-nil-destination-works"
				v.detail = fmt.Sprintf("%s returns %q but destination %s => %s", show(), o[0].text, name, o[k].err.String())
			case o[k].text != o[0].text:
				v.category = "dest"
				v.kind = "dest=" + name + " text-differs"
				v.detail = fmt.Sprintf("%s returns %q but destination %s received %q", show(), o[0].text, name, o[k].text)
			case o[k].ret != "nil":
				v.category = "dest"
				v.kind = "dest=" + name + " return-value-not-nil"
				v.detail = fmt.Sprintf("%s to destination %s returned %s", show(), name, o[k].ret)
			}
			if v.kind != "" {
				return
			}
		}
	}
	return
}

// ------------------------------------------------------------- reduction

// unparse renders a node list back to a control string.
func unparse(nodes []*node) string {
	var b strings.Builder
	for _, n := range nodes {
		unparseNode(&b, n)
	}
	return b.String()
}

func writeDirective(b *strings.Builder, n *node, ch byte, abstract bool) {
	b.WriteByte('~')
	last := -1
	for i, p := range n.params {
		if p.kind != 0 {
			last = i
		}
	}
	for i := 0; i <= last; i++ {
		if 0 < i {
			b.WriteByte(',')
		}
		p := n.params[i]
		switch p.kind {
		case 'n':
			if abstract {
				b.WriteByte('n')
			} else {
				fmt.Fprintf(b, "%d", p.n)
			}
		case 'c':
			if abstract {
				b.WriteString("'c")
			} else {
				b.WriteByte('\'')
				b.WriteRune(p.c)
			}
		case 'v':
			b.WriteByte('v')
		case '#':
			b.WriteByte('#')
		}
	}
	if n.colon {
		b.WriteByte(':')
	}
	if n.at {
		b.WriteByte('@')
	}
	b.WriteByte(ch)
}

func unparseNode(b *strings.Builder, n *node) { unparseNodeX(b, n, false) }

func unparseNodeX(b *strings.Builder, n *node, abstract bool) {
	if n.ch == 0 {
		if !abstract {
			b.WriteString(n.lit)
		}
		return
	}
	writeDirective(b, n, n.ch, abstract)
	seq := func(l []*node) {
		for _, e := range l {
			unparseNodeX(b, e, abstract)
		}
	}
	switch n.ch {
	case '(':
		seq(n.body)
		b.WriteString("~)")
	case '{':
		seq(n.body)
		if n.closeColon {
			b.WriteString("~:}")
		} else {
			b.WriteString("~}")
		}
	case '[':
		for i, c := range n.clauses {
			if 0 < i {
				if n.defaultLast && i == len(n.clauses)-1 {
					b.WriteString("~:;")
				} else {
					b.WriteString("~;")
				}
			}
			seq(c)
		}
		b.WriteString("~]")
	}
}

// shape is the control string with literal text dropped and parameter values abstracted.
func shape(control string) (s string) {
	defer func() {
		if rec := recover(); rec != nil {
			s = "unparsed"
		}
	}()
	var b strings.Builder
	for _, n := range parseControl(control) {
		unparseNodeX(&b, n, true)
	}
	return b.String()
}

func cloneNodes(l []*node) []*node {
	out := make([]*node, len(l))
	for i, n := range l {
		c := *n
		c.params = append([]param(nil), n.params...)
		c.body = cloneNodes(n.body)
		if n.clauses != nil {
			c.clauses = make([][]*node, len(n.clauses))
			for j, cl := range n.clauses {
				c.clauses[j] = cloneNodes(cl)
			}
		}
		out[i] = &c
	}
	return out
}

// controlVariants yields every control string one reduction step smaller.
func controlVariants(control string) (out []string) {
	defer func() {
		if rec := recover(); rec != nil {
			out = nil
		}
	}()
	root := parseControl(control)
	// Enumerate node positions by path; for each, apply each edit on a fresh clone.
	type edit func(list *[]*node, i int) bool
	var count func(l []*node) int
	count = func(l []*node) int {
		k := 0
		for _, n := range l {
			k++
			k += count(n.body)
			for _, c := range n.clauses {
				k += count(c)
			}
		}
		return k
	}
	total := count(root)
	// visit the idx-th node (pre-order) of a clone and apply f
	apply := func(idx int, f edit) (string, bool) {
		cl := cloneNodes(root)
		k := 0
		var done, okEdit bool
		var walk func(l *[]*node)
		walk = func(l *[]*node) {
			for i := 0; i < len(*l) && !done; i++ {
				if k == idx {
					done = true
					okEdit = f(l, i)
					return
				}
				k++
				n := (*l)[i]
				walk(&n.body)
				for j := range n.clauses {
					if done {
						break
					}
					walk(&n.clauses[j])
				}
			}
		}
		walk(&cl)
		if !okEdit {
			return "", false
		}
		return unparse(cl), true
	}
	remove := func(l *[]*node, i int) bool {
		*l = append((*l)[:i:i], (*l)[i+1:]...)
		return true
	}
	unwrap := func(l *[]*node, i int) bool {
		n := (*l)[i]
		var inner []*node
		switch n.ch {
		case '(', '{':
			inner = n.body
		default:
			return false
		}
		nl := append([]*node{}, (*l)[:i]...)
		nl = append(nl, inner...)
		nl = append(nl, (*l)[i+1:]...)
		*l = nl
		return true
	}
	dropParams := func(l *[]*node, i int) bool {
		n := (*l)[i]
		if n.ch == 0 || len(n.params) == 0 {
			return false
		}
		for _, p := range n.params {
			if p.kind == 'v' {
				return false // would shift the arguments; handled by removing the directive
			}
		}
		n.params = nil
		return true
	}
	dropColon := func(l *[]*node, i int) bool {
		n := (*l)[i]
		if n.ch == 0 || !n.colon {
			return false
		}
		n.colon = false
		return true
	}
	dropAt := func(l *[]*node, i int) bool {
		n := (*l)[i]
		if n.ch == 0 || !n.at {
			return false
		}
		n.at = false
		return true
	}
	for idx := 0; idx < total; idx++ {
		for _, f := range []edit{remove, unwrap, dropParams, dropColon, dropAt} {
			if s, ok := apply(idx, f); ok && s != control {
				out = append(out, s)
			}
		}
		// drop single parameters
		for pi := 0; pi < 7; pi++ {
			pi := pi
			if s, ok := apply(idx, func(l *[]*node, i int) bool {
				n := (*l)[i]
				if n.ch == 0 || len(n.params) <= pi || n.params[pi].kind == 0 || n.params[pi].kind == 'v' {
					return false
				}
				n.params[pi] = param{}
				return true
			}); ok && s != control {
				out = append(out, s)
			}
		}
	}
	// last resort: a v or # parameter replaced by a literal or omitted (for v this only helps together with
	// the removal of its argument, which the two-steps-at-once phase of reduce tries)
	for idx := 0; idx < total; idx++ {
		for pi := 0; pi < 7; pi++ {
			for _, lit := range []param{{}, {kind: 'n', n: 1}, {kind: 'n', n: 2}, {kind: 'n', n: 3}, {kind: 'c', c: '.'}} {
				pi, lit := pi, lit
				if s, ok := apply(idx, func(l *[]*node, i int) bool {
					n := (*l)[i]
					if n.ch == 0 || len(n.params) <= pi || (n.params[pi].kind != 'v' && n.params[pi].kind != '#') {
						return false
					}
					if lit.kind == 0 && n.params[pi].kind == '#' {
						return false // already tried above
					}
					n.params[pi] = lit
					return true
				}); ok && s != control {
					out = append(out, s)
				}
			}
		}
	}
	return out
}

// argVariants yields argument lists one step smaller.
func argVariants(args []slip.Object) (out [][]slip.Object) {
	for i := range args {
		// remove argument i
		na := append(append([]slip.Object{}, args[:i]...), args[i+1:]...)
		out = append(out, na)
	}
	for i, a := range args {
		repl := func(o slip.Object) {
			na := append([]slip.Object{}, args...)
			na[i] = o
			out = append(out, na)
		}
		switch t := a.(type) {
		case slip.Fixnum:
			for _, c := range []slip.Fixnum{0, 1, -1, 20} {
				if c != t && (0 <= c || t < 0) && abs64(int64(c)) < abs64(int64(t)) {
					repl(c)
				}
			}
		case *slip.Bignum:
			if (*big.Int)(t).Sign() < 0 {
				repl(slip.Fixnum(-1))
			}
			repl(slip.Fixnum(0))
			repl(slip.Fixnum(1))
		case slip.List:
			for j := range t {
				nl := append(append(slip.List{}, t[:j]...), t[j+1:]...)
				if len(nl) == 0 {
					repl(nil)
				} else {
					repl(nl)
				}
			}
		}
	}
	return
}

func abs64(v int64) uint64 {
	if v < 0 {
		return uint64(-v)
	}
	return uint64(v)
}

const maxReduceRuns = 400

// reduce shrinks a failing case greedily while exactly the same kind of failure persists (same
// normalised error message, same refined text difference), so that a reduction never wanders from one
// defect to another one with a different symptom.
func (cr *caseRun) reduce(v verdict) (*caseRun, verdict) {
	cur, curV := cr, v
	runs := 0
	try := func(cand *caseRun) bool {
		if maxReduceRuns <= runs {
			return false
		}
		runs++
		if !surelyTerminates(cand) {
			return false
		}
		cv := cand.judge(refMutNone)
		if cv.kind != "" && cv.kind == curV.kind {
			cur, curV = cand, cv
			return true
		}
		return false
	}
	for changed := true; changed && runs < maxReduceRuns; {
		changed = false
		cvs := controlVariants(cur.control)
		for _, c := range cvs {
			if try(&caseRun{control: c, args: cur.args, env: cur.env}) {
				changed = true
				break
			}
		}
		if changed {
			continue
		}
		avs := argVariants(cur.args)
		for _, a := range avs {
			if try(&caseRun{control: cur.control, args: a, env: cur.env}) {
				changed = true
				break
			}
		}
		if changed {
			continue
		}
		if cur.env != "" && try(&caseRun{control: cur.control, args: cur.args, env: ""}) {
			changed = true
			continue
		}
		// two steps at once: a directive together with an argument, or two directives
	pairs:
		for _, c := range cvs {
			for _, a := range avs {
				if try(&caseRun{control: c, args: a, env: cur.env}) {
					changed = true
					break pairs
				}
			}
			for _, c2 := range controlVariants(c) {
				if len(c2) < len(c) && try(&caseRun{control: c2, args: cur.args, env: cur.env}) {
					changed = true
					break pairs
				}
			}
		}
	}
	return cur, curV
}

// surelyTerminates is a conservative syntactic check used on reduction candidates: every iteration
// block (also in control strings passed as arguments) has a body that consumes an argument on every
// pass and never moves the argument pointer back. A candidate that fails the check is not tried, so
// that a defect which sends slip into a block the definitions would skip cannot hang the reduction.
func surelyTerminates(cr *caseRun) (ok bool) {
	defer func() {
		if rec := recover(); rec != nil {
			ok = false
		}
	}()
	var check func(l []*node, inIter bool) bool
	var advances func(body []*node) bool
	advances = func(body []*node) bool {
		for _, n := range body {
			switch n.ch {
			case 'A', 'S', 'D', 'B', 'O', 'X', 'C', 'R', '?':
				return true
			case '{':
				if !n.at || advances(n.body) {
					return true
				}
			case 'P':
				if !n.colon {
					return true
				}
			case '[':
				if !n.at && len(n.params) == 0 {
					return true
				}
			case '*':
				if !n.at && !n.colon && (len(n.params) == 0 || n.params[0].kind == 0 || (n.params[0].kind == 'n' && 0 < n.params[0].n)) {
					return true
				}
			}
		}
		return false
	}
	check = func(l []*node, inIter bool) bool {
		for _, n := range l {
			if inIter {
				if n.ch == '*' && (n.colon || n.at) {
					return false
				}
				if n.ch == 'P' && n.colon {
					return false
				}
			}
			switch n.ch {
			case '{':
				// ~:{ and ~:@{ take one (sub)list per pass whatever the body does
				if (!n.colon && !advances(n.body)) || !check(n.body, true) {
					return false
				}
			case '(':
				if !check(n.body, inIter) {
					return false
				}
			case '[':
				for _, c := range n.clauses {
					if !check(c, inIter) {
						return false
					}
				}
			}
		}
		return true
	}
	if !check(parseControl(cr.control), false) {
		return false
	}
	var argsOK func(o slip.Object) bool
	argsOK = func(o slip.Object) bool {
		switch t := o.(type) {
		case slip.String:
			if strings.Contains(string(t), "~") {
				return check(parseControl(string(t)), true)
			}
		case slip.List:
			for _, e := range t {
				if !argsOK(e) {
					return false
				}
			}
		}
		return true
	}
	for _, a := range cr.args {
		if !argsOK(a) {
			return false
		}
	}
	return true
}

func argClass(o slip.Object) string {
	switch t := o.(type) {
	case nil:
		return "nil"
	case slip.Fixnum:
		switch {
		case t == 0:
			return "0"
		case t < 0:
			return "-fix"
		}
		return "+fix"
	case *slip.Bignum:
		if (*big.Int)(t).Sign() < 0 {
			return "-big"
		}
		return "+big"
	case slip.String:
		if len(t) == 0 {
			return "string:empty"
		}
		for _, c := range string(t) {
			if 127 < c {
				return "string:non-ascii"
			}
		}
		return "string"
	case slip.Character:
		switch {
		case t == ' ':
			return "char:space"
		case t < 0x20 || t == 0x7f:
			return "char:control"
		case 127 < t:
			return "char:non-ascii"
		}
		return "char"
	case slip.Symbol:
		return "symbol"
	case slip.List:
		if len(t) == 0 {
			return "empty-list"
		}
		return "list"
	case *slip.Ratio:
		return "ratio"
	case slip.DoubleFloat, slip.SingleFloat, *slip.LongFloat:
		return "float"
	case *slip.Vector:
		return "vector"
	}
	if o == slip.True {
		return "t"
	}
	return "other"
}

var reEnglishOnly = regexp.MustCompile(`^~:?[Rr]$`)

func without(s, chars string) string {
	return strings.Map(func(r rune) rune {
		if strings.ContainsRune(chars, r) {
			return -1
		}
		return r
	}, s)
}

// refineKind names how the text differs.
func refineKind(cr *caseRun, got, want string) string {
	switch {
	case reEnglishOnly.MatchString(cr.control) && len(cr.args) == 1:
		return englishDiff(got, want)
	case without(got, " ") == without(want, " "):
		if strings.Count(want, " ") < strings.Count(got, " ") {
			return "too-many-spaces"
		}
		return "too-few-spaces"
	case without(got, "\n") == without(want, "\n"):
		if strings.Count(want, "\n") < strings.Count(got, "\n") {
			return "too-many-newlines"
		}
		return "too-few-newlines"
	case strings.EqualFold(got, want):
		return "case-differs"
	}
	return "wrong-text"
}

// controls returns the control string and every control string passed as an argument.
func (cr *caseRun) controls() []string {
	out := []string{cr.control}
	var walk func(o slip.Object)
	walk = func(o slip.Object) {
		switch t := o.(type) {
		case slip.String:
			if strings.Contains(string(t), "~") {
				out = append(out, string(t))
			}
		case slip.List:
			for _, e := range t {
				walk(e)
			}
		}
	}
	for _, a := range cr.args {
		walk(a)
	}
	return out
}

var reAdjacent = regexp.MustCompile(`~(\)|\]|\}|:?;)~`)

// insideBlock reports the outermost block kind around a directive ch ("?" for a control string
// passed as an argument), or "" when every occurrence is at the top level of the main control.
func (cr *caseRun) insideBlock(ch byte) (blk string) {
	defer func() {
		if rec := recover(); rec != nil {
			blk = ""
		}
	}()
	for i, c := range cr.controls() {
		var walk func(l []*node, outer string) string
		walk = func(l []*node, outer string) string {
			for _, n := range l {
				if n.ch == ch && outer != "" {
					return outer
				}
				o := outer
				if o == "" && (n.ch == '(' || n.ch == '[' || n.ch == '{') {
					o = "~" + string(n.ch)
				}
				if r := walk(n.body, o); r != "" {
					return r
				}
				for _, cl := range n.clauses {
					if r := walk(cl, o); r != "" {
						return r
					}
				}
			}
			return ""
		}
		outer := ""
		if 0 < i {
			outer = "~?"
		}
		if r := walk(parseControl(c), outer); r != "" {
			return r
		}
	}
	return ""
}

// spaced returns the case with a space inserted between every block end / clause separator `what`
// ("" = all of them) and a directive that follows it directly, in the control string and in every
// control string passed as an argument. ok is false when nothing changed.
func (cr *caseRun) spaced(what string) (out *caseRun, ok bool) {
	fix := func(c string) string {
		// repeat: matches can overlap ("~}~}~}")
		for {
			n := reAdjacent.ReplaceAllStringFunc(c, func(m string) string {
				if what != "" && m[1:len(m)-1] != what {
					return m
				}
				return m[:len(m)-1] + " ~"
			})
			if n == c {
				return c
			}
			c = n
		}
	}
	var conv func(o slip.Object) slip.Object
	conv = func(o slip.Object) slip.Object {
		switch t := o.(type) {
		case slip.String:
			if f := fix(string(t)); f != string(t) {
				ok = true
				return slip.String(f)
			}
		case slip.List:
			nl := make(slip.List, len(t))
			for i, e := range t {
				nl[i] = conv(e)
			}
			return nl
		}
		return o
	}
	out = &caseRun{env: cr.env, control: fix(cr.control)}
	ok = out.control != cr.control
	for _, a := range cr.args {
		out.args = append(out.args, conv(a))
	}
	return out, ok
}

// hasRadixParams: some ~R directive carries prefix parameters (in the control or in a control string
// passed as an argument).
func (cr *caseRun) hasRadixParams() (found bool) {
	defer func() {
		if rec := recover(); rec != nil {
			found = false
		}
	}()
	var walk func(l []*node) bool
	walk = func(l []*node) bool {
		for _, n := range l {
			if n.ch == 'R' && 0 < len(n.params) {
				return true
			}
			if walk(n.body) {
				return true
			}
			for _, cl := range n.clauses {
				if walk(cl) {
					return true
				}
			}
		}
		return false
	}
	for _, c := range cr.controls() {
		if walk(parseControl(c)) {
			return true
		}
	}
	return false
}

// hasNestedParamBlock: some ~[ inside a ~[ or ~{ inside a ~{ carries a prefix parameter (in the control
// or in a control string passed as an argument).
func (cr *caseRun) hasNestedParamBlock() (found bool) {
	defer func() {
		if rec := recover(); rec != nil {
			found = false
		}
	}()
	var walk func(l []*node, inCond, inIter bool) bool
	walk = func(l []*node, inCond, inIter bool) bool {
		for _, n := range l {
			if 0 < len(n.params) && ((n.ch == '[' && inCond) || (n.ch == '{' && inIter)) {
				return true
			}
			c, i := inCond || n.ch == '[', inIter || n.ch == '{'
			if walk(n.body, c, i) {
				return true
			}
			for _, cl := range n.clauses {
				if walk(cl, c, i) {
					return true
				}
			}
		}
		return false
	}
	for _, c := range cr.controls() {
		if walk(parseControl(c), false, false) {
			return true
		}
	}
	return false
}

// unparameterised returns the case with the prefix parameters of every block directive that sits
// inside another block removed (main control only). ok is false when nothing changed.
func (cr *caseRun) unparameterised() (out *caseRun, ok bool) {
	defer func() {
		if rec := recover(); rec != nil {
			out, ok = nil, false
		}
	}()
	nodes := parseControl(cr.control)
	var walk func(l []*node, depth int)
	walk = func(l []*node, depth int) {
		for _, n := range l {
			if (n.ch == '{' || n.ch == '[' || n.ch == '(') && 0 < depth && 0 < len(n.params) {
				for _, p := range n.params {
					if p.kind == 'v' {
						return
					}
				}
				n.params = nil
				ok = true
			}
			walk(n.body, depth+1)
			for _, c := range n.clauses {
				walk(c, depth+1)
			}
		}
	}
	walk(nodes, 0)
	return &caseRun{control: unparse(nodes), args: cr.args, env: cr.env}, ok
}

// signature of a (reduced) failing case. Defect classes that show up under very many shapes are named
// by their syntactic trigger instead of the shape:
//   - a directive that directly follows a nested block end or a clause separator: named so only when
//     the same case with a space inserted there passes (causal check);
//   - ~T / ~& inside a block whose only visible effect is the number of spaces / newlines;
//   - ~@( whose only visible effect is the case of letters.
func signature(cr *caseRun, v verdict) string {
	var classes []string
	for _, a := range cr.args {
		classes = append(classes, argClass(a))
	}
	sh := shape(cr.control)
	if v.category == "wrong-text" && (strings.HasPrefix(v.kind, "wrong-word") || v.kind == "spelling-ok-but-spacing-wrong") {
		return fmt.Sprintf("shape=%s kind=%s", sh, v.kind)
	}
	if cr.hasRadixParams() {
		// D5 hypothesis: the text (or the Roman range error) is what the definitions give when ~R ignores
		// its prefix parameters while v parameters still consume their arguments
		vals := make([]*Val, len(cr.args))
		for i, a := range cr.args {
			vals[i] = toVal(a)
		}
		texts, ok, _ := refTexts(cr.newRef(refMutRadixIgnored), cr.control, vals)
		got := v.obs[0]
		switch {
		case got.err == nil && ok:
			for _, t := range texts {
				if t == got.text {
					return "trigger=~R-prefix-parameters-ignored kind=wrong-text"
				}
			}
		case got.err != nil && !got.err.GoFault && !ok && strings.Contains(got.err.Message, "Radix directive"):
			return "trigger=~R-prefix-parameters-ignored kind=error"
		}
	}
	if v.category == "error" || v.category == "go-fault" || v.kind == "wrong-text" {
		for _, what := range []string{")", "]", "}", ";", ":;", ""} {
			if sp, changed := cr.spaced(what); changed && surelyTerminates(sp) {
				if sv := sp.judge(refMutNone); sv.defined && sv.kind == "" {
					name := "~" + what
					if what == "" {
						name = "several-block-ends"
					}
					if what == ":;" {
						name = "~;"
					}
					return fmt.Sprintf("trigger=directive-directly-after-%s kind=%s", name, v.category)
				}
			}
		}
	}
	if v.category == "error" || v.category == "go-fault" || v.kind == "wrong-text" {
		if up, changed := cr.unparameterised(); changed && surelyTerminates(up) {
			if uv := up.judge(refMutNone); uv.defined && uv.kind == "" {
				return fmt.Sprintf("trigger=nested-block-with-prefix-parameter kind=%s", v.category)
			}
			if sp, changed2 := up.spaced(""); changed2 && surelyTerminates(sp) {
				if sv := sp.judge(refMutNone); sv.defined && sv.kind == "" {
					return fmt.Sprintf("trigger=nested-block-with-prefix-parameter kind=%s", v.category)
				}
			}
		}
	}
	if v.category == "error" && (strings.Contains(v.kind, "not terminated") || strings.Contains(v.kind, "invalid directive") ||
		strings.Contains(v.kind, "invalid form for conditional")) && cr.hasNestedParamBlock() {
		// the causal check above could not be made (removing the parameter changes which arguments are
		// read), but the message is one of the block scanner's and the syntactic trigger is present
		return "trigger=nested-block-with-prefix-parameter kind=error"
	}
	switch {
	case strings.HasSuffix(v.kind, "-spaces"):
		if blk := cr.insideBlock('T'); blk != "" {
			return fmt.Sprintf("trigger=~T-inside-%s kind=%s", blk, v.kind)
		}
	case strings.HasSuffix(v.kind, "-newlines"):
		if blk := cr.insideBlock('&'); blk != "" {
			return fmt.Sprintf("trigger=~&-inside-%s kind=%s", blk, v.kind)
		}
	case v.kind == "case-differs":
		for _, c := range cr.controls() {
			if strings.Contains(c, "~@(") {
				return fmt.Sprintf("trigger=~@( kind=%s", v.kind)
			}
		}
	}
	env := ""
	if cr.env != "" {
		env = " env=" + cr.env
	}
	return fmt.Sprintf("shape=%s args=%s%s kind=%s", sh, strings.Join(classes, ","), env, v.kind)
}

func englishDiff(got, want string) string {
	gw := strings.Fields(strings.ReplaceAll(got, "-", " "))
	ww := strings.Fields(strings.ReplaceAll(want, "-", " "))
	if strings.Join(gw, " ") == strings.Join(ww, " ") {
		return "spelling-ok-but-spacing-wrong"
	}
	for i := 0; i < len(gw) || i < len(ww); i++ {
		g, w := "<end>", "<end>"
		if i < len(gw) {
			g = gw[i]
		}
		if i < len(ww) {
			w = ww[i]
		}
		if g != w {
			return fmt.Sprintf("wrong-word want=%s got=%s", w, g)
		}
	}
	return "wrong-text"
}

// ------------------------------------------------------------------ Exec

func readArgs(texts []string) ([]slip.Object, *lisp.Err) {
	var out []slip.Object
	for _, t := range texts {
		o, err := lisp.Eval("(quote " + t + ")")
		if err != nil {
			return nil, err
		}
		out = append(out, o)
	}
	return out, nil
}

func exec(spec string) (res engine.Result) {
	if strings.HasPrefix(spec, "raw:") { // development probe: evaluate a form, show the value
		v, err := lisp.Eval(spec[4:])
		if err != nil {
			res.Outcome = "err:" + err.String()
		} else {
			res.Outcome = lisp.Show(v)
		}
		return
	}
	fam, env, control, argTexts, ok := parseSpec(spec)
	if !ok {
		res.Fail("harness:bad-spec", spec)
		return
	}
	args, rerr := readArgs(argTexts)
	if rerr != nil {
		res.Fail("harness:unreadable-argument", spec+" => "+rerr.String())
		return
	}
	cr := &caseRun{control: control, args: args, env: env}
	v := cr.judge(refMutNone)
	res.Hit("family:" + fam)
	if !v.defined {
		res.Hit("undefined-by-the-definitions")
		res.Outcome = "undefined: " + normMsg(v.why)
		return
	}
	countShape(&res, cr, v)
	switch {
	case v.obs[0].err != nil:
		res.Outcome = "err:" + v.obs[0].err.Class + ":" + normMsg(v.obs[0].err.Message)
	default:
		res.Outcome = v.obs[0].text
	}
	if v.variant {
		res.Hit("accepted-through-a-variant-reading")
	}
	if v.kind == "" {
		if v.obs[0].err == nil {
			res.Hit("three-destinations-agree")
		}
		return
	}
	min, mv := cr.reduce(v)
	detail := v.detail
	if min != cr {
		detail = "reduced: " + mv.detail + " || original: " + v.detail
	}
	res.Fail(signature(min, mv), detail)
	return
}

// countShape sets the vacuity counters and the Nontrivial flag.
func countShape(res *engine.Result, cr *caseRun, v verdict) {
	if !v.defined {
		return
	}
	var nodes []*node
	func() {
		defer func() { _ = recover() }()
		nodes = parseControl(cr.control)
	}()
	dirs, feat := 0, false
	var walk func(l []*node, depth int)
	walk = func(l []*node, depth int) {
		for _, n := range l {
			if n.ch == 0 {
				continue
			}
			dirs++
			res.Hit("dir:~" + string(n.ch))
			if n.colon || n.at || 0 < len(n.params) {
				feat = true
			}
			sawV := false
			for _, p := range n.params {
				if p.kind == '#' && sawV {
					res.Hit("param:#-after-v-in-one-directive")
					if 0 < depth {
						res.Hit("param:#-after-v-inside-a-block")
					}
				}
				sawV = sawV || p.kind == 'v'
				switch p.kind {
				case 'v':
					res.Hit("param:v")
				case '#':
					res.Hit("param:#")
				case 'c':
					res.Hit("param:quoted-char")
				}
			}
			switch n.ch {
			case '(', '{', '[':
				feat = true
				if 0 < depth {
					res.Hit("block-inside-block")
				}
				walk(n.body, depth+1)
				for _, c := range n.clauses {
					walk(c, depth+1)
				}
			case '*':
				if n.colon || n.at {
					res.Hit("argument-pointer-moved-back-or-absolute")
				}
			case '?':
				feat = true
				res.Hit("recursive-control")
			case ':':
			}
			if (n.ch == 'D' || n.ch == 'B' || n.ch == 'O' || n.ch == 'X' || n.ch == 'R') && n.colon && 0 < len(n.params) {
				res.Hit("grouping-with-parameters")
			}
		}
	}
	walk(nodes, 0)
	for _, a := range cr.args {
		switch t := a.(type) {
		case *slip.Bignum:
			res.Hit("bignum-argument")
			feat = true
		case slip.Fixnum:
			if t < -20 || 20 < t {
				if len(nodes) == 1 && nodes[0].ch == 'R' {
					feat = true
				}
			}
		}
	}
	if 2 <= dirs {
		feat = true
		res.Hit("composition")
	}
	res.Nontrivial = feat
}
